(* Oracle driver: reads a case file (one event per line, see harness/FORMAT.md), evaluates every
   observation with the functions extracted from the Coq development (Oracle_gen) and prints one
   line per failed judgement.  The driver contains no judgement logic of its own: parsing,
   printing, SHA-512/256 and the dispatch by event name only. *)
module Zr = Z
open Oracle_gen

(* ---------- conversions ---------- *)
let rec pos_of_z (z : Zr.t) : positive =
  if Zr.equal z Zr.one then XH
  else if Zr.testbit z 0 then XI (pos_of_z (Zr.shift_right z 1))
  else XO (pos_of_z (Zr.shift_right z 1))
let n_of_z (z : Zr.t) : n = if Zr.sign z <= 0 then N0 else Npos (pos_of_z z)
let rec z_of_pos = function
  | XH -> Zr.one
  | XO p -> Zr.shift_left (z_of_pos p) 1
  | XI p -> Zr.succ (Zr.shift_left (z_of_pos p) 1)
let z_of_n = function N0 -> Zr.zero | Npos p -> z_of_pos p
let n_of_string s = n_of_z (Zr.of_string s)
let string_of_n x = Zr.to_string (z_of_n x)
let nat_of_int i = let rec go acc i = if i <= 0 then acc else go (S acc) (i - 1) in go O i
let rec int_of_nat = function O -> 0 | S k -> 1 + int_of_nat k
let zz_of_string s : z =
  let v = Zr.of_string s in
  if Zr.sign v = 0 then Z0 else if Zr.sign v > 0 then Zpos (pos_of_z v) else Zneg (pos_of_z (Zr.neg v))

let hex_of s = String.concat "" (List.map (fun c -> Printf.sprintf "%02x" (Char.code c)) (List.of_seq (String.to_seq s)))
let unhex h =
  let n = String.length h / 2 in
  String.init n (fun i -> Char.chr (int_of_string ("0x" ^ String.sub h (2 * i) 2)))

let split_list s = if s = "-" || s = "" then [] else String.split_on_char ',' s
let hashes_of s = List.map unhex (split_list s)
let ns_of s = List.map n_of_string (split_list s)
let pairs_of s = List.map (fun e -> match String.split_on_char ':' e with
    | [p; h] -> (n_of_string p, unhex h) | _ -> failwith ("bad pair " ^ e)) (split_list s)
let str_ns l = if l = [] then "-" else String.concat "," (List.map string_of_n l)
let str_hs l = if l = [] then "-" else String.concat "," (List.map hex_of l)
let str_pairs l = if l = [] then "-" else String.concat "," (List.map (fun (p, h) -> string_of_n p ^ ":" ^ hex_of h) l)
(* the update data lists are sorted by position with Go's unstable sort: entries with EQUAL positions (they only
   occur for garbage additions such as the all-zero hash) are compared in a canonical order on both sides *)
let str_pairs_canon l =
  let rec fix acc = function
    | [] -> List.rev acc
    | (p, h) :: rest ->
      let same, other = List.partition (fun (q, _) -> q = p) rest in
      let grp = List.sort (fun (_, a) (_, b) -> compare (hex_of a) (hex_of b)) ((p, h) :: same) in
      fix (List.rev_append grp acc) other in
  str_pairs (fix [] l)
let str_ints l = if l = [] then "-" else String.concat "," (List.map string_of_int l)
let b01 b = if b then "1" else "0"
let bool_of s = s = "1"

let zero32 = String.make 32 '\000'
let ops : string ops = { op_hash2 = Sha.hash2; op_empty = zero32; op_eqb = (fun a b -> String.equal a b) }
let filler = "\001" ^ String.make 31 '\000'

(* bytes <-> extracted [N] lists for the codec mirror *)
let small_n = Array.init 256 (fun i -> n_of_z (Zr.of_int i))
let bytes_of_string (s : string) : n list = List.init (String.length s) (fun i -> small_n.(Char.code s.[i]))
let int_of_n x = Zr.to_int (z_of_n x)
let string_of_bytes (l : n list) : string =
  let b = Buffer.create 64 in List.iter (fun x -> Buffer.add_char b (Char.chr (int_of_n x))) l; Buffer.contents b

(* ---------- state ---------- *)
let cur : string slots ref = ref []
let stack : string slots list ref = ref []
let blocks : (string list * string list) list ref = ref []   (* newest first *)
(* TTLB: the block summaries as passed to AddBlockSummary (targets, numAdds) with the leaves the targets name in
   the reference state before the block; newest first *)
let ttlb : (n list * n * string list option) list ref = ref []
let ctx_cache : string ctx option ref = ref None
let ctx () = match !ctx_cache with
  | Some c -> c
  | None -> let c = mk_ctx ops !cur in ctx_cache := Some c; c
let set_state s = cur := s; ctx_cache := None

let mstate : string mstate option ref = ref None
(* MM: the state the mutator mirror expects the next MAPSTATE dump to show, with the tag of the check *)
let mm_pending : (string * string mstate) option ref = ref None
(* a dumped / computed map state as a comparable value: the maps as sorted sets *)
let canon_mstate (m : string mstate) =
  (List.sort compare (List.map (fun (p, (h, r)) -> (string_of_n p, hex_of h, r)) m.ms_nodes),
   List.sort compare (List.map (fun (h, p) -> (hex_of h, string_of_n p)) m.ms_cached),
   string_of_n m.ms_n, string_of_n m.ms_total, m.ms_full)
let mm_diff (e : string mstate) (g : string mstate) : string =
  let (en, ec, n1, t1, f1) = canon_mstate e and (gn, gc, n2, t2, f2) = canon_mstate g in
  let show_n (p, h, r) = p ^ ":" ^ String.sub h 0 8 ^ ":" ^ b01 r in
  let show_c (h, p) = String.sub h 0 8 ^ ":" ^ p in
  let minus a b = List.filter (fun x -> not (List.mem x b)) a in
  let cut l = String.concat "," (List.filteri (fun i _ -> i < 12) l) in
  Printf.sprintf "model: n=%s total=%s full=%s | impl: n=%s total=%s full=%s | nodes only-model=[%s] only-impl=[%s] | cached only-model=[%s] only-impl=[%s]"
    n1 t1 (b01 f1) n2 t2 (b01 f2)
    (cut (List.map show_n (minus en gn))) (cut (List.map show_n (minus gn en)))
    (cut (List.map show_c (minus ec gc))) (cut (List.map show_c (minus gc ec)))
let checks = ref 0
let fails = ref 0
let lineno = ref 0
let case_id = ref "-"
let fail kind tag detail =
  incr fails;
  Printf.printf "FAIL case=%s line=%d kind=%s tag=%s %s\n" !case_id !lineno kind tag detail
let check kind tag ok detail = incr checks; if not ok then fail kind tag (detail ())

(* ---------- utils mirror calls ---------- *)
let opt_n = function None -> "err" | Some x -> string_of_n x
let u_call (fn : string) (a : string list) : string =
  let n i = n_of_string (List.nth a i) in
  match fn with
  | "LeftChild" -> string_of_n (leftChild (n 0) (n 1))
  | "RightChild" -> string_of_n (rightChild (n 0) (n 1))
  | "ChildMany" -> opt_n (childMany (n 0) (n 1) (n 2))
  | "Parent" -> string_of_n (parent (n 0) (n 1))
  | "ParentMany" -> opt_n (parentMany (n 0) (n 1) (n 2))
  | "rootPosition" -> string_of_n (rootPosition (n 0) (n 1) (n 2))
  | "RootPositions" -> str_ns (rootPositions (n 0) (n 1))
  | "TreeRows" -> string_of_n (treeRows (n 0))
  | "numRoots" -> string_of_n (numRoots (n 0))
  | "DetectRow" -> string_of_n (detectRow (n 0) (n 1))
  | "DetectOffset" -> (match detectOffset (n 0) (n 1) with
      | None -> "err"
      | Some ((x, y), z) -> string_of_n x ^ "/" ^ string_of_n y ^ "/" ^ string_of_n z)
  | "translatePos" -> string_of_n (translatePos (n 0) (n 1) (n 2))
  | "isRootPosition" -> b01 (isRootPosition (n 0) (n 1))
  | "isRootPositionOnRow" -> b01 (isRootPositionOnRow (n 0) (n 1) (n 2))
  | "isRootPositionTotalRows" -> b01 (isRootPositionTotalRows (n 0) (n 1) (n 2))
  | "isRootPositionOnRowTotalRows" -> b01 (isRootPositionOnRowTotalRows (n 0) (n 1) (n 2) (n 3))
  | "isAncestor" -> b01 (isAncestor (n 0) (n 1) (n 2))
  | "removeBit" -> string_of_n (removeBit (n 0) (n 1))
  | "addBit" -> string_of_n (addBit (n 0) (n 1) (bool_of (List.nth a 2)))
  | "calcNextPosition" -> opt_n (calcNextPosition (n 0) (n 1) (n 2))
  | "calcPrevPosition" -> string_of_n (calcPrevPosition (n 0) (n 1) (n 2))
  | "inForest" -> b01 (inForest (n 0) (n 1) (n 2))
  | "deTwin" -> str_ns (deTwin (ns_of (List.nth a 0)) (n 1))
  | "proofPosition" -> str_ns (proofPosition (n 0) (n 1) (n 2))
  | "ProofPositions" ->
    let (p, c) = proofPositions_fast (ns_of (List.nth a 0)) (n 1) (n 2) in str_ns p ^ " " ^ str_ns c
  | "maxPositionAtRow" -> let (v, e) = maxPositionAtRow (n 0) (n 1) (n 2) in string_of_n v ^ "/" ^ b01 e
  | "maxPossiblePosAtRow" -> string_of_n (maxPossiblePosAtRow (n 0) (n 1))
  | "startPositionAtRow" -> string_of_n (startPositionAtRow (n 0) (n 1))
  | "sibling" -> string_of_n (sibling (n 0))
  | "leftSib" -> string_of_n (leftSib (n 0))
  | "rightSib" -> string_of_n (rightSib (n 0))
  | "rootExistsOnRow" -> b01 (rootExistsOnRow (n 0) (n 1))
  | "maxPosition" -> string_of_n (maxPosition (n 0))
  | "maxLeafCount" -> string_of_n (maxLeafCount (n 0))
  | _ -> failwith ("unknown utils function " ^ fn)

(* geometry specification (Spec/Geometry.v): function codes and the implementation's answer as numbers *)
let geom_code = function
  | "Parent" -> 1 | "LeftChild" -> 2 | "RightChild" -> 3 | "DetectRow" -> 4 | "ParentMany" -> 5
  | "ChildMany" -> 6 | "sibling" -> 7 | "rootPosition" -> 8 | "RootPositions" -> 9 | "translatePos" -> 10
  | "TreeRows" -> 11 | "inForest" -> 12 | "isRootPosition" -> 13 | "DetectOffset" -> 14 | "ProofPositions" -> 15 | _ -> 0
let geom_impl fn (res : string) : n list option =
  try
    (match fn with
     | "ParentMany" | "ChildMany" -> if res = "err" then Some [N0] else Some [n_of_string "1"; n_of_string res]
     | "RootPositions" -> Some (ns_of res)
     | "ProofPositions" ->
       (match String.split_on_char ' ' res with
        | [a; b] -> Some (ns_of a @ [n_of_string "18446744073709551616"] @ ns_of b)
        | _ -> None)
     | "DetectOffset" ->
       if res = "err" then Some [] else
         (match String.split_on_char '/' res with
          | [a; b; c] ->
            let bl = Zr.of_string b in
            let cz = Zr.of_string c in
            let low = if Zr.to_int bl >= 64 then cz else Zr.logand cz (Zr.pred (Zr.shift_left Zr.one (Zr.to_int bl))) in
            Some [n_of_string a; n_of_string b; n_of_z low]
          | _ -> None)
     | _ -> Some [n_of_string res])
  with _ -> None

let outcome_str = function Ok _ -> "ok" | Err -> "err" | Panic -> "panic" | OutOfFuel -> "hang"

(* ---------- event dispatch ---------- *)
let handle (toks : string list) =
  match toks with
  | [] -> ()
  | "#" :: _ -> ()
  | ["CASE"; id] ->
    (match !mm_pending with
     | Some (tag, _) -> mm_pending := None; fail "harness" tag "no MAPSTATE (post-state) after the MM event"
     | None -> ());
    case_id := id
  | ["SHA"; inp; out] ->
    check "selftest" "sha" (String.equal (Sha.sha512_256 (unhex inp)) (unhex out)) (fun () -> "sha512_256 mismatch")
  | ["RESET"] -> set_state []; stack := []; blocks := []; ttlb := []
  | ["BLOCK"; dels; adds] ->
    stack := !cur :: !stack;
    blocks := (hashes_of dels, hashes_of adds) :: !blocks;
    set_state (apply_block ops !cur (hashes_of dels) (hashes_of adds))
  | ["BLOCKT"; targets; adds] ->
    (match leaves_at (ctx ()) (ns_of targets) with
     | Some dels -> stack := !cur :: !stack; blocks := (dels, hashes_of adds) :: !blocks;
       set_state (apply_block ops !cur dels (hashes_of adds))
     | None -> fail "harness" "BLOCKT" "targets are not leaf positions")
  | ["UNDO"] ->
    (match !stack with
     | s :: rest -> set_state s; stack := rest; (match !blocks with _ :: b -> blocks := b | [] -> ())
     | [] -> fail "harness" "UNDO" "empty stack")
  | "U" :: fn :: rest ->
    let rec split acc = function
      | "=" :: r -> (List.rev acc, r)
      | x :: r -> split (x :: acc) r
      | [] -> (List.rev acc, []) in
    let (args, res) = split [] rest in
    let got = String.concat " " res in
    let exp = (try u_call fn args with Failure m -> "EXC:" ^ m) in
    check "mirror" ("U." ^ fn) (String.equal exp got)
      (fun () -> Printf.sprintf "args=%s model=%s impl=%s" (String.concat " " args) exp got);
    let code = geom_code fn in
    if code <> 0 then
      (match (try Some (if fn = "ProofPositions"
                        then (match args with [ts; n; h] -> n_of_string n :: n_of_string h :: ns_of ts | _ -> failwith "pp")
                        else List.map n_of_string args) with _ -> None) with
       | Some nargs ->
         (match geom_expect (n_of_z (Zr.of_int code)) nargs, geom_impl fn got with
          | Some e, Some i ->
            check "prop" ("GEOM." ^ fn) (e = i)
              (fun () -> Printf.sprintf "args=%s geometry=%s impl=%s" (String.concat " " args) (str_ns e) got)
          | _, _ -> ())
       | None -> ())
  | ["ROOTS"; label; n; rs] ->
    let c = ctx () in
    check "prop" ("ROOTS." ^ label) (chk_roots ops c (n_of_string n) (hashes_of rs))
      (fun () -> Printf.sprintf "spec_n=%s spec_roots=%s impl_n=%s impl_roots=%s"
          (string_of_n c.cn) (str_hs c.croots) n rs)
  | ["COUNT"; label; v] ->
    let c = ctx () in
    check "prop" ("COUNT." ^ label) (chk_count c (n_of_string v))
      (fun () -> Printf.sprintf "impl=%s spec_live=%d" v (List.length (List.filter (fun o -> o <> None) c.cs)))
  | ["LEAFPOS"; label; tracked; h; res] ->
    let c = ctx () in
    let r = if res = "none" then None else Some (n_of_string res) in
    check "prop" ("LEAFPOS." ^ label) (chk_leafpos ops c (bool_of tracked) (unhex h) r)
      (fun () -> Printf.sprintf "hash=%s spec=%s impl=%s" h
          (match exp_leafpos ops c (bool_of tracked) (unhex h) with None -> "none" | Some p -> string_of_n p) res)
  | "GETHASH" :: label :: full :: p :: res :: more ->
    let c = ctx () in
    (match more with
     | [tot] ->
       check "prop" ("GETHASH." ^ label) (chk_gethash_dual ops c (bool_of full) (nat_of_int (int_of_string tot)) (n_of_string p) (unhex res))
         (fun () -> Printf.sprintf "pos=%s totalrows=%s treerows=%d spec(minimal reading)=%s impl=%s" p tot (int_of_nat c.crows)
             (hex_of (hash_at ops c.crows c.clay (n_of_string p))) res)
     | _ ->
       check "prop" ("GETHASH." ^ label) (chk_gethash ops c (bool_of full) (n_of_string p) (unhex res))
         (fun () -> Printf.sprintf "pos=%s spec=%s impl=%s" p (hex_of (hash_at ops c.crows c.clay (n_of_string p))) res))
  | "PROVE" :: label :: hs :: rest ->
    let c = ctx () in
    let res = (match rest with
        | ["ok"; ts; pf] -> Some (ns_of ts, hashes_of pf)
        | _ -> None) in
    check "prop" ("PROVE." ^ label) (chk_prove ops c (hashes_of hs) res)
      (fun () -> Printf.sprintf "hashes=%s spec=%s impl=%s" hs
          (match exp_prove ops c (hashes_of hs) with
           | None -> "err" | Some (t, p) -> "ok " ^ str_ns t ^ " " ^ str_hs p)
          (String.concat " " rest))
  (* VERIFY label kind(stump|pollard) hashes targets proof result [idxs]
     checks (a) mirror = implementation, (b) accepted non-zero claims are true *)
  | "VERIFY" :: label :: kind :: hs :: ts :: pf :: res :: more ->
    let c = ctx () in
    let hs' = hashes_of hs and ts' = ns_of ts and pf' = hashes_of pf in
    let impl = String.concat " " (res :: more) in
    (match kind with
     | "stump" ->
       let model = (match mirror_verify ops c hs' ts' pf' with
           | Ok idx -> "ok " ^ str_ints (List.map int_of_nat idx)
           | o -> outcome_str o) in
       check "mirror" ("VERIFY." ^ label) (String.equal model impl)
         (fun () -> Printf.sprintf "hashes=%s targets=%s proof=%s model=%s impl=%s" hs ts pf model impl)
     | "pollard" ->
       let model = outcome_str (mirror_pollard_verify ops c hs' ts' pf') in
       check "mirror" ("VERIFY." ^ label) (String.equal model impl)
         (fun () -> Printf.sprintf "hashes=%s targets=%s proof=%s model=%s impl=%s" hs ts pf model impl)
     | k when String.length k > 5 && String.sub k 0 5 = "mapv:" ->
       let tot = n_of_string (String.sub k 5 (String.length k - 5)) in
       let model = outcome_str (mirror_map_verify ops c tot hs' ts' pf') in
       check "mirror" ("VERIFY." ^ label) (String.equal model res)
         (fun () -> Printf.sprintf "hashes=%s targets=%s proof=%s model=%s impl=%s" hs ts pf model impl)
     | _ ->
       check "prop" ("NOPANIC." ^ label) (res = "ok" || res = "err")
         (fun () -> Printf.sprintf "hashes=%s targets=%s proof=%s impl=%s" hs ts pf impl));
    let total_of k = (match String.index_opt k ':' with
        | Some i -> Some (nat_of_int (int_of_string (String.sub k (i + 1) (String.length k - i - 1))))
        | None -> None) in
    if res = "ok" && hs' <> [] && not (List.exists (String.equal zero32) hs') then
      check "prop" ("SOUND." ^ label)
        (match total_of kind with
         | Some tot -> claims_true_dual ops c tot ts' hs'
         | None -> claims_true ops c ts' hs')
        (fun () -> Printf.sprintf "accepted-false-claim hashes=%s targets=%s proof=%s" hs ts pf)
  (* EXPECTOK tag : the previous honest call must have succeeded: harness states result *)
  | ["NOPANIC"; label; res] ->
    check "prop" ("NOPANIC." ^ label) (res = "ok" || res = "err") (fun () -> "call ended with " ^ res)
  | ["HONEST"; label; res] ->
    check "prop" ("HONEST." ^ label) (res = "ok") (fun () -> "honest input rejected: " ^ res)
  | ["ROOTIDX"; label; hs; idxs] ->
    let c = ctx () in
    let e = (match exp_root_indexes ops c (hashes_of hs) with
        | Some l -> str_ints (List.map int_of_nat l) | None -> "err") in
    check "prop" ("ROOTIDX." ^ label) (String.equal e idxs) (fun () -> Printf.sprintf "spec=%s impl=%s" e idxs)
  (* UD dels adds todestroy prev newdel newadd : evaluated on the pre-block state *)
  | ["UD"; label; dels; adds; td; prev; nd; na] ->
    let c = ctx () in
    check "prop" ("UD." ^ label)
      (chk_update_data ops c (hashes_of dels) (hashes_of adds) (ns_of td) (n_of_string prev) (pairs_of nd) (pairs_of na))
      (fun () ->
         let u = spec_update_data ops c.cs (hashes_of dels) (hashes_of adds) in
         Printf.sprintf "spec: td=%s prev=%s nd=%s na=%s impl: td=%s prev=%s nd=%s na=%s"
           (str_ns u.ud_to_destroy) (string_of_n u.ud_prev_num_leaves) (str_pairs u.ud_new_del) (str_pairs u.ud_new_add)
           td prev nd na)
  (* UPDATE label dels adds targets proof result... : mirror of Stump.Update on the reference stump *)
  | "UPDATE" :: label :: dels :: adds :: ts :: pf :: res :: more ->
    let c = ctx () in
    let (s', o) = mirror_update ops filler c (hashes_of dels) (hashes_of adds) (ns_of ts) (hashes_of pf) in
    let model = (match o with
        | Ok u -> Printf.sprintf "ok %s %s %s %s %s %s" (string_of_n s'.st_n) (str_hs s'.st_roots)
                    (str_ns u.u_to_destroy) (string_of_n u.u_prev) (str_pairs_canon u.u_del) (str_pairs_canon u.u_add)
        | o -> Printf.sprintf "%s %s %s" (outcome_str o) (string_of_n s'.st_n) (str_hs s'.st_roots)) in
    let impl = String.concat " " (res :: more) in
    check "mirror" ("UPDATE." ^ label) (String.equal model impl)
      (fun () -> Printf.sprintf "dels=%s adds=%s targets=%s proof=%s model=%s impl=%s" dels adds ts pf model impl)
  | ["CACHED"; label; set; hs; ts; pf] ->
    let c = ctx () in
    check "prop" ("CACHED." ^ label) (chk_cached ops c (hashes_of set) (hashes_of hs) (ns_of ts) (hashes_of pf))
      (fun () -> Printf.sprintf "set=%s spec=%s impl=%s %s %s" set
          (match exp_cached ops c (hashes_of set) with
           | None -> "err" | Some ((h, t), p) -> str_hs h ^ " " ^ str_ns t ^ " " ^ str_hs p) hs ts pf)
  | ["STORED"; label; r; st] ->
    let c = ctx () in
    let code = chk_stored ops c (hashes_of r) (pairs_of st) in
    check "prop" ("STORED." ^ label) (code = N0)
      (fun () -> Printf.sprintf "code=%s (1 untrue entry, 2 beyond allowed, 3 needed missing, 4 R not live) R=%s stored=%s"
          (string_of_n code) r st)
  | ["MISSING"; label; have; want; res] ->
    let c = ctx () in
    let e = (match exp_missing ops c (hashes_of have) (hashes_of want) with Some l -> str_ns l | None -> "err") in
    check "prop" ("MISSING." ^ label) (String.equal e res) (fun () -> Printf.sprintf "have=%s want=%s spec=%s impl=%s" have want e res)
  | ["MISSINGST"; label; want; stored; res] ->
    let c = ctx () in
    let e = (match exp_missing_stored ops c (hashes_of want) (ns_of stored) with Some l -> str_ns l | None -> "err") in
    check "prop" ("MISSINGST." ^ label) (String.equal e res) (fun () -> Printf.sprintf "want=%s spec=%s impl=%s" want e res)
  (* EQ label a b : two observations of the implementation that the property says are equal *)
  | ["SCHED"; label; maxmem; sch] ->
    let sch' = List.map ns_of (String.split_on_char '|' sch) in
    let code = chk_schedule ops (List.rev !blocks) (nat_of_int (int_of_string maxmem)) sch' in
    check "prop" ("SCHED." ^ label) (code = N0)
      (fun () -> Printf.sprintf "maxMemory=%s clause=%s (1 length, 2 not-a-leaf-added-here-and-deleted-later/dup/unsorted, 3 over memory, 4 incomplete) schedule=%s"
          maxmem (string_of_n code) sch)
  | ["EVICT"; label; maxmem; t; sch] ->
    (* mirror of the eviction loop: schedule = model(ttls) *)
    let ttls = List.map (fun b -> List.map (fun e -> match String.split_on_char ':' e with
        | [p; v] -> (n_of_string p, zz_of_string v) | _ -> failwith "ttl") (split_list b)) (String.split_on_char '|' t) in
    let sch' = List.map ns_of (String.split_on_char '|' sch) in
    check "mirror" ("EVICT." ^ label) (check_schedule (nat_of_int (int_of_string maxmem)) ttls sch')
      (fun () -> Printf.sprintf "maxMemory=%s ttls=%s impl=%s" maxmem t sch);
    check "prop" ("TTLOK." ^ label) (ttl_okb ttls) (fun () -> Printf.sprintf "ttl list not well-formed (ttl<1 or duplicate position): %s" t)
  | ["TTLS"; label; t] ->
    let got = List.map (fun b -> List.sort compare (List.map (fun (p, h) -> (string_of_n p, h)) 
                (List.map (fun e -> match String.split_on_char ':' e with [p; v] -> (n_of_string p, v) | _ -> failwith "ttl") (split_list b))))
        (String.split_on_char '|' t) in
    let exp = List.map (fun b -> List.sort compare (List.map (fun (p, v) -> (string_of_n p, string_of_n v)) b)) (exp_ttls ops (List.rev !blocks)) in
    check "prop" ("TTLS." ^ label) (exp = got)
      (fun () -> Printf.sprintf "spec=%s impl=%s"
          (String.concat "|" (List.map (fun b -> String.concat "," (List.map (fun (p, v) -> p ^ ":" ^ v) b)) exp)) t)
  (* TTLB targets numAdds : the arguments of the AddBlockSummary call of the block that the NEXT BLOCK event applies *)
  | ["TTLB"; targets; numadds] ->
    let ts = ns_of targets in
    ttlb := (ts, n_of_string numadds, leaves_at (ctx ()) ts) :: !ttlb
  (* TTLM label ttls : mirror of AddBlockSummary + genTTLs (Model/TTL.v) on the TTLB summaries of the case = cs.ttls,
     entry by entry in the order genTTLs appends them *)
  | ["TTLM"; label; t] ->
    let summaries = List.rev !ttlb and bl = List.rev !blocks in
    (* the summaries describe the blocks of the case: same number, and the targets name exactly the deleted leaves *)
    let same_block (_, na, resolved) (dels, adds) =
      (match resolved with
       | Some hs -> List.sort compare hs = List.sort compare dels
       | None -> false) && int_of_n na = List.length adds in
    if not (List.length summaries = List.length bl && List.for_all2 same_block summaries bl) then
      fail "harness" ("TTLM." ^ label) "the TTLB summaries do not describe the blocks of the case"
    else begin
      let string_of_zz = function
        | Z0 -> "0" | Zpos p -> Zr.to_string (z_of_pos p)
        | Zneg p -> Zr.to_string (Zr.sub (Zr.shift_left Zr.one 64) (z_of_pos p)) in
      let model = (match ttl_run (List.map (fun (ts, na, _) -> (ts, na)) summaries) with
          | None -> "panic"
          | Some ttls ->
            String.concat "|" (List.map (fun b ->
                if b = [] then "-" else String.concat "," (List.map (fun (p, v) -> string_of_n p ^ ":" ^ string_of_zz v) b)) ttls)) in
      check "mirror" ("TTLM." ^ label) (String.equal model t)
        (fun () -> Printf.sprintf "summaries=%s model=%s impl=%s"
            (String.concat ";" (List.map (fun (ts, na, _) -> str_ns ts ^ "+" ^ string_of_n na) summaries)) model t)
    end
  (* WIREPOL label numdels hex : the bytes Pollard.WriteTo produced = encoding of the reference forest *)
  | ["WIREPOL"; label; numdels; hx] ->
    let c = ctx () in
    let exp = string_of_bytes (encode_pollard_of_forest bytes_of_string (forest ops c.cs) c.cn (n_of_string numdels)) in
    check "prop" ("WIREPOL." ^ label) (String.equal exp (unhex hx))
      (fun () -> Printf.sprintf "model_len=%d impl_len=%d model=%s impl=%s" (String.length exp) (String.length hx / 2)
          (hex_of (String.sub exp 0 (min 80 (String.length exp)))) (String.sub hx 0 (min 160 (String.length hx))));
    (* and the mirror decoder restores exactly the live leaves *)
    (match decode_pollard_bytes (bytes_of_string (unhex hx)) with
     | Some (img, consumed) ->
       let leaves = List.sort compare (List.map string_of_bytes (pimage_leaf_hashes img)) in
       let live = List.sort compare (List.filter_map (fun o -> o) c.cs) in
       check "mirror" ("WIREPOL.decode." ^ label) (leaves = live && int_of_nat consumed = String.length hx / 2)
         (fun () -> Printf.sprintf "decoded %d leaf records, reference has %d live leaves; consumed %d of %d"
             (List.length leaves) (List.length live) (int_of_nat consumed) (String.length hx / 2))
     | None -> fail "mirror" ("WIREPOL.decode." ^ label) "mirror decoder rejects the bytes the implementation wrote")
  (* WIREMAP label rows numleaves cached(hash:pos,..) nodes(pos:hash:rem,..) hex : decode the bytes with the mirror and compare with the dumped maps *)
  | ["WIREMAP"; label; rows; numleaves; cached; nodes; hx] ->
    (match decode_map_bytes (bytes_of_string (unhex hx)) with
     | Some (img, consumed) ->
       let dc = List.sort compare (List.map (fun (h, p) -> hex_of (string_of_bytes h) ^ ":" ^ string_of_n p) img.m_cached) in
       let dn = List.sort compare (List.map (fun (p, (h, r)) -> string_of_n p ^ ":" ^ hex_of (string_of_bytes h) ^ ":" ^ b01 r) img.m_nodes) in
       let ec = List.sort compare (split_list cached) and en = List.sort compare (split_list nodes) in
       check "mirror" ("WIREMAP." ^ label)
         (dc = ec && dn = en && string_of_n img.m_rows = rows && string_of_n img.m_numleaves = numleaves
          && int_of_nat consumed = String.length hx / 2
          && String.equal (string_of_bytes (encode_map_image img)) (unhex hx))
         (fun () -> Printf.sprintf "decoded rows=%s n=%s cached=%d nodes=%d consumed=%d; dumped rows=%s n=%s cached=%d nodes=%d len=%d"
             (string_of_n img.m_rows) (string_of_n img.m_numleaves) (List.length dc) (List.length dn) (int_of_nat consumed)
             rows numleaves (List.length ec) (List.length en) (String.length hx / 2))
     | None -> fail "mirror" ("WIREMAP." ^ label) "mirror decoder rejects the bytes the implementation wrote")
  (* MAPSTATE total full n nodes(pos:hash:rem,..) cached(hash:pos,..) : the dumped MapPollard for the MR events *)
  | ["MAPSTATE"; total; full; n; nodes; cached] ->
    let nl = List.map (fun e -> match String.split_on_char ':' e with
        | [p; h; r] -> (n_of_string p, (unhex h, r = "1")) | _ -> failwith "node") (split_list nodes) in
    let cl = List.map (fun e -> match String.split_on_char ':' e with
        | [h; p] -> (unhex h, n_of_string p) | _ -> failwith "cached") (split_list cached) in
    let dumped = { ms_nodes = nl; ms_cached = cl; ms_n = n_of_string n; ms_total = n_of_string total; ms_full = (full = "1") } in
    (match !mm_pending with
     | Some (tag, e) ->
       mm_pending := None;
       check "mirror" tag (canon_mstate e = canon_mstate dumped) (fun () -> mm_diff e dumped)
     | None -> ());
    mstate := Some dumped
  (* MR label fn args = result : mirror of the MapPollard read side on the dumped state *)
  | "MR" :: label :: fn :: rest ->
    (match !mstate with
     | None -> fail "harness" "MR" "no MAPSTATE"
     | Some m ->
       let rec split acc = function
         | "=" :: r -> (List.rev acc, r) | x :: r -> split (x :: acc) r | [] -> (List.rev acc, []) in
       let (args, res) = split [] rest in
       let got = String.concat " " res in
       let a i = List.nth args i in
       let exp = (try (match fn with
           | "GetHash" -> hex_of (getHash ops m (n_of_string (a 0)))
           | "GetLeafPosition" -> (match getLeafPosition ops m (unhex (a 0)) with Some p -> string_of_n p | None -> "none")
           | "GetLeafHashPositions" -> str_ns (getLeafHashPositions ops m (hashes_of (a 0)))
           | "GetRoots" -> str_hs (getRoots ops m)
           | "Prove" -> (match prove ops m (hashes_of (a 0)) with
               | Some (t, p) -> "ok " ^ str_ns t ^ " " ^ str_hs p | None -> "err")
           | "GetMissingPositions" -> str_ns (getMissingPositions m (ns_of (a 0)))
           | "VerifyPartialProof" -> outcome_str (verifyPartialProof ops m (ns_of (a 0)) (hashes_of (a 1)) (hashes_of (a 2)))
           | "Verify" -> outcome_str (map_verify ops m (hashes_of (a 0)) (ns_of (a 1)) (hashes_of (a 2)))
           | _ -> "unknown-fn") with Failure x -> "EXC:" ^ x | Invalid_argument x -> "EXC:" ^ x) in
       check "mirror" ("MR." ^ fn ^ "." ^ label) (String.equal exp got)
         (fun () -> Printf.sprintf "args=%s model=%s impl=%s" (String.concat " " args) (String.sub exp 0 (min 300 (String.length exp))) (String.sub got 0 (min 300 (String.length got)))))
  (* PO fn args = result : mirror of AddProof / GetProofSubset / GetMissingPositions (Model/ProofOps.v) *)
  | "PO" :: fn :: rest ->
    let rec split acc = function
      | "=" :: r -> (List.rev acc, r) | x :: r -> split (x :: acc) r | [] -> (List.rev acc, []) in
    let (args, res) = split [] rest in
    let got = String.concat " " res in
    let a i = List.nth args i in
    let exp = (try (match fn with
        | "AddProof" ->
          (match addProof (ns_of (a 0)) (hashes_of (a 1)) (ns_of (a 2)) (hashes_of (a 3)) (hashes_of (a 4)) (hashes_of (a 5)) (n_of_string (a 6)) with
           | Some ((h, t), p) -> str_hs h ^ " " ^ str_ns t ^ " " ^ str_hs p | None -> "undefined")
        | "GetProofSubset" ->
          (match getProofSubset ops (ns_of (a 0)) (hashes_of (a 1)) (hashes_of (a 2)) (ns_of (a 3)) (n_of_string (a 4)) with
           | Some ((h, t), p) -> "ok " ^ str_hs h ^ " " ^ str_ns t ^ " " ^ str_hs p | None -> "err")
        | "GetMissingPositions" -> str_ns (getMissingPositionsFn (n_of_string (a 0)) (ns_of (a 1)) (ns_of (a 2)))
        | _ -> "unknown-fn") with Failure x -> "EXC:" ^ x | Invalid_argument x -> "EXC:" ^ x) in
    check "mirror" ("PO." ^ fn) (String.equal exp got)
      (fun () -> Printf.sprintf "args=%s model=%s impl=%s" (String.concat " " args) (String.sub exp 0 (min 300 (String.length exp))) (String.sub got 0 (min 300 (String.length got))))
  (* PU fn args = result : mirror of Proof.Update / Proof.Undo (Model/ProofUpdate.v)
     Update targets proof cachedHashes addHashes blockTargets remembers toDestroy prevNumLeaves newDel newAdd
     Undo   targets proof numAdds numLeaves dels delHashes cachedHashes toDestroy blockTargets blockProof
     result: "ok <returned hashes> <Targets after> <Proof after>" or "err" *)
  | "PU" :: fn :: rest ->
    let rec split acc = function
      | "=" :: r -> (List.rev acc, r) | x :: r -> split (x :: acc) r | [] -> (List.rev acc, []) in
    let (args, res) = split [] rest in
    let got = String.concat " " res in
    let a i = List.nth args i in
    let show = function
      | Some ((h, t), p) -> "ok " ^ str_hs h ^ " " ^ str_ns t ^ " " ^ str_hs p | None -> "err" in
    let exp = (try (match fn with
        | "Update" ->
          show (proof_update ops (ns_of (a 0)) (hashes_of (a 1)) (hashes_of (a 2)) (hashes_of (a 3)) (ns_of (a 4)) (ns_of (a 5))
                  { u_to_destroy = ns_of (a 6); u_prev = n_of_string (a 7); u_del = pairs_of (a 8); u_add = pairs_of (a 9) })
        | "Undo" ->
          show (proof_undo ops (ns_of (a 0)) (hashes_of (a 1)) (n_of_string (a 2)) (n_of_string (a 3)) (ns_of (a 4))
                  (hashes_of (a 5)) (hashes_of (a 6)) (ns_of (a 7)) (ns_of (a 8)) (hashes_of (a 9)))
        | _ -> "unknown-fn") with Failure x -> "EXC:" ^ x | Invalid_argument x -> "EXC:" ^ x) in
    check "mirror" ("PU." ^ fn) (String.equal exp got)
      (fun () -> Printf.sprintf "args=%s model=%s impl=%s" (String.concat " " args) exp got)
  (* MM label op args = ok|err|panic : mirror of the MapPollard mutators (Model/MapMut.v).  The pre-state is the
     state of the last MAPSTATE event; the post-state is the NEXT MAPSTATE event (compared as sets).
     Modify adds(hash:remember,..) delHashes targets proof
     Undo   numAdds targets proof hashes prevRoots
     Verify delHashes targets proof        (remember = true)
     Ingest delHashes targets proof
     Prune  hashes *)
  | "MM" :: label :: op :: rest ->
    (match !mm_pending with
     | Some (tag, _) -> mm_pending := None; fail "harness" tag "no MAPSTATE (post-state) after the MM event"
     | None -> ());
    (match !mstate with
     | None -> fail "harness" "MM" "no MAPSTATE"
     | Some m ->
       let rec split acc = function
         | "=" :: r -> (List.rev acc, r) | x :: r -> split (x :: acc) r | [] -> (List.rev acc, []) in
       let (args, res) = split [] rest in
       let got = String.concat " " res in
       let a i = List.nth args i in
       let leaves_of s = List.map (fun e -> match String.split_on_char ':' e with
           | [h; r] -> (unhex h, r = "1") | _ -> failwith ("bad leaf " ^ e)) (split_list s) in
       let tag = "MM." ^ op in
       let exp = (try (match op with
           | "Modify" -> Some (mm_modify ops m (leaves_of (a 0)) (hashes_of (a 1)) (ns_of (a 2)) (hashes_of (a 3)))
           | "Undo" -> Some (mm_undo ops m (n_of_string (a 0)) (ns_of (a 1)) (hashes_of (a 2)) (hashes_of (a 3)) (hashes_of (a 4)))
           | "Verify" -> Some (mm_verify_remember ops m (hashes_of (a 0)) (ns_of (a 1)) (hashes_of (a 2)))
           | "Ingest" -> Some (mm_ingest ops m (hashes_of (a 0)) (ns_of (a 1)) (hashes_of (a 2)))
           | "Prune" -> Some (mm_prune ops m (hashes_of (a 0)))
           | _ -> None) with Failure _ | Invalid_argument _ -> None) in
       (match exp, got with
        | None, _ -> fail "harness" tag ("label=" ^ label ^ " malformed MM event")
        | Some (Some e), "ok" -> mm_pending := Some (tag, e)
        | Some None, "ok" ->
          check "mirror" tag false (fun () -> Printf.sprintf "label=%s model=err impl=ok args=%s" label (String.concat " " args))
        | Some r, ("err" | "panic") ->
          (* the implementation may have applied a part of the operation: the dump that follows is not compared *)
          check "mirror" tag (r = None) (fun () -> Printf.sprintf "label=%s model=ok impl=%s args=%s" label got (String.concat " " args))
        | Some _, _ -> fail "harness" tag ("label=" ^ label ^ " result is not ok/err/panic: " ^ got)))
  | ["EQ"; label; a; b] ->
    check "prop" ("EQ." ^ label) (String.equal a b) (fun () -> Printf.sprintf "a=%s b=%s" a b)
  | t :: _ -> fail "harness" t "unknown event"

let () =
  (* fixed vectors: SHA-512/256("abc"), SHA-512/256("") *)
  assert (hex_of (Sha.sha512_256 "abc") = "53048e2681941ef99b2e29b76b4c7dabe4c2d0c634fc6d46e0e2f13107e7af23");
  assert (hex_of (Sha.sha512_256 "") = "c672b8d1ef56ed28ab87c3622c5114069bdd3ad7b8f9737498d0c01ecef0967a");
  let ic = if Array.length Sys.argv > 1 then open_in Sys.argv.(1) else stdin in
  (try
     while true do
       let line = input_line ic in
       incr lineno;
       let toks = List.filter (fun s -> s <> "") (String.split_on_char ' ' line) in
       (try handle toks with
        | Failure m -> fail "harness" "exception" m
        | Invalid_argument m -> fail "harness" "exception" m
        | Not_found -> fail "harness" "exception" "not_found")
     done
   with End_of_file -> ());
  Printf.printf "DONE checks=%d fails=%d\n" !checks !fails
