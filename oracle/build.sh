#!/bin/sh
# Builds the oracle executable: extraction (coqc) + ocamlfind ocamlopt.  Requires coq/ to be built.
set -e
cd "$(dirname "$0")"
mkdir -p gen
( cd gen && coqc -Q ../../coq/theories Utreexo ../Extract.v >/dev/null 2>gen.log || { cat gen.log; exit 1; } )
mkdir -p ../build/oracle
cp gen/oracle_gen.ml gen/oracle_gen.mli sha.ml main.ml ../build/oracle/
( cd ../build/oracle && ocamlfind ocamlopt -O2 -w -a -package zarith -linkpkg oracle_gen.mli oracle_gen.ml sha.ml main.ml -o ../oracle_bin 2>&1 | grep -v "^$" | grep -v "options.*O2" || true )
test -x ../build/oracle_bin
