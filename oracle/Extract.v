(** Extraction of the reference forest, the mirror models and the property predicates.
    Only [ExtrOcamlBasic] is used: bool, option, list, prod, unit, sumbool map to the OCaml
    types; [nat], [positive], [N], [Z] stay the extracted inductives (positions reach 2^64-2,
    so no mapping to OCaml [int]).  No [Extract Constant]. *)
Require Extraction.
Require Import ExtrOcamlBasic.
From Utreexo Require Spec.Geometry.
From Utreexo Require Import Spec.Oracle Spec.Schedule Model.Utils Model.Verify Model.Evict Model.Codec.
From Utreexo Require Model.MapRead Model.ProofOps Model.UtilsFast.
From Utreexo Require Model.ProofUpdate.
From Utreexo Require Model.MapMut.
From Utreexo Require Model.TTL.
Extraction Language OCaml.
Extraction "oracle_gen.ml"
  mk_ctx Utreexo.Model.TTL.ttl_empty Utreexo.Model.TTL.ttl_add_block_summary Utreexo.Model.TTL.ttl_gen Utreexo.Model.TTL.ttl_run Utreexo.Model.MapMut.mm_modify Utreexo.Model.MapMut.mm_undo Utreexo.Model.MapMut.mm_verify_remember Utreexo.Model.MapMut.mm_ingest Utreexo.Model.MapMut.mm_prune Utreexo.Model.ProofUpdate.proof_update Utreexo.Model.ProofUpdate.proof_undo Utreexo.Model.UtilsFast.ProofPositions_fast Utreexo.Model.ProofOps.AddProof Utreexo.Model.ProofOps.GetProofSubset Utreexo.Model.ProofOps.GetMissingPositionsFn Utreexo.Model.MapRead.GetHash Utreexo.Model.MapRead.GetLeafPosition Utreexo.Model.MapRead.GetLeafHashPositions Utreexo.Model.MapRead.getRoots Utreexo.Model.MapRead.Prove Utreexo.Model.MapRead.GetMissingPositions Utreexo.Model.MapRead.VerifyPartialProof Utreexo.Model.MapRead.map_verify Utreexo.Spec.Geometry.geom_expect encode_pollard_of_forest decode_pollard_bytes pimage_leaf_hashes decode_map_bytes encode_map_image forest check_schedule ttl_okb chk_schedule exp_ttls chk_gethash_dual claims_true_dual mirror_map_verify chk_roots chk_count exp_leafpos chk_leafpos chk_gethash exp_prove chk_prove exp_root_indexes
  claims_true mirror_verify mirror_pollard_verify mirror_update chk_update_data
  exp_cached chk_cached chk_stored exp_missing exp_missing_stored leaves_at out_code
  apply_block spec_update_data hash_at the_stump
  LeftChild RightChild ChildMany Parent ParentMany rootPosition RootPositions TreeRows numRoots
  DetectRow DetectOffset translatePos isRootPosition isRootPositionOnRow isRootPositionTotalRows
  isRootPositionOnRowTotalRows isAncestor removeBit addBit calcNextPosition calcPrevPosition
  inForest deTwin proofPosition ProofPositions maxPositionAtRow maxPossiblePosAtRow
  startPositionAtRow sibling leftSib rightSib rootExistsOnRow maxPosition maxLeafCount
  calculateHashes rootsToDestroy stump_add stump_del Utreexo.Model.Verify.Verify PollardVerify.
