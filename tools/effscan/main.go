// effscan: translate the SSA of the utreexo package into a tiny flow-insensitive
// slice-effect IR, compute owner sets / summaries by fixpoint, and emit them as a
// Coq file whose claims are re-validated by the verified checker `check_program`
// (Spec/SliceHeap.v, Proofs/EffectSound.v).
//
// The analyser is UNTRUSTED for the abstract values and summaries (the Coq checker
// re-validates closure); it is TRUSTED for the SSA -> IR translation documented in
// README.md.
package main

import (
	"bufio"
	"flag"
	"fmt"
	"go/token"
	"go/types"
	"os"
	"sort"
	"strings"

	"golang.org/x/tools/go/packages"
	"golang.org/x/tools/go/ssa"
	"golang.org/x/tools/go/ssa/ssautil"
)

// ---------------------------------------------------------------------------
// IR

type kind int

const (
	KMake kind = iota
	KAlias
	KWrite
	KAppend
	KCopy
	KSort
	KCall
	KRet
	KExempt
	KGlobal
)

type stmt struct {
	k      kind
	x, y   int
	ys     []int // alias sources, call args, ret vars
	rets   []int
	callee *fn
	tag    string
	pos    token.Pos
	why    string
}

// owner bitset: bit 0 = fresh, bit 1 = global, bit 2+i = parameter i
type oset uint64

const (
	oFresh  oset = 1
	oGlobal oset = 2
)

func oParam(i int) oset { return oset(1) << uint(2+i) }

func (o oset) nonFresh() oset { return o &^ oFresh }

func (o oset) list() []string {
	var r []string
	for i := 0; i < 62; i++ {
		if o&oParam(i) != 0 {
			r = append(r, fmt.Sprintf("OParam %d", i))
		}
	}
	if o&oFresh != 0 {
		r = append(r, "OFresh")
	}
	if o&oGlobal != 0 {
		r = append(r, "OGlobal")
	}
	return r
}
func (o oset) coq() string { return "[" + strings.Join(o.list(), "; ") + "]" }
func (o oset) short() string {
	s := o.coq()
	s = strings.ReplaceAll(s, "OParam ", "P")
	s = strings.ReplaceAll(s, "OFresh", "F")
	s = strings.ReplaceAll(s, "OGlobal", "G")
	return s
}

type vkey struct {
	v ssa.Value
	k int // 0 = reach, 1 = direct, 2+i = call result component i
}

type reason struct {
	si      int // statement index, -1 = parameter
	fromVar int // variable in the same function the bit was copied from (-1 none)
	fromBit int // owner bit (index) in the callee for call-derived facts (-1 none)
}

type fn struct {
	id      int
	f       *ssa.Function
	name    string
	nfree   int
	nparams int
	vars    map[vkey]int
	vnames  []string
	body    []stmt
	dummy   int

	val    []oset
	writes oset
	rets   []oset

	valWhy   []map[int]reason // per var: bit index -> reason
	writeWhy map[int]reason   // bit index -> (stmt, var)
}

func (g *fn) newVar(name string) int {
	g.vnames = append(g.vnames, name)
	return len(g.vnames) - 1
}

func (g *fn) emit(s stmt) { g.body = append(g.body, s) }

// ---------------------------------------------------------------------------
// type predicates

func isErrorType(t types.Type) bool {
	if n, ok := t.(*types.Named); ok {
		return n.Obj().Pkg() == nil && n.Obj().Name() == "error"
	}
	return false
}

// carrier: may a value of this type hold a reference to a memory object?
func carrier(t types.Type) bool {
	if isErrorType(t) {
		return false
	}
	switch u := t.Underlying().(type) {
	case *types.Slice, *types.Pointer, *types.Map, *types.Chan, *types.Signature, *types.Interface:
		return true
	case *types.Struct:
		for i := 0; i < u.NumFields(); i++ {
			if carrier(u.Field(i).Type()) {
				return true
			}
		}
		return false
	case *types.Tuple:
		for i := 0; i < u.Len(); i++ {
			if carrier(u.At(i).Type()) {
				return true
			}
		}
		return false
	case *types.Array:
		return carrier(u.Elem())
	case *types.Basic:
		if u.Kind() == types.UnsafePointer {
			fatal("unsafe.Pointer is not supported")
		}
		return false
	}
	if _, ok := t.(*types.TypeParam); ok {
		return true
	}
	// opaque SSA types (range iterator) and anything unknown: conservative
	return true
}

// container: may a value of this type reference a mutable cell that itself holds
// carriers (so that a store through one alias is visible through another)?
func container(t types.Type) bool {
	if isErrorType(t) {
		return false
	}
	switch u := t.Underlying().(type) {
	case *types.Pointer:
		return carrier(u.Elem())
	case *types.Slice:
		return carrier(u.Elem())
	case *types.Map:
		return carrier(u.Key()) || carrier(u.Elem())
	case *types.Chan:
		return carrier(u.Elem())
	case *types.Signature, *types.Interface:
		return true
	case *types.Struct:
		for i := 0; i < u.NumFields(); i++ {
			if container(u.Field(i).Type()) {
				return true
			}
		}
		return false
	case *types.Tuple:
		for i := 0; i < u.Len(); i++ {
			if container(u.At(i).Type()) {
				return true
			}
		}
		return false
	case *types.Array:
		return container(u.Elem())
	case *types.Basic:
		return false
	}
	if _, ok := t.(*types.TypeParam); ok {
		return true
	}
	return true
}

// ---------------------------------------------------------------------------
// globals of the tool

var (
	prog      *ssa.Program
	pkg       *ssa.Package
	pkgPath   string
	fns       = map[*ssa.Function]*fn{}
	fnList    []*fn
	addrTaken []*ssa.Function
	notes     = map[string]bool{}
	srcLines  = map[string][]string{}
)

const exemptTag = "MapPollard.Undo: proof.Proof[i] = leaf.Hash in undoDeletion (value-preserving write, decided dynamically)"
const exemptFunc = "(*MapPollard).undoDeletion"
const exemptLine = "proof.Proof[i] = leaf.Hash"

var entryNames = []string{
	"Verify", "(*Stump).Update",
	"(*Pollard).Verify", "(*Pollard).Prove", "(*Pollard).Modify", "(*Pollard).Undo",
	"(*MapPollard).Verify", "(*MapPollard).Prove", "(*MapPollard).Modify", "(*MapPollard).Undo",
	"(*MapPollard).VerifyPartialProof", "(*MapPollard).GetMissingPositions",
	"(*MapPollard).Ingest", "(*MapPollard).Prune",
	"(*Proof).Update", "(*Proof).Undo", "AddProof", "GetProofSubset",
}

func fatal(f string, a ...interface{}) {
	fmt.Fprintf(os.Stderr, "effscan: "+f+"\n", a...)
	os.Exit(2)
}

func note(f string, a ...interface{}) { notes[fmt.Sprintf(f, a...)] = true }

func shortName(f *ssa.Function) string {
	n := f.String()
	n = strings.ReplaceAll(n, pkgPath+".", "")
	return n
}

func extName(f *ssa.Function) string {
	n := f.String()
	if i := strings.Index(n, "["); i >= 0 {
		n = n[:i]
	}
	return n
}

func srcLine(p token.Pos) string {
	if !p.IsValid() {
		return ""
	}
	pos := prog.Fset.Position(p)
	ls, ok := srcLines[pos.Filename]
	if !ok {
		fh, err := os.Open(pos.Filename)
		if err == nil {
			sc := bufio.NewScanner(fh)
			sc.Buffer(make([]byte, 1<<20), 1<<20)
			for sc.Scan() {
				ls = append(ls, sc.Text())
			}
			fh.Close()
		}
		srcLines[pos.Filename] = ls
	}
	if pos.Line-1 < len(ls) && pos.Line >= 1 {
		return strings.TrimSpace(ls[pos.Line-1])
	}
	return ""
}

func posStr(p token.Pos) string {
	if !p.IsValid() {
		return "-"
	}
	pos := prog.Fset.Position(p)
	fnm := pos.Filename
	if i := strings.LastIndex(fnm, "/"); i >= 0 {
		fnm = fnm[i+1:]
	}
	return fmt.Sprintf("%s:%d", fnm, pos.Line)
}

// ---------------------------------------------------------------------------
// variables

func (g *fn) shared() int {
	if g.dummy < 0 {
		g.dummy = g.newVar("_")
	}
	return g.dummy
}

// split: does the SSA value get separate direct/reach variables?
func split(v ssa.Value) bool {
	switch x := v.(type) {
	case *ssa.Parameter, *ssa.FreeVar, *ssa.Const, *ssa.Function, *ssa.Builtin, *ssa.Global:
		return false
	case *ssa.Call:
		return false
	case *ssa.Range:
		return false
	case *ssa.Extract:
		if _, ok := x.Tuple.(*ssa.Call); ok {
			return container(v.Type())
		}
	}
	return container(v.Type())
}

// R: the variable holding everything the SSA value may (transitively) reach.
func (g *fn) R(v ssa.Value) int {
	switch x := v.(type) {
	case *ssa.Parameter:
		for i, p := range g.f.Params {
			if p == x {
				return g.nfree + i
			}
		}
		fatal("parameter not found")
	case *ssa.FreeVar:
		for i, p := range g.f.FreeVars {
			if p == x {
				return i
			}
		}
		fatal("free variable not found")
	case *ssa.Const:
		if carrier(x.Type()) {
			return g.newVar("nil")
		}
		return g.shared()
	case *ssa.Function, *ssa.Builtin:
		return g.newVar("fn:" + v.Name())
	case *ssa.Range:
		return g.R(x.X)
	case *ssa.Call:
		return g.comp(x, 0)
	}
	if !carrier(v.Type()) {
		return g.shared()
	}
	k := vkey{v, 0}
	if id, ok := g.vars[k]; ok {
		return id
	}
	id := g.newVar(v.Name())
	g.vars[k] = id
	if gl, ok := v.(*ssa.Global); ok {
		g.vnames[id] = "global:" + gl.Name()
		g.emit(stmt{k: KGlobal, x: id, pos: token.NoPos, why: "global " + gl.String()})
	}
	return id
}

// D: the variable holding the objects the SSA value references directly.
func (g *fn) D(v ssa.Value) int {
	if r, ok := v.(*ssa.Range); ok {
		return g.R(r.X)
	}
	if !split(v) || !carrier(v.Type()) {
		return g.R(v)
	}
	k := vkey{v, 1}
	if id, ok := g.vars[k]; ok {
		return id
	}
	id := g.newVar(v.Name() + ".d")
	g.vars[k] = id
	g.emit(stmt{k: KAlias, x: g.R(v), ys: []int{id}, why: "reach includes direct referents of " + v.Name()})
	return id
}

// comp: result component k of a call
func (g *fn) comp(c ssa.Value, k int) int {
	key := vkey{c, 2 + k}
	if id, ok := g.vars[key]; ok {
		return id
	}
	id := g.newVar(fmt.Sprintf("%s#%d", c.Name(), k))
	g.vars[key] = id
	return id
}

func (g *fn) alias(x int, ys []int, pos token.Pos, why string) {
	var zs []int
	for _, y := range ys {
		if y != x && (g.dummy < 0 || y != g.dummy) {
			zs = append(zs, y)
		}
	}
	if len(zs) == 0 || (g.dummy >= 0 && x == g.dummy) {
		return
	}
	g.emit(stmt{k: KAlias, x: x, ys: zs, pos: pos, why: why})
}

func typeOfSrc(v ssa.Value) types.Type {
	if r, ok := v.(*ssa.Range); ok {
		return r.X.Type()
	}
	return v.Type()
}

// flow: dst is derived from src (dst = src, &src.f, src[i:j], *src, ...).
// dFromR: the direct referents of dst come from the contents of src (load, lookup).
func (g *fn) flow(dst, src ssa.Value, dFromR bool, pos token.Pos, why string) {
	if !carrier(dst.Type()) {
		return
	}
	if c, ok := src.(*ssa.Const); ok && c != nil {
		return
	}
	if !carrier(typeOfSrc(src)) {
		return
	}
	from := g.D(src)
	if dFromR {
		from = g.R(src)
	}
	if !split(dst) {
		if container(dst.Type()) {
			// unsplit container (cannot happen for instructions, kept for safety)
			g.alias(g.R(dst), []int{g.R(src)}, pos, why)
			g.alias(g.R(src), []int{g.R(dst)}, pos, why+" (reverse)")
			return
		}
		g.alias(g.R(dst), []int{from}, pos, why)
		return
	}
	g.alias(g.D(dst), []int{from}, pos, why)
	g.alias(g.R(dst), []int{g.R(src)}, pos, why)
	if container(typeOfSrc(src)) {
		g.alias(g.R(src), []int{g.R(dst)}, pos, why+" (reverse: shared mutable cells)")
	}
}

// store: the value v is stored into an object referenced (directly) by target.
func (g *fn) storeInto(target, v ssa.Value, pos token.Pos, why string) {
	if _, ok := v.(*ssa.Const); ok {
		return
	}
	if _, ok := v.(*ssa.Function); ok {
		return
	}
	if !carrier(v.Type()) {
		return
	}
	if gl, ok := target.(*ssa.Global); ok {
		fatal("store of a reference-carrying value into global %s at %s is not supported", gl.String(), posStr(pos))
	}
	g.alias(g.R(target), []int{g.R(v)}, pos, why)
	if container(v.Type()) {
		g.alias(g.R(v), []int{g.R(target)}, pos, why+" (reverse: shared mutable cells)")
	}
}

// ---------------------------------------------------------------------------
// translation of one function

func lastPos(in ssa.Instruction, prev token.Pos) token.Pos {
	if in.Pos().IsValid() {
		return in.Pos()
	}
	return prev
}

func translate(g *fn) {
	f := g.f
	cur := f.Pos()
	// Parameters (and captured variables) that can reference mutable cells holding
	// references may share such cells when the function is entered: a store
	// through one must be visible through the others.
	var cps []int
	for i, fv := range f.FreeVars {
		if container(fv.Type()) {
			cps = append(cps, i)
		}
	}
	for i, pr := range f.Params {
		if container(pr.Type()) {
			cps = append(cps, g.nfree+i)
		}
	}
	if len(cps) > 1 {
		for _, i := range cps {
			g.alias(i, cps, cur, "parameters may share mutable cells at entry")
		}
	}
	for _, b := range f.Blocks {
		for _, in := range b.Instrs {
			cur = lastPos(in, cur)
			pos := cur
			switch x := in.(type) {
			case *ssa.Alloc:
				g.emit(stmt{k: KMake, x: g.D(x), pos: pos, why: "alloc " + x.Name() + " (" + x.Comment + ")"})
			case *ssa.MakeSlice:
				g.emit(stmt{k: KMake, x: g.D(x), pos: pos, why: "make slice " + x.Name()})
			case *ssa.MakeMap:
				g.emit(stmt{k: KMake, x: g.D(x), pos: pos, why: "make map " + x.Name()})
			case *ssa.MakeChan:
				g.emit(stmt{k: KMake, x: g.D(x), pos: pos, why: "make chan " + x.Name()})
			case *ssa.FieldAddr:
				g.flow(x, x.X, false, pos, fmt.Sprintf("%s = &%s.field#%d", x.Name(), x.X.Name(), x.Field))
			case *ssa.Field:
				g.flow(x, x.X, false, pos, fmt.Sprintf("%s = %s.field#%d", x.Name(), x.X.Name(), x.Field))
			case *ssa.IndexAddr:
				g.flow(x, x.X, false, pos, fmt.Sprintf("%s = &%s[...]", x.Name(), x.X.Name()))
			case *ssa.Index:
				g.flow(x, x.X, false, pos, fmt.Sprintf("%s = %s[...]", x.Name(), x.X.Name()))
			case *ssa.Slice:
				g.flow(x, x.X, false, pos, fmt.Sprintf("%s = %s[:]", x.Name(), x.X.Name()))
			case *ssa.Phi:
				for _, e := range x.Edges {
					g.flow(x, e, false, pos, fmt.Sprintf("%s = phi(.. %s ..)", x.Name(), e.Name()))
				}
			case *ssa.ChangeType:
				g.flow(x, x.X, false, pos, x.Name()+" = changetype "+x.X.Name())
			case *ssa.ChangeInterface:
				g.flow(x, x.X, false, pos, x.Name()+" = changeinterface "+x.X.Name())
			case *ssa.SliceToArrayPointer:
				g.flow(x, x.X, false, pos, x.Name()+" = slice-to-array-pointer "+x.X.Name())
			case *ssa.MakeInterface:
				g.flow(x, x.X, false, pos, x.Name()+" = make interface "+x.X.Name())
			case *ssa.TypeAssert:
				g.flow(x, x.X, false, pos, x.Name()+" = typeassert "+x.X.Name())
			case *ssa.Convert:
				if carrier(x.Type()) {
					if _, isSl := x.Type().Underlying().(*types.Slice); isSl && !carrier(x.X.Type()) {
						// string -> []byte / []rune allocates
						g.emit(stmt{k: KMake, x: g.D(x), pos: pos, why: "convert to fresh slice " + x.Name()})
					} else {
						g.flow(x, x.X, false, pos, x.Name()+" = convert "+x.X.Name())
					}
				}
			case *ssa.MultiConvert:
				g.flow(x, x.X, false, pos, x.Name()+" = multiconvert "+x.X.Name())
			case *ssa.Extract:
				if c, ok := x.Tuple.(*ssa.Call); ok {
					if carrier(x.Type()) {
						cv := g.comp(c, x.Index)
						if split(x) {
							g.alias(g.D(x), []int{cv}, pos, fmt.Sprintf("%s = extract %s #%d", x.Name(), c.Name(), x.Index))
							g.alias(g.R(x), []int{cv}, pos, fmt.Sprintf("%s = extract %s #%d", x.Name(), c.Name(), x.Index))
							g.alias(cv, []int{g.R(x)}, pos, "extract (reverse: shared mutable cells)")
						} else {
							g.alias(g.R(x), []int{cv}, pos, fmt.Sprintf("%s = extract %s #%d", x.Name(), c.Name(), x.Index))
						}
					}
				} else {
					g.flow(x, x.Tuple, false, pos, fmt.Sprintf("%s = extract %s #%d", x.Name(), x.Tuple.Name(), x.Index))
				}
			case *ssa.MakeClosure:
				g.emit(stmt{k: KMake, x: g.D(x), pos: pos, why: "make closure " + x.Name()})
				for _, bnd := range x.Bindings {
					g.storeInto(x, bnd, pos, "closure "+x.Name()+" binds "+bnd.Name())
				}
			case *ssa.UnOp:
				switch x.Op {
				case token.MUL:
					g.flow(x, x.X, true, pos, x.Name()+" = *"+x.X.Name())
				case token.ARROW:
					fatal("channel receive is not supported (%s)", posStr(pos))
				}
			case *ssa.Lookup:
				if _, isMap := x.X.Type().Underlying().(*types.Map); isMap {
					g.flow(x, x.X, true, pos, x.Name()+" = "+x.X.Name()+"[key]")
				}
			case *ssa.Range:
				// the iterator is identified with its operand
			case *ssa.Next:
				if !x.IsString {
					g.flow(x, x.Iter, true, pos, x.Name()+" = next "+x.Iter.Name())
				}
			case *ssa.BinOp, *ssa.DebugRef, *ssa.Jump, *ssa.If, *ssa.RunDefers, *ssa.Panic:
			case *ssa.Store:
				g.emitWrite(x.Addr, pos, in, fmt.Sprintf("store *%s = %s", x.Addr.Name(), x.Val.Name()))
				g.storeInto(x.Addr, x.Val, pos, fmt.Sprintf("store *%s = %s", x.Addr.Name(), x.Val.Name()))
			case *ssa.MapUpdate:
				g.emit(stmt{k: KWrite, x: g.D(x.Map), pos: pos, why: "map update " + x.Map.Name()})
				g.storeInto(x.Map, x.Key, pos, "map update key "+x.Map.Name())
				g.storeInto(x.Map, x.Value, pos, "map update value "+x.Map.Name())
			case *ssa.Return:
				var xs []int
				for _, r := range x.Results {
					if carrier(r.Type()) {
						xs = append(xs, g.R(r))
					} else {
						xs = append(xs, g.shared())
					}
				}
				for len(g.rets) < len(xs) {
					g.rets = append(g.rets, 0)
				}
				g.emit(stmt{k: KRet, ys: xs, pos: pos, why: "return"})
			case *ssa.Send, *ssa.Select:
				fatal("channel operations are not supported (%s)", posStr(pos))
			case ssa.CallInstruction:
				translateCall(g, x, pos)
			default:
				if v, ok := in.(ssa.Value); ok && carrier(v.Type()) {
					fatal("unsupported instruction %T producing a reference-carrying value at %s", in, posStr(pos))
				}
			}
		}
	}
}

// emitWrite: a store through pointer p modifies the objects p references directly.
func (g *fn) emitWrite(p ssa.Value, pos token.Pos, in ssa.Instruction, why string) {
	if g.name == exemptFunc && srcLine(in.Pos()) == exemptLine {
		if _, ok := p.(*ssa.IndexAddr); ok {
			g.emit(stmt{k: KExempt, x: g.D(p), tag: exemptTag, pos: pos, why: why})
			return
		}
	}
	g.emit(stmt{k: KWrite, x: g.D(p), pos: pos, why: why})
}

// ---------------------------------------------------------------------------
// calls

type extEffect struct {
	writes   []int // argument indexes whose reachable objects are written
	sorts    []int // same, emitted as SSort
	retAlias []int // result may alias these arguments (plus fresh)
	clone    []int // result is a FRESH slice holding copies of the elements of these arguments (like make+copy)
	callback bool  // function-typed arguments are called with data from the other arguments
	stringer bool  // may call String methods of the arguments (fmt)
	sortIntf bool  // sort.Sort / sort.Stable: calls Len/Less/Swap of argument 0
}

var externs = map[string]extEffect{
	"sort.Sort":        {sortIntf: true},
	"sort.Stable":      {sortIntf: true},
	"sort.Slice":       {sorts: []int{0}, callback: true},
	"sort.SliceStable": {sorts: []int{0}, callback: true},
	"sort.Search":      {callback: true},
	"sort.Ints":        {sorts: []int{0}},

	"slices.Sort":                              {sorts: []int{0}},
	"slices.SortFunc":                          {sorts: []int{0}, callback: true},
	"slices.SortStableFunc":                    {sorts: []int{0}, callback: true},
	"slices.Delete":                            {sorts: []int{0}, retAlias: []int{0}},
	"slices.Insert":                            {sorts: []int{0}, retAlias: []int{0, 2}},
	"slices.Index":                             {},
	"slices.Contains":                          {},
	"slices.BinarySearch":                      {},
	"slices.BinarySearchFunc":                  {callback: true},
	"slices.Equal":                             {},
	"slices.Reverse":                           {sorts: []int{0}},
	"slices.Clone":                             {clone: []int{0}},
	"golang.org/x/exp/slices.Sort":             {sorts: []int{0}},
	"golang.org/x/exp/slices.SortFunc":         {sorts: []int{0}, callback: true},
	"golang.org/x/exp/slices.SortStableFunc":   {sorts: []int{0}, callback: true},
	"golang.org/x/exp/slices.Delete":           {sorts: []int{0}, retAlias: []int{0}},
	"golang.org/x/exp/slices.Insert":           {sorts: []int{0}, retAlias: []int{0, 2}},
	"golang.org/x/exp/slices.Index":            {},
	"golang.org/x/exp/slices.Contains":         {},
	"golang.org/x/exp/slices.BinarySearch":     {},
	"golang.org/x/exp/slices.BinarySearchFunc": {callback: true},
	"golang.org/x/exp/slices.Equal":            {},
	"golang.org/x/exp/slices.Clone":            {clone: []int{0}},

	"(encoding/binary.littleEndian).PutUint64": {writes: []int{1}},
	"(encoding/binary.littleEndian).PutUint32": {writes: []int{1}},
	"(encoding/binary.littleEndian).PutUint16": {writes: []int{1}},
	"(encoding/binary.littleEndian).Uint64":    {},
	"(encoding/binary.littleEndian).Uint32":    {},
	"(encoding/binary.littleEndian).Uint16":    {},
	"(encoding/binary.bigEndian).PutUint64":    {writes: []int{1}},
	"(encoding/binary.bigEndian).PutUint32":    {writes: []int{1}},
	"(encoding/binary.bigEndian).Uint64":       {},
	"(encoding/binary.bigEndian).Uint32":       {},

	"io.ReadFull": {writes: []int{1}},

	"(*strings.Builder).WriteString": {writes: []int{0}},
	"(*strings.Builder).WriteByte":   {writes: []int{0}},
	"(*strings.Builder).WriteRune":   {writes: []int{0}},
	"(*strings.Builder).Write":       {writes: []int{0}},
	"(*strings.Builder).String":      {},
	"(*strings.Builder).Len":         {},

	"(*sync.RWMutex).Lock":    {},
	"(*sync.RWMutex).Unlock":  {},
	"(*sync.RWMutex).RLock":   {},
	"(*sync.RWMutex).RUnlock": {},
	"(*sync.Mutex).Lock":      {},
	"(*sync.Mutex).Unlock":    {},

	"encoding/hex.EncodeToString": {},
	"crypto/sha512.New512_256":    {},
	"crypto/sha512.Sum512_256":    {},
	"crypto/sha256.Sum256":        {},
	"errors.New":                  {},
}

var purePrefixes = []string{"math/bits.", "math.", "strings.", "strconv.", "unicode/utf8."}
var stringerPrefixes = []string{"fmt."}

// effects of methods invoked through interfaces that are NOT package interfaces
var extInvoke = map[string]extEffect{
	"io.Writer.Write": {},                                     // reads p
	"io.Reader.Read":  {writes: []int{1}},                     // writes p (args index 1: receiver is 0)
	"hash.Hash.Write": {},                                     // reads p
	"hash.Hash.Sum":   {writes: []int{1}, retAlias: []int{1}}, // appends to b
	"hash.Hash.Reset": {},
	"error.Error":     {},
}

func arity(sig *types.Signature) (int, int) { return sig.Params().Len(), sig.Results().Len() }

// candidates for a call through a function value
func funcCandidates(v ssa.Value) []*ssa.Function {
	switch x := v.(type) {
	case *ssa.MakeClosure:
		return []*ssa.Function{x.Fn.(*ssa.Function)}
	case *ssa.Function:
		if fns[x] != nil {
			return []*ssa.Function{x}
		}
		return nil
	}
	sig, ok := v.Type().Underlying().(*types.Signature)
	if !ok {
		return nil
	}
	np, nr := arity(sig)
	var r []*ssa.Function
	generic := mentionsTypeParam(sig)
	for _, c := range addrTaken {
		if fns[c] == nil {
			continue
		}
		p2, r2 := arity(c.Signature)
		if p2 != np || r2 != nr {
			continue
		}
		// exact match when both signatures are monomorphic, arity match otherwise
		if !generic && !mentionsTypeParam(c.Signature) && !sameSig(sig, c.Signature) {
			continue
		}
		r = append(r, c)
	}
	return r
}

func sameSig(a, b *types.Signature) bool {
	if a.Params().Len() != b.Params().Len() || a.Results().Len() != b.Results().Len() || a.Variadic() != b.Variadic() {
		return false
	}
	for i := 0; i < a.Params().Len(); i++ {
		if !types.Identical(a.Params().At(i).Type(), b.Params().At(i).Type()) {
			return false
		}
	}
	for i := 0; i < a.Results().Len(); i++ {
		if !types.Identical(a.Results().At(i).Type(), b.Results().At(i).Type()) {
			return false
		}
	}
	return true
}

func mentionsTypeParam(t types.Type) bool {
	seen := map[types.Type]bool{}
	var rec func(t types.Type) bool
	rec = func(t types.Type) bool {
		if t == nil || seen[t] {
			return false
		}
		seen[t] = true
		switch u := t.(type) {
		case *types.TypeParam:
			return true
		case *types.Named:
			for i := 0; i < u.TypeArgs().Len(); i++ {
				if rec(u.TypeArgs().At(i)) {
					return true
				}
			}
			return false
		case *types.Pointer:
			return rec(u.Elem())
		case *types.Slice:
			return rec(u.Elem())
		case *types.Array:
			return rec(u.Elem())
		case *types.Map:
			return rec(u.Key()) || rec(u.Elem())
		case *types.Chan:
			return rec(u.Elem())
		case *types.Tuple:
			for i := 0; i < u.Len(); i++ {
				if rec(u.At(i).Type()) {
					return true
				}
			}
			return false
		case *types.Signature:
			return rec(u.Params()) || rec(u.Results())
		case *types.Struct:
			for i := 0; i < u.NumFields(); i++ {
				if rec(u.Field(i).Type()) {
					return true
				}
			}
			return false
		}
		return false
	}
	return rec(t)
}

// methods of package types implementing the interface
func implementers(it types.Type, method string) []*ssa.Function {
	iface, ok := it.Underlying().(*types.Interface)
	if !ok {
		return nil
	}
	var r []*ssa.Function
	seen := map[*ssa.Function]bool{}
	var mnames []string
	for n := range pkg.Members {
		mnames = append(mnames, n)
	}
	sort.Strings(mnames)
	for _, n := range mnames {
		t, ok := pkg.Members[n].(*ssa.Type)
		if !ok {
			continue
		}
		if _, isIface := t.Type().Underlying().(*types.Interface); isIface {
			continue
		}
		for _, recv := range []types.Type{t.Type(), types.NewPointer(t.Type())} {
			if !types.Implements(recv, iface) {
				continue
			}
			sel := prog.MethodSets.MethodSet(recv).Lookup(pkg.Pkg, method)
			if sel == nil {
				sel = prog.MethodSets.MethodSet(recv).Lookup(nil, method)
			}
			if sel == nil {
				continue
			}
			mf := prog.MethodValue(sel)
			if mf != nil && fns[mf] != nil && !seen[mf] {
				seen[mf] = true
				r = append(r, mf)
			}
		}
	}
	return r
}

// all String() string methods of package types (fmt may call them)
func stringMethods() []*ssa.Function {
	var r []*ssa.Function
	for _, g := range fnList {
		f := g.f
		if f.Signature.Recv() != nil && f.Name() == "String" && f.Signature.Params().Len() == 0 && f.Signature.Results().Len() == 1 {
			r = append(r, f)
		}
	}
	return r
}

func (g *fn) argVar(a ssa.Value, paramT types.Type) int {
	if _, ok := a.(*ssa.Const); ok {
		if carrier(a.Type()) || (paramT != nil && carrier(paramT)) {
			return g.newVar("const")
		}
		return g.shared()
	}
	if !carrier(a.Type()) {
		if paramT != nil && carrier(paramT) {
			return g.newVar("noncarrier-arg")
		}
		return g.shared()
	}
	return g.R(a)
}

func (g *fn) resultVars(ci ssa.CallInstruction) []int {
	v, ok := ci.(*ssa.Call)
	if !ok {
		return nil
	}
	res := ci.Common().Signature().Results()
	var r []int
	for k := 0; k < res.Len(); k++ {
		r = append(r, g.comp(v, k))
	}
	return r
}

// emit an IR call to a package function
func (g *fn) emitCall(ci ssa.CallInstruction, callee *ssa.Function, pre []int, args []ssa.Value, rets []int, pos token.Pos, why string) {
	cg := fns[callee]
	if cg == nil {
		fatal("callee %s has no IR", callee.String())
	}
	if len(pre)+len(args) != cg.nparams {
		note("arity mismatch calling %s from %s (skipped candidate)", cg.name, g.name)
		return
	}
	var as []int
	as = append(as, pre...)
	for i, a := range args {
		var pt types.Type
		idx := len(pre) + i - cg.nfree
		if idx >= 0 && idx < len(callee.Params) {
			pt = callee.Params[idx].Type()
		}
		as = append(as, g.argVar(a, pt))
	}
	nres := callee.Signature.Results().Len()
	rs := rets
	if len(rs) > nres {
		rs = rs[:nres]
	}
	g.emit(stmt{k: KCall, rets: rs, callee: cg, ys: as, pos: pos, why: why})
	// a reference-carrying result may share mutable cells with reference-carrying arguments
	if ci != nil {
		if _, ok := ci.(*ssa.Call); ok {
			res := callee.Signature.Results()
			for k := 0; k < res.Len() && k < len(rs); k++ {
				if !container(res.At(k).Type()) {
					continue
				}
				for i, a := range args {
					if _, isC := a.(*ssa.Const); isC {
						continue
					}
					if container(a.Type()) {
						g.alias(as[len(pre)+i], []int{rs[k]}, pos, why+" (result may share mutable cells with argument)")
					}
				}
				for _, p := range pre {
					g.alias(p, []int{rs[k]}, pos, why+" (result may share mutable cells with closure)")
				}
			}
		}
	}
}

func resolveStatic(callee *ssa.Function) *ssa.Function {
	if fns[callee] != nil {
		return callee
	}
	if o := callee.Origin(); o != nil && fns[o] != nil {
		return o
	}
	return nil
}

func translateCall(g *fn, ci ssa.CallInstruction, pos token.Pos) {
	c := ci.Common()
	var res ssa.Value
	if v, ok := ci.(*ssa.Call); ok {
		res = v
	}
	rets := g.resultVars(ci)
	args := c.Args

	if b, ok := c.Value.(*ssa.Builtin); ok {
		switch b.Name() {
		case "append":
			x := res
			y := args[0]
			z := args[1]
			if x == nil {
				return
			}
			xr := g.comp(x, 0)
			if _, isC := y.(*ssa.Const); isC {
				g.emit(stmt{k: KMake, x: xr, pos: pos, why: "append to nil"})
			} else {
				g.emit(stmt{k: KAppend, x: xr, y: g.D(y), pos: pos, why: fmt.Sprintf("%s = append(%s, ...)", x.Name(), y.Name())})
				g.alias(xr, []int{g.R(y)}, pos, "append result reaches what the operand reaches")
				if container(y.Type()) {
					g.alias(g.R(y), []int{xr}, pos, "append (reverse: shared mutable cells)")
				}
			}
			if _, isC := z.(*ssa.Const); !isC && carrier(z.Type()) {
				if sl, ok := z.Type().Underlying().(*types.Slice); ok && carrier(sl.Elem()) {
					g.alias(xr, []int{g.R(z)}, pos, "appended elements")
					if container(sl.Elem()) {
						g.alias(g.R(z), []int{xr}, pos, "appended elements (reverse: shared mutable cells)")
					}
				}
			}
		case "copy":
			dst, src := args[0], args[1]
			if _, isC := dst.(*ssa.Const); isC {
				return
			}
			sv := g.shared()
			if _, isC := src.(*ssa.Const); !isC && carrier(src.Type()) {
				sv = g.R(src)
			}
			g.emit(stmt{k: KCopy, x: g.D(dst), y: sv, pos: pos, why: fmt.Sprintf("copy(%s, %s)", dst.Name(), src.Name())})
			if sl, ok := dst.Type().Underlying().(*types.Slice); ok && carrier(sl.Elem()) && sv != g.shared() {
				g.alias(g.R(dst), []int{sv}, pos, "copied elements")
				if container(sl.Elem()) {
					g.alias(sv, []int{g.R(dst)}, pos, "copied elements (reverse: shared mutable cells)")
				}
			}
		case "delete", "clear":
			if _, isC := args[0].(*ssa.Const); !isC {
				g.emit(stmt{k: KWrite, x: g.D(args[0]), pos: pos, why: b.Name() + "(" + args[0].Name() + ")"})
			}
		case "len", "cap", "min", "max", "print", "println", "panic", "real", "imag", "complex":
		case "ssa:wrapnilchk":
			if res != nil {
				g.flow0(res, args[0], pos, "wrapnilchk")
			}
		case "recover":
			if res != nil {
				g.emit(stmt{k: KMake, x: g.comp(res, 0), pos: pos, why: "recover()"})
			}
		default:
			fatal("unsupported builtin %s at %s", b.Name(), posStr(pos))
		}
		return
	}

	if c.IsInvoke() {
		recvT := c.Value.Type()
		key := typeKey(recvT) + "." + c.Method.Name()
		all := append([]ssa.Value{c.Value}, args...)
		if eff, ok := extInvoke[key]; ok {
			g.applyExt(eff, all, rets, res, pos, "invoke "+key)
			return
		}
		cands := implementers(recvT, c.Method.Name())
		if len(cands) == 0 {
			note("UNKNOWN interface method %s in %s: conservative write of all arguments", key, g.name)
			g.conservative(all, rets, pos, "unknown invoke "+key)
			return
		}
		for _, m := range cands {
			g.emitCall(ci, m, nil, all, rets, pos, "invoke "+key+" -> "+shortName(m))
		}
		return
	}

	if callee := c.StaticCallee(); callee != nil {
		if tgt := resolveStatic(callee); tgt != nil {
			var pre []int
			if mc, ok := c.Value.(*ssa.MakeClosure); ok {
				for range tgt.FreeVars {
					pre = append(pre, g.R(mc))
				}
			}
			g.emitCall(ci, tgt, pre, args, rets, pos, "call "+shortName(tgt))
			return
		}
		name := extName(callee)
		eff, ok := externs[name]
		if !ok {
			for _, p := range purePrefixes {
				if strings.HasPrefix(name, p) {
					ok = true
				}
			}
			for _, p := range stringerPrefixes {
				if strings.HasPrefix(name, p) {
					ok = true
					eff = extEffect{stringer: true}
				}
			}
		}
		if !ok {
			anyCarrier := false
			for _, a := range args {
				if carrier(a.Type()) {
					anyCarrier = true
				}
			}
			if anyCarrier {
				note("UNKNOWN external function %s in %s: conservative write of all arguments", name, g.name)
				g.conservative(args, rets, pos, "unknown external "+name)
			} else if len(rets) > 0 {
				for _, r := range rets {
					g.emit(stmt{k: KMake, x: r, pos: pos, why: "result of external " + name})
				}
			}
			return
		}
		g.applyExt(eff, args, rets, res, pos, "external "+name)
		return
	}

	// call through a function value
	cands := funcCandidates(c.Value)
	if len(cands) == 0 {
		note("UNKNOWN dynamic call in %s at %s: conservative write of all arguments", g.name, posStr(pos))
		g.conservative(append([]ssa.Value{c.Value}, args...), rets, pos, "unknown dynamic call")
		return
	}
	for _, m := range cands {
		var pre []int
		for range m.FreeVars {
			pre = append(pre, g.R(c.Value))
		}
		g.emitCall(ci, m, pre, args, rets, pos, "dynamic call -> "+shortName(m))
	}
}

func typeKey(t types.Type) string { return t.String() }

func (g *fn) flow0(dst, src ssa.Value, pos token.Pos, why string) {
	// result component of a call-like builtin derived from src
	if !carrier(dst.Type()) {
		return
	}
	if _, isC := src.(*ssa.Const); isC {
		return
	}
	cv := g.comp(dst, 0)
	g.alias(cv, []int{g.R(src)}, pos, why)
	if container(src.Type()) {
		g.alias(g.R(src), []int{cv}, pos, why+" (reverse)")
	}
}

func (g *fn) conservative(args []ssa.Value, rets []int, pos token.Pos, why string) {
	var as []int
	for _, a := range args {
		if _, isC := a.(*ssa.Const); isC || !carrier(a.Type()) {
			continue
		}
		as = append(as, g.R(a))
		g.emit(stmt{k: KWrite, x: g.R(a), pos: pos, why: why})
	}
	for _, r := range rets {
		g.emit(stmt{k: KMake, x: r, pos: pos, why: why})
		g.alias(r, as, pos, why)
	}
	// everything may be stored into everything
	for _, a := range as {
		g.alias(a, as, pos, why)
		g.alias(a, rets, pos, why)
	}
}

func (g *fn) applyExt(eff extEffect, args []ssa.Value, rets []int, res ssa.Value, pos token.Pos, why string) {
	av := func(i int) (int, bool) {
		if i >= len(args) {
			return 0, false
		}
		if _, isC := args[i].(*ssa.Const); isC || !carrier(args[i].Type()) {
			return 0, false
		}
		return g.R(args[i]), true
	}
	for _, i := range eff.writes {
		if v, ok := av(i); ok {
			g.emit(stmt{k: KWrite, x: v, pos: pos, why: why})
		}
	}
	for _, i := range eff.sorts {
		if v, ok := av(i); ok {
			g.emit(stmt{k: KSort, x: v, pos: pos, why: why})
		}
	}
	for _, r := range rets {
		g.emit(stmt{k: KMake, x: r, pos: pos, why: "result of " + why})
		for _, i := range eff.clone {
			// a fresh backing array; only element values that themselves carry references stay shared
			if v, ok := av(i); ok {
				if sl, isSl := args[i].Type().Underlying().(*types.Slice); isSl && carrier(sl.Elem()) {
					g.alias(r, []int{v}, pos, "cloned elements of "+why)
					if container(sl.Elem()) {
						g.alias(v, []int{r}, pos, "cloned elements of "+why+" (reverse: shared mutable cells)")
					}
				}
			}
		}
		for _, i := range eff.retAlias {
			if v, ok := av(i); ok {
				g.alias(r, []int{v}, pos, "result of "+why+" aliases argument")
				if container(args[i].Type()) {
					g.alias(v, []int{r}, pos, "result of "+why+" aliases argument (reverse)")
				}
			}
		}
	}
	if eff.sortIntf {
		if len(args) > 0 {
			for _, mname := range []string{"Len", "Less", "Swap"} {
				cands := implementers(args[0].Type(), mname)
				if len(cands) == 0 {
					note("UNKNOWN sort.Interface implementer in %s", g.name)
					g.conservative(args, nil, pos, why)
				}
				for _, m := range cands {
					cg := fns[m]
					as := []int{g.R(args[0])}
					for len(as) < cg.nparams {
						as = append(as, g.shared())
					}
					g.emit(stmt{k: KCall, callee: cg, ys: as, pos: pos, why: why + " -> " + cg.name})
				}
			}
		}
	}
	if eff.stringer {
		var as []int
		for i := range args {
			if v, ok := av(i); ok {
				as = append(as, v)
			}
		}
		if len(as) > 0 {
			for _, m := range stringMethods() {
				cg := fns[m]
				if cg.nparams != 1 {
					continue
				}
				for _, a := range as {
					g.emit(stmt{k: KCall, callee: cg, ys: []int{a}, pos: pos, why: why + " may call " + cg.name})
				}
			}
		}
	}
	if eff.callback {
		// function-typed arguments are called; their reference-carrying parameters
		// receive data reachable from the other arguments
		var others []int
		for i, a := range args {
			if _, isF := a.Type().Underlying().(*types.Signature); isF {
				continue
			}
			if v, ok := av(i); ok {
				others = append(others, v)
			}
		}
		for _, a := range args {
			sig, isF := a.Type().Underlying().(*types.Signature)
			if !isF {
				continue
			}
			cands := funcCandidates(a)
			if len(cands) == 0 {
				note("UNKNOWN callback in %s at %s", g.name, posStr(pos))
				g.conservative(args, nil, pos, why)
				continue
			}
			for _, m := range cands {
				cg := fns[m]
				var as []int
				for range m.FreeVars {
					as = append(as, g.R(a))
				}
				for i := 0; i < sig.Params().Len(); i++ {
					if carrier(sig.Params().At(i).Type()) && len(others) > 0 {
						u := g.newVar("cbarg")
						g.alias(u, others, pos, "callback argument drawn from the other arguments")
						for _, o := range others {
							g.alias(o, []int{u}, pos, "callback argument (reverse)")
						}
						as = append(as, u)
					} else {
						as = append(as, g.shared())
					}
				}
				if len(as) != cg.nparams {
					continue
				}
				g.emit(stmt{k: KCall, callee: cg, ys: as, pos: pos, why: why + " calls back " + cg.name})
			}
		}
	}
}

// ---------------------------------------------------------------------------
// solver (least fixpoint of the checker's closure conditions)

func bits(o oset) []int {
	var r []int
	for i := 0; i < 64; i++ {
		if o&(oset(1)<<uint(i)) != 0 {
			r = append(r, i)
		}
	}
	return r
}

func (g *fn) addVal(x int, o oset, r reason) bool {
	nw := o &^ g.val[x]
	if nw == 0 {
		return false
	}
	g.val[x] |= nw
	for _, b := range bits(nw) {
		if g.valWhy[x] == nil {
			g.valWhy[x] = map[int]reason{}
		}
		g.valWhy[x][b] = r
	}
	return true
}

func (g *fn) addWrites(o oset, si int, x int) bool {
	o = o.nonFresh()
	nw := o &^ g.writes
	if nw == 0 {
		return false
	}
	g.writes |= nw
	for _, b := range bits(nw) {
		g.writeWhy[b] = reason{si: si, fromVar: x, fromBit: -1}
	}
	return true
}

// sigma: translate a callee owner set into the caller through the arguments.
func (g *fn) sigma(o oset, args []int) oset {
	r := o & (oFresh | oGlobal)
	for j := range args {
		if o&oParam(j) != 0 {
			r |= g.val[args[j]]
		}
	}
	return r
}

func (g *fn) addSigma(x int, o oset, args []int, si int) bool {
	ch := false
	if o&oFresh != 0 {
		ch = g.addVal(x, oFresh, reason{si, -1, 0}) || ch
	}
	if o&oGlobal != 0 {
		ch = g.addVal(x, oGlobal, reason{si, -1, 1}) || ch
	}
	for j := range args {
		if o&oParam(j) != 0 {
			ch = g.addVal(x, g.val[args[j]], reason{si, args[j], 2 + j}) || ch
		}
	}
	return ch
}

func (g *fn) step() bool {
	ch := false
	for i := 0; i < g.nparams; i++ {
		ch = g.addVal(i, oParam(i), reason{-1, -1, -1}) || ch
	}
	for si := range g.body {
		s := &g.body[si]
		switch s.k {
		case KMake:
			ch = g.addVal(s.x, oFresh, reason{si, -1, -1}) || ch
		case KGlobal:
			ch = g.addVal(s.x, oGlobal, reason{si, -1, -1}) || ch
		case KAlias:
			for _, y := range s.ys {
				ch = g.addVal(s.x, g.val[y], reason{si, y, -1}) || ch
			}
		case KWrite, KSort, KCopy:
			ch = g.addWrites(g.val[s.x], si, s.x) || ch
		case KExempt:
		case KAppend:
			ch = g.addWrites(g.val[s.y], si, s.y) || ch
			ch = g.addVal(s.x, g.val[s.y], reason{si, s.y, -1}) || ch
			ch = g.addVal(s.x, oFresh, reason{si, -1, -1}) || ch
		case KCall:
			c := s.callee
			for j, a := range s.ys {
				if c.writes&oParam(j) != 0 {
					nw := g.val[a].nonFresh() &^ g.writes
					if nw != 0 {
						g.writes |= nw
						for _, b := range bits(nw) {
							g.writeWhy[b] = reason{si: si, fromVar: a, fromBit: 2 + j}
						}
						ch = true
					}
				}
			}
			if c.writes&oGlobal != 0 && g.writes&oGlobal == 0 {
				g.writes |= oGlobal
				g.writeWhy[1] = reason{si: si, fromVar: -1, fromBit: 1}
				ch = true
			}
			for k, r := range s.rets {
				if k < len(c.rets) {
					ch = g.addSigma(r, c.rets[k], s.ys, si) || ch
				}
			}
			for j, a := range s.ys {
				if j < c.nparams {
					ch = g.addSigma(a, c.val[j], s.ys, si) || ch
				}
			}
		case KRet:
			for k, x := range s.ys {
				nw := g.val[x] &^ g.rets[k]
				if nw != 0 {
					g.rets[k] |= nw
					ch = true
				}
			}
		}
	}
	return ch
}

// selfCheck mirrors the Coq checker (sanity only; Coq is the authority).
func (g *fn) selfCheck() error {
	sub := func(a, b oset) bool { return a&^b == 0 }
	writable := func(o oset) bool { return sub(o.nonFresh(), g.writes) }
	for i := 0; i < g.nparams; i++ {
		if g.val[i]&oParam(i) == 0 {
			return fmt.Errorf("param %d", i)
		}
	}
	for si, s := range g.body {
		ok := true
		switch s.k {
		case KMake:
			ok = g.val[s.x]&oFresh != 0
		case KGlobal:
			ok = g.val[s.x]&oGlobal != 0
		case KAlias:
			for _, y := range s.ys {
				ok = ok && sub(g.val[y], g.val[s.x])
			}
		case KWrite, KSort, KCopy:
			ok = writable(g.val[s.x])
		case KAppend:
			ok = writable(g.val[s.y]) && sub(g.val[s.y]|oFresh, g.val[s.x])
		case KCall:
			c := s.callee
			ok = len(s.ys) == c.nparams
			for j, a := range s.ys {
				if c.writes&oParam(j) != 0 {
					ok = ok && writable(g.val[a])
				}
				ok = ok && sub(g.sigma(c.val[j], s.ys), g.val[a])
			}
			if c.writes&oGlobal != 0 {
				ok = ok && g.writes&oGlobal != 0
			}
			for k, r := range s.rets {
				if k < len(c.rets) {
					ok = ok && sub(g.sigma(c.rets[k], s.ys), g.val[r])
				}
			}
		case KRet:
			for k, x := range s.ys {
				ok = ok && sub(g.val[x], g.rets[k])
			}
		}
		if !ok {
			return fmt.Errorf("statement %d (%s)", si, s.why)
		}
	}
	return nil
}

// ---------------------------------------------------------------------------
// explanation chains

func ownerName(b int) string {
	switch b {
	case 0:
		return "Fresh"
	case 1:
		return "Global"
	}
	return fmt.Sprintf("Param %d", b-2)
}

func (g *fn) paramName(i int) string {
	if i < g.nfree {
		return "freevar " + g.f.FreeVars[i].Name()
	}
	if i-g.nfree < len(g.f.Params) {
		return g.f.Params[i-g.nfree].Name()
	}
	return "?"
}

func (g *fn) stmtStr(si int) string {
	s := g.body[si]
	return fmt.Sprintf("[%s] %s   // %s", posStr(s.pos), g.coqStmt(s, true), s.why)
}

func (g *fn) explainVal(x int, b int, ind string, depth int, seen map[[2]int]bool) {
	if depth > 40 || seen[[2]int{x, b}] {
		return
	}
	seen[[2]int{x, b}] = true
	r, ok := g.valWhy[x][b]
	if !ok {
		return
	}
	if r.si < 0 {
		fmt.Printf("%s%s is parameter %d (%s) of %s\n", ind, g.vnames[x], x, g.paramName(x), g.name)
		return
	}
	fmt.Printf("%s%s may reference %s because %s\n", ind, g.vnames[x], ownerName(b), g.stmtStr(r.si))
	if r.fromVar >= 0 {
		g.explainVal(r.fromVar, b, ind, depth+1, seen)
	}
}

func (g *fn) explainWrite(b int, ind string, depth int, seenF map[string]bool) {
	key := fmt.Sprintf("%d/%d", g.id, b)
	if depth > 25 || seenF[key] {
		fmt.Printf("%s(see above: %s writes %s)\n", ind, g.name, ownerName(b))
		return
	}
	seenF[key] = true
	r, ok := g.writeWhy[b]
	if !ok {
		return
	}
	s := g.body[r.si]
	fmt.Printf("%s%s writes %s", ind, g.name, ownerName(b))
	if b >= 2 {
		fmt.Printf(" (%s)", g.paramName(b-2))
	}
	fmt.Printf(": %s\n", g.stmtStr(r.si))
	if r.fromVar >= 0 {
		g.explainVal(r.fromVar, b, ind+"    . ", 0, map[[2]int]bool{})
	}
	if s.k == KCall && r.fromBit >= 0 {
		s.callee.explainWrite(r.fromBit, ind+"  ", depth+1, seenF)
	}
}

// ---------------------------------------------------------------------------
// Coq output

func (g *fn) vn(x int, names bool) string {
	if names {
		return g.vnames[x]
	}
	return fmt.Sprint(x)
}

func (g *fn) vlist(xs []int, names bool) string {
	var p []string
	for _, x := range xs {
		p = append(p, g.vn(x, names))
	}
	return "[" + strings.Join(p, "; ") + "]"
}

func (g *fn) coqStmt(s stmt, names bool) string {
	switch s.k {
	case KMake:
		return "SMake " + g.vn(s.x, names)
	case KGlobal:
		return "SGlobal " + g.vn(s.x, names)
	case KAlias:
		return "SAlias " + g.vn(s.x, names) + " " + g.vlist(s.ys, names)
	case KWrite:
		return "SWrite " + g.vn(s.x, names)
	case KSort:
		return "SSort " + g.vn(s.x, names)
	case KCopy:
		return "SCopy " + g.vn(s.x, names) + " " + g.vn(s.y, names)
	case KAppend:
		return "SAppend " + g.vn(s.x, names) + " " + g.vn(s.y, names)
	case KCall:
		c := fmt.Sprint(s.callee.id)
		if names {
			c = "<" + s.callee.name + ">"
		}
		return "SCall " + g.vlist(s.rets, names) + " " + c + " " + g.vlist(s.ys, names)
	case KRet:
		return "SRet " + g.vlist(s.ys, names)
	case KExempt:
		if names {
			return "SWriteExempt " + g.vn(s.x, names) + " <tag>"
		}
		return "SWriteExempt " + g.vn(s.x, names) + " exempt_tag_0"
	}
	return "?"
}

func coqString(s string) string { return "\"" + strings.ReplaceAll(s, "\"", "\"\"") + "\"" }

func coqComment(s string) string {
	s = strings.ReplaceAll(s, "(*", "( *")
	s = strings.ReplaceAll(s, "*)", "* )")
	s = strings.ReplaceAll(s, "\"", "'")
	return s
}

func stmtKey(g *fn, s stmt) string { return g.coqStmt(s, false) }

func writeCoq(path string, repo string) {
	var sb strings.Builder
	w := func(f string, a ...interface{}) { fmt.Fprintf(&sb, f, a...) }
	w("(* GENERATED by /verif/tools/effscan from the SSA of package %s.  DO NOT EDIT.\n", pkgPath)
	w("   Regenerate: effscan -repo <dir> -out <this file>.\n")
	w("   %d functions. Owner sets and summaries are CLAIMS of the analyser; they are\n", len(fnList))
	w("   re-validated by SliceHeap.check_program (see Gen/EffIROk.v). *)\n")
	w("From Coq Require Import List String.\nFrom Utreexo Require Import Spec.SliceHeap.\nImport ListNotations.\nLocal Open Scope string_scope.\n\n")
	w("Definition exempt_tag_0 : string :=\n  %s.\n\n", coqString(exemptTag))
	// interned owner sets
	osetName := map[oset]string{}
	var osets []oset
	intern := func(o oset) string {
		if n, ok := osetName[o]; ok {
			return n
		}
		n := fmt.Sprintf("os%d", len(osets))
		osetName[o] = n
		osets = append(osets, o)
		return n
	}
	var body strings.Builder
	bw := func(f string, a ...interface{}) { fmt.Fprintf(&body, f, a...) }
	for _, g := range fnList {
		cm := g.name
		for i := 0; i < g.nparams; i++ {
			cm += fmt.Sprintf("  P%d=%s", i, g.paramName(i))
		}
		bw("(* %s *)\n", coqComment(cm))
		bw("Definition fn_%d : fn := {|\n  fname := %s;\n  nparams := %d;\n  body := [\n", g.id, coqString(g.name), g.nparams)
		seen := map[string]bool{}
		first := true
		for _, s := range g.body {
			k := stmtKey(g, s)
			if seen[k] {
				continue
			}
			seen[k] = true
			if !first {
				bw(";\n")
			}
			first = false
			bw("    %s", k)
		}
		bw("\n  ];\n  vals := [")
		for x := range g.val {
			if x > 0 {
				bw("; ")
			}
			bw("%s", intern(g.val[x]))
		}
		bw("];\n  writes := %s;\n  rets := [", intern(g.writes))
		for k, r := range g.rets {
			if k > 0 {
				bw("; ")
			}
			bw("%s", intern(r))
		}
		bw("]\n|}.\n\n")
	}
	for i, o := range osets {
		w("Definition os%d : list owner := %s.\n", i, o.coq())
	}
	w("\n")
	sb.WriteString(body.String())
	w("Definition eff_ir : program := [\n")
	for i, g := range fnList {
		if i > 0 {
			w(";\n")
		}
		w("  fn_%d", g.id)
	}
	w("\n].\n\n")
	w("(* Variable name tables (reports only; not used by the checker). *)\nDefinition eff_var_names : list (string * list string) := [\n")
	for i, g := range fnList {
		if i > 0 {
			w(";\n")
		}
		var ns []string
		for _, n := range g.vnames {
			ns = append(ns, coqString(n))
		}
		w("  (%s, [%s])", coqString(g.name), strings.Join(ns, "; "))
	}
	w("\n].\n\n")
	w("(* Entry points of property C17 with the indexes of their caller-owned\n   (non-receiver, reference-carrying) parameters. *)\nDefinition entry_points : list (string * list nat) := [\n")
	for i, e := range entryInfo() {
		if i > 0 {
			w(";\n")
		}
		var ix []string
		for _, j := range e.idx {
			ix = append(ix, fmt.Sprint(j))
		}
		w("  (%s, [%s]) (* %s *)", coqString(e.g.name), strings.Join(ix, "; "), coqComment(strings.Join(e.names, ", ")))
	}
	w("\n].\n\n")
	w("(* Receivers of the entry points that are methods (parameter 0). *)\nDefinition entry_receivers : list string := [\n")
	firstR := true
	for _, e := range entryInfo() {
		if e.g.f.Signature.Recv() != nil {
			if !firstR {
				w(";\n")
			}
			firstR = false
			w("  %s", coqString(e.g.name))
		}
	}
	w("\n].\n")
	if err := os.WriteFile(path, []byte(sb.String()), 0o644); err != nil {
		fatal("%v", err)
	}
}

type entry struct {
	g     *fn
	idx   []int
	names []string
}

func entryInfo() []entry {
	var r []entry
	for _, n := range entryNames {
		var g *fn
		for _, c := range fnList {
			if c.name == n {
				g = c
			}
		}
		if g == nil {
			fatal("entry point %s not found in the package", n)
		}
		e := entry{g: g}
		for i, p := range g.f.Params {
			if i == 0 && g.f.Signature.Recv() != nil {
				continue
			}
			if carrier(p.Type()) {
				e.idx = append(e.idx, g.nfree+i)
				e.names = append(e.names, fmt.Sprintf("%d=%s %s", g.nfree+i, p.Name(), types.TypeString(p.Type(), func(*types.Package) string { return "" })))
			}
		}
		r = append(r, e)
	}
	return r
}

// ---------------------------------------------------------------------------

func main() {
	repo := flag.String("repo", "/repo", "directory of the package to analyse")
	out := flag.String("out", "", "Coq file to write (Gen/EffIR.v)")
	explain := flag.Bool("explain", false, "print a witness chain for every dirty entry-point parameter")
	report := flag.Bool("report", false, "print all summaries")
	dump := flag.String("dump", "", "print the IR of the functions whose name contains this string")
	flag.Parse()

	cfg := &packages.Config{Mode: packages.LoadAllSyntax, Dir: *repo}
	pkgs, err := packages.Load(cfg, ".")
	if err != nil {
		fatal("%v", err)
	}
	if len(pkgs) != 1 || len(pkgs[0].Errors) > 0 {
		fatal("package load errors: %v", pkgs[0].Errors)
	}
	pkgPath = pkgs[0].PkgPath
	var spkgs []*ssa.Package
	prog, spkgs = ssautil.AllPackages(pkgs, ssa.InstantiateGenerics)
	prog.Build()
	for _, p := range spkgs {
		if p != nil && p.Pkg.Path() == pkgPath {
			pkg = p
		}
	}
	if pkg == nil {
		fatal("package not found")
	}

	// collect functions: members, methods (incl. wrappers), anonymous functions, instances
	all := map[*ssa.Function]bool{}
	var order []*ssa.Function
	var addFn func(f *ssa.Function)
	addFn = func(f *ssa.Function) {
		if f == nil || all[f] || f.Blocks == nil {
			return
		}
		if f.Synthetic == "package initializer" {
			return
		}
		all[f] = true
		order = append(order, f)
		for _, a := range f.AnonFuncs {
			addFn(a)
		}
	}
	var mnames []string
	for n := range pkg.Members {
		mnames = append(mnames, n)
	}
	sort.Strings(mnames)
	for _, n := range mnames {
		switch x := pkg.Members[n].(type) {
		case *ssa.Function:
			addFn(x)
		case *ssa.Type:
			for _, t := range []types.Type{x.Type(), types.NewPointer(x.Type())} {
				ms := prog.MethodSets.MethodSet(t)
				for i := 0; i < ms.Len(); i++ {
					addFn(prog.MethodValue(ms.At(i)))
				}
			}
		}
	}
	for ch := true; ch; {
		ch = false
		for _, f := range append([]*ssa.Function{}, order...) {
			for _, b := range f.Blocks {
				for _, in := range b.Instrs {
					for _, op := range in.Operands(nil) {
						if *op == nil {
							continue
						}
						if cal, ok := (*op).(*ssa.Function); ok && !all[cal] && cal.Blocks != nil {
							if cal.Pkg == pkg || (cal.Origin() != nil && cal.Origin().Pkg == pkg) {
								addFn(cal)
								ch = true
							}
						}
					}
				}
			}
		}
	}
	sort.SliceStable(order, func(i, j int) bool { return shortName(order[i]) < shortName(order[j]) })
	names := map[string]bool{}
	for i, f := range order {
		g := &fn{id: i, f: f, name: shortName(f), nfree: len(f.FreeVars), vars: map[vkey]int{}, dummy: -1, writeWhy: map[int]reason{}}
		if names[g.name] {
			fatal("duplicate function name %s", g.name)
		}
		names[g.name] = true
		g.nparams = g.nfree + len(f.Params)
		if g.nparams > 58 {
			fatal("too many parameters in %s", g.name)
		}
		for _, fv := range f.FreeVars {
			g.newVar("free:" + fv.Name())
		}
		for _, p := range f.Params {
			g.newVar(p.Name())
		}
		g.rets = make([]oset, f.Signature.Results().Len())
		fns[f] = g
		fnList = append(fnList, g)
	}
	// address-taken functions
	at := map[*ssa.Function]bool{}
	for _, g := range fnList {
		for _, b := range g.f.Blocks {
			for _, in := range b.Instrs {
				for _, op := range in.Operands(nil) {
					if *op == nil {
						continue
					}
					fv, ok := (*op).(*ssa.Function)
					if !ok {
						continue
					}
					if ci, ok := in.(ssa.CallInstruction); ok && ci.Common().Value == fv {
						continue
					}
					if !at[fv] && fns[fv] != nil {
						at[fv] = true
						addrTaken = append(addrTaken, fv)
					}
				}
			}
		}
	}
	sort.Slice(addrTaken, func(i, j int) bool { return shortName(addrTaken[i]) < shortName(addrTaken[j]) })

	// fmt may call these methods on its operands; the model only joins String()
	for _, g := range fnList {
		if g.f.Signature.Recv() != nil {
			switch g.f.Name() {
			case "Error", "Format", "GoString":
				fatal("package method %s: fmt would call it, which the primitive table does not model", g.name)
			}
		}
	}
	for _, g := range fnList {
		translate(g)
	}
	nst := 0
	for _, g := range fnList {
		g.val = make([]oset, len(g.vnames))
		g.valWhy = make([]map[int]reason, len(g.vnames))
		nst += len(g.body)
	}
	iters := 0
	for {
		iters++
		ch := false
		for _, g := range fnList {
			for g.step() {
				ch = true
			}
		}
		if !ch {
			break
		}
		if iters > 1000 {
			fatal("no fixpoint")
		}
	}
	for _, g := range fnList {
		if err := g.selfCheck(); err != nil {
			fatal("self-check failed in %s: %v", g.name, err)
		}
	}
	fmt.Printf("effscan: %d functions, %d IR statements, fixpoint after %d rounds\n", len(fnList), nst, iters)

	var ns []string
	for n := range notes {
		ns = append(ns, n)
	}
	sort.Strings(ns)
	for _, n := range ns {
		fmt.Println("note:", n)
	}

	// exemptions
	nex := 0
	for _, g := range fnList {
		for _, s := range g.body {
			if s.k == KExempt {
				nex++
				fmt.Printf("exemption: %s at %s: %s\n", g.name, posStr(s.pos), s.tag)
			}
		}
	}
	if nex != 1 {
		fmt.Printf("WARNING: expected exactly one exempt write, found %d\n", nex)
	}

	if *dump != "" {
		for _, g := range fnList {
			if strings.Contains(g.name, *dump) {
				fmt.Printf("== %s  writes=%s rets=%v\n", g.name, g.writes.short(), retsShort(g))
				for si := range g.body {
					fmt.Println("   ", g.stmtStr(si))
				}
				for x, n := range g.vnames {
					fmt.Printf("    var %d %s = %s\n", x, n, g.val[x].short())
				}
			}
		}
	}
	if *report {
		for _, g := range fnList {
			var ps []string
			for i := 0; i < g.nparams; i++ {
				ps = append(ps, fmt.Sprintf("P%d=%s%s", i, g.paramName(i), g.val[i].short()))
			}
			fmt.Printf("%-50s writes=%-14s rets=%v  params: %s\n", g.name, g.writes.short(), retsShort(g), strings.Join(ps, " "))
		}
	}

	// entry points
	dirty := 0
	for _, e := range entryInfo() {
		var bad []int
		for _, i := range e.idx {
			if e.g.writes&oParam(i) != 0 {
				bad = append(bad, i)
			}
		}
		status := "clean"
		if len(bad) > 0 {
			status = fmt.Sprintf("DIRTY %v", bad)
			dirty++
		}
		retain := ""
		if e.g.f.Signature.Recv() != nil {
			for _, i := range e.idx {
				if e.g.val[0]&oParam(i) != 0 {
					retain += fmt.Sprintf(" receiver-may-retain-P%d", i)
				}
			}
		}
		if !resultsDetached(e) {
			retain += " results-not-provably-detached"
		}
		fmt.Printf("entry %-40s %-12s writes=%s rets=%v%s\n", e.g.name, status, e.g.writes.short(), retsShort(e.g), retain)
		if *explain {
			for _, i := range bad {
				fmt.Printf("  witness for parameter %d (%s):\n", i, e.g.paramName(i))
				e.g.explainWrite(2+i, "    ", 0, map[string]bool{})
			}
		}
	}
	for _, g := range fnList {
		if g.name == "GetMissingPositions" {
			fmt.Printf("stand-alone GetMissingPositions writes=%s (parameter 2 = desiredTargets written: %v)\n", g.writes.short(), g.writes&oParam(2) != 0)
			if *explain {
				g.explainWrite(2+2, "    ", 0, map[string]bool{})
			}
		}
	}
	if *out != "" {
		writeCoq(*out, *repo)
		fmt.Println("wrote", *out)
	}
	if dirty > 0 {
		fmt.Printf("effscan: %d entry point(s) DIRTY\n", dirty)
		os.Exit(1)
	}
}

// resultsDetached mirrors SliceHeap.fn_results_detached_b.
func resultsDetached(e entry) bool {
	hasRecv := e.g.f.Signature.Recv() != nil
	var allowed oset = oFresh
	for _, i := range e.idx {
		allowed |= oParam(i)
	}
	for _, r := range e.g.rets {
		if r&^allowed != 0 {
			return false
		}
		if r&oFresh != 0 && hasRecv && e.g.val[0]&oFresh != 0 {
			return false
		}
	}
	return true
}

func retsShort(g *fn) []string {
	var r []string
	for _, o := range g.rets {
		r = append(r, o.short())
	}
	return r
}
