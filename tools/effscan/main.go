package main

import (
	"fmt"

	"golang.org/x/tools/go/packages"
	"golang.org/x/tools/go/ssa"
	"golang.org/x/tools/go/ssa/ssautil"
)

func main() {
	cfg := &packages.Config{Mode: packages.LoadAllSyntax, Dir: "/repo"}
	pkgs, err := packages.Load(cfg, ".")
	if err != nil {
		panic(err)
	}
	prog, _ := ssautil.AllPackages(pkgs, ssa.InstantiateGenerics)
	prog.Build()
	fmt.Println(len(pkgs))
}
