// lockscan extracts the locking discipline of the type MapPollard from the Go source of package
// utreexo and prints it as a Coq table (list method_row, see Spec/LockProto.v).
//
// Standard library only.  The package is type-checked with go/types and an importer that returns
// empty packages, so that everything declared in the package itself (the struct, its fields, the
// methods, the local interfaces) is resolved exactly while imported packages are opaque.
//
// See README.md for what is recognised and what is assumed.
package main

import (
	"bytes"
	"flag"
	"fmt"
	"go/ast"
	"go/parser"
	"go/token"
	"go/types"
	"os"
	"path/filepath"
	"sort"
	"strings"
)

// ---------------------------------------------------------------------------------------------
// configuration

const (
	subjectType = "MapPollard"
	lockField   = "rwLock"
)

// guarded fields, in the order used for printing.
var guardedFields = []struct {
	goName, coqName string
}{
	{"Nodes", "FNodes"},
	{"CachedLeaves", "FCached"},
	{"NumLeaves", "FNumLeaves"},
	{"TotalRows", "FTotalRows"},
}

// fields that are set by the constructors only.
var immutableFields = []string{"Full", lockField}

// methods of the two storage interfaces.
var storeReads = map[string]bool{"Get": true, "Length": true, "ForEach": true}
var storeWrites = map[string]bool{"Put": true, "Delete": true}

type fieldSet uint8

const fAll fieldSet = 1<<4 - 1

func fieldBit(goName string) fieldSet {
	for i, f := range guardedFields {
		if f.goName == goName {
			return 1 << uint(i)
		}
	}
	return 0
}

func (s fieldSet) coq() string {
	var parts []string
	for i, f := range guardedFields {
		if s&(1<<uint(i)) != 0 {
			parts = append(parts, f.coqName)
		}
	}
	return "[" + strings.Join(parts, "; ") + "]"
}

func (s fieldSet) String() string {
	var parts []string
	for i, f := range guardedFields {
		if s&(1<<uint(i)) != 0 {
			parts = append(parts, f.goName)
		}
	}
	return "{" + strings.Join(parts, ", ") + "}"
}

type effects struct {
	reads, writes fieldSet
	imm           bool // writes Full / rwLock
}

func (e *effects) add(o effects) bool {
	old := *e
	e.reads |= o.reads
	e.writes |= o.writes
	e.imm = e.imm || o.imm
	return *e != old
}

type lockMode int

const (
	mNone lockMode = iota
	mR
	mW
)

func (m lockMode) coq() string {
	switch m {
	case mR:
		return "(Some MR)"
	case mW:
		return "(Some MW)"
	}
	return "None"
}

func (m lockMode) String() string {
	switch m {
	case mR:
		return "RLock"
	case mW:
		return "Lock"
	}
	return "none"
}

// ---------------------------------------------------------------------------------------------
// data

// segment collects what a group of statements does directly.
type segment struct {
	eff   effects
	calls map[*types.Func]token.Pos
}

func newSegment() *segment { return &segment{calls: map[*types.Func]token.Pos{}} }

type fn struct {
	obj         *types.Func
	decl        *ast.FuncDecl
	name        string
	isMethod    bool // method of MapPollard
	takesMP     bool // package-level function with a MapPollard parameter
	constructor bool
	exported    bool
	subjects    []*types.Var
	valueCopy   bool // receiver/parameter of type MapPollard (not pointer): the call copies the struct

	lock      lockMode
	deferred  bool
	lockCalls int  // Lock/RLock calls anywhere in the body
	irregular bool // lock calls that do not fit the recognised pattern
	assumed   bool // -assume-rlock

	pre, post *segment

	// fixpoint results
	preTot, postTot effects
	immTot          bool
	callsLocking    bool
}

func (f *fn) takesLock() bool { return f.lockCalls > 0 || f.irregular }
func (f *fn) regular() bool   { return f.lock != mNone && f.deferred }

// exposed is what a caller experiences outside of any lock that f takes itself.
func (f *fn) exposed() effects {
	if f.constructor {
		return effects{}
	}
	e := f.preTot
	if !f.regular() {
		e.add(f.postTot)
	}
	e.imm = false
	return e
}

// row is what is printed.
type row struct {
	name                    string
	lock                    lockMode
	deferred                bool
	reads, writes           fieldSet
	callsLocking, writesImm bool
	exported, excluded      bool
	preReads, preWrites     fieldSet
	pos                     token.Position
}

type options struct {
	assumeRLock map[string]bool
	excluded    map[string]bool
}

type result struct {
	rows         []row
	constructors []string
	helpers      []string // other package functions from which MapPollard methods are reachable
	warnings     []string
	errors       []string // unsupported constructs: the table is not trustworthy
}

// ---------------------------------------------------------------------------------------------
// loading

type fakeImporter struct{ pkgs map[string]*types.Package }

func (im *fakeImporter) Import(path string) (*types.Package, error) {
	if p, ok := im.pkgs[path]; ok {
		return p, nil
	}
	name := path
	if i := strings.LastIndex(name, "/"); i >= 0 {
		name = name[i+1:]
	}
	p := types.NewPackage(path, name)
	p.MarkComplete()
	im.pkgs[path] = p
	return p, nil
}

// hasBuildConstraint reports whether the file has a //go:build or // +build line before the
// package clause.
func hasBuildConstraint(src []byte) bool {
	for _, line := range strings.Split(string(src), "\n") {
		t := strings.TrimSpace(line)
		if strings.HasPrefix(t, "package ") {
			return false
		}
		if strings.HasPrefix(t, "//go:build") || strings.HasPrefix(t, "// +build") {
			return true
		}
	}
	return false
}

func readRepo(dir string) (map[string][]byte, error) {
	ents, err := os.ReadDir(dir)
	if err != nil {
		return nil, err
	}
	srcs := map[string][]byte{}
	for _, e := range ents {
		n := e.Name()
		if e.IsDir() || !strings.HasSuffix(n, ".go") || strings.HasSuffix(n, "_test.go") {
			continue
		}
		b, err := os.ReadFile(filepath.Join(dir, n))
		if err != nil {
			return nil, err
		}
		if hasBuildConstraint(b) {
			continue
		}
		srcs[n] = b
	}
	return srcs, nil
}

// ---------------------------------------------------------------------------------------------
// analysis

type analysis struct {
	fset *token.FileSet
	info *types.Info
	pkg  *types.Package
	opts options

	mp        *types.Named
	guarded   map[*types.Var]fieldSet
	immutable map[*types.Var]bool
	rwLock    *types.Var

	fns         map[*types.Func]*fn
	order       []*fn
	typeMethods map[string]map[string]*types.Func // concrete type name -> method name -> func

	res result
}

func (a *analysis) errorf(pos token.Pos, format string, args ...interface{}) {
	a.res.errors = append(a.res.errors, fmt.Sprintf("%s: %s", a.fset.Position(pos), fmt.Sprintf(format, args...)))
}

func (a *analysis) warnf(pos token.Pos, format string, args ...interface{}) {
	a.res.warnings = append(a.res.warnings, fmt.Sprintf("%s: %s", a.fset.Position(pos), fmt.Sprintf(format, args...)))
}

func analyze(srcs map[string][]byte, pkgName string, opts options) (*result, error) {
	a := &analysis{
		fset:        token.NewFileSet(),
		opts:        opts,
		guarded:     map[*types.Var]fieldSet{},
		immutable:   map[*types.Var]bool{},
		fns:         map[*types.Func]*fn{},
		typeMethods: map[string]map[string]*types.Func{},
	}
	var names []string
	for n := range srcs {
		names = append(names, n)
	}
	sort.Strings(names)
	var files []*ast.File
	for _, n := range names {
		f, err := parser.ParseFile(a.fset, n, srcs[n], parser.SkipObjectResolution)
		if err != nil {
			return nil, err
		}
		if f.Name.Name != pkgName {
			continue
		}
		files = append(files, f)
	}
	if len(files) == 0 {
		return nil, fmt.Errorf("no source files of package %s", pkgName)
	}
	a.info = &types.Info{
		Types:      map[ast.Expr]types.TypeAndValue{},
		Defs:       map[*ast.Ident]types.Object{},
		Uses:       map[*ast.Ident]types.Object{},
		Selections: map[*ast.SelectorExpr]*types.Selection{},
	}
	conf := types.Config{
		Importer: &fakeImporter{pkgs: map[string]*types.Package{}},
		Error:    func(error) {}, // imported packages are opaque: errors about them are expected
	}
	a.pkg, _ = conf.Check(pkgName, a.fset, files, a.info)
	if a.pkg == nil {
		return nil, fmt.Errorf("type checking produced no package")
	}

	// the subject type and its fields
	tn, _ := a.pkg.Scope().Lookup(subjectType).(*types.TypeName)
	if tn == nil {
		return nil, fmt.Errorf("type %s not found", subjectType)
	}
	a.mp, _ = tn.Type().(*types.Named)
	st, _ := tn.Type().Underlying().(*types.Struct)
	if a.mp == nil || st == nil {
		return nil, fmt.Errorf("%s is not a named struct type", subjectType)
	}
	seen := map[string]bool{}
	for i := 0; i < st.NumFields(); i++ {
		f := st.Field(i)
		seen[f.Name()] = true
		if b := fieldBit(f.Name()); b != 0 {
			a.guarded[f] = b
			continue
		}
		isImm := false
		for _, n := range immutableFields {
			if f.Name() == n {
				isImm = true
			}
		}
		if !isImm {
			return nil, fmt.Errorf("%s: field %s.%s is neither in the guarded list nor in the immutable list; extend lockscan and Spec/LockProto.v",
				a.fset.Position(f.Pos()), subjectType, f.Name())
		}
		a.immutable[f] = true
		if f.Name() == lockField {
			a.rwLock = f
		}
	}
	for _, g := range guardedFields {
		if !seen[g.goName] {
			return nil, fmt.Errorf("guarded field %s.%s not found", subjectType, g.goName)
		}
	}
	if a.rwLock == nil {
		return nil, fmt.Errorf("lock field %s.%s not found", subjectType, lockField)
	}

	// functions
	for _, f := range files {
		for _, d := range f.Decls {
			fd, ok := d.(*ast.FuncDecl)
			if !ok {
				continue
			}
			obj, _ := a.info.Defs[fd.Name].(*types.Func)
			if obj == nil {
				continue
			}
			a.addFunc(fd, obj)
		}
	}
	for _, f := range a.order {
		a.scanBody(f)
	}
	a.fixpoint()
	a.emit()
	return &a.res, nil
}

// isMP reports whether t is MapPollard (ptr=false) or *MapPollard (ptr=true).
func (a *analysis) isMP(t types.Type) (ok, ptr bool) {
	if t == nil {
		return false, false
	}
	if p, isPtr := t.(*types.Pointer); isPtr {
		if n, isNamed := p.Elem().(*types.Named); isNamed && n.Obj() == a.mp.Obj() {
			return true, true
		}
		return false, false
	}
	if n, isNamed := t.(*types.Named); isNamed && n.Obj() == a.mp.Obj() {
		return true, false
	}
	return false, false
}

func recvTypeName(t types.Type) string {
	if p, ok := t.(*types.Pointer); ok {
		t = p.Elem()
	}
	if n, ok := t.(*types.Named); ok {
		return n.Obj().Name()
	}
	return ""
}

func (a *analysis) addFunc(fd *ast.FuncDecl, obj *types.Func) {
	sig := obj.Type().(*types.Signature)
	f := &fn{obj: obj, decl: fd, name: fd.Name.Name, pre: newSegment(), post: newSegment()}
	if r := sig.Recv(); r != nil {
		tnm := recvTypeName(r.Type())
		if tnm != "" {
			if a.typeMethods[tnm] == nil {
				a.typeMethods[tnm] = map[string]*types.Func{}
			}
			if _, isIface := r.Type().Underlying().(*types.Interface); !isIface {
				a.typeMethods[tnm][f.name] = obj
			}
		}
		if ok, ptr := a.isMP(r.Type()); ok {
			f.isMethod = true
			f.exported = ast.IsExported(f.name)
			if r.Name() != "" && r.Name() != "_" {
				f.subjects = append(f.subjects, r)
			}
			if !ptr {
				f.valueCopy = true
			}
		}
	}
	for i := 0; i < sig.Params().Len(); i++ {
		p := sig.Params().At(i)
		if ok, ptr := a.isMP(p.Type()); ok {
			if !f.isMethod {
				f.takesMP = true
				f.exported = ast.IsExported(f.name)
			}
			if p.Name() != "" && p.Name() != "_" {
				f.subjects = append(f.subjects, p)
			}
			if !ptr {
				f.valueCopy = true
			}
		}
	}
	if sig.Recv() == nil && !f.takesMP {
		for i := 0; i < sig.Results().Len(); i++ {
			if ok, _ := a.isMP(sig.Results().At(i).Type()); ok {
				f.constructor = true
			}
		}
	}
	if f.takesMP && !f.isMethod {
		f.name = "func " + f.name
	}
	if sig.Recv() != nil && !f.isMethod {
		f.name = recvTypeName(sig.Recv().Type()) + "." + f.name
	}
	a.fns[obj] = f
	a.order = append(a.order, f)
}

func unparen(e ast.Expr) ast.Expr {
	for {
		p, ok := e.(*ast.ParenExpr)
		if !ok {
			return e
		}
		e = p.X
	}
}

// trackedField returns the field of MapPollard selected by sel, or nil.
func (a *analysis) trackedField(sel *ast.SelectorExpr) *types.Var {
	s := a.info.Selections[sel]
	if s == nil || s.Kind() != types.FieldVal {
		return nil
	}
	v, _ := s.Obj().(*types.Var)
	if v == nil {
		return nil
	}
	if _, ok := a.guarded[v]; ok {
		return v
	}
	if a.immutable[v] {
		return v
	}
	return nil
}

// pathField walks down an access path (x.f[i].g, *p, x.(T) ...) and returns the first selector of
// a tracked field on it.
func (a *analysis) pathField(e ast.Expr) *ast.SelectorExpr {
	for {
		switch x := e.(type) {
		case *ast.ParenExpr:
			e = x.X
		case *ast.SelectorExpr:
			if a.trackedField(x) != nil {
				return x
			}
			e = x.X
		case *ast.IndexExpr:
			e = x.X
		case *ast.SliceExpr:
			e = x.X
		case *ast.StarExpr:
			e = x.X
		case *ast.TypeAssertExpr:
			e = x.X
		default:
			return nil
		}
	}
}

// lockCall recognises <subject>.rwLock.<Lock|RLock|Unlock|RUnlock>().
func (a *analysis) lockCall(e ast.Expr) (name string, inner *ast.SelectorExpr, ok bool) {
	call, isCall := unparen(e).(*ast.CallExpr)
	if !isCall || len(call.Args) != 0 {
		return "", nil, false
	}
	outer, isSel := unparen(call.Fun).(*ast.SelectorExpr)
	if !isSel {
		return "", nil, false
	}
	inner, isSel = unparen(outer.X).(*ast.SelectorExpr)
	if !isSel || a.trackedField(inner) != a.rwLock {
		return "", nil, false
	}
	switch outer.Sel.Name {
	case "Lock", "RLock", "Unlock", "RUnlock":
		return outer.Sel.Name, inner, true
	}
	return "", nil, false
}

type scanner struct {
	a        *analysis
	f        *fn
	seg      *segment
	consumed map[ast.Node]bool
}

func (s *scanner) isSubject(e ast.Expr) bool {
	id, ok := unparen(e).(*ast.Ident)
	if !ok {
		return false
	}
	obj := s.a.info.Uses[id]
	for _, v := range s.f.subjects {
		if obj == v {
			return true
		}
	}
	return false
}

// subjectLike: m, &m, *m
func (s *scanner) subjectLike(e ast.Expr) (*ast.Ident, bool) {
	e = unparen(e)
	switch x := e.(type) {
	case *ast.UnaryExpr:
		if x.Op == token.AND {
			e = unparen(x.X)
		}
	case *ast.StarExpr:
		e = unparen(x.X)
	}
	if s.isSubject(e) {
		return e.(*ast.Ident), true
	}
	return nil, false
}

// checkBase verifies that the tracked field is selected from the subject variable itself.
func (s *scanner) checkBase(sel *ast.SelectorExpr) {
	if s.f.constructor {
		return
	}
	if s.isSubject(sel.X) {
		s.consumed[unparen(sel.X)] = true
		return
	}
	s.a.errorf(sel.Pos(), "in %s: field %s.%s is reached through an expression that is not the receiver/parameter variable; not supported",
		s.f.name, subjectType, sel.Sel.Name)
}

func (s *scanner) write(sel *ast.SelectorExpr) {
	v := s.a.trackedField(sel)
	s.consumed[sel] = true
	s.checkBase(sel)
	if s.a.immutable[v] {
		s.seg.eff.imm = true
		return
	}
	s.seg.eff.writes |= s.a.guarded[v]
}

func (s *scanner) lvalue(e ast.Expr) {
	if e == nil {
		return
	}
	if sel := s.a.pathField(e); sel != nil {
		s.write(sel)
		return
	}
	// *m = ...
	if st, ok := unparen(e).(*ast.StarExpr); ok && s.isSubject(st.X) {
		s.consumed[unparen(st.X)] = true
		s.consumed[st] = true
		s.seg.eff.writes |= fAll
		s.seg.eff.imm = true
		return
	}
	// m = ... (re-binding the subject variable)
	if s.isSubject(e) && !s.f.constructor {
		s.a.errorf(e.Pos(), "in %s: the receiver/parameter variable is assigned; not supported", s.f.name)
	}
}

func (s *scanner) addCall(callee *types.Func, pos token.Pos) {
	if callee == nil || callee.Pkg() != s.a.pkg {
		return
	}
	if _, ok := s.a.fns[callee]; !ok {
		return // e.g. method of an interface type declared in the package
	}
	if _, ok := s.seg.calls[callee]; !ok {
		s.seg.calls[callee] = pos
	}
}

// dynamicTargets resolves a call of method name on a value of the interface type it: every
// concrete type of the package that has (by name) all methods of the interface.
func (s *scanner) dynamicTargets(it *types.Interface, name string) []*types.Func {
	var out []*types.Func
	var tnames []string
	for tn := range s.a.typeMethods {
		tnames = append(tnames, tn)
	}
	sort.Strings(tnames)
	for _, tn := range tnames {
		ms := s.a.typeMethods[tn]
		all := it.NumMethods() > 0
		for i := 0; i < it.NumMethods(); i++ {
			if _, ok := ms[it.Method(i).Name()]; !ok {
				all = false
				break
			}
		}
		if all {
			if m, ok := ms[name]; ok {
				out = append(out, m)
			}
		}
	}
	return out
}

// scan walks n and records, in s.seg, the effects and the calls.
func (s *scanner) scan(n ast.Node) {
	if n == nil {
		return
	}
	a := s.a
	// pass 1: contexts that decide how a selector is classified
	ast.Inspect(n, func(n ast.Node) bool {
		switch x := n.(type) {
		case *ast.GoStmt:
			if s.mentionsSubjectOrFields(x) && !s.f.constructor {
				a.errorf(x.Pos(), "in %s: go statement that uses the %s; not supported", s.f.name, subjectType)
			}
		case *ast.AssignStmt:
			if x.Tok != token.DEFINE {
				for _, l := range x.Lhs {
					s.lvalue(l)
				}
			}
		case *ast.IncDecStmt:
			s.lvalue(x.X)
		case *ast.RangeStmt:
			if x.Tok == token.ASSIGN {
				s.lvalue(x.Key)
				s.lvalue(x.Value)
			}
		case *ast.UnaryExpr:
			if x.Op == token.AND {
				if sel := a.pathField(x.X); sel != nil {
					v := a.trackedField(sel)
					s.consumed[sel] = true
					s.checkBase(sel)
					if a.immutable[v] {
						if v == a.rwLock {
							s.f.irregular = true
						}
						s.seg.eff.imm = true
					} else {
						s.seg.eff.reads |= a.guarded[v]
						s.seg.eff.writes |= a.guarded[v]
					}
					a.warnf(x.Pos(), "in %s: address of %s.%s taken; counted as read and write", s.f.name, subjectType, sel.Sel.Name)
				}
			}
		case *ast.CallExpr:
			if name, inner, ok := a.lockCall(x); ok {
				s.consumed[inner] = true
				s.checkBase(inner)
				_ = name
				return true
			}
			fun, isSel := unparen(x.Fun).(*ast.SelectorExpr)
			if !isSel {
				return true
			}
			// m.Nodes.Get(...) etc.
			if inner, ok := unparen(fun.X).(*ast.SelectorExpr); ok {
				if v := a.trackedField(inner); v != nil {
					if bit, isG := a.guarded[v]; isG && (v.Name() == "Nodes" || v.Name() == "CachedLeaves") {
						s.consumed[inner] = true
						s.checkBase(inner)
						switch {
						case storeReads[fun.Sel.Name]:
							s.seg.eff.reads |= bit
						case storeWrites[fun.Sel.Name]:
							s.seg.eff.writes |= bit
						default:
							s.seg.eff.reads |= bit
							s.seg.eff.writes |= bit
							a.warnf(x.Pos(), "in %s: unknown method %s on %s.%s; counted as read and write", s.f.name, fun.Sel.Name, subjectType, v.Name())
						}
					}
				}
			}
		}
		return true
	})
	// pass 2: everything else
	ast.Inspect(n, func(n ast.Node) bool {
		switch x := n.(type) {
		case *ast.SelectorExpr:
			if v := a.trackedField(x); v != nil {
				if !s.consumed[x] {
					s.consumed[x] = true
					s.checkBase(x)
					switch {
					case v == a.rwLock:
						// a use of the lock other than the four recognised calls
						s.f.irregular = true
						a.warnf(x.Pos(), "in %s: use of %s.%s outside Lock/RLock/Unlock/RUnlock calls; the row is marked irregular", s.f.name, subjectType, lockField)
					case a.immutable[v]:
						// read of an immutable field: no effect
					case v.Name() == "Nodes" || v.Name() == "CachedLeaves":
						s.seg.eff.reads |= a.guarded[v]
						s.seg.eff.writes |= a.guarded[v]
						a.warnf(x.Pos(), "in %s: %s.%s used as a value; counted as read and write", s.f.name, subjectType, v.Name())
					default:
						s.seg.eff.reads |= a.guarded[v]
					}
				}
				return true
			}
			if sel := a.info.Selections[x]; sel != nil && (sel.Kind() == types.MethodVal || sel.Kind() == types.MethodExpr) {
				callee, _ := sel.Obj().(*types.Func)
				if it, isIface := sel.Recv().Underlying().(*types.Interface); isIface {
					for _, t := range s.dynamicTargets(it, x.Sel.Name) {
						s.addCall(t, x.Pos())
					}
					return true
				}
				s.addCall(callee, x.Pos())
				// a method of MapPollard must be called on the subject itself
				if callee != nil {
					if cf := a.fns[callee]; cf != nil && cf.isMethod && !s.f.constructor {
						if s.isSubject(x.X) {
							s.consumed[unparen(x.X)] = true
						} else {
							a.errorf(x.Pos(), "in %s: method %s.%s is called on an expression that is not the receiver/parameter variable; not supported",
								s.f.name, subjectType, x.Sel.Name)
						}
					}
				}
			}
		case *ast.Ident:
			if callee, ok := a.info.Uses[x].(*types.Func); ok {
				s.addCall(callee, x.Pos())
			}
		case *ast.CallExpr:
			if id, ok := unparen(x.Fun).(*ast.Ident); ok && a.info.Uses[id] == nil && a.info.Defs[id] == nil {
				a.warnf(x.Pos(), "in %s: call of %s, which is not declared in the files read (a file with a build constraint?); assumed not to touch the %s",
					s.f.name, id.Name, subjectType)
			}
			s.args(x)
		case *ast.StarExpr:
			// *m as a value: copies the whole struct
			if s.isSubject(x.X) && !s.consumed[x] {
				s.consumed[unparen(x.X)] = true
				s.seg.eff.reads |= fAll
			}
		}
		return true
	})
	// pass 3: any other mention of the subject variable is an alias we cannot follow
	if !s.f.constructor {
		ast.Inspect(n, func(n ast.Node) bool {
			if id, ok := n.(*ast.Ident); ok && s.isSubject(id) && !s.consumed[id] {
				a.errorf(id.Pos(), "in %s: the %s variable %s is used in a way that is not recognised (alias, return, comparison, ...); not supported",
					s.f.name, subjectType, id.Name)
				s.consumed[id] = true
			}
			return true
		})
	}
}

func (s *scanner) mentionsSubjectOrFields(n ast.Node) bool {
	found := false
	ast.Inspect(n, func(n ast.Node) bool {
		switch x := n.(type) {
		case *ast.Ident:
			if s.isSubject(x) {
				found = true
			}
		case *ast.SelectorExpr:
			if s.a.trackedField(x) != nil {
				found = true
			}
		}
		return !found
	})
	return found
}

// args handles the subject being passed as an argument.
func (s *scanner) args(call *ast.CallExpr) {
	a := s.a
	if s.f.constructor {
		return
	}
	internal := false
	switch fun := unparen(call.Fun).(type) {
	case *ast.Ident:
		if callee, ok := a.info.Uses[fun].(*types.Func); ok && callee.Pkg() == a.pkg {
			internal = true
		}
		if _, isType := a.info.Uses[fun].(*types.TypeName); isType {
			// conversion T(m): an alias
			return
		}
	case *ast.SelectorExpr:
		if sel := a.info.Selections[fun]; sel != nil && sel.Kind() == types.MethodVal {
			if callee, _ := sel.Obj().(*types.Func); callee != nil && callee.Pkg() == a.pkg {
				internal = true
			}
		}
	}
	for _, arg := range call.Args {
		id, ok := s.subjectLike(arg)
		if !ok {
			continue
		}
		s.consumed[id] = true
		if st, isStar := unparen(arg).(*ast.StarExpr); isStar {
			s.consumed[st] = true
			s.seg.eff.reads |= fAll
		}
		if !internal {
			// reflection (fmt, ...) can read every field
			s.seg.eff.reads |= fAll
			a.warnf(arg.Pos(), "in %s: the %s is passed to a function outside the package (or through a function value); counted as a read of all guarded fields", s.f.name, subjectType)
		}
	}
}

func (a *analysis) scanBody(f *fn) {
	if f.decl.Body == nil {
		return
	}
	if len(f.subjects) > 1 && !f.constructor {
		a.errorf(f.decl.Pos(), "%s has more than one %s receiver/parameter; not supported", f.name, subjectType)
	}
	stmts := f.decl.Body.List
	s := &scanner{a: a, f: f, consumed: map[ast.Node]bool{}}

	// lock statement at the top level of the body
	lockIdx := -1
	for i, st := range stmts {
		es, ok := st.(*ast.ExprStmt)
		if !ok {
			continue
		}
		if name, _, ok := a.lockCall(es.X); ok && (name == "Lock" || name == "RLock") {
			lockIdx = i
			if name == "Lock" {
				f.lock = mW
			} else {
				f.lock = mR
			}
			break
		}
	}
	// all lock/unlock calls in the body
	nLock, nUnlock := 0, 0
	ast.Inspect(f.decl.Body, func(n ast.Node) bool {
		if e, ok := n.(ast.Expr); ok {
			if name, _, ok := a.lockCall(e); ok {
				if _, isCall := e.(*ast.CallExpr); isCall {
					if name == "Lock" || name == "RLock" {
						nLock++
					} else {
						nUnlock++
					}
				}
			}
		}
		return true
	})
	f.lockCalls = nLock
	matching := false
	if lockIdx >= 0 && lockIdx+1 < len(stmts) {
		if ds, ok := stmts[lockIdx+1].(*ast.DeferStmt); ok {
			if name, _, ok := a.lockCall(ds.Call); ok {
				matching = (f.lock == mW && name == "Unlock") || (f.lock == mR && name == "RUnlock")
			}
		}
	}
	f.deferred = lockIdx >= 0 && matching && nLock == 1 && nUnlock == 1
	if lockIdx < 0 && (nLock > 0 || nUnlock > 0) {
		f.irregular = true
		a.warnf(f.decl.Pos(), "%s calls Lock/RLock/Unlock/RUnlock but not as a statement at the top level of its body; the row is marked irregular", f.name)
	}

	if f.valueCopy {
		// the call copies the struct before anything in the body runs
		if lockIdx >= 0 {
			f.pre.eff.reads |= fAll
		} else {
			f.post.eff.reads |= fAll
		}
	}
	for i, st := range stmts {
		if lockIdx >= 0 && i < lockIdx {
			s.seg = f.pre
		} else {
			s.seg = f.post
		}
		s.scan(st)
	}

	if a.opts.assumeRLock[f.name] && f.isMethod {
		if f.lock != mNone {
			a.warnf(f.decl.Pos(), "-assume-rlock %s: the method already takes the lock (%v); its row is overridden anyway", f.name, f.lock)
		}
		f.assumed = true
		f.lock = mR
		f.deferred = true
		f.lockCalls = 1
		f.irregular = false
		f.post.eff.add(f.pre.eff)
		for c, p := range f.pre.calls {
			if _, ok := f.post.calls[c]; !ok {
				f.post.calls[c] = p
			}
		}
		f.pre = newSegment()
	}
}

func (a *analysis) fixpoint() {
	for changed := true; changed; {
		changed = false
		for _, f := range a.order {
			if f.constructor {
				continue
			}
			pre, post := f.pre.eff, f.post.eff
			imm := pre.imm || post.imm
			cl := f.irregular
			for _, seg := range []*segment{f.pre, f.post} {
				for c := range seg.calls {
					g := a.fns[c]
					if g == nil || g.constructor {
						continue
					}
					if seg == f.pre {
						pre.add(g.exposed())
					} else {
						post.add(g.exposed())
					}
					imm = imm || g.immTot
					cl = cl || g.takesLock() || g.callsLocking
				}
			}
			if f.preTot.add(pre) {
				changed = true
			}
			if f.postTot.add(post) {
				changed = true
			}
			if imm && !f.immTot {
				f.immTot, changed = true, true
			}
			if cl && !f.callsLocking {
				f.callsLocking, changed = true, true
			}
		}
	}
}

// reachesSubject: does f (transitively) call a method of MapPollard?
func (a *analysis) reachesSubject(f *fn, seen map[*fn]bool) bool {
	if seen[f] {
		return false
	}
	seen[f] = true
	for _, seg := range []*segment{f.pre, f.post} {
		for c := range seg.calls {
			g := a.fns[c]
			if g == nil {
				continue
			}
			if g.isMethod || g.takesMP || a.reachesSubject(g, seen) {
				return true
			}
		}
	}
	return false
}

func (a *analysis) emit() {
	for _, f := range a.order {
		switch {
		case f.constructor:
			a.res.constructors = append(a.res.constructors, f.name)
		case f.isMethod || f.takesMP:
			r := row{
				name:         f.name,
				lock:         f.lock,
				deferred:     f.deferred,
				reads:        f.preTot.reads | f.postTot.reads,
				writes:       f.preTot.writes | f.postTot.writes,
				callsLocking: f.callsLocking,
				writesImm:    f.immTot,
				exported:     f.exported,
				excluded:     a.opts.excluded[f.name],
				preReads:     f.preTot.reads,
				preWrites:    f.preTot.writes,
				pos:          a.fset.Position(f.decl.Pos()),
			}
			a.res.rows = append(a.res.rows, r)
		default:
			if a.reachesSubject(f, map[*fn]bool{}) {
				a.res.helpers = append(a.res.helpers, f.name)
			}
		}
	}
	sort.Slice(a.res.rows, func(i, j int) bool { return a.res.rows[i].name < a.res.rows[j].name })
	sort.Strings(a.res.constructors)
	sort.Strings(a.res.helpers)
	sort.Strings(a.res.warnings)
	sort.Strings(a.res.errors)
	for n := range a.opts.excluded {
		found := false
		for _, r := range a.res.rows {
			if r.name == n {
				found = true
			}
		}
		if !found {
			a.res.warnings = append(a.res.warnings, fmt.Sprintf("excluded method %s does not exist", n))
		}
	}
	for n := range a.opts.assumeRLock {
		found := false
		for _, r := range a.res.rows {
			if r.name == n {
				found = true
			}
		}
		if !found {
			a.res.errors = append(a.res.errors, fmt.Sprintf("-assume-rlock: method %s does not exist", n))
		}
	}
}

// ---------------------------------------------------------------------------------------------
// the discipline, as in Spec/LockProto.v (wf_row), with reasons

func (r row) violations() []string {
	if r.excluded {
		return nil
	}
	var out []string
	if r.writes != 0 && r.lock != mW {
		out = append(out, fmt.Sprintf("writes %v without holding the write lock (lock taken: %v)", r.writes, r.lock))
	}
	if r.reads != 0 && r.lock == mNone {
		out = append(out, fmt.Sprintf("reads %v without holding the lock", r.reads))
	}
	if r.lock != mNone && !r.deferred {
		out = append(out, "the lock statement is not directly followed by the matching deferred unlock (or there are further lock/unlock calls)")
	}
	if r.callsLocking {
		out = append(out, "calls (transitively) a function that takes the lock itself")
	}
	if r.writesImm {
		out = append(out, "writes an immutable field (Full, rwLock)")
	}
	if r.preReads != 0 || r.preWrites != 0 {
		out = append(out, fmt.Sprintf("touches guarded fields before the lock statement: reads %v writes %v", r.preReads, r.preWrites))
	}
	return out
}

func wfTable(rows []row) (bool, []row) {
	var bad []row
	for _, r := range rows {
		if r.exported && len(r.violations()) > 0 {
			bad = append(bad, r)
		}
	}
	return len(bad) == 0, bad
}

// ---------------------------------------------------------------------------------------------
// output

func coqBool(b bool) string {
	if b {
		return "true"
	}
	return "false"
}

func sortedKeys(m map[string]bool) []string {
	var out []string
	for k := range m {
		out = append(out, k)
	}
	sort.Strings(out)
	return out
}

func render(res *result, opts options) []byte {
	var b bytes.Buffer
	fmt.Fprintf(&b, "(* GENERATED by tools/lockscan from the Go source of package utreexo - DO NOT EDIT.\n")
	fmt.Fprintf(&b, "   Regenerate with: lockscan -repo <repo> -out <this file>\n")
	if len(opts.assumeRLock) > 0 {
		fmt.Fprintf(&b, "   !! Generated with -assume-rlock %s: these methods are PRETENDED to start with\n", strings.Join(sortedKeys(opts.assumeRLock), ","))
		fmt.Fprintf(&b, "   !! m.rwLock.RLock(); defer m.rwLock.RUnlock().  This is NOT the table of the unmodified source.\n")
	} else {
		fmt.Fprintf(&b, "   Generated without -assume-rlock: this is the table of the source as it is.\n")
	}
	fmt.Fprintf(&b, "   excluded (outside the property): %s\n", strings.Join(sortedKeys(opts.excluded), ", "))
	fmt.Fprintf(&b, "   constructors (exempt): %s\n", strings.Join(res.constructors, ", "))
	fmt.Fprintf(&b, "   other package functions from which %s methods are reached: %s\n", subjectType, strings.Join(res.helpers, ", "))
	fmt.Fprintf(&b, "   columns: name lock deferred reads writes calls_locking writes_immutable exported excluded\n")
	fmt.Fprintf(&b, "            pre_reads pre_writes *)\n")
	fmt.Fprintf(&b, "From Coq Require Import List String.\n")
	fmt.Fprintf(&b, "From Utreexo Require Import Spec.LockProto.\n")
	fmt.Fprintf(&b, "Import ListNotations.\n")
	fmt.Fprintf(&b, "Open Scope string_scope.\n\n")
	fmt.Fprintf(&b, "Definition lock_table : list method_row := [\n")
	for i, r := range res.rows {
		sep := ";"
		if i == len(res.rows)-1 {
			sep = ""
		}
		fmt.Fprintf(&b, "  mkRow %q %s %s %s %s %s %s %s %s %s %s%s\n",
			r.name, r.lock.coq(), coqBool(r.deferred), r.reads.coq(), r.writes.coq(),
			coqBool(r.callsLocking), coqBool(r.writesImm), coqBool(r.exported), coqBool(r.excluded),
			r.preReads.coq(), r.preWrites.coq(), sep)
	}
	fmt.Fprintf(&b, "].\n")
	return b.Bytes()
}

func explain(res *result, w *os.File) {
	ok, bad := wfTable(res.rows)
	if ok {
		fmt.Fprintf(w, "wf_table = true: every exported, non-excluded row satisfies the discipline\n")
	} else {
		fmt.Fprintf(w, "wf_table = false: %d exported row(s) violate the discipline\n", len(bad))
		for _, r := range bad {
			fmt.Fprintf(w, "VIOLATION %s (%s)\n", r.name, r.pos)
			for _, v := range r.violations() {
				fmt.Fprintf(w, "    - %s\n", v)
			}
		}
	}
	for _, r := range res.rows {
		if r.excluded {
			fmt.Fprintf(w, "excluded  %s: lock=%v reads=%v writes=%v calls_locking=%v (not an entry point of the model)\n",
				r.name, r.lock, r.reads, r.writes, r.callsLocking)
		}
	}
	for _, wmsg := range res.warnings {
		fmt.Fprintf(w, "warning   %s\n", wmsg)
	}
}

// ---------------------------------------------------------------------------------------------
// main

func parseList(s string) map[string]bool {
	m := map[string]bool{}
	for _, p := range strings.Split(s, ",") {
		p = strings.TrimSpace(p)
		if p != "" {
			m[p] = true
		}
	}
	return m
}

func main() {
	repo := flag.String("repo", "", "directory of package utreexo")
	out := flag.String("out", "", "Coq file to write (\"-\" for standard output)")
	pkgName := flag.String("pkg", "utreexo", "package name")
	assume := flag.String("assume-rlock", "", "comma separated methods that are pretended to start with RLock/defer RUnlock")
	excl := flag.String("excluded", "String,AllSubTreesToString", "comma separated methods outside the property")
	doExplain := flag.Bool("explain", false, "list every exported row that violates the discipline, with reasons")
	check := flag.Bool("check", false, "exit with status 3 if wf_table is false")
	selftest := flag.Bool("selftest", false, "run the extractor on embedded mutated sources (and, with -repo, on mutated copies of the repo source held in memory)")
	flag.Parse()

	opts := options{assumeRLock: parseList(*assume), excluded: parseList(*excl)}

	if *selftest {
		os.Exit(runSelfTest(*repo, *pkgName))
	}
	if *repo == "" {
		fmt.Fprintln(os.Stderr, "usage: lockscan -repo <dir> [-out file.v] [-explain] [-check] [-assume-rlock A,B] [-excluded A,B] | lockscan -selftest [-repo <dir>]")
		os.Exit(2)
	}
	srcs, err := readRepo(*repo)
	if err != nil {
		fmt.Fprintln(os.Stderr, "lockscan:", err)
		os.Exit(1)
	}
	res, err := analyze(srcs, *pkgName, opts)
	if err != nil {
		fmt.Fprintln(os.Stderr, "lockscan:", err)
		os.Exit(1)
	}
	if len(res.errors) > 0 {
		for _, e := range res.errors {
			fmt.Fprintln(os.Stderr, "lockscan: unsupported:", e)
		}
		fmt.Fprintln(os.Stderr, "lockscan: the source uses constructs that the extractor does not follow; no table written")
		os.Exit(1)
	}
	if *out != "" {
		data := render(res, opts)
		if *out == "-" {
			os.Stdout.Write(data)
		} else if err := os.WriteFile(*out, data, 0o644); err != nil {
			fmt.Fprintln(os.Stderr, "lockscan:", err)
			os.Exit(1)
		}
	}
	if *doExplain {
		explain(res, os.Stdout)
	}
	if *check {
		if ok, _ := wfTable(res.rows); !ok {
			os.Exit(3)
		}
	}
}

// ---------------------------------------------------------------------------------------------
// self test

const selfSrc = `package utreexo

import "sync"

type Hash [32]byte

type Leaf struct {
	Hash     Hash
	Remember bool
}

type NodesInterface interface {
	Get(uint64) (Leaf, bool)
	Put(uint64, Leaf)
	Delete(uint64)
	Length() int
	ForEach(func(uint64, Leaf) error) error
}

type CachedLeavesInterface interface {
	Get(Hash) (uint64, bool)
	Put(Hash, uint64)
	Delete(Hash)
	Length() int
	ForEach(func(Hash, uint64) error) error
}

type ToString interface {
	GetRoots() []Hash
	GetNumLeaves() uint64
}

type MapPollard struct {
	rwLock       *sync.RWMutex
	CachedLeaves CachedLeavesInterface
	Nodes        NodesInterface
	NumLeaves    uint64
	TotalRows    uint8
	Full         bool
}

func NewMapPollard(full bool) MapPollard {
	return MapPollard{rwLock: new(sync.RWMutex), TotalRows: 63, Full: full}
}

func (m *MapPollard) Modify(adds []Leaf) error {
	m.rwLock.Lock()
	defer m.rwLock.Unlock()

	return m.add(adds)
}

func (m *MapPollard) add(adds []Leaf) error {
	for _, a := range adds {
		if m.Full {
			a.Remember = true
		}
		m.Nodes.Put(m.NumLeaves, a)
		m.CachedLeaves.Put(a.Hash, m.NumLeaves)
		m.NumLeaves++
	}
	return nil
}

func (m *MapPollard) Prune(hashes []Hash) error {
	if m.Full {
		return nil
	}

	m.rwLock.Lock()
	defer m.rwLock.Unlock()

	for _, h := range hashes {
		m.CachedLeaves.Delete(h)
	}
	return nil
}

func (m *MapPollard) GetRoots() []Hash {
	m.rwLock.RLock()
	defer m.rwLock.RUnlock()

	return m.getRoots()
}

func (m *MapPollard) getRoots() []Hash {
	l, _ := m.Nodes.Get(uint64(m.TotalRows))
	return []Hash{l.Hash}
}

func (m *MapPollard) GetStump() []Hash {
	m.rwLock.RLock()
	defer m.rwLock.RUnlock()

	return m.getRoots()
}

func (m *MapPollard) GetNumLeaves() uint64 {
	m.rwLock.RLock()
	defer m.rwLock.RUnlock()

	return m.NumLeaves
}

func (m *MapPollard) String() string {
	return String(m)
}

func String(ts ToString) string {
	if ts.GetNumLeaves() > 8 {
		return "big"
	}
	r := ts.GetRoots()
	return string(r[0][:])
}
`

type selfCase struct {
	name     string
	old, new string // textual mutation of the source (old must occur exactly once after anchor)
	anchor   string
	check    func(rows map[string]row, bad []string) string // "" = as expected
	wantErr  string                                         // the extractor must refuse, with this text
}

func mutate(src, anchor, old, new string) (string, bool) {
	i := strings.Index(src, anchor)
	if i < 0 {
		return "", false
	}
	j := strings.Index(src[i:], old)
	if j < 0 {
		return "", false
	}
	return src[:i+j] + new + src[i+j+len(old):], true
}

func sameSet(got []string, want ...string) bool {
	g := append([]string(nil), got...)
	w := append([]string(nil), want...)
	sort.Strings(g)
	sort.Strings(w)
	return strings.Join(g, ",") == strings.Join(w, ",")
}

func runRefusal(label string, srcs map[string][]byte, pkgName string, opts options, want string) bool {
	res, err := analyze(srcs, pkgName, opts)
	if err != nil {
		fmt.Printf("FAIL %s: %v\n", label, err)
		return false
	}
	for _, e := range res.errors {
		if strings.Contains(e, want) {
			fmt.Printf("ok   %s (refused: %s)\n", label, e)
			return true
		}
	}
	fmt.Printf("FAIL %s: the extractor should have refused with %q, got %v\n", label, want, res.errors)
	return false
}

func runCase(label string, srcs map[string][]byte, pkgName string, opts options, check func(map[string]row, []string) string) bool {
	res, err := analyze(srcs, pkgName, opts)
	if err != nil {
		fmt.Printf("FAIL %s: %v\n", label, err)
		return false
	}
	if len(res.errors) > 0 {
		fmt.Printf("FAIL %s: unsupported constructs: %v\n", label, res.errors)
		return false
	}
	rows := map[string]row{}
	for _, r := range res.rows {
		rows[r.name] = r
	}
	_, badRows := wfTable(res.rows)
	var bad []string
	for _, r := range badRows {
		bad = append(bad, r.name)
	}
	if msg := check(rows, bad); msg != "" {
		fmt.Printf("FAIL %s: %s (violations reported: %v)\n", label, msg, bad)
		return false
	}
	fmt.Printf("ok   %s (violations reported: %v)\n", label, bad)
	return true
}

func runSelfTest(repo, pkgName string) int {
	excl := options{assumeRLock: map[string]bool{}, excluded: map[string]bool{"String": true, "AllSubTreesToString": true}}
	lockPair := "\tm.rwLock.Lock()\n\tdefer m.rwLock.Unlock()\n"
	rlockPair := "\tm.rwLock.RLock()\n\tdefer m.rwLock.RUnlock()\n"
	cases := []selfCase{
		{name: "baseline (no mutation): all rows well-formed",
			check: func(rows map[string]row, bad []string) string {
				if len(bad) != 0 {
					return "expected no violation"
				}
				m := rows["Modify"]
				if m.lock != mW || !m.deferred || m.writes != fieldBit("Nodes")|fieldBit("CachedLeaves")|fieldBit("NumLeaves") || m.reads != fieldBit("NumLeaves") {
					return fmt.Sprintf("unexpected row for Modify: %+v", m)
				}
				g := rows["GetRoots"]
				if g.lock != mR || !g.deferred || g.writes != 0 || g.reads != fieldBit("Nodes")|fieldBit("TotalRows") {
					return fmt.Sprintf("unexpected row for GetRoots: %+v", g)
				}
				p := rows["Prune"]
				if p.lock != mW || !p.deferred || p.preReads != 0 || p.preWrites != 0 || p.writes != fieldBit("CachedLeaves") {
					return fmt.Sprintf("unexpected row for Prune: %+v", p)
				}
				s := rows["String"]
				if s.lock != mNone || !s.callsLocking || !s.excluded || s.reads != 0 {
					return fmt.Sprintf("unexpected row for String: %+v", s)
				}
				h := rows["add"]
				if h.exported || h.lock != mNone || h.writes == 0 {
					return fmt.Sprintf("unexpected row for add: %+v", h)
				}
				return ""
			}},
		{name: "mutation 1: Lock()/defer Unlock() removed from Modify",
			anchor: "func (m *MapPollard) Modify(", old: lockPair, new: "",
			check: func(rows map[string]row, bad []string) string {
				m := rows["Modify"]
				if m.lock != mNone || m.writes == 0 {
					return fmt.Sprintf("Modify should have no lock and writes: %+v", m)
				}
				if !sameSet(bad, "Modify") {
					return "expected exactly Modify to be reported"
				}
				return ""
			}},
		{name: "mutation 2: Lock downgraded to RLock in Modify (a method that writes)",
			anchor: "func (m *MapPollard) Modify(", old: lockPair, new: rlockPair,
			check: func(rows map[string]row, bad []string) string {
				m := rows["Modify"]
				if m.lock != mR || !m.deferred || m.writes == 0 {
					return fmt.Sprintf("Modify should hold RLock and write: %+v", m)
				}
				if !sameSet(bad, "Modify") {
					return "expected exactly Modify to be reported"
				}
				return ""
			}},
		{name: "mutation 3: locked GetStump calls the locked exported GetRoots",
			anchor: "func (m *MapPollard) GetStump(", old: "return m.getRoots()", new: "return m.GetRoots()",
			check: func(rows map[string]row, bad []string) string {
				g := rows["GetStump"]
				if g.lock != mR || !g.callsLocking {
					return fmt.Sprintf("GetStump should have calls_locking: %+v", g)
				}
				if !sameSet(bad, "GetStump") {
					return "expected exactly GetStump to be reported"
				}
				return ""
			}},
		{name: "mutation 4: unlock not deferred in GetNumLeaves",
			anchor: "func (m *MapPollard) GetNumLeaves(", old: "\tdefer m.rwLock.RUnlock()\n\n\treturn m.NumLeaves", new: "\tn := m.NumLeaves\n\tm.rwLock.RUnlock()\n\treturn n",
			check: func(rows map[string]row, bad []string) string {
				g := rows["GetNumLeaves"]
				if g.lock != mR || g.deferred {
					return fmt.Sprintf("GetNumLeaves should have deferred=false: %+v", g)
				}
				if !sameSet(bad, "GetNumLeaves") {
					return "expected exactly GetNumLeaves to be reported"
				}
				return ""
			}},
		{name: "mutation 5: guarded field read before the lock in Prune",
			anchor: "func (m *MapPollard) Prune(", old: "if m.Full {", new: "if m.Full || m.NumLeaves == 0 {",
			check: func(rows map[string]row, bad []string) string {
				p := rows["Prune"]
				if p.preReads != fieldBit("NumLeaves") {
					return fmt.Sprintf("Prune should have pre_reads {NumLeaves}: %+v", p)
				}
				if !sameSet(bad, "Prune") {
					return "expected exactly Prune to be reported"
				}
				return ""
			}},
		{name: "mutation 6: immutable field written in add",
			anchor: "func (m *MapPollard) add(", old: "\t\tm.NumLeaves++\n", new: "\t\tm.NumLeaves++\n\t\tm.Full = true\n",
			check: func(rows map[string]row, bad []string) string {
				if !rows["add"].writesImm || !rows["Modify"].writesImm {
					return "add and Modify should have writes_immutable"
				}
				if !sameSet(bad, "Modify") {
					return "expected exactly Modify to be reported"
				}
				return ""
			}},
		{name: "mutation 7: getter without lock (the shape of GetNumLeaves on the pinned tree)",
			anchor: "func (m *MapPollard) GetNumLeaves(", old: rlockPair, new: "",
			check: func(rows map[string]row, bad []string) string {
				g := rows["GetNumLeaves"]
				if g.lock != mNone || g.reads != fieldBit("NumLeaves") {
					return fmt.Sprintf("GetNumLeaves should read NumLeaves without lock: %+v", g)
				}
				if s := rows["String"]; s.reads != fieldBit("NumLeaves") || !s.callsLocking {
					return fmt.Sprintf("String should inherit the unlocked read: %+v", s)
				}
				if !sameSet(bad, "GetNumLeaves") {
					return "expected exactly GetNumLeaves to be reported (String is excluded)"
				}
				return ""
			}},
		{name: "unsupported 1: the receiver is aliased",
			anchor: "func (m *MapPollard) add(", old: "\t\tm.NumLeaves++\n", new: "\t\tp := m\n\t\tp.NumLeaves++\n",
			wantErr: "not the receiver/parameter variable"},
		{name: "unsupported 2: a goroutine is started on the receiver",
			anchor: "func (m *MapPollard) add(", old: "\t\tm.NumLeaves++\n", new: "\t\tgo func() { m.NumLeaves++ }()\n",
			wantErr: "go statement"},
		{name: "unsupported 3: a method is called on another instance",
			anchor: "func (m *MapPollard) add(", old: "\t\tm.NumLeaves++\n", new: "\t\to := NewMapPollard(true)\n\t\to.getRoots()\n",
			wantErr: "is called on an expression that is not the receiver/parameter variable"},
	}
	fails := 0
	for _, c := range cases {
		src := selfSrc
		if c.old != "" {
			var ok bool
			src, ok = mutate(selfSrc, c.anchor, c.old, c.new)
			if !ok {
				fmt.Printf("FAIL %s: mutation pattern not found in the embedded source\n", c.name)
				fails++
				continue
			}
		}
		srcs := map[string][]byte{"self.go": []byte(src)}
		if c.wantErr != "" {
			if !runRefusal("embedded: "+c.name, srcs, "utreexo", excl, c.wantErr) {
				fails++
			}
			continue
		}
		if !runCase("embedded: "+c.name, srcs, "utreexo", excl, c.check) {
			fails++
		}
	}

	// the same three mutation classes applied, in memory, to the real source
	if repo != "" {
		srcs, err := readRepo(repo)
		if err != nil {
			fmt.Printf("FAIL repo: %v\n", err)
			return 1
		}
		base, err := analyze(srcs, pkgName, excl)
		if err != nil || len(base.errors) > 0 {
			fmt.Printf("FAIL repo: baseline analysis: %v %v\n", err, base)
			return 1
		}
		_, baseBadRows := wfTable(base.rows)
		var baseBad []string
		for _, r := range baseBadRows {
			baseBad = append(baseBad, r.name)
		}
		file := "mappollard.go"
		repoCases := []struct{ name, anchor, old, new, expect string }{
			{"Lock()/defer Unlock() removed from Modify", "func (m *MapPollard) Modify(", lockPair, "", "Modify"},
			{"Lock downgraded to RLock in Undo", "func (m *MapPollard) Undo(", lockPair, rlockPair, "Undo"},
			{"locked GetStump calls the locked exported GetRoots", "func (m *MapPollard) GetStump(", "return m.getStump()", "return Stump{Roots: m.GetRoots(), NumLeaves: m.NumLeaves}", "GetStump"},
		}
		for _, rc := range repoCases {
			orig, ok := srcs[file]
			if !ok {
				fmt.Printf("SKIP repo: %s not found\n", file)
				break
			}
			mut, ok := mutate(string(orig), rc.anchor, rc.old, rc.new)
			if !ok {
				fmt.Printf("SKIP repo: %s: pattern not found (the source has changed shape)\n", rc.name)
				continue
			}
			ms := map[string][]byte{}
			for k, v := range srcs {
				ms[k] = v
			}
			ms[file] = []byte(mut)
			want := append(append([]string(nil), baseBad...), rc.expect)
			expect := rc.expect
			if !runCase("repo: "+rc.name, ms, pkgName, excl, func(rows map[string]row, bad []string) string {
				if !sameSet(bad, want...) {
					return fmt.Sprintf("expected the baseline violations %v plus %s", baseBad, expect)
				}
				return ""
			}) {
				fails++
			}
		}
	}
	if fails > 0 {
		fmt.Printf("selftest: %d case(s) FAILED\n", fails)
		return 1
	}
	fmt.Println("selftest: all cases passed")
	return 0
}
