module lockscan

go 1.21
