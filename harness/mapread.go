package main

import (
	"fmt"
	"math/rand"
	"sort"
	"strings"

	u "github.com/utreexo/utreexo"
)

// emitMapRead dumps a MapPollard and replays its read-side queries so that the oracle can compare them
// with the Gallina mirror (Model/MapRead.v) evaluated on the dumped maps.
func emitMapRead(e *emitter, m *u.MapPollard, rf *refForest, R []u.Hash, rng *rand.Rand) {
	label := mapName(m)
	guarded(e, "mapread."+label, func() {
		d := dumpMap(m)
		var ns, cs []string
		for k, v := range d.nodes {
			ns = append(ns, fmt.Sprintf("%d:%s:%s", k, hx(v.Hash), b01(v.Remember)))
		}
		for k, v := range d.cached {
			cs = append(cs, fmt.Sprintf("%s:%d", hx(k), v))
		}
		sort.Strings(ns)
		sort.Strings(cs)
		j := func(l []string) string {
			if len(l) == 0 {
				return "-"
			}
			return strings.Join(l, ",")
		}
		e.line("MAPSTATE %d %s %d %s %s", m.TotalRows, b01(m.Full), m.NumLeaves, j(ns), j(cs))
		e.line("MR %s GetRoots = %s", label, hs(m.GetRoots()))
		rows := refRows(rf.n())
		top := uint64(2)<<uint(rows) + 2
		var ps []uint64
		for i := 0; i < 12; i++ {
			ps = append(ps, uint64(rng.Int63n(int64(top)+1)))
		}
		ps = append(ps, 1<<62, 1<<63, ^uint64(0))
		for _, p := range ps {
			e.line("MR %s GetHash %d = %s", label, p, hx(m.GetHash(p)))
		}
		live := rf.liveHashes()
		qs := append([]u.Hash{}, R...)
		if len(live) > 0 {
			qs = append(qs, live[rng.Intn(len(live))])
		}
		qs = append(qs, newLeaf())
		if len(qs) > 8 {
			rng.Shuffle(len(qs), func(a, b int) { qs[a], qs[b] = qs[b], qs[a] })
			qs = qs[:8]
		}
		for _, h := range qs {
			p, ok := m.GetLeafPosition(h)
			r := "none"
			if ok {
				r = fmt.Sprint(p)
			}
			e.line("MR %s GetLeafPosition %s = %s", label, hx(h), r)
		}
		e.line("MR %s GetLeafHashPositions %s = %s", label, hs(qs), us(m.GetLeafHashPositions(qs)))
		// Prove on what it tracks (and on one request that must fail)
		for k := 0; k < 2 && len(R) > 0; k++ {
			sub := append([]u.Hash{}, R...)
			rng.Shuffle(len(sub), func(a, b int) { sub[a], sub[b] = sub[b], sub[a] })
			sub = sub[:1+rng.Intn(len(sub))]
			pr, err := m.Prove(sub)
			if err != nil {
				e.line("MR %s Prove %s = err", label, hs(sub))
			} else {
				e.line("MR %s Prove %s = ok %s %s", label, hs(sub), us(pr.Targets), hs(pr.Proof))
			}
		}
		if _, err := m.Prove(qs[len(qs)-1:]); err != nil {
			e.line("MR %s Prove %s = err", label, hs(qs[len(qs)-1:]))
		}
		// missing positions and partial proofs for random live targets
		if len(live) > 0 {
			sub := append([]u.Hash{}, live...)
			rng.Shuffle(len(sub), func(a, b int) { sub[a], sub[b] = sub[b], sub[a] })
			sub = sub[:1+rng.Intn(min(len(sub), 4))]
			pr, _ := rf.prove(sub)
			miss := m.GetMissingPositions(append([]uint64{}, pr.Targets...))
			e.line("MR %s GetMissingPositions %s = %s", label, us(pr.Targets), us(miss))
			nodes, _ := rf.layout(rows)
			var supply []u.Hash
			ok := true
			for _, p := range miss {
				nd, found := nodes[p]
				if !found {
					ok = false
					break
				}
				supply = append(supply, nd.hash)
			}
			if ok {
				err := m.VerifyPartialProof(pr.Targets, sub, supply, false)
				e.line("MR %s VerifyPartialProof %s %s %s = %s", label, us(pr.Targets), hs(sub), hs(supply), errStr(err))
				err = m.Verify(sub, pr, false)
				e.line("MR %s Verify %s %s %s = %s", label, hs(sub), us(pr.Targets), hs(pr.Proof), errStr(err))
			}
		}
		e.count("mapread_states")
	})
}
