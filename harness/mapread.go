package main

import (
	"bytes"
	"fmt"
	"math/rand"
	"sort"
	"strings"

	u "github.com/utreexo/utreexo"
)

// emitMapRead dumps a MapPollard and replays its read-side queries so that the oracle can compare them
// with the Gallina mirror (Model/MapRead.v) evaluated on the dumped maps.
func emitMapRead(e *emitter, m *u.MapPollard, rf *refForest, R []u.Hash, rng *rand.Rand) {
	label := mapName(m)
	guarded(e, "mapread."+label, func() {
		emitMapState(e, m, true)
		e.line("MR %s GetRoots = %s", label, hs(m.GetRoots()))
		rows := refRows(rf.n())
		top := uint64(2)<<uint(rows) + 2
		var ps []uint64
		for i := 0; i < 12; i++ {
			ps = append(ps, uint64(rng.Int63n(int64(top)+1)))
		}
		ps = append(ps, 1<<62, 1<<63, ^uint64(0))
		for _, p := range ps {
			e.line("MR %s GetHash %d = %s", label, p, hx(m.GetHash(p)))
		}
		live := rf.liveHashes()
		qs := append([]u.Hash{}, R...)
		if len(live) > 0 {
			qs = append(qs, live[rng.Intn(len(live))])
		}
		qs = append(qs, newLeaf())
		if len(qs) > 8 {
			rng.Shuffle(len(qs), func(a, b int) { qs[a], qs[b] = qs[b], qs[a] })
			qs = qs[:8]
		}
		for _, h := range qs {
			p, ok := m.GetLeafPosition(h)
			r := "none"
			if ok {
				r = fmt.Sprint(p)
			}
			e.line("MR %s GetLeafPosition %s = %s", label, hx(h), r)
		}
		e.line("MR %s GetLeafHashPositions %s = %s", label, hs(qs), us(m.GetLeafHashPositions(qs)))
		// Prove on what it tracks (and on one request that must fail)
		for k := 0; k < 2 && len(R) > 0; k++ {
			sub := append([]u.Hash{}, R...)
			rng.Shuffle(len(sub), func(a, b int) { sub[a], sub[b] = sub[b], sub[a] })
			sub = sub[:1+rng.Intn(len(sub))]
			pr, err := m.Prove(sub)
			if err != nil {
				e.line("MR %s Prove %s = err", label, hs(sub))
			} else {
				e.line("MR %s Prove %s = ok %s %s", label, hs(sub), us(pr.Targets), hs(pr.Proof))
			}
		}
		if _, err := m.Prove(qs[len(qs)-1:]); err != nil {
			e.line("MR %s Prove %s = err", label, hs(qs[len(qs)-1:]))
		}
		// missing positions and partial proofs for random live targets
		if len(live) > 0 {
			sub := append([]u.Hash{}, live...)
			rng.Shuffle(len(sub), func(a, b int) { sub[a], sub[b] = sub[b], sub[a] })
			sub = sub[:1+rng.Intn(min(len(sub), 4))]
			pr, _ := rf.prove(sub)
			miss := m.GetMissingPositions(append([]uint64{}, pr.Targets...))
			e.line("MR %s GetMissingPositions %s = %s", label, us(pr.Targets), us(miss))
			nodes, _ := rf.layout(rows)
			var supply []u.Hash
			ok := true
			for _, p := range miss {
				nd, found := nodes[p]
				if !found {
					ok = false
					break
				}
				supply = append(supply, nd.hash)
			}
			if ok {
				err := m.VerifyPartialProof(pr.Targets, sub, supply, false)
				e.line("MR %s VerifyPartialProof %s %s %s = %s", label, us(pr.Targets), hs(sub), hs(supply), errStr(err))
				err = m.Verify(sub, pr, false)
				e.line("MR %s Verify %s %s %s = %s", label, hs(sub), us(pr.Targets), hs(pr.Proof), errStr(err))
			}
		}
		e.count("mapread_states")
	})
}

// ---------- MAPSTATE dumps and MM events (mirror of the mutators, Model/MapMut.v) ----------

// mapStateLine is the MAPSTATE event: TotalRows, Full, NumLeaves, the node map and the cached leaves.
func mapStateLine(m *u.MapPollard) string {
	d := dumpMap(m)
	var ns, cs []string
	for k, v := range d.nodes {
		ns = append(ns, fmt.Sprintf("%d:%s:%s", k, hx(v.Hash), b01(v.Remember)))
	}
	for k, v := range d.cached {
		cs = append(cs, fmt.Sprintf("%s:%d", hx(k), v))
	}
	sort.Strings(ns)
	sort.Strings(cs)
	j := func(l []string) string {
		if len(l) == 0 {
			return "-"
		}
		return strings.Join(l, ",")
	}
	return fmt.Sprintf("MAPSTATE %d %s %d %s %s", m.TotalRows, b01(m.Full), m.NumLeaves, j(ns), j(cs))
}

var (
	mmLastState string // the last MAPSTATE line written in the current case ("" = none)
	mmDedup     bool   // the generator calls mmReset at every CASE line, so an identical dump may be skipped
	mmEvery     = 1    // emit the MM event for one mutation out of mmEvery
	mmCtr       int
)

// mmReset must be called right after a CASE line: the oracle shard that reads the case has seen no dump yet.
func mmReset() { mmLastState, mmDedup = "", true }

// emitMapState writes the MAPSTATE event; with force=false it is skipped when the oracle already holds this state.
func emitMapState(e *emitter, m *u.MapPollard, force bool) string {
	l := mapStateLine(m)
	if !force && mmDedup && l == mmLastState {
		return l
	}
	e.line("%s", l)
	if !e.muted {
		mmLastState = l
	}
	return l
}

func leavesStr(l []u.Leaf) string {
	if len(l) == 0 {
		return "-"
	}
	s := make([]string, len(l))
	for i, x := range l {
		s[i] = hx(x.Hash) + ":" + b01(x.Remember)
	}
	return strings.Join(s, ",")
}
func cpH(l []u.Hash) []u.Hash   { return append([]u.Hash{}, l...) }
func cpU(l []uint64) []uint64   { return append([]uint64{}, l...) }
func cpL(l []u.Leaf) []u.Leaf   { return append([]u.Leaf{}, l...) }
func cpProof(p u.Proof) u.Proof { return u.Proof{Targets: cpU(p.Targets), Proof: cpH(p.Proof)} }

// mmCall runs one mutation of m.  For a sampled call it writes the pre-state (unless it is the last dump), the MM
// event with the outcome (ok, err, or panic - the panic goes on to the caller) and the post-state.  The argument
// text is built by the callers BEFORE the call and the library receives copies of the slices.
func mmCall(e *emitter, m *u.MapPollard, op, args string, f func() error) (err error) {
	mmCtr++
	if mmEvery > 1 && mmCtr%mmEvery != 0 {
		return f()
	}
	label := mapName(m)
	pre := emitMapState(e, m, false)
	res := "panic"
	defer func() {
		e.line("MM %s %s %s = %s", label, op, args, res)
		post := emitMapState(e, m, true)
		e.count("mm_" + op + "_" + res)
		if res != "ok" {
			// not judged: does a rejected call leave the forest as it was?
			if pre == post {
				e.count("mm_" + op + "_" + res + "_state_unchanged")
			} else {
				e.count("mm_" + op + "_" + res + "_state_CHANGED")
			}
		}
	}()
	err = f()
	res = errStr(err)
	return err
}

func mmModify(e *emitter, m *u.MapPollard, adds []u.Leaf, dels []u.Hash, proof u.Proof) error {
	args := fmt.Sprintf("%s %s %s %s", leavesStr(adds), hs(dels), us(proof.Targets), hs(proof.Proof))
	a, d, p := cpL(adds), cpH(dels), cpProof(proof)
	return mmCall(e, m, "Modify", args, func() error { return m.Modify(a, d, p) })
}
func mmUndo(e *emitter, m *u.MapPollard, numAdds uint64, proof u.Proof, hashes, prevRoots []u.Hash) error {
	args := fmt.Sprintf("%d %s %s %s %s", numAdds, us(proof.Targets), hs(proof.Proof), hs(hashes), hs(prevRoots))
	p, h, r := cpProof(proof), cpH(hashes), cpH(prevRoots)
	return mmCall(e, m, "Undo", args, func() error { return m.Undo(numAdds, p, h, r) })
}
func mmVerify(e *emitter, m *u.MapPollard, dels []u.Hash, proof u.Proof) error {
	args := fmt.Sprintf("%s %s %s", hs(dels), us(proof.Targets), hs(proof.Proof))
	d, p := cpH(dels), cpProof(proof)
	return mmCall(e, m, "Verify", args, func() error { return m.Verify(d, p, true) })
}
func mmIngest(e *emitter, m *u.MapPollard, dels []u.Hash, proof u.Proof) error {
	args := fmt.Sprintf("%s %s %s", hs(dels), us(proof.Targets), hs(proof.Proof))
	d, p := cpH(dels), cpProof(proof)
	return mmCall(e, m, "Ingest", args, func() error { return m.Ingest(d, p) })
}
func mmPrune(e *emitter, m *u.MapPollard, hashes []u.Hash) error {
	args := hs(hashes)
	h := cpH(hashes)
	return mmCall(e, m, "Prune", args, func() error { return m.Prune(h) })
}

// cloneMap copies a map forest through its own serialization.
func cloneMap(m *u.MapPollard) *u.MapPollard {
	var b bytes.Buffer
	if _, err := m.Write(&b); err != nil {
		return nil
	}
	c := u.NewMapPollard(m.Full)
	if _, err := c.Read(&b); err != nil {
		return nil
	}
	return &c
}

// mmProbe makes, on a CLONE of m, one call that an honest caller would not make: input that the forest rejects
// (error or index panic) or garbage that it accepts without checking.  The mirror has to agree on the outcome and,
// for an accepted call, on the resulting maps.  A panic is an outcome here, not a harness failure.
func mmProbe(e *emitter, m *u.MapPollard, rf *refForest, R []u.Hash, last *blockRec, rng *rand.Rand) {
	c := cloneMap(m)
	if c == nil {
		return
	}
	defer func() { recover() }()
	live := rf.liveHashes()
	cut := func(l []u.Hash) []u.Hash { return cpH(l[:len(l)-1]) }
	switch kind := rng.Intn(9); kind {
	case 0: // Modify deleting a leaf that is not cached
		mmModify(e, c, []u.Leaf{{Hash: newLeaf(), Remember: true}}, []u.Hash{newLeaf()}, u.Proof{Targets: []uint64{0}})
		e.count("probe_modify_uncached")
	case 1: // Verify(remember) of a false claim
		if len(live) == 0 {
			return
		}
		sub := []u.Hash{live[rng.Intn(len(live))]}
		proof, _ := rf.prove(sub)
		sub[0][rng.Intn(32)] ^= 1 << uint(rng.Intn(8))
		mmVerify(e, c, sub, proof)
		e.count("probe_verify_false")
	case 2: // Ingest with the last proof hash missing
		if len(live) == 0 {
			return
		}
		sub := []u.Hash{live[rng.Intn(len(live))]}
		proof, _ := rf.prove(sub)
		if len(proof.Proof) == 0 {
			return
		}
		proof.Proof = cut(proof.Proof)
		mmIngest(e, c, sub, proof)
		e.count("probe_ingest_short")
	case 3: // Undo with the last proof hash missing
		if last == nil || len(last.proof.Proof) == 0 {
			return
		}
		mmUndo(e, c, uint64(len(last.adds)), u.Proof{Targets: last.proof.Targets, Proof: cut(last.proof.Proof)}, last.dels, last.prevRoots)
		e.count("probe_undo_shortproof")
	case 4: // Undo with one previous root missing
		if last == nil || len(last.prevRoots) == 0 {
			return
		}
		mmUndo(e, c, uint64(len(last.adds)), last.proof, last.dels, cut(last.prevRoots))
		e.count("probe_undo_shortroots")
	case 5: // Prune of leaves that are not cached, and of one that is
		hh := []u.Hash{newLeaf()}
		if len(R) > 0 {
			hh = append(hh, R[rng.Intn(len(R))], newLeaf())
		}
		mmPrune(e, c, hh)
		e.count("probe_prune_unknown")
	case 6: // Modify: cached leaves deleted at the positions of OTHER leaves (accepted without a check)
		if len(R) == 0 || len(live) < 2 {
			return
		}
		k := 1 + rng.Intn(min(len(R), 3))
		rr := cpH(R)
		rng.Shuffle(len(rr), func(i, j int) { rr[i], rr[j] = rr[j], rr[i] })
		ll := cpH(live)
		rng.Shuffle(len(ll), func(i, j int) { ll[i], ll[j] = ll[j], ll[i] })
		if len(ll) < k {
			return
		}
		proof, _ := rf.prove(ll[:k])
		mmModify(e, c, []u.Leaf{{Hash: newLeaf(), Remember: rng.Intn(2) == 0}}, rr[:k], proof)
		e.count("probe_modify_wrongtargets")
	case 7: // Undo with a wrong number of additions
		if last == nil {
			return
		}
		n := uint64(len(last.adds))
		if rng.Intn(2) == 0 && n > 0 {
			n--
		} else if n+1 <= c.NumLeaves {
			n++
		} else {
			return
		}
		mmUndo(e, c, n, last.proof, last.dels, last.prevRoots)
		e.count("probe_undo_wrongcount")
	case 8: // Ingest / Verify of a claim whose hash list is longer or shorter than the target list are not mirrored
		// (outside the mirrored domain, see Model/MapMut.v); instead: Verify(remember) of what is remembered already
		if len(R) == 0 {
			return
		}
		sub := []u.Hash{R[rng.Intn(len(R))]}
		proof, _ := rf.prove(sub)
		mmVerify(e, c, sub, proof)
		e.count("probe_verify_again")
	}
}
