// Command harness drives the real utreexo package (built from /repo with -tags verif) and writes
// case files for the oracle extracted from the Coq development.
package main

import (
	"bufio"
	"encoding/json"
	"flag"
	"fmt"
	"math/rand"
	"os"
	"sort"
)

type runCfg struct {
	prop    string
	tier    string
	seed    int64
	out     string
	statsTo string
	replay  string
}

var generators = map[string]func(cfg runCfg, e *emitter, rng *rand.Rand){}

func main() {
	var cfg runCfg
	flag.StringVar(&cfg.prop, "prop", "", "property id (C01..C17)")
	flag.StringVar(&cfg.tier, "tier", "quick", "quick|thorough")
	flag.Int64Var(&cfg.seed, "seed", 1, "PRNG seed")
	flag.StringVar(&cfg.out, "out", "", "case file to write")
	flag.StringVar(&cfg.statsTo, "stats", "", "stats json to write")
	flag.StringVar(&cfg.replay, "replay", "", "replay descriptor (property specific)")
	isoChild := flag.Bool("isolated-child", false, "internal: child process of an isolated run")
	hungArg := flag.String("hung", "", "internal: indexes of calls that hung in earlier children")
	raceChildFlag := flag.Bool("race-child", false, "internal: concurrent run under the race detector")
	flag.Parse()
	if *raceChildFlag {
		raceChild(cfg.seed, cfg.tier)
		racingVerify(cfg.seed, cfg.tier)
		snapshotReaders(cfg.seed, cfg.tier)
		return
	}
	g, ok := generators[cfg.prop]
	if !ok {
		fmt.Fprintf(os.Stderr, "unknown property %q\n", cfg.prop)
		os.Exit(2)
	}
	if isolatedProps[cfg.prop] && !*isoChild {
		os.Exit(orchestrate(cfg))
	}
	var e *emitter
	if *isoChild {
		e = &emitter{w: bufio.NewWriterSize(os.Stdout, 1<<16), stats: map[string]int{}, child: true}
		e.hung, e.lastHung = parseHung(*hungArg)
		e.muted = len(e.hung) > 0
	} else {
		e = newEmitter(cfg.out)
	}
	rng := rand.New(rand.NewSource(cfg.seed))
	shaVectors(e, rng)
	g(cfg, e, rng)
	e.close()
	if cfg.statsTo != "" {
		keys := make([]string, 0, len(e.stats))
		for k := range e.stats {
			keys = append(keys, k)
		}
		sort.Strings(keys)
		out := map[string]interface{}{"lines": e.lines, "stats": e.stats, "samples": e.sample}
		b, _ := json.MarshalIndent(out, "", " ")
		os.WriteFile(cfg.statsTo, b, 0o644)
	}
}
