package main

func childMain(arg string) {}
