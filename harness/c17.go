package main

import (
	"fmt"
	"math/rand"

	u "github.com/utreexo/utreexo"
)

// padded argument slices: spare capacity filled with sentinels; contents AND spare capacity are
// compared before/after every call.
func padH(h []u.Hash) ([]u.Hash, []u.Hash) {
	full := make([]u.Hash, len(h)+3)
	copy(full, h)
	for i := len(h); i < len(full); i++ {
		full[i] = u.Hash{0xEE, byte(i)}
	}
	return full[:len(h)], append([]u.Hash{}, full...)
}
func padU(h []uint64) ([]uint64, []uint64) {
	full := make([]uint64, len(h)+3)
	copy(full, h)
	for i := len(h); i < len(full); i++ {
		full[i] = 0xEEEE0000 + uint64(i)
	}
	return full[:len(h)], append([]uint64{}, full...)
}
func sameH(a []u.Hash, snap []u.Hash) bool  { return eqHashes(a[:cap(a)], snap) }
func sameU(a []uint64, snap []uint64) bool { return eqU64(a[:cap(a)], snap) }

func genC17(cfg runCfg, e *emitter, rng *rand.Rand) {
	nHist := tierN(cfg, 150, 3000)
	for hI := 0; hI < nHist; hI++ {
		e.line("CASE nomut%d", hI)
		rf := &refForest{}
		pol := u.NewAccumulator()
		m := u.NewMapPollard(true)
		m.TotalRows = []uint8{0, 63, 4}[hI%3]
		part := u.NewMapPollard(false)
		st := u.Stump{}
		var cp u.Proof
		var ch []u.Hash
		type early struct {
			p     u.Proof
			snapT []uint64
			snapP []u.Hash
			from  string
		}
		var earlier []early
		note := func(k string) {
			e.hfail("mutated."+k, "caller-owned slice changed by the call (history %d)", hI)
		}
		sig := ""
		guarded(e, "c17", func() {
			for b := 0; b < 2+rng.Intn(8); b++ {
				dels, strat := pickDels(rng, rf)
				if len(dels) > 5 {
					dels = dels[:5]
				}
				nAdd := pickAdds(rng, rf.n(), 6)
				addsRaw := freshLeaves(nAdd)
				rproof, _ := rf.prove(dels)
				perm := rng.Perm(len(dels))
				d0 := make([]u.Hash, len(dels))
				t0 := make([]uint64, len(dels))
				for i, j := range perm {
					d0[i] = dels[j]
					t0[i] = rproof.Targets[j]
				}
				delsP, delsS := padH(d0)
				tgP, tgS := padU(t0)
				pfP, pfS := padH(rproof.Proof)
				addsP, addsS := padH(addsRaw)
				proof := u.Proof{Targets: tgP, Proof: pfP}
				sig += fmt.Sprintf("%s%d+%d;", strat[:1], len(dels), nAdd)
				chk := func(name string) {
					e.count("calls_checked")
					if !sameH(delsP, delsS) {
						note(name + ":delHashes")
						copy(delsP[:cap(delsP)], delsS)
					}
					if !sameU(tgP, tgS) {
						note(name + ":targets")
						copy(tgP[:cap(tgP)], tgS)
					}
					if !sameH(pfP, pfS) {
						note(name + ":proof")
						copy(pfP[:cap(pfP)], pfS)
					}
					if !sameH(addsP, addsS) {
						note(name + ":adds")
						copy(addsP[:cap(addsP)], addsS)
					}
					for _, er := range earlier {
						if !eqU64(er.p.Targets, er.snapT) || !eqHashes(er.p.Proof, er.snapP) {
							note(name + ":earlier-result-of-" + er.from + "-changed")
							copy(er.p.Targets, er.snapT)
							copy(er.p.Proof, er.snapP)
						}
					}
				}
				u.Verify(st, delsP, proof)
				chk("Verify")
				pol.Verify(delsP, proof, false)
				chk("Pollard.Verify")
				m.Verify(delsP, proof, false)
				chk("MapPollard.Verify")
				part.Verify(delsP, proof, true)
				chk("MapPollard.Verify(remember)")
				pp, _ := pol.Prove(delsP)
				chk("Pollard.Prove")
				mp, _ := m.Prove(delsP)
				chk("MapPollard.Prove")
				earlier = append(earlier,
					early{pp, append([]uint64{}, pp.Targets...), append([]u.Hash{}, pp.Proof...), "Pollard.Prove"},
					early{mp, append([]uint64{}, mp.Targets...), append([]u.Hash{}, mp.Proof...), "MapPollard.Prove"})
				if len(earlier) > 12 {
					earlier = earlier[len(earlier)-12:]
				}
				m.GetMissingPositions(tgP)
				chk("MapPollard.GetMissingPositions")
				m.VerifyPartialProof(tgP, delsP, pfP, false)
				chk("VerifyPartialProof")
				part.Ingest(delsP, proof)
				chk("MapPollard.Ingest")
				prevRoots, prS := padH(rf.roots())
				ud, err := st.Update(delsP, addsP, proof)
				chk("Stump.Update")
				if err != nil {
					e.hfail("Update.stump", "%v", err)
					return
				}
				leaves := toLeaves(addsP)
				pol.Modify(leaves, delsP, proof)
				chk("Pollard.Modify")
				m.Modify(leaves, delsP, proof)
				chk("MapPollard.Modify")
				part.Modify(leaves, delsP, proof)
				chk("MapPollard(partial).Modify")
				pol.Undo(uint64(nAdd), proof, delsP, prevRoots)
				chk("Pollard.Undo")
				if !sameH(prevRoots, prS) {
					note("Pollard.Undo:prevRoots")
					copy(prevRoots[:cap(prevRoots)], prS)
				}
				m.Undo(uint64(nAdd), proof, delsP, prevRoots)
				chk("MapPollard.Undo")
				if !sameH(prevRoots, prS) {
					note("MapPollard.Undo:prevRoots")
					copy(prevRoots[:cap(prevRoots)], prS)
				}
				part.Undo(uint64(nAdd), proof, delsP, prevRoots)
				chk("MapPollard(partial).Undo")
				if !sameH(prevRoots, prS) {
					note("MapPollard(partial).Undo:prevRoots")
					copy(prevRoots[:cap(prevRoots)], prS)
				}
				pol.Modify(leaves, delsP, proof)
				m.Modify(leaves, delsP, proof)
				part.Verify(delsP, proof, true)
				part.Modify(leaves, delsP, proof)
				chk("re-Modify")
				// pruning takes a caller slice too
				part.Prune(delsP)
				chk("MapPollard.Prune")
				// cached proof
				var rem []uint32
				for i := 0; i < nAdd; i++ {
					if rng.Intn(2) == 0 {
						rem = append(rem, uint32(i))
					}
				}
				chP, chS := padH(ch)
				cpT, cpTS := padU(cp.Targets)
				cpP, cpPS := padH(cp.Proof)
				cpx := u.Proof{Targets: cpT, Proof: cpP}
				udS := u.UpdateData{ToDestroy: append([]uint64{}, ud.ToDestroy...), PrevNumLeaves: ud.PrevNumLeaves,
					NewDelHash: append([]u.Hash{}, ud.NewDelHash...), NewDelPos: append([]uint64{}, ud.NewDelPos...),
					NewAddHash: append([]u.Hash{}, ud.NewAddHash...), NewAddPos: append([]uint64{}, ud.NewAddPos...)}
				nch, _ := cpx.Update(chP, addsP, tgP, rem, ud)
				chk("Proof.Update")
				if !sameH(chP, chS) {
					note("Proof.Update:cachedHashes")
				}
				if !sameU(cpT, cpTS) || !sameH(cpP, cpPS) {
					note("Proof.Update:old-proof-backing-arrays")
				}
				if !eqU64(ud.ToDestroy, udS.ToDestroy) || !eqHashes(ud.NewDelHash, udS.NewDelHash) || !eqU64(ud.NewDelPos, udS.NewDelPos) ||
					!eqHashes(ud.NewAddHash, udS.NewAddHash) || !eqU64(ud.NewAddPos, udS.NewAddPos) {
					note("Proof.Update:updateData")
				}
				ch = nch
				cp = cpx
				c2, c2S := padH(ch)
				u2T, u2TS := padU(cp.Targets)
				u2P, u2PS := padH(cp.Proof)
				cu := u.Proof{Targets: u2T, Proof: u2P}
				cu.Undo(uint64(nAdd), ud.PrevNumLeaves+uint64(nAdd), tgP, delsP, c2, ud.ToDestroy, proof)
				chk("Proof.Undo")
				if !sameH(c2, c2S) {
					note("Proof.Undo:cachedHashes")
				}
				if !sameU(u2T, u2TS) || !sameH(u2P, u2PS) {
					note("Proof.Undo:old-proof-backing-arrays")
				}
				if !eqU64(ud.ToDestroy, udS.ToDestroy) {
					note("Proof.Undo:toDestroy")
				}
				rf.apply(dels, addsRaw)
				live := rf.liveHashes()
				if len(live) >= 2 {
					rng.Shuffle(len(live), func(i, j int) { live[i], live[j] = live[j], live[i] })
					A := live[:1+rng.Intn(len(live))]
					B := live[len(live)/2:]
					pa, _ := rf.prove(A)
					pb, _ := rf.prove(B)
					aH, aHS := padH(A)
					bH, bHS := padH(B)
					aT, aTS := padU(pa.Targets)
					aP, aPS := padH(pa.Proof)
					bT, bTS := padU(pb.Targets)
					bP, bPS := padH(pb.Proof)
					u.AddProof(u.Proof{Targets: aT, Proof: aP}, u.Proof{Targets: bT, Proof: bP}, aH, bH, rf.n())
					e.count("calls_checked")
					if !sameH(aH, aHS) || !sameH(bH, bHS) || !sameU(aT, aTS) || !sameH(aP, aPS) || !sameU(bT, bTS) || !sameH(bP, bPS) {
						note("AddProof:args")
					}
					w, wS := padU(pa.Targets[:1+rng.Intn(len(pa.Targets))])
					u.GetProofSubset(u.Proof{Targets: aT, Proof: aP}, aH, w, rf.n())
					e.count("calls_checked")
					if !sameH(aH, aHS) || !sameU(aT, aTS) || !sameH(aP, aPS) || !sameU(w, wS) {
						note("GetProofSubset:args")
					}
				}
			}
		})
		e.distinct(sig)
		if hI < 2 {
			e.sample = append(e.sample, "history "+sig+": every API call with sentinel-padded argument slices, snapshots compared after each call")
		}
	}
}

func init() { generators["C17"] = genC17 }
