package main

import (
	"fmt"
	"math/rand"
	"sort"

	u "github.com/utreexo/utreexo"
)

type blockRec struct {
	dels, adds []u.Hash
	remAdds    []u.Hash
	proof      u.Proof
	prevRoots  []u.Hash
	before     *refForest
}

// partialInst is a non-full map forest with the harness-side expectation of its remembered set.
type partialInst struct {
	m *u.MapPollard
	R map[u.Hash]bool
	// lazy: Verify(remember) the deletions only when some deleted leaf is not remembered already;
	// otherwise the block is applied from what the forest itself stores
	lazy bool
}

func sortedSet(R map[u.Hash]bool) []u.Hash {
	var l []u.Hash
	for h := range R {
		l = append(l, h)
	}
	sort.Slice(l, func(a, b int) bool { return string(l[a][:]) < string(l[b][:]) })
	return l
}

// observeFull emits every observable of a full implementation for the current state.
func observeFull(e *emitter, label string, p u.Utreexo, rf *refForest, dead []u.Hash, rng *rand.Rand) {
	guarded(e, "observe."+label, func() {
		e.line("ROOTS %s %d %s", label, p.GetNumLeaves(), hs(p.GetRoots()))
		rows := refRows(rf.n())
		nodes, leafPos := rf.layout(rows)
		tot := ""
		if mp, ok := p.(*u.MapPollard); ok {
			tot = fmt.Sprintf(" %d", mp.TotalRows)
		}
		var live []u.Hash
		for h := range leafPos {
			live = append(live, h)
		}
		sort.Slice(live, func(a, b int) bool { return string(live[a][:]) < string(live[b][:]) })
		qs := append([]u.Hash{}, live...)
		if len(qs) > 30 {
			rng.Shuffle(len(qs), func(i, j int) { qs[i], qs[j] = qs[j], qs[i] })
			qs = qs[:30]
		}
		for i, d := range dead {
			if i >= 10 {
				break
			}
			qs = append(qs, d)
		}
		for _, h := range qs {
			pos, ok := p.GetLeafPosition(h)
			r := "none"
			if ok {
				r = fmt.Sprint(pos)
			}
			e.line("LEAFPOS %s 1 %s %s", label, hx(h), r)
		}
		var ps []uint64
		for pp := range nodes {
			ps = append(ps, pp)
		}
		sort.Slice(ps, func(a, b int) bool { return ps[a] < ps[b] })
		top := uint64(2)<<uint(rows) + 2
		if top < 70 {
			ps = ps[:0]
			for x := uint64(0); x <= top; x++ {
				ps = append(ps, x)
			}
		} else if len(ps) > 60 {
			rng.Shuffle(len(ps), func(i, j int) { ps[i], ps[j] = ps[j], ps[i] })
			ps = ps[:60]
		}
		for _, pos := range ps {
			e.line("GETHASH %s 1 %d %s%s", label, pos, hx(p.GetHash(pos)), tot)
		}
		for k := 0; k < 3 && len(live) > 0; k++ {
			rng.Shuffle(len(live), func(i, j int) { live[i], live[j] = live[j], live[i] })
			emitProve(e, label, p, append([]u.Hash{}, live[:1+rng.Intn(len(live))]...))
		}
		switch v := p.(type) {
		case *u.Pollard:
			nm, nd := u.VerifPollardCounts(v)
			e.line("COUNT %s.nodemap %d", label, nm)
			e.line("COUNT %s.adds-dels %d", label, v.NumLeaves-nd)
		case *u.MapPollard:
			e.line("COUNT %s.cached %d", label, v.CachedLeaves.Length())
		}
	})
}

// dumpPartial emits the stored map and the cached leaves of a partial forest, positions translated to
// the minimal geometry by plain (row, offset) arithmetic.
func observePartial(e *emitter, pi *partialInst, rf *refForest, dead []u.Hash, rng *rand.Rand) {
	m := pi.m
	label := mapName(m)
	guarded(e, "observe."+label, func() {
		e.line("ROOTS %s %d %s", label, m.GetNumLeaves(), hs(m.GetRoots()))
		rows := refRows(rf.n())
		var ps []uint64
		var hh []u.Hash
		type kv struct {
			p uint64
			h u.Hash
		}
		var all []kv
		m.Nodes.ForEach(func(k uint64, v u.Leaf) error { all = append(all, kv{k, v.Hash}); return nil })
		sort.Slice(all, func(a, b int) bool { return all[a].p < all[b].p })
		for _, x := range all {
			ps = append(ps, refTranslate(x.p, int(m.TotalRows), rows))
			hh = append(hh, x.h)
		}
		R := sortedSet(pi.R)
		e.line("STORED %s %s %s", label, hs(R), pairs(ps, hh))
		// cached leaves = R with true positions
		var ch []u.Hash
		m.CachedLeaves.ForEach(func(k u.Hash, v uint64) error { ch = append(ch, k); return nil })
		sort.Slice(ch, func(a, b int) bool { return string(ch[a][:]) < string(ch[b][:]) })
		e.line("EQ %s.cachedset %s %s", label, hs(ch), hs(R))
		nodes, leafPos := rf.layout(rows)
		_ = nodes
		// look-ups: tracked leaves found at their position, everything else not found
		var qs []u.Hash
		qs = append(qs, R...)
		var live []u.Hash
		for h := range leafPos {
			if !pi.R[h] {
				live = append(live, h)
			}
		}
		sort.Slice(live, func(a, b int) bool { return string(live[a][:]) < string(live[b][:]) })
		if len(live) > 10 {
			live = live[:10]
		}
		for _, h := range live {
			pos, ok := m.GetLeafPosition(h)
			r := "none"
			if ok {
				r = fmt.Sprint(pos)
			}
			e.line("LEAFPOS %s 0 %s %s", label, hx(h), r)
		}
		for i, d := range dead {
			if i >= 6 {
				break
			}
			qs = append(qs, d)
		}
		for _, h := range qs {
			pos, ok := m.GetLeafPosition(h)
			r := "none"
			if ok {
				r = fmt.Sprint(pos)
			}
			e.line("LEAFPOS %s %s %s %s", label, b01(pi.R[h]), hx(h), r)
		}
		top := uint64(2)<<uint(rows) + 2
		for x := uint64(0); x <= top && x < 80; x++ {
			e.line("GETHASH %s 0 %d %s %d", label, x, hx(m.GetHash(x)), m.TotalRows)
		}
		emitMapRead(e, m, rf, sortedSet(pi.R), rng)
		// every sub-list of the remembered leaves is provable with the canonical proof
		for k := 0; k < 3 && len(R) > 0; k++ {
			rng.Shuffle(len(R), func(i, j int) { R[i], R[j] = R[j], R[i] })
			sub := append([]u.Hash{}, R[:1+rng.Intn(len(R))]...)
			emitProve(e, label, m, sub)
		}
	})
}

func genC06(cfg runCfg, e *emitter, rng *rand.Rand) {
	runUndoHistories(cfg, e, rng, tierN(cfg, 350, 4000))
}

// runUndoHistories: n blocks, undo k newest-first with full observation after each undo, redo.
func runUndoHistories(cfg runCfg, e *emitter, rng *rand.Rand, nHist int) {
	for hI := 0; hI < nHist; hI++ {
		e.line("CASE undo%d", hI)
		mmReset()
		e.line("RESET")
		rf := &refForest{}
		pol := u.NewAccumulator()
		var maps []*u.MapPollard
		for _, tr := range []uint8{0, 5, 63} {
			m := u.NewMapPollard(true)
			m.TotalRows = tr
			maps = append(maps, &m)
		}
		// partial forests follow the protocol: verify-with-remember the deletions, then modify
		var parts []*partialInst
		for _, tr := range []uint8{0, 63} {
			m := u.NewMapPollard(false)
			m.TotalRows = tr
			parts = append(parts, &partialInst{m: &m, R: map[u.Hash]bool{}})
		}
		deadImpl := map[string]bool{}
		var hist []blockRec
		var dead []u.Hash
		sig := ""
		step := func() {
			dels, strat := pickDels(rng, rf)
			// force tree-emptying deletions followed by additions that overwrite the empty roots
			nAdd := pickAdds(rng, rf.n(), tierN(cfg, 7, 24))
			adds := freshLeaves(nAdd)
			proof, _ := rf.prove(dels)
			var remAdds []u.Hash
			leaves := make([]u.Leaf, len(adds))
			for i := range adds {
				leaves[i] = u.Leaf{Hash: adds[i], Remember: rng.Intn(3) == 0}
				if leaves[i].Remember {
					remAdds = append(remAdds, adds[i])
				}
			}
			rec := blockRec{dels: dels, adds: adds, remAdds: remAdds, proof: proof, prevRoots: rf.roots(), before: rf.clone()}
			hist = append(hist, rec)
			sig += fmt.Sprintf("%s%d+%d;", strat[:1], len(dels), nAdd)
			e.count("dels_" + strat)
			if !deadImpl["pol"] {
				guarded(e, "Modify.pol", func() {
					if err := pol.Modify(toLeaves(adds), dels, proof); err != nil {
						e.hfail("Modify.pol", "%v", err)
						deadImpl["pol"] = true
					}
				})
			}
			for _, m := range maps {
				m := m
				if !deadImpl[mapName(m)] {
					guarded(e, "Modify."+mapName(m), func() {
						if err := mmModify(e, m, toLeaves(adds), dels, proof); err != nil {
							e.hfail("Modify."+mapName(m), "%v", err)
							deadImpl[mapName(m)] = true
						}
					})
				}
			}
			for _, pi := range parts {
				pi := pi
				if deadImpl[mapName(pi.m)] {
					continue
				}
				guarded(e, "Modify."+mapName(pi.m), func() {
					if len(dels) > 0 {
						if err := mmVerify(e, pi.m, dels, proof); err != nil {
							e.hfail("VerifyRemember."+mapName(pi.m), "%v", err)
							deadImpl[mapName(pi.m)] = true
							return
						}
					}
					if err := mmModify(e, pi.m, leaves, dels, proof); err != nil {
						e.hfail("Modify."+mapName(pi.m), "%v", err)
						deadImpl[mapName(pi.m)] = true
						return
					}
					for _, d := range dels {
						delete(pi.R, d)
					}
					for _, a := range remAdds {
						pi.R[a] = true
					}
				})
			}
			rf.apply(dels, adds)
			dead = append(dead, dels...)
			e.line("BLOCK %s %s", hs(dels), hs(adds))
		}
		observe := func() {
			if !deadImpl["pol"] {
				observeFull(e, "pol", &pol, rf, dead, rng)
			}
			for _, m := range maps {
				if !deadImpl[mapName(m)] {
					observeFull(e, mapName(m), m, rf, dead, rng)
				}
			}
			for _, pi := range parts {
				if !deadImpl[mapName(pi.m)] {
					observePartial(e, pi, rf, dead, rng)
				}
			}
		}
		nb := 2 + rng.Intn(8)
		for b := 0; b < nb; b++ {
			step()
		}
		rounds := 1 + rng.Intn(2)
		for round := 0; round < rounds && len(hist) > 0; round++ {
			k := 1 + rng.Intn(len(hist))
			sig += fmt.Sprintf("U%d;", k)
			e.count(fmt.Sprintf("undo_depth_%d", min(k, 10)))
			for i := 0; i < k; i++ {
				rec := hist[len(hist)-1]
				hist = hist[:len(hist)-1]
				undo := func(label string, p u.Utreexo) {
					if deadImpl[label] {
						return
					}
					guarded(e, "Undo."+label, func() {
						proof := rec.proof
						if mp, ok := p.(*u.MapPollard); ok && mp.Full && hI%2 == 1 {
							// a full forest can rebuild the proof hashes itself: targets only
							proof = u.Proof{Targets: append([]uint64{}, rec.proof.Targets...)}
							e.count("undo_targets_only")
						}
						var err error
						if mp, ok := p.(*u.MapPollard); ok {
							err = mmUndo(e, mp, uint64(len(rec.adds)), proof, rec.dels, rec.prevRoots)
						} else {
							err = p.Undo(uint64(len(rec.adds)), proof, rec.dels, rec.prevRoots)
						}
						if err != nil {
							e.hfail("Undo."+label, "depth %d: %v", i, err)
							deadImpl[label] = true
						}
					})
				}
				undo("pol", &pol)
				for _, m := range maps {
					undo(mapName(m), m)
				}
				for _, pi := range parts {
					undo(mapName(pi.m), pi.m)
					for _, a := range rec.adds {
						delete(pi.R, a)
					}
					for _, d := range rec.dels {
						pi.R[d] = true
					}
				}
				rf = rec.before
				// the leaves deleted by the undone block are live again
				liveNow := map[u.Hash]bool{}
				for _, h := range rf.liveHashes() {
					liveNow[h] = true
				}
				var nd []u.Hash
				for _, d := range dead {
					if !liveNow[d] {
						nd = append(nd, d)
					}
				}
				dead = append(nd, rec.adds...)
				e.line("UNDO")
				observe()
			}
			// redo with other blocks from the restored state
			for b := 0; b < 1+rng.Intn(3); b++ {
				step()
				observe()
			}
		}
		e.distinct(sig)
		if hI < 2 {
			e.sample = append(e.sample, "history "+sig)
		}
	}
}

func init() { generators["C06"] = genC06 }
