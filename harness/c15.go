package main

import (
	"fmt"
	"math/rand"
	"strings"

	u "github.com/utreexo/utreexo"
)

func schedStr(s [][]uint64) string {
	parts := make([]string, len(s))
	for i, l := range s {
		parts[i] = us(l)
	}
	return strings.Join(parts, "|")
}

func genC15(cfg runCfg, e *emitter, rng *rand.Rand) {
	nHist := tierN(cfg, 1000, 8000)
	for hI := 0; hI < nHist; hI++ {
		e.line("CASE sched%d", hI)
		e.line("RESET")
		rf := &refForest{}
		nb := 3 + rng.Intn(tierN(cfg, 9, 20))
		cs := u.NewCachingScheduleTracker(nb)
		sig := ""
		totalAdded := 0
		for b := 0; b < nb; b++ {
			dels, strat := pickDels(rng, rf)
			if rng.Intn(3) > 0 && len(dels) > 3 {
				dels = dels[:1+rng.Intn(3)]
			}
			nAdd := pickAdds(rng, rf.n(), tierN(cfg, 7, 20))
			adds := freshLeaves(nAdd)
			proof, _ := rf.prove(dels)
			guarded(e, "AddBlockSummary", func() {
				cs.AddBlockSummary(append([]uint64{}, proof.Targets...), uint16(nAdd))
			})
			// the arguments of the call, for the mirror of AddBlockSummary + genTTLs (Model/TTL.v)
			e.line("TTLB %s %d", us(proof.Targets), nAdd)
			rf.apply(dels, adds)
			totalAdded += nAdd
			e.line("BLOCK %s %s", hs(dels), hs(adds))
			sig += fmt.Sprintf("%s%d+%d;", strat[:1], len(dels), nAdd)
			e.count("dels_" + strat)
		}
		ttlStr := ""
		// the TTL facts
		guarded(e, "genTTLs", func() {
			cs2 := cs
			t := u.VerifTTLs(&cs2)
			parts := make([]string, len(t))
			for i, blk := range t {
				var ps []string
				for _, x := range blk {
					ps = append(ps, fmt.Sprintf("%d:%d", x[0], x[1]))
				}
				if len(ps) == 0 {
					parts[i] = "-"
				} else {
					parts[i] = strings.Join(ps, ",")
				}
			}
			ttlStr = strings.Join(parts, "|")
			e.line("TTLS gen %s", ttlStr)
			e.line("TTLM gen %s", ttlStr)
		})
		for _, maxMem := range []int{1, 2, 3, 5, totalAdded, totalAdded + 5, 1000000} {
			if maxMem < 1 {
				continue
			}
			guarded(e, "GenerateCachingSchedule", func() {
				cs2 := cs
				sch := cs2.GenerateCachingSchedule(maxMem)
				e.line("SCHED m%d %d %s", maxMem, maxMem, schedStr(sch))
				if ttlStr != "" {
					e.line("EVICT m%d %d %s %s", maxMem, maxMem, ttlStr, schedStr(sch))
				}
				e.count("schedules")
			})
		}
		e.distinct(sig)
		if hI < 2 {
			e.sample = append(e.sample, "block summaries "+sig+" limits 1,2,3,5,total,total+5,10^6")
		}
	}
}

func init() { generators["C15"] = genC15 }
