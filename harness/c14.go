package main

import (
	"fmt"
	"math/rand"
	"sort"

	u "github.com/utreexo/utreexo"
)

func genC14(cfg runCfg, e *emitter, rng *rand.Rand) {
	nHist := tierN(cfg, 1500, 8000)
	for hI := 0; hI < nHist; hI++ {
		e.line("CASE pc%d", hI)
		e.line("RESET")
		rf := &refForest{}
		part := u.NewMapPollard(false)
		part.TotalRows = []uint8{0, 4, 63}[hI%3]
		R := map[u.Hash]bool{}
		nb := 2 + rng.Intn(5)
		for b := 0; b < nb; b++ {
			dels, _ := pickDels(rng, rf)
			if len(dels) > 3 {
				dels = dels[:3]
			}
			adds := freshLeaves(pickAdds(rng, rf.n(), tierN(cfg, 8, 24)))
			proof, _ := rf.prove(dels)
			if len(dels) > 0 {
				part.Verify(dels, proof, true)
			}
			l := toLeaves(adds)
			for i := range l {
				l[i].Remember = rng.Intn(3) == 0
				if l[i].Remember {
					R[l[i].Hash] = true
				}
			}
			part.Modify(l, dels, proof)
			for _, d := range dels {
				delete(R, d)
			}
			rf.apply(dels, adds)
			e.line("BLOCK %s %s", hs(dels), hs(adds))
		}
		live := rf.liveHashes()
		if len(live) < 2 {
			continue
		}
		rows := refRows(rf.n())
		nodes, lp := rf.layout(rows)
		pick := func() []u.Hash {
			rng.Shuffle(len(live), func(i, j int) { live[i], live[j] = live[j], live[i] })
			k := 1 + rng.Intn(len(live))
			if rng.Intn(2) == 0 && k > 4 {
				k = 1 + rng.Intn(4)
			}
			return append([]u.Hash{}, live[:k]...)
		}
		byPos := func(l []u.Hash) []u.Hash {
			o := append([]u.Hash{}, l...)
			sort.Slice(o, func(a, b int) bool { return lp[o[a]] < lp[o[b]] })
			return o
		}
		for rep := 0; rep < tierN(cfg, 4, 8); rep++ {
			guarded(e, "c14", func() {
				A, B := pick(), pick()
				switch rng.Intn(4) {
				case 0: // overlapping
					B = append(B, A[0])
					seen := map[u.Hash]bool{}
					var nbb []u.Hash
					for _, h := range B {
						if !seen[h] {
							seen[h] = true
							nbb = append(nbb, h)
						}
					}
					B = nbb
				case 1: // sorted inputs
					A, B = byPos(A), byPos(B)
				}
				pa, _ := rf.prove(A)
				pb, _ := rf.prove(B)
				um := map[u.Hash]bool{}
				for _, h := range A {
					um[h] = true
				}
				for _, h := range B {
					um[h] = true
				}
				// AddProof: canonical proof of the union, hashes ordered by position
				hh, pc := u.AddProof(pa, pb, A, B, rf.n())
				e.line("PO AddProof %s %s %s %s %s %s %d = %s %s %s", us(pa.Targets), hs(pa.Proof), us(pb.Targets), hs(pb.Proof), hs(A), hs(B), rf.n(),
					hs(hh), us(pc.Targets), hs(pc.Proof))
				e.line("CACHED addproof %s %s %s %s", hs(sortedSet(um)), hs(hh), us(pc.Targets), hs(pc.Proof))
				e.count("addproof")
				// GetProofSubset: wants = random subset of A, permuted
				k := 1 + rng.Intn(len(A))
				perm := rng.Perm(len(A))[:k]
				var W []u.Hash
				var wp []uint64
				for _, i := range perm {
					W = append(W, A[i])
					wp = append(wp, pa.Targets[i])
				}
				rh, rp, err := u.GetProofSubset(pa, A, wp, rf.n())
				if err != nil {
					e.line("PO GetProofSubset %s %s %s %s %d = err", us(pa.Targets), hs(pa.Proof), hs(A), us(wp), rf.n())
				} else {
					e.line("PO GetProofSubset %s %s %s %s %d = ok %s %s %s", us(pa.Targets), hs(pa.Proof), hs(A), us(wp), rf.n(), hs(rh), us(rp.Targets), hs(rp.Proof))
				}
				if err != nil {
					e.line("PROVE subset %s err", hs(W))
				} else {
					e.line("PROVE subset %s ok %s %s", hs(W), us(rp.Targets), hs(rp.Proof))
					e.line("EQ subset.hashes %s %s", hs(rh), hs(W))
				}
				e.count("subset")
				// error exactly when a wanted target is not covered
				for _, h := range live {
					inA := false
					for _, a := range A {
						if a == h {
							inA = true
						}
					}
					if !inA {
						_, _, err := u.GetProofSubset(pa, A, append(append([]uint64{}, wp...), lp[h]), rf.n())
						e.line("EQ subset.uncovered-is-error %s err", errStr(err))
						break
					}
				}
				// GetMissingPositions (function): have proof for A, want D
				D := pick()
				pd, _ := rf.prove(D)
				got := u.GetMissingPositions(rf.n(), append([]uint64{}, pa.Targets...), append([]uint64{}, pd.Targets...))
				e.line("PO GetMissingPositions %d %s %s = %s", rf.n(), us(pa.Targets), us(pd.Targets), us(got))
				e.line("MISSING fn %s %s %s", hs(A), hs(D), us(got))
				e.count("missing_fn")
				// supplying the true hashes at the missing positions completes a verifying proof
				// MapPollard.GetMissingPositions + VerifyPartialProof
				miss := part.GetMissingPositions(append([]uint64{}, pd.Targets...))
				var stored []uint64
				part.Nodes.ForEach(func(k uint64, v u.Leaf) error {
					stored = append(stored, refTranslate(k, int(part.TotalRows), rows))
					return nil
				})
				sort.Slice(stored, func(a, b int) bool { return stored[a] < stored[b] })
				e.line("MISSINGST %s %s %s %s", mapName(&part), hs(D), us(stored), us(miss))
				var supply []u.Hash
				okSupply := true
				for _, p := range miss {
					nd, ok := nodes[p]
					if !ok {
						okSupply = false
						break
					}
					supply = append(supply, nd.hash)
				}
				if okSupply {
					err := part.VerifyPartialProof(pd.Targets, D, supply, false)
					e.line("HONEST partialproof %s", errStr(err))
					if len(supply) > 0 {
						supply[rng.Intn(len(supply))][5] ^= 1
						err := part.VerifyPartialProof(pd.Targets, D, supply, false)
						e.line("EQ partialproof.corrupted-is-error %s err", errStr(err))
					}
				}
				e.count("missing_map")
				e.distinct(fmt.Sprintf("%s|%s|%s|%s", us(pa.Targets), us(pb.Targets), us(wp), us(pd.Targets)))
			})
		}
		if hI < 2 {
			e.sample = append(e.sample, fmt.Sprintf("forest of %d leaves: AddProof/GetProofSubset/GetMissingPositions on random target sets", rf.n()))
		}
	}
}

func init() { generators["C14"] = genC14 }
