package main

import (
	"fmt"
	"math/rand"

	u "github.com/utreexo/utreexo"
)

type lcBlock struct {
	dels, adds []u.Hash
	targets    []uint64
	proof      u.Proof
	ud         u.UpdateData
	numLeaves  uint64 // after the block
	prevStump  u.Stump
	setBefore  map[u.Hash]bool
}

func copySet(s map[u.Hash]bool) map[u.Hash]bool {
	c := map[u.Hash]bool{}
	for k := range s {
		c[k] = true
	}
	return c
}
func copyStump(s u.Stump) u.Stump {
	return u.Stump{Roots: append([]u.Hash{}, s.Roots...), NumLeaves: s.NumLeaves}
}

func u32s(l []uint32) string {
	c := make([]uint64, len(l))
	for i, v := range l {
		c[i] = uint64(v)
	}
	return us(c)
}

// puResult prints what a Proof.Update / Proof.Undo call left behind: the returned hashes and the
// receiver's Targets and Proof after the call, or err.
func puResult(nh []u.Hash, p u.Proof, err error) string {
	if err != nil {
		return "err"
	}
	return fmt.Sprintf("ok %s %s %s", hs(nh), us(p.Targets), hs(p.Proof))
}

// puUpdate calls p.Update and emits the PU event (inputs as they were before the call).
func puUpdate(e *emitter, p *u.Proof, ch, adds []u.Hash, targets []uint64, remembers []uint32, ud u.UpdateData) ([]u.Hash, error) {
	tBefore := append([]uint64{}, p.Targets...)
	pBefore := append([]u.Hash{}, p.Proof...)
	chBefore := append([]u.Hash{}, ch...)
	nh, err := p.Update(ch, adds, targets, remembers, ud)
	e.line("PU Update %s %s %s %s %s %s %s %d %s %s = %s", us(tBefore), hs(pBefore), hs(chBefore), hs(adds), us(targets),
		u32s(remembers), us(ud.ToDestroy), ud.PrevNumLeaves, pairs(ud.NewDelPos, ud.NewDelHash), pairs(ud.NewAddPos, ud.NewAddHash),
		puResult(nh, *p, err))
	return nh, err
}

// puUndo calls p.Undo and emits the PU event (inputs as they were before the call).
func puUndo(e *emitter, p *u.Proof, numAdds, numLeaves uint64, dels []uint64, delHashes, ch []u.Hash, toDestroy []uint64, proof u.Proof) ([]u.Hash, error) {
	tBefore := append([]uint64{}, p.Targets...)
	pBefore := append([]u.Hash{}, p.Proof...)
	chBefore := append([]u.Hash{}, ch...)
	nh, err := p.Undo(numAdds, numLeaves, dels, delHashes, ch, toDestroy, proof)
	e.line("PU Undo %s %s %d %d %s %s %s %s %s %s = %s", us(tBefore), hs(pBefore), numAdds, numLeaves, us(dels), hs(delHashes),
		hs(chBefore), us(toDestroy), us(proof.Targets), hs(proof.Proof), puResult(nh, *p, err))
	return nh, err
}

// genLightClient: a client holding only (stump, proof, hashes), updated from block data alone (C07),
// undone newest-first and updated again (C08).
func genLightClient(cfg runCfg, e *emitter, rng *rand.Rand, withUndo bool) {
	nHist := tierN(cfg, 2500, 12000)
	for hI := 0; hI < nHist; hI++ {
		e.line("CASE lc%d", hI)
		e.line("RESET")
		rf := &refForest{}
		stump := u.Stump{}
		var cp u.Proof
		var ch []u.Hash
		C := map[u.Hash]bool{}
		// a second client that remembers the complementary leaves and is updated/undone with the SAME
		// block data objects (UpdateData, proof, targets) after the first one
		var cp2 u.Proof
		var ch2 []u.Hash
		C2 := map[u.Hash]bool{}
		var hist []lcBlock
		sig := ""
		remMode := rng.Intn(5) // 0 none, 1 all, 2 last only, 3/4 random
		ok := true
		emitCached := func(tag string) {
			e.line("CACHED %s %s %s %s %s", tag, hs(sortedSet(C)), hs(ch), us(cp.Targets), hs(cp.Proof))
			if len(ch) > 0 {
				idx, err := u.Verify(stump, ch, cp)
				_ = idx
				e.line("HONEST %s.verify %s", tag, errStr(err))
			}
			e.line("CACHED %s.second %s %s %s %s", tag, hs(sortedSet(C2)), hs(ch2), us(cp2.Targets), hs(cp2.Proof))
		}
		step := func() {
			dels, strat := pickDels(rng, rf)
			if len(dels) > 5 && rng.Intn(3) != 0 {
				dels = dels[:1+rng.Intn(5)]
			}
			nAdd := pickAdds(rng, rf.n(), tierN(cfg, 7, 20))
			adds := freshLeaves(nAdd)
			var remembers []uint32
			for i := range adds {
				r := false
				switch remMode {
				case 1:
					r = true
				case 2:
					r = i == len(adds)-1
				case 3, 4:
					r = rng.Intn(2) == 0
				}
				if r {
					remembers = append(remembers, uint32(i))
				}
			}
			proof, _ := rf.prove(dels)
			rec := lcBlock{dels: dels, adds: adds, targets: proof.Targets, proof: proof, prevStump: copyStump(stump), setBefore: copySet(C)}
			guarded(e, "lightclient.update", func() {
				ud, err := stump.Update(dels, adds, proof)
				if err != nil {
					e.hfail("Update.stump", "%v", err)
					ok = false
					return
				}
				rec.ud = ud
				rec.numLeaves = stump.NumLeaves
				nh, err := puUpdate(e, &cp, ch, adds, proof.Targets, remembers, ud)
				if err != nil {
					e.hfail("Proof.Update", "%v", err)
					ok = false
					return
				}
				ch = nh
				var rem2 []uint32
				inRem := map[uint32]bool{}
				for _, r := range remembers {
					inRem[r] = true
				}
				for i := range adds {
					if !inRem[uint32(i)] {
						rem2 = append(rem2, uint32(i))
					}
				}
				nh2, err := puUpdate(e, &cp2, ch2, adds, proof.Targets, rem2, ud)
				if err != nil {
					e.hfail("Proof.Update.second", "%v", err)
					ok = false
					return
				}
				ch2 = nh2
				for _, d := range dels {
					delete(C2, d)
				}
				for _, i := range rem2 {
					C2[adds[i]] = true
				}
			})
			if !ok {
				return
			}
			for _, d := range dels {
				delete(C, d)
			}
			for _, i := range remembers {
				C[adds[i]] = true
			}
			hist = append(hist, rec)
			rf.apply(dels, adds)
			e.line("BLOCK %s %s", hs(dels), hs(adds))
			sig += fmt.Sprintf("%s%d+%d r%d;", strat[:1], len(dels), nAdd, len(remembers))
			e.count("dels_" + strat)
			e.countN("remembered", len(remembers))
			emitCached("update")
		}
		nb := 3 + rng.Intn(9)
		for b := 0; b < nb && ok; b++ {
			step()
		}
		if withUndo && ok {
			for round := 0; round < 1+rng.Intn(2) && len(hist) > 0 && ok; round++ {
				k := 1 + rng.Intn(len(hist))
				sig += fmt.Sprintf("U%d;", k)
				e.count(fmt.Sprintf("undo_depth_%d", min(k, 10)))
				for i := 0; i < k && ok; i++ {
					rec := hist[len(hist)-1]
					hist = hist[:len(hist)-1]
					guarded(e, "lightclient.undo", func() {
						nh, err := puUndo(e, &cp, uint64(len(rec.adds)), rec.numLeaves, rec.targets, rec.dels, ch, rec.ud.ToDestroy, rec.proof)
						if err != nil {
							e.hfail("Proof.Undo", "%v", err)
							ok = false
							return
						}
						ch = nh
						nh2, err := puUndo(e, &cp2, uint64(len(rec.adds)), rec.numLeaves, rec.targets, rec.dels, ch2, rec.ud.ToDestroy, rec.proof)
						if err != nil {
							e.hfail("Proof.Undo.second", "%v", err)
							ok = false
							return
						}
						ch2 = nh2
					})
					if !ok {
						break
					}
					stump = rec.prevStump
					// expected: what was cached after the block minus what the block added
					// (leaves the block deleted are documented as not restored)
					for _, a := range rec.adds {
						delete(C, a)
						delete(C2, a)
					}
					rf2 := &refForest{}
					_ = rf2
					e.line("UNDO")
					emitCached("undo")
				}
				// rebuild the generator-side reference for the restored state
				rf = &refForest{}
				for _, r := range hist {
					rf.apply(r.dels, r.adds)
				}
				for b := 0; b < 1+rng.Intn(3) && ok; b++ {
					step()
				}
			}
		}
		e.distinct(sig)
		if hI < 2 {
			e.sample = append(e.sample, fmt.Sprintf("light client remember-mode %d: %s", remMode, sig))
		}
	}
}

func init() {
	generators["C07"] = func(cfg runCfg, e *emitter, rng *rand.Rand) { genLightClient(cfg, e, rng, false) }
	generators["C08"] = func(cfg runCfg, e *emitter, rng *rand.Rand) { genLightClient(cfg, e, rng, true) }
}
