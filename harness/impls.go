package main

import (
	"bytes"
	"fmt"

	u "github.com/utreexo/utreexo"
)

// implSet is every implementation driven in lock-step along one history.
type implSet struct {
	stump u.Stump
	pol   u.Pollard
	maps  []*u.MapPollard // full map forests with different TotalRows
	parts []*partialInst  // partial map forests (deletions are verified with remember first)
	dead  map[string]bool
}

// addPartials adds non-full map forests with the given TotalRows settings.
func (s *implSet) addPartials(rows []uint8) {
	for i, tr := range rows {
		m := u.NewMapPollard(false)
		m.TotalRows = tr
		s.parts = append(s.parts, &partialInst{m: &m, R: map[u.Hash]bool{}, lazy: i%2 == 0})
	}
}

// applyPartials applies a block to the partial forests: verify-with-remember the deletions, then
// Modify with the given Remember flags; keeps the expected remembered set.
func (s *implSet) applyPartials(e *emitter, dels, adds []u.Hash, proof u.Proof, remember []bool) {
	for _, pi := range s.parts {
		pi := pi
		name := mapName(pi.m)
		if s.dead[name] {
			continue
		}
		guarded(e, "Modify."+name, func() {
			need := !pi.lazy
			for _, d := range dels {
				if !pi.R[d] {
					need = true
				}
			}
			if len(dels) > 0 && need {
				if err := pi.m.Verify(dels, proof, true); err != nil {
					e.hfail("VerifyRemember."+name, "honest proof rejected: %v", err)
					s.dead[name] = true
					return
				}
			}
			leaves := make([]u.Leaf, len(adds))
			for i := range adds {
				leaves[i] = u.Leaf{Hash: adds[i], Remember: remember[i]}
			}
			if err := pi.m.Modify(leaves, dels, proof); err != nil {
				e.hfail("Modify."+name, "honest block rejected: %v", err)
				s.dead[name] = true
				return
			}
			for _, d := range dels {
				delete(pi.R, d)
			}
			for i := range adds {
				if remember[i] {
					pi.R[adds[i]] = true
				}
			}
		})
	}
}

func newImplSet(rows []uint8) *implSet {
	s := &implSet{dead: map[string]bool{}}
	s.pol = u.NewAccumulator()
	for _, tr := range rows {
		m := u.NewMapPollard(true)
		m.TotalRows = tr
		s.maps = append(s.maps, &m)
	}
	return s
}

func mapName(m *u.MapPollard) string {
	f := "p"
	if m.Full {
		f = "f"
	}
	return fmt.Sprintf("map%s%d", f, m.TotalRows)
}

// guarded runs f and reports a panic as a harness-side failure.
func guarded(e *emitter, tag string, f func()) (ok bool) {
	defer func() {
		if r := recover(); r != nil {
			e.hfail("panic."+tag, "%v", r)
			ok = false
		}
	}()
	f()
	return true
}

func errStr(err error) string {
	if err != nil {
		return "err"
	}
	return "ok"
}

// restoreAll replaces the pointer forest and every full map forest by a copy restored from its own
// serialization into a FRESH instance (default settings), so that the history continues on restored
// states ("reachable states incl. restore from serialization").
func (s *implSet) restoreAll(e *emitter) {
	if !s.dead["pol"] {
		guarded(e, "restore.pol", func() {
			var b bytes.Buffer
			if _, err := s.pol.WriteTo(&b); err != nil {
				e.hfail("restore.pol", "WriteTo: %v", err)
				return
			}
			_, rp, err := u.RestorePollardFrom(&b)
			if err != nil {
				e.hfail("restore.pol", "RestorePollardFrom: %v", err)
				return
			}
			s.pol = *rp
		})
	}
	for i, m := range s.maps {
		i, m := i, m
		name := mapName(m)
		if s.dead[name] {
			continue
		}
		guarded(e, "restore."+name, func() {
			var b bytes.Buffer
			if _, err := m.Write(&b); err != nil {
				e.hfail("restore."+name, "Write: %v", err)
				return
			}
			m2 := u.NewMapPollard(m.Full)
			if _, err := m2.Read(&b); err != nil {
				e.hfail("restore."+name, "Read: %v", err)
				return
			}
			s.maps[i] = &m2
		})
	}
}
