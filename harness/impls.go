package main

import (
	"fmt"

	u "github.com/utreexo/utreexo"
)

// implSet is every implementation driven in lock-step along one history.
type implSet struct {
	stump u.Stump
	pol   u.Pollard
	maps  []*u.MapPollard // full map forests with different TotalRows
	dead  map[string]bool
}

func newImplSet(rows []uint8) *implSet {
	s := &implSet{dead: map[string]bool{}}
	s.pol = u.NewAccumulator()
	for _, tr := range rows {
		m := u.NewMapPollard(true)
		m.TotalRows = tr
		s.maps = append(s.maps, &m)
	}
	return s
}

func mapName(m *u.MapPollard) string {
	f := "p"
	if m.Full {
		f = "f"
	}
	return fmt.Sprintf("map%s%d", f, m.TotalRows)
}

// guarded runs f and reports a panic as a harness-side failure.
func guarded(e *emitter, tag string, f func()) (ok bool) {
	defer func() {
		if r := recover(); r != nil {
			e.hfail("panic."+tag, "%v", r)
			ok = false
		}
	}()
	f()
	return true
}

func errStr(err error) string {
	if err != nil {
		return "err"
	}
	return "ok"
}
