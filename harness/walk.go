package main

import (
	"fmt"
	"math/rand"
	"sort"

	u "github.com/utreexo/utreexo"
)

// walkOpts selects which observations a history walk emits.
type walkOpts struct {
	roots, prove, lookups, updateData bool
	// structured: a third of the histories use "txid || output index" leaf hashes (same first 28 bytes within a
	// block); only for walks that drive the roots-only verifier alone - the pointer forest keys its leaves by a
	// 12-byte prefix, which such leaves would make collide (outside "barring collisions")
	structured bool
	nHist, nBlocks, maxAdd            int
	rows                              []uint8
	partRows                          []uint8 // partial map forests
	prune                             bool    // prune random remembered leaves between blocks
}

func emitRoots(e *emitter, is *implSet) {
	if !is.dead["stump"] {
		e.line("ROOTS stump %d %s", is.stump.NumLeaves, hs(is.stump.Roots))
	}
	if !is.dead["pol"] {
		e.line("ROOTS pol %d %s", is.pol.GetNumLeaves(), hs(is.pol.GetRoots()))
	}
	for _, m := range is.maps {
		if !is.dead[mapName(m)] {
			e.line("ROOTS %s %d %s", mapName(m), m.GetNumLeaves(), hs(m.GetRoots()))
		}
	}
	for _, pi := range is.parts {
		if !is.dead[mapName(pi.m)] {
			e.line("ROOTS %s %d %s", mapName(pi.m), pi.m.GetNumLeaves(), hs(pi.m.GetRoots()))
		}
	}
}

func emitProve(e *emitter, label string, p u.Utreexo, hashes []u.Hash) {
	guarded(e, "Prove."+label, func() {
		pr, err := p.Prove(hashes)
		if err != nil {
			e.line("PROVE %s %s err", label, hs(hashes))
		} else {
			e.line("PROVE %s %s ok %s %s", label, hs(hashes), us(pr.Targets), hs(pr.Proof))
		}
	})
}

// emitHonestVerify: the canonical proof must be accepted by every verifier; also mirrored.
func emitHonestVerify(e *emitter, is *implSet, hashes []u.Hash, proof u.Proof) {
	if len(hashes) == 0 {
		return
	}
	guarded(e, "Verify.stump", func() {
		idx, err := u.Verify(is.stump, hashes, proof)
		if err != nil {
			e.line("VERIFY stump stump %s %s %s err", hs(hashes), us(proof.Targets), hs(proof.Proof))
			e.line("HONEST stump err")
		} else {
			e.line("VERIFY stump stump %s %s %s ok %s", hs(hashes), us(proof.Targets), hs(proof.Proof), is2(idx))
			e.line("ROOTIDX stump %s %s", hs(hashes), is2(idx))
		}
	})
	guarded(e, "Verify.pol", func() {
		err := is.pol.Verify(hashes, proof, false)
		e.line("VERIFY pol pollard %s %s %s %s", hs(hashes), us(proof.Targets), hs(proof.Proof), errStr(err))
		e.line("HONEST pol %s", errStr(err))
	})
	for _, m := range is.maps {
		m := m
		guarded(e, "Verify."+mapName(m), func() {
			err := m.Verify(hashes, proof, false)
			e.line("HONEST %s %s", mapName(m), errStr(err))
		})
	}
}

func is2(l []int) string { return is(l) }

func emitLookups(e *emitter, is *implSet, rf *refForest, dead []u.Hash, rng *rand.Rand, allPositions bool) {
	rows := refRows(rf.n())
	nodes, leafPos := rf.layout(rows)
	type hk struct {
		h    u.Hash
		kind string
	}
	var qs []hk
	for h := range leafPos {
		qs = append(qs, hk{h, "live"})
	}
	for _, d := range dead {
		qs = append(qs, hk{d, "dead"})
	}
	for _, nd := range nodes {
		if !nd.leaf && nd.hash != empty {
			qs = append(qs, hk{nd.hash, "internal"})
		}
	}
	qs = append(qs, hk{newLeaf(), "fresh"})
	sort.Slice(qs, func(a, b int) bool { return string(qs[a].h[:]) < string(qs[b].h[:]) })
	if !allPositions && len(qs) > 40 {
		rng.Shuffle(len(qs), func(i, j int) { qs[i], qs[j] = qs[j], qs[i] })
		qs = qs[:40]
	}
	look := func(label string, p u.Utreexo) {
		tot := ""
		if mp, ok := p.(*u.MapPollard); ok {
			tot = fmt.Sprintf(" %d", mp.TotalRows)
		}
		for _, q := range qs {
			pos, ok := p.GetLeafPosition(q.h)
			r := "none"
			if ok {
				r = fmt.Sprint(pos)
			}
			e.line("LEAFPOS %s 1 %s %s", label, hx(q.h), r)
			e.count("lookup_" + q.kind)
		}
		var ps []uint64
		top := uint64(2)<<uint(rows) + 3
		if allPositions || top < 200 {
			for p := uint64(0); p <= top; p++ {
				ps = append(ps, p)
			}
		} else {
			for p := range nodes {
				ps = append(ps, p)
			}
			sort.Slice(ps, func(a, b int) bool { return ps[a] < ps[b] })
			if len(ps) > 60 {
				ps = ps[:60]
			}
			for i := 0; i < 40; i++ {
				ps = append(ps, uint64(rng.Int63n(int64(top)+1)))
			}
		}
		ps = append(ps, 1<<40, 1<<63, ^uint64(0)-1, ^uint64(0))
		for _, pos := range ps {
			e.line("GETHASH %s 1 %d %s%s", label, pos, hx(p.GetHash(pos)), tot)
		}
	}
	if !is.dead["pol"] {
		guarded(e, "lookups.pol", func() {
			look("pol", &is.pol)
			nm, nd := u.VerifPollardCounts(&is.pol)
			e.line("COUNT pol.nodemap %d", nm)
			e.line("COUNT pol.adds-dels %d", is.pol.NumLeaves-nd)
		})
	}
	for _, m := range is.maps {
		m := m
		if !is.dead[mapName(m)] {
			guarded(e, "lookups."+mapName(m), func() {
				look(mapName(m), m)
				emitMapRead(e, m, rf, rf.liveHashes(), rng)
				e.line("COUNT %s.cached %d", mapName(m), m.CachedLeaves.Length())
				var hh []u.Hash
				for _, q := range qs {
					hh = append(hh, q.h)
				}
				got := m.GetLeafHashPositions(hh)
				for i, q := range qs {
					// GetLeafHashPositions: position, or 0 when not found
					p, ok := m.GetLeafPosition(q.h)
					want := uint64(0)
					if ok {
						want = p
					}
					if got[i] != want {
						e.hfail("GetLeafHashPositions."+mapName(m), "hash %s: %d vs GetLeafPosition %d,%v", hx(q.h), got[i], p, ok)
					}
				}
			})
		}
	}
}

// walk runs nHist random block histories on all implementations in lock-step.
func walk(cfg runCfg, e *emitter, rng *rand.Rand, o walkOpts) {
	for hI := 0; hI < o.nHist; hI++ {
		e.line("CASE h%d", hI)
		e.line("RESET")
		rf := &refForest{}
		is := newImplSet(o.rows)
		is.addPartials(o.partRows)
		structured := o.structured && hI%3 == 2
		if structured {
			is.dead["pol"] = true
			e.count("structured_leaf_histories")
		}
		maxAdd := 1 + rng.Intn(o.maxAdd)
		nb := 2 + rng.Intn(o.nBlocks)
		var dead []u.Hash
		sig := ""
		for b := 0; b < nb; b++ {
			dels, strat := pickDels(rng, rf)
			nAdd := pickAdds(rng, rf.n(), maxAdd)
			adds := freshLeaves(nAdd)
			if structured {
				adds = structuredLeaves(nAdd)
			}
			proof, _ := rf.prove(dels)
			e.count("dels_" + strat)
			e.count(fmt.Sprintf("adds_%d", min(nAdd, 10)))
			sig += fmt.Sprintf("%s%d+%d;", strat[:1], len(dels), nAdd)

			if o.prove {
				// the block's deletions and random subsets in random order
				reqs := [][]u.Hash{dels}
				live := rf.liveHashes()
				for k := 0; k < 3 && len(live) > 0; k++ {
					rng.Shuffle(len(live), func(i, j int) { live[i], live[j] = live[j], live[i] })
					reqs = append(reqs, append([]u.Hash{}, live[:1+rng.Intn(len(live))]...))
				}
				for _, req := range reqs {
					if len(req) == 0 {
						continue
					}
					if !is.dead["pol"] {
						emitProve(e, "pol", &is.pol, req)
					}
					for _, m := range is.maps {
						if !is.dead[mapName(m)] {
							emitProve(e, mapName(m), m, req)
						}
					}
					rp, _ := rf.prove(req)
					emitHonestVerify(e, is, req, rp)
				}
				// partial forests prove any sub-list of what they remember
				for _, pi := range is.parts {
					if is.dead[mapName(pi.m)] {
						continue
					}
					R := sortedSet(pi.R)
					for k := 0; k < 2 && len(R) > 0; k++ {
						rng.Shuffle(len(R), func(i, j int) { R[i], R[j] = R[j], R[i] })
						sub := append([]u.Hash{}, R[:1+rng.Intn(len(R))]...)
						emitProve(e, mapName(pi.m), pi.m, sub)
					}
					if o.prune && len(R) > 1 && rng.Intn(3) == 0 {
						sub := append([]u.Hash{}, R[:1+rng.Intn(len(R)-1)]...)
						if err := pi.m.Prune(sub); err != nil {
							e.hfail("Prune."+mapName(pi.m), "%v", err)
						}
						for _, h := range sub {
							delete(pi.R, h)
						}
						e.count("prunes")
					}
				}
			}

			// apply the block
			if !is.dead["stump"] {
				guarded(e, "Update.stump", func() {
					before := u.Stump{Roots: append([]u.Hash{}, is.stump.Roots...), NumLeaves: is.stump.NumLeaves}
					ud, err := is.stump.Update(dels, adds, proof)
					if err != nil {
						e.hfail("Update.stump", "honest block rejected: %v", err)
						is.dead["stump"] = true
						return
					}
					_ = before
					if o.updateData {
						e.line("UD stump %s %s %s %d %s %s", hs(dels), hs(adds), us(ud.ToDestroy), ud.PrevNumLeaves,
							pairs(ud.NewDelPos, ud.NewDelHash), pairs(ud.NewAddPos, ud.NewAddHash))
						e.line("UPDATE stump %s %s %s %s ok %d %s %s %d %s %s", hs(dels), hs(adds), us(proof.Targets), hs(proof.Proof),
							is.stump.NumLeaves, hs(is.stump.Roots), us(ud.ToDestroy), ud.PrevNumLeaves,
							pairs(ud.NewDelPos, ud.NewDelHash), pairs(ud.NewAddPos, ud.NewAddHash))
					}
				})
			}
			if !is.dead["pol"] {
				guarded(e, "Modify.pol", func() {
					if err := is.pol.Modify(toLeaves(adds), dels, proof); err != nil {
						e.hfail("Modify.pol", "honest block rejected: %v", err)
						is.dead["pol"] = true
					}
				})
			}
			for _, m := range is.maps {
				m := m
				if !is.dead[mapName(m)] {
					guarded(e, "Modify."+mapName(m), func() {
						if err := m.Modify(toLeaves(adds), dels, proof); err != nil {
							e.hfail("Modify."+mapName(m), "honest block rejected: %v", err)
							is.dead[mapName(m)] = true
						}
					})
				}
			}
			if len(is.parts) > 0 {
				rem := make([]bool, len(adds))
				for i := range rem {
					rem[i] = rng.Intn(2) == 0
				}
				is.applyPartials(e, dels, adds, proof, rem)
			}
			rf.apply(dels, adds)
			dead = append(dead, dels...)
			e.line("BLOCK %s %s", hs(dels), hs(adds))
			if o.roots {
				emitRoots(e, is)
			}
			if o.lookups {
				emitLookups(e, is, rf, dead, rng, cfg.tier == "thorough" || rf.n() <= 40)
				if hI%2 == 1 && rng.Intn(3) == 0 {
					// "restore from serialization": go on with restored copies and look everything up again
					is.restoreAll(e)
					e.count("restored_states")
					emitLookups(e, is, rf, dead, rng, cfg.tier == "thorough" || rf.n() <= 40)
				}
			}
		}
		e.distinct(sig)
		if hI < 3 {
			e.sample = append(e.sample, fmt.Sprintf("history h%d: blocks (strategy,dels+adds) %s final leaves %d", hI, sig, rf.n()))
		}
	}
}

func min(a, b int) int {
	if a < b {
		return a
	}
	return b
}

func tierN(cfg runCfg, quick, thorough int) int {
	if cfg.tier == "thorough" {
		return thorough
	}
	return quick
}

func init() {
	generators["C01"] = func(cfg runCfg, e *emitter, rng *rand.Rand) {
		walk(cfg, e, rng, walkOpts{roots: true, nHist: tierN(cfg, 1500, 8000), nBlocks: 11, maxAdd: tierN(cfg, 9, 40),
			rows: []uint8{0, 1, 3, 5, 31, 50, 63}, partRows: []uint8{0, 3, 63}})
	}
	generators["C02"] = func(cfg runCfg, e *emitter, rng *rand.Rand) {
		walk(cfg, e, rng, walkOpts{prove: true, nHist: tierN(cfg, 700, 4000), nBlocks: 9, maxAdd: tierN(cfg, 9, 30),
			rows: []uint8{0, 3, 50, 63}, partRows: []uint8{0, 4, 63}, prune: true})
	}
	generators["C10"] = func(cfg runCfg, e *emitter, rng *rand.Rand) {
		walk(cfg, e, rng, walkOpts{lookups: true, nHist: tierN(cfg, 400, 3000), nBlocks: 8, maxAdd: tierN(cfg, 8, 20),
			rows: []uint8{0, 4, 63}})
		// "incl. after Undo": look-ups, hashes and counts after every undo and redo
		runUndoHistories(cfg, e, rng, tierN(cfg, 150, 1500))
	}
	generators["C11"] = func(cfg runCfg, e *emitter, rng *rand.Rand) {
		bigBlock(cfg, e, rng)
		walk(cfg, e, rng, walkOpts{updateData: true, nHist: tierN(cfg, 2000, 12000), nBlocks: 11, maxAdd: tierN(cfg, 9, 40),
			rows: nil, structured: true})
	}
}

// bigBlock: one very large block (size-dependent code paths: queue compaction, reallocation thresholds):
// 2^k leaves are added, then every other leaf (or a random half) is deleted in ONE block with its honest proof.
func bigBlock(cfg runCfg, e *emitter, rng *rand.Rand) {
	for i, k := range []uint{tierN2(cfg, 12, 15), tierN2(cfg, 13, 16)} {
		e.line("CASE big%d", i)
		e.line("RESET")
		rf := &refForest{}
		st := u.Stump{}
		adds := freshLeaves(1<<k + i*37)
		if _, err := st.Update(nil, adds, u.Proof{}); err != nil {
			e.hfail("Update.stump", "additions rejected: %v", err)
			return
		}
		rf.apply(nil, adds)
		e.line("BLOCK %s %s", hs(nil), hs(adds))
		var dels []u.Hash
		for j, h := range adds {
			if (i == 0 && j%2 == 0) || (i == 1 && rng.Intn(2) == 0) {
				dels = append(dels, h)
			}
		}
		proof, _ := rf.prove(dels)
		more := freshLeaves(3)
		ud, err := st.Update(dels, more, proof)
		if err != nil {
			e.hfail("Update.stump", "honest big block rejected: %v", err)
			return
		}
		e.line("UD stump %s %s %s %d %s %s", hs(dels), hs(more), us(ud.ToDestroy), ud.PrevNumLeaves,
			pairs(ud.NewDelPos, ud.NewDelHash), pairs(ud.NewAddPos, ud.NewAddHash))
		e.count("big_blocks")
		e.distinct(fmt.Sprintf("big:%d:%d", len(adds), len(dels)))
	}
}

func tierN2(cfg runCfg, quick, thorough uint) uint {
	if cfg.tier == "thorough" {
		return thorough
	}
	return quick
}
