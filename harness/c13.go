package main

import (
	"bytes"
	"encoding/hex"
	"strings"
	"errors"
	"fmt"
	"io"
	"math/rand"
	"sort"

	u "github.com/utreexo/utreexo"
)

type chunkReader struct {
	data        []byte
	off         int
	chunk       func() int
	eofWithData bool
}

func (c *chunkReader) Read(p []byte) (int, error) {
	if c.off >= len(c.data) {
		return 0, io.EOF
	}
	if len(p) == 0 {
		return 0, nil
	}
	n := c.chunk()
	if n > len(p) {
		n = len(p)
	}
	if n > len(c.data)-c.off {
		n = len(c.data) - c.off
	}
	if n < 1 {
		n = 1
	}
	copy(p, c.data[c.off:c.off+n])
	c.off += n
	if c.eofWithData && c.off >= len(c.data) {
		return n, io.EOF
	}
	return n, nil
}

type failWriter struct{ limit, n int }

func (f *failWriter) Write(p []byte) (int, error) {
	if f.n+len(p) > f.limit {
		k := f.limit - f.n
		if k < 0 {
			k = 0
		}
		f.n += k
		return k, errors.New("sink full")
	}
	f.n += len(p)
	return len(p), nil
}

func chunkModes(rng *rand.Rand) map[string]func() *chunkReader {
	return map[string]func() *chunkReader{
		"whole":   func() *chunkReader { return &chunkReader{chunk: func() int { return 1 << 20 }} },
		"one":     func() *chunkReader { return &chunkReader{chunk: func() int { return 1 }} },
		"halves":  func() *chunkReader { return &chunkReader{chunk: func() int { return 16 }} },
		"rand":    func() *chunkReader { return &chunkReader{chunk: func() int { return 1 + rng.Intn(40) }} },
		"eofdata": func() *chunkReader { return &chunkReader{chunk: func() int { return 1 << 20 }, eofWithData: true} },
	}
}

var modeNames = []string{"whole", "one", "halves", "rand", "eofdata"}

type mapDump struct {
	nodes  map[uint64]u.Leaf
	cached map[u.Hash]uint64
	n      uint64
	rows   uint8
}

func dumpMap(m *u.MapPollard) mapDump {
	d := mapDump{nodes: map[uint64]u.Leaf{}, cached: map[u.Hash]uint64{}, n: m.NumLeaves, rows: m.TotalRows}
	m.Nodes.ForEach(func(k uint64, v u.Leaf) error { d.nodes[k] = v; return nil })
	m.CachedLeaves.ForEach(func(k u.Hash, v uint64) error { d.cached[k] = v; return nil })
	return d
}
func sameDump(a, b mapDump) string {
	if a.n != b.n || a.rows != b.rows {
		return fmt.Sprintf("header n %d/%d rows %d/%d", a.n, b.n, a.rows, b.rows)
	}
	if len(a.nodes) != len(b.nodes) || len(a.cached) != len(b.cached) {
		return fmt.Sprintf("sizes nodes %d/%d cached %d/%d", len(a.nodes), len(b.nodes), len(a.cached), len(b.cached))
	}
	for k, v := range a.nodes {
		if w, ok := b.nodes[k]; !ok || w != v {
			return fmt.Sprintf("node %d: %v/%v vs %v", k, v.Remember, w.Remember, ok)
		}
	}
	for k, v := range a.cached {
		if w, ok := b.cached[k]; !ok || w != v {
			return fmt.Sprintf("cached %s", hx(k))
		}
	}
	return ""
}

func pollardBytes(p *u.Pollard) []byte {
	var b bytes.Buffer
	p.WriteTo(&b)
	return b.Bytes()
}

func cutPoints(n, max int) []int {
	var out []int
	if n <= max {
		for i := 0; i < n; i++ {
			out = append(out, i)
		}
		return out
	}
	step := n / max
	for i := 0; i < n; i += step {
		out = append(out, i)
	}
	// always include every cut inside the header and the last record
	for i := 0; i < 40 && i < n; i++ {
		out = append(out, i)
	}
	for i := n - 70; i < n; i++ {
		if i > 0 {
			out = append(out, i)
		}
	}
	sort.Ints(out)
	return out
}

func genC13(cfg runCfg, e *emitter, rng *rand.Rand) {
	nHist := tierN(cfg, 80, 600)
	maxCuts := tierN(cfg, 600, 1<<30)
	for hI := 0; hI < nHist; hI++ {
		e.line("CASE ser%d", hI)
		e.line("RESET")
		rf := &refForest{}
		pol := u.NewAccumulator()
		full := u.NewMapPollard(true)
		full.TotalRows = []uint8{0, 5, 63}[hI%3]
		part := u.NewMapPollard(false)
		part.TotalRows = []uint8{63, 0, 4}[hI%3]
		pi := &partialInst{m: &part, R: map[u.Hash]bool{}}
		var dead []u.Hash
		nb := 1 + rng.Intn(6)
		sig := ""
		for b := 0; b < nb; b++ {
			dels, strat := pickDels(rng, rf)
			adds := freshLeaves(pickAdds(rng, rf.n(), tierN(cfg, 6, 30)))
			proof, _ := rf.prove(dels)
			pol.Modify(toLeaves(adds), dels, proof)
			full.Modify(toLeaves(adds), dels, proof)
			if len(dels) > 0 {
				part.Verify(dels, proof, true)
			}
			l := toLeaves(adds)
			for i := range l {
				l[i].Remember = rng.Intn(3) == 0
			}
			part.Modify(l, dels, proof)
			for _, d := range dels {
				delete(pi.R, d)
			}
			for _, x := range l {
				if x.Remember {
					pi.R[x.Hash] = true
				}
			}
			rf.apply(dels, adds)
			dead = append(dead, dels...)
			e.line("BLOCK %s %s", hs(dels), hs(adds))
			sig += fmt.Sprintf("%s%d+%d;", strat[:1], len(dels), len(adds))
		}
		modes := chunkModes(rng)

		// ---------------- Pollard
		guarded(e, "ser.pollard", func() {
			var buf bytes.Buffer
			n, err := pol.WriteTo(&buf)
			data := append([]byte{}, buf.Bytes()...)
			if err != nil {
				e.hfail("pol.write", "%v", err)
			}
			_, nd := u.VerifPollardCounts(&pol)
			e.line("WIREPOL pol %d %s", nd, hex.EncodeToString(data))
			if int(n) != len(data) || pol.SerializeSize() != len(data) {
				e.hfail("pol.size", "returned %d, predicted %d, produced %d", n, pol.SerializeSize(), len(data))
			}
			for _, mode := range modeNames {
				cr := modes[mode]()
				cr.data = data
				func() {
					defer func() {
						if r := recover(); r != nil {
							e.hfail("pol.restore.panic."+mode, "%v", r)
						}
					}()
					rn, rp, err := u.RestorePollardFrom(cr)
					if err != nil {
						e.hfail("pol.restore."+mode, "valid stream rejected: %v", err)
						return
					}
					if int(rn) != len(data) {
						e.hfail("pol.restore.count."+mode, "consumed %d reported %d", len(data), rn)
					}
					observeFull(e, "restored-pol-"+mode, rp, rf, dead, rng)
					if !bytes.Equal(pollardBytes(rp), data) {
						e.hfail("pol.restore.rewrite."+mode, "restored pollard serializes differently")
					}
					e.count("pol_restore_" + mode)
				}()
			}
			// "the reported byte counts equal the bytes consumed": the stream goes on after the forest
			// (another forest, a trailer); exactly the reported number of bytes may be taken from the reader
			for _, mode := range modeNames {
				cr := modes[mode]()
				trailer := make([]byte, 1+rng.Intn(6000))
				rng.Read(trailer)
				cr.data = append(append([]byte{}, data...), trailer...)
				func() {
					defer func() {
						if r := recover(); r != nil {
							e.hfail("pol.restore.trailing.panic."+mode, "%v", r)
						}
					}()
					rn, rp, err := u.RestorePollardFrom(cr)
					if err != nil {
						e.hfail("pol.restore.trailing."+mode, "valid stream followed by other data rejected: %v", err)
						return
					}
					if int(rn) != len(data) || cr.off != len(data) {
						e.hfail("pol.restore.consumed."+mode, "forest is %d bytes, reported %d, taken from the reader %d", len(data), rn, cr.off)
					}
					if !bytes.Equal(pollardBytes(rp), data) {
						e.hfail("pol.restore.trailing.state."+mode, "restored pollard serializes differently")
					}
					e.count("pol_restore_trailing_" + mode)
				}()
			}
			for _, cut := range cutPoints(len(data), maxCuts) {
				func() {
					defer func() {
						if r := recover(); r != nil {
							e.hfail("pol.trunc.panic", "cut %d/%d: %v", cut, len(data), r)
						}
					}()
					_, rp, err := u.RestorePollardFrom(bytes.NewReader(data[:cut]))
					if err == nil {
						// only acceptable if identical to the original
						if !eqHashes(rp.GetRoots(), pol.GetRoots()) || rp.GetNumLeaves() != pol.GetNumLeaves() || !bytes.Equal(pollardBytes(rp), data) {
							e.hfail("pol.trunc.accepted", "strict prefix %d/%d accepted with a different state", cut, len(data))
						}
					}
					e.count("pol_truncations")
				}()
			}
			for lim := 0; lim < len(data); lim += 1 + len(data)/tierN(cfg, 50, 400) {
				fw := &failWriter{limit: lim}
				func() {
					defer func() {
						if r := recover(); r != nil {
							e.hfail("pol.wfail.panic", "%v", r)
						}
					}()
					if _, err := pol.WriteTo(fw); err == nil {
						e.hfail("pol.wfail.noerr", "sink failed at %d/%d but WriteTo returned nil", lim, len(data))
					}
					e.count("pol_writer_failures")
				}()
			}
		})

		// ---------------- MapPollard (full and partial)
		for _, mm := range []*u.MapPollard{&full, &part} {
			mm := mm
			name := mapName(mm)
			guarded(e, "ser."+name, func() {
				var buf bytes.Buffer
				wn, err := mm.Write(&buf)
				data := append([]byte{}, buf.Bytes()...)
				if err != nil || wn != len(data) {
					e.hfail(name+".write", "err %v, returned %d, produced %d", err, wn, len(data))
				}
				orig := dumpMap(mm)
				{
					var cs, ns []string
					for k, v := range orig.cached {
						cs = append(cs, fmt.Sprintf("%s:%d", hx(k), v))
					}
					for k, v := range orig.nodes {
						ns = append(ns, fmt.Sprintf("%d:%s:%s", k, hx(v.Hash), b01(v.Remember)))
					}
					sort.Strings(cs)
					sort.Strings(ns)
					j := func(l []string) string {
						if len(l) == 0 {
							return "-"
						}
						return strings.Join(l, ",")
					}
					e.line("WIREMAP %s %d %d %s %s %s", name, orig.rows, orig.n, j(cs), j(ns), hex.EncodeToString(data))
				}
				for _, mode := range modeNames {
					cr := modes[mode]()
					cr.data = data
					func() {
						defer func() {
							if r := recover(); r != nil {
								e.hfail(name+".read.panic."+mode, "%v", r)
							}
						}()
						m2 := u.NewMapPollard(mm.Full)
						rn, err := m2.Read(cr)
						if err != nil {
							e.hfail(name+".read."+mode, "valid stream rejected: %v", err)
							return
						}
						if rn != len(data) {
							e.hfail(name+".read.count."+mode, "consumed %d reported %d", len(data), rn)
						}
						if d := sameDump(orig, dumpMap(&m2)); d != "" {
							e.hfail(name+".read.state."+mode, "restored maps differ: %s", d)
						}
						if mm.Full {
							observeFull(e, "restored-"+name+"-"+mode, &m2, rf, dead, rng)
						} else {
							observePartial(e, &partialInst{m: &m2, R: pi.R}, rf, dead, rng)
						}
						e.count("map_restore_" + mode)
					}()
				}
				for _, mode := range modeNames {
					cr := modes[mode]()
					trailer := make([]byte, 1+rng.Intn(6000))
					rng.Read(trailer)
					cr.data = append(append([]byte{}, data...), trailer...)
					func() {
						defer func() {
							if r := recover(); r != nil {
								e.hfail(name+".read.trailing.panic."+mode, "%v", r)
							}
						}()
						m2 := u.NewMapPollard(mm.Full)
						rn, err := m2.Read(cr)
						if err != nil {
							e.hfail(name+".read.trailing."+mode, "valid stream followed by other data rejected: %v", err)
							return
						}
						if rn != len(data) || cr.off != len(data) {
							e.hfail(name+".read.consumed."+mode, "forest is %d bytes, reported %d, taken from the reader %d", len(data), rn, cr.off)
						}
						if d := sameDump(orig, dumpMap(&m2)); d != "" {
							e.hfail(name+".read.trailing.state."+mode, "restored maps differ: %s", d)
						}
						e.count("map_restore_trailing_" + mode)
					}()
				}
				for _, cut := range cutPoints(len(data), maxCuts) {
					func() {
						defer func() {
							if r := recover(); r != nil {
								e.hfail(name+".trunc.panic", "cut %d/%d: %v", cut, len(data), r)
							}
						}()
						m2 := u.NewMapPollard(mm.Full)
						_, err := m2.Read(bytes.NewReader(data[:cut]))
						if err == nil {
							if d := sameDump(orig, dumpMap(&m2)); d != "" {
								e.hfail(name+".trunc.accepted", "strict prefix %d/%d accepted with a different state: %s", cut, len(data), d)
							}
						}
						e.count("map_truncations")
					}()
				}
				for lim := 0; lim < len(data); lim += 1 + len(data)/tierN(cfg, 50, 400) {
					fw := &failWriter{limit: lim}
					func() {
						defer func() {
							if r := recover(); r != nil {
								e.hfail(name+".wfail.panic", "%v", r)
							}
						}()
						if _, err := mm.Write(fw); err == nil {
							e.hfail(name+".wfail.noerr", "sink failed at %d/%d but Write returned nil", lim, len(data))
						}
						e.count("map_writer_failures")
					}()
				}
			})
		}

		// ---------------- evolve original and restored in lock-step: 3 blocks and their undo
		guarded(e, "ser.evolve", func() {
			_, rp, err := u.RestorePollardFrom(bytes.NewReader(pollardBytes(&pol)))
			if err != nil {
				return
			}
			var b1, b2 bytes.Buffer
			full.Write(&b1)
			part.Write(&b2)
			f2 := u.NewMapPollard(true)
			p2 := u.NewMapPollard(false)
			if _, err := f2.Read(&b1); err != nil {
				return
			}
			if _, err := p2.Read(&b2); err != nil {
				return
			}
			pi2 := &partialInst{m: &p2, R: copySet(pi.R)}
			type rec struct {
				dels, adds []u.Hash
				proof      u.Proof
				prev       []u.Hash
				before     *refForest
				remAdds    []u.Hash
			}
			var hist []rec
			for b := 0; b < 3; b++ {
				dels, _ := pickDels(rng, rf)
				adds := freshLeaves(pickAdds(rng, rf.n(), 6))
				proof, _ := rf.prove(dels)
				l := toLeaves(adds)
				var rem []u.Hash
				for i := range l {
					l[i].Remember = rng.Intn(3) == 0
					if l[i].Remember {
						rem = append(rem, l[i].Hash)
					}
				}
				hist = append(hist, rec{dels, adds, proof, rf.roots(), rf.clone(), rem})
				if err := rp.Modify(toLeaves(adds), dels, proof); err != nil {
					e.hfail("evolve.pol", "%v", err)
				}
				if err := f2.Modify(toLeaves(adds), dels, proof); err != nil {
					e.hfail("evolve.mapf", "%v", err)
				}
				if len(dels) > 0 {
					if err := p2.Verify(dels, proof, true); err != nil {
						e.hfail("evolve.mapp.verify", "%v", err)
					}
				}
				if err := p2.Modify(l, dels, proof); err != nil {
					e.hfail("evolve.mapp", "%v", err)
				}
				for _, d := range dels {
					delete(pi2.R, d)
				}
				for _, a := range rem {
					pi2.R[a] = true
				}
				rf.apply(dels, adds)
				dead = append(dead, dels...)
				e.line("BLOCK %s %s", hs(dels), hs(adds))
				observeFull(e, "evolved-pol", rp, rf, dead, rng)
				observeFull(e, "evolved-"+mapName(&f2), &f2, rf, dead, rng)
				observePartial(e, pi2, rf, dead, rng)
			}
			for i := len(hist) - 1; i >= 0; i-- {
				r := hist[i]
				if err := rp.Undo(uint64(len(r.adds)), r.proof, r.dels, r.prev); err != nil {
					e.hfail("evolve.undo.pol", "%v", err)
				}
				if err := f2.Undo(uint64(len(r.adds)), r.proof, r.dels, r.prev); err != nil {
					e.hfail("evolve.undo.mapf", "%v", err)
				}
				if err := p2.Undo(uint64(len(r.adds)), r.proof, r.dels, r.prev); err != nil {
					e.hfail("evolve.undo.mapp", "%v", err)
				}
				for _, a := range r.adds {
					delete(pi2.R, a)
				}
				for _, d := range r.dels {
					pi2.R[d] = true
				}
				rf = r.before
				e.line("UNDO")
				observeFull(e, "evolved-pol", rp, rf, nil, rng)
				observeFull(e, "evolved-"+mapName(&f2), &f2, rf, nil, rng)
				observePartial(e, pi2, rf, nil, rng)
			}
		})
		e.distinct(sig)
		if hI < 2 {
			e.sample = append(e.sample, "state after "+sig+": 5 chunkings, every truncation point, writer failure offsets, 3 blocks + undo on the restored instances")
		}
	}
}

func init() { generators["C13"] = genC13 }
