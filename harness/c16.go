package main

import (
	"fmt"
	"math/rand"
	"strconv"

	u "github.com/utreexo/utreexo"
)

func errOr(v uint64, err error) string {
	if err != nil {
		return "err"
	}
	return strconv.FormatUint(v, 10)
}

// emitUtils calls every position function on (pos, n, fr, aux) and writes what the code returned.
func emitUtilsPos(e *emitter, pos uint64, fr uint8) {
	e.line("U LeftChild %d %d = %d", pos, fr, u.LeftChild(pos, fr))
	e.line("U RightChild %d %d = %d", pos, fr, u.RightChild(pos, fr))
	e.line("U Parent %d %d = %d", pos, fr, u.Parent(pos, fr))
	e.line("U DetectRow %d %d = %d", pos, fr, u.DetectRow(pos, fr))
	e.line("U sibling %d = %d", pos, u.VerifSibling(pos))
	e.line("U leftSib %d = %d", pos, u.VerifLeftSib(pos))
	e.line("U rightSib %d = %d", pos, u.VerifRightSib(pos))
	e.countN("pos_calls", 7)
}

func emitUtilsPosK(e *emitter, pos uint64, k, fr uint8) {
	v, err := u.ChildMany(pos, k, fr)
	e.line("U ChildMany %d %d %d = %s", pos, k, fr, errOr(v, err))
	v, err = u.ParentMany(pos, k, fr)
	e.line("U ParentMany %d %d %d = %s", pos, k, fr, errOr(v, err))
	e.countN("many_calls", 2)
}

func emitUtilsPosN(e *emitter, pos, n uint64, fr uint8) {
	tr := u.TreeRows(n)
	e.line("U isRootPosition %d %d = %s", pos, n, b01(u.VerifIsRootPosition(pos, n)))
	e.line("U isRootPositionTotalRows %d %d %d = %s", pos, n, fr, b01(u.VerifIsRootPositionTotalRows(pos, n, fr)))
	e.line("U inForest %d %d %d = %s", pos, n, fr, b01(u.VerifInForest(pos, n, fr)))
	a, b, c, err := u.DetectOffset(pos, n)
	if err != nil {
		e.line("U DetectOffset %d %d = err", pos, n)
	} else {
		e.line("U DetectOffset %d %d = %d/%d/%d", pos, n, a, b, c)
	}
	e.line("U proofPosition %d %d %d = %s", pos, n, fr, us(u.VerifProofPosition(pos, n, fr)))
	_ = tr
	e.countN("posn_calls", 5)
}

func emitUtilsN(e *emitter, n uint64, fr uint8) {
	e.line("U TreeRows %d = %d", n, u.TreeRows(n))
	e.line("U numRoots %d = %d", n, u.VerifNumRoots(n))
	e.line("U RootPositions %d %d = %s", n, fr, us(u.RootPositions(n, fr)))
	for h := uint8(0); h <= fr+1 && h < 70; h++ {
		e.line("U rootPosition %d %d %d = %d", n, h, fr, u.VerifRootPosition(n, h, fr))
		e.line("U rootExistsOnRow %d %d = %s", n, h, b01(u.VerifRootExistsOnRow(n, h)))
		v, err := u.VerifMaxPositionAtRow(h, fr, n)
		e.line("U maxPositionAtRow %d %d %d = %d/%s", h, fr, n, v, b01(err != nil))
		e.countN("n_calls", 3)
	}
	e.countN("n_calls", 3)
}

func emitUtilsFr(e *emitter, fr uint8) {
	e.line("U maxPosition %d = %d", fr, u.VerifMaxPosition(fr))
	e.line("U maxLeafCount %d = %d", fr, u.VerifMaxLeafCount(fr))
	for r := uint8(0); r <= fr && r < 70; r++ {
		e.line("U startPositionAtRow %d %d = %d", r, fr, u.VerifStartPositionAtRow(r, fr))
		e.line("U maxPossiblePosAtRow %d %d = %d", r, fr, u.VerifMaxPossiblePosAtRow(r, fr))
	}
}

func emitPair(e *emitter, a, b uint64, fr uint8) {
	e.line("U isAncestor %d %d %d = %s", a, b, fr, b01(u.VerifIsAncestor(a, b, fr)))
	v, err := u.VerifCalcNextPosition(a, b, fr)
	e.line("U calcNextPosition %d %d %d = %s", a, b, fr, errOr(v, err))
	e.countN("pair_calls", 2)
}

// valid (row, offset) -> position by plain arithmetic (not the code under test)
func gpos(r, fr int, o uint64) uint64 { return refPos(r, fr, o) }

func genC16(cfg runCfg, e *emitter, rng *rand.Rand) {
	maxEx := 4
	nrand := 300
	if cfg.tier == "thorough" {
		maxEx = 7
		nrand = 5000
	}
	// exhaustive part
	for fr := 0; fr <= maxEx; fr++ {
		f := uint8(fr)
		emitUtilsFr(e, f)
		top := uint64(2)<<uint(fr) + 2
		for pos := uint64(0); pos <= top; pos++ {
			emitUtilsPos(e, pos, f)
			for k := uint8(0); k <= f+1; k++ {
				emitUtilsPosK(e, pos, k, f)
			}
			for to := 0; to <= maxEx+1; to++ {
				e.line("U translatePos %d %d %d = %d", pos, fr, to, u.VerifTranslatePos(pos, f, uint8(to)))
			}
			e.line("U translatePos %d %d 63 = %d", pos, fr, u.VerifTranslatePos(pos, f, 63))
		}
		for n := uint64(0); n <= uint64(1)<<uint(fr); n++ {
			emitUtilsN(e, n, f)
			if u.TreeRows(n) > f {
				continue
			}
			for pos := uint64(0); pos <= top; pos++ {
				emitUtilsPosN(e, pos, n, f)
				for r := uint8(0); r <= f; r++ {
					e.line("U isRootPositionOnRow %d %d %d = %s", pos, n, r, b01(u.VerifIsRootPositionOnRow(pos, n, r)))
					e.line("U isRootPositionOnRowTotalRows %d %d %d %d = %s", pos, n, r, f, b01(u.VerifIsRootPositionOnRowTotalRows(pos, n, r, f)))
				}
			}
		}
		if fr <= 4 {
			for a := uint64(0); a <= top; a++ {
				for b := uint64(0); b <= top; b++ {
					emitPair(e, a, b, f)
					if a < top-2 && b < top-2 {
						e.line("U calcPrevPosition %d %d %d = %d", a, b, fr, u.VerifCalcPrevPosition(a, b, f))
					}
				}
			}
		}
		e.count("exhaustive_heights")
	}
	// removeBit/addBit
	for i := 0; i < nrand; i++ {
		v := rng.Uint64()
		if i%3 == 0 {
			v >>= uint(rng.Intn(64))
		}
		bit := uint64(rng.Intn(66))
		e.line("U removeBit %d %d = %d", v, bit, u.VerifRemoveBit(v, bit))
		bb := rng.Intn(2) == 0
		e.line("U addBit %d %d %s = %d", v, bit, b01(bb), u.VerifAddBit(v, bit, bb))
	}
	// all target subsets of forests up to 8 (quick: 6) leaves for ProofPositions / deTwin
	maxLeaves := 5
	if cfg.tier == "thorough" {
		maxLeaves = 9
	}
	for n := uint64(1); n <= uint64(maxLeaves); n++ {
		rows := refRows(n)
		// positions that can hold nodes in a full forest of n leaves
		var valid []uint64
		for r := 0; r <= rows; r++ {
			for o := uint64(0); o < (n >> uint(r)); o++ {
				valid = append(valid, gpos(r, rows, o))
			}
		}
		lim := len(valid)
		if lim > 14 {
			lim = 14
		}
		for mask := 1; mask < (1 << uint(lim)); mask++ {
			var ts []uint64
			for i := 0; i < lim; i++ {
				if mask&(1<<uint(i)) != 0 {
					ts = append(ts, valid[i])
				}
			}
			for _, tr := range []int{rows, rows + 1, 63} {
				tt := make([]uint64, len(ts))
				for i := range ts {
					tt[i] = refTranslate(ts[i], rows, tr)
				}
				pp, comp := u.ProofPositions(tt, n, uint8(tr))
				e.line("U ProofPositions %s %d %d = %s %s", us(tt), n, tr, us(pp), us(comp))
				e.count("proofpositions_calls")
			}
			cp := append([]uint64{}, ts...)
			dt := u.VerifDeTwin(cp, uint8(rows))
			e.line("U deTwin %s %d = %s", us(ts), rows, us(dt))
		}
	}
	// boundary and random values for large heights
	for fr := maxEx + 1; fr <= 63; fr++ {
		f := uint8(fr)
		emitUtilsFr(e, f)
		var cand []uint64
		for r := 0; r <= fr; r++ {
			s := gpos(r, fr, 0)
			w := uint64(1) << uint(fr-r)
			cand = append(cand, s, s+w-1)
			if r%4 == 0 {
				cand = append(cand, s+1, s+w/2)
			}
			if s > 0 && r%2 == 1 {
				cand = append(cand, s-1)
			}
		}
		cand = append(cand, 1<<63, ^uint64(0), ^uint64(0)-1, uint64(2)<<uint(fr), (uint64(2)<<uint(fr))-1, (uint64(2)<<uint(fr))-2)
		for i := 0; i < 4; i++ {
			cand = append(cand, rng.Uint64(), rng.Uint64()>>uint(63-fr))
		}
		var ns []uint64
		ns = append(ns, 0, 1, uint64(1)<<uint(fr), (uint64(1)<<uint(fr))-1, (uint64(1)<<uint(fr))/2+1)
		for i := 0; i < 3; i++ {
			ns = append(ns, rng.Uint64()>>uint(64-fr)+1)
		}
		for _, pos := range cand {
			emitUtilsPos(e, pos, f)
			for _, k := range []uint8{0, 1, 2, f / 2, f - 1, f, f + 1} {
				emitUtilsPosK(e, pos, k, f)
			}
			for _, to := range []uint8{0, f - 1, f, f + 1, 63} {
				if to <= 63 {
					e.line("U translatePos %d %d %d = %d", pos, fr, to, u.VerifTranslatePos(pos, f, to))
				}
			}
		}
		for _, n := range ns {
			if u.TreeRows(n) > f {
				continue
			}
			emitUtilsN(e, n, f)
			for _, pos := range cand {
				emitUtilsPosN(e, pos, n, f)
				r := u.DetectRow(pos, f)
				e.line("U isRootPositionOnRow %d %d %d = %s", pos, n, r, b01(u.VerifIsRootPositionOnRow(pos, n, r)))
				e.line("U isRootPositionOnRowTotalRows %d %d %d %d = %s", pos, n, r, f, b01(u.VerifIsRootPositionOnRowTotalRows(pos, n, r, f)))
			}
		}
		for i := 0; i < 12; i++ {
			a := cand[rng.Intn(len(cand))]
			b := cand[rng.Intn(len(cand))]
			emitPair(e, a, b, f)
		}
		// honest ancestor pairs: position and one of its ancestors' sibling
		for i := 0; i < 8; i++ {
			r := rng.Intn(fr + 1)
			o := rng.Uint64() & ((uint64(1) << uint(fr-r)) - 1)
			p := gpos(r, fr, o)
			up := rng.Intn(fr - r + 1)
			anc := gpos(r+up, fr, o>>uint(up))
			emitPair(e, anc, p, f)
			emitPair(e, p, anc, f)
			e.line("U calcPrevPosition %d %d %d = %d", p, anc, fr, u.VerifCalcPrevPosition(p, anc, f))
		}
		e.count("boundary_heights")
	}
	// a few garbage forestRows values (uint8 wrap-around territory)
	for _, f := range []uint8{64, 65, 100, 128, 200, 255} {
		for _, pos := range []uint64{0, 1, 5, 1 << 40, ^uint64(0)} {
			emitUtilsPos(e, pos, f)
		}
	}
	e.sample = append(e.sample, fmt.Sprintf("U Parent 5 3 = %d", u.Parent(5, 3)))
}

func init() { generators["C16"] = genC16 }
