package main

import (
	"bufio"
	"fmt"
	"io"
	"os"
	"os/exec"
	"strconv"
	"strings"
	"time"
)

// Calls on untrusted input run in a child process of the harness: a goroutine spinning in a
// non-terminating loop cannot be stopped from inside the process.  The child runs the whole
// generator and prints "\x01<idx>\x02<event prefix>" before each untrusted call and the result
// after it; the parent copies the output to the case file and kills the child when a call does
// not return within the deadline, records "hang" for it and restarts the child, which then skips
// (does not execute) the hung calls and stays muted until it has passed the last one.

var isolatedProps = map[string]bool{"C03": true, "C04": true, "C05": true}

func callDeadline(tier string) time.Duration {
	if tier == "thorough" {
		return 10 * time.Second
	}
	return 3 * time.Second
}

// untrusted runs f (which returns the result tokens) as one isolated call.
func (e *emitter) untrusted(prefix string, f func() string) {
	idx := e.callIdx
	e.callIdx++
	if e.hung[idx] {
		if idx == e.lastHung {
			e.muted = false
		}
		return
	}
	if e.muted {
		f()
		return
	}
	flush := func() {
		for _, l := range e.deferred {
			e.line("%s", l)
		}
		e.deferred = nil
	}
	if e.child {
		fmt.Fprintf(e.w, "\x01%d\x02%s ", idx, prefix)
		e.w.Flush()
		e.inCall = true
		res := f()
		e.inCall = false
		e.w.WriteString(res)
		e.w.WriteByte('\n')
		e.lines++
		flush()
		return
	}
	e.inCall = true
	res := f()
	e.inCall = false
	e.line("%s %s", prefix, res)
	flush()
}

func orchestrate(cfg runCfg) int {
	out, err := os.Create(cfg.out)
	if err != nil {
		panic(err)
	}
	defer out.Close()
	w := bufio.NewWriterSize(out, 1<<20)
	defer w.Flush()
	var hung []int
	deadline := callDeadline(cfg.tier)
	self, _ := os.Executable()
	for attempt := 0; attempt < 200; attempt++ {
		hs := make([]string, len(hung))
		for i, h := range hung {
			hs[i] = strconv.Itoa(h)
		}
		cmd := exec.Command(self, "-prop", cfg.prop, "-tier", cfg.tier, "-seed", fmt.Sprint(cfg.seed),
			"-stats", cfg.statsTo, "-isolated-child", "-hung", strings.Join(hs, ","))
		cmd.Stderr = os.Stderr
		pipe, _ := cmd.StdoutPipe()
		if err := cmd.Start(); err != nil {
			panic(err)
		}
		type chunk struct {
			b   []byte
			err error
		}
		ch := make(chan chunk, 64)
		go func() {
			for {
				buf := make([]byte, 1<<16)
				n, err := pipe.Read(buf)
				if n > 0 {
					ch <- chunk{buf[:n], nil}
				}
				if err != nil {
					ch <- chunk{nil, err}
					return
				}
			}
		}()
		inflight := -1 // index of the call whose prefix was printed but whose line is not finished
		// A call "hangs" when it has BURNT the deadline in CPU time (a spinning loop), not merely when the wall
		// clock passed it: on a loaded machine a child can be starved for seconds.  A call that uses no CPU at
		// all (blocked) is given 20 deadlines of wall-clock time.
		cpuAtCall := procCPU(cmd.Process.Pid)
		var callStart time.Time
		var num []byte
		inNum := false
		timedOut := false
		done := false
		for !done {
			select {
			case c := <-ch:
				if c.err != nil {
					done = true
					break
				}
				for _, b := range c.b {
					switch {
					case b == 1:
						inNum, num = true, num[:0]
					case b == 2:
						inNum = false
						inflight, _ = strconv.Atoi(string(num))
						cpuAtCall = procCPU(cmd.Process.Pid)
						callStart = time.Now()
					case inNum:
						num = append(num, b)
					default:
						w.WriteByte(b)
						if b == '\n' {
							inflight = -1
						}
					}
				}
			case <-time.After(deadline):
				if inflight >= 0 {
					burnt := procCPU(cmd.Process.Pid) - cpuAtCall
					if burnt >= deadline*8/10 || time.Since(callStart) >= 20*deadline {
						timedOut = true
						done = true
					}
				}
				// no call in flight: the child is generating; keep waiting
			}
		}
		if timedOut {
			cmd.Process.Kill()
			cmd.Wait()
			fmt.Fprintf(w, "hang\nHFAIL hang call %d did not return within %v (process killed)\n", inflight, deadline)
			hung = append(hung, inflight)
			continue
		}
		if err := cmd.Wait(); err != nil {
			if inflight >= 0 {
				fmt.Fprintf(w, "crash\n")
			}
			fmt.Fprintf(w, "HFAIL crash child process died: %v (call in flight: %d)\n", err, inflight)
			if inflight < 0 {
				return 0
			}
			hung = append(hung, inflight)
			continue
		}
		return 0
	}
	fmt.Fprintf(w, "HFAIL hang too many hung calls, giving up\n")
	return 0
}

func parseHung(s string) (map[int]bool, int) {
	m := map[int]bool{}
	last := -1
	for _, t := range strings.Split(s, ",") {
		if t == "" {
			continue
		}
		v, _ := strconv.Atoi(t)
		m[v] = true
		if v > last {
			last = v
		}
	}
	return m, last
}

var _ = io.EOF

// procCPU: user+system CPU time consumed so far by a process (from /proc/<pid>/stat; 100 ticks per second).
func procCPU(pid int) time.Duration {
	b, err := os.ReadFile(fmt.Sprintf("/proc/%d/stat", pid))
	if err != nil {
		return 0
	}
	// the command name (field 2) may contain spaces: cut after the last ')'
	str := string(b)
	i := strings.LastIndexByte(str, ')')
	if i < 0 {
		return 0
	}
	f := strings.Fields(str[i+1:])
	if len(f) < 13 {
		return 0
	}
	ut, _ := strconv.ParseInt(f[11], 10, 64)
	st, _ := strconv.ParseInt(f[12], 10, 64)
	return time.Duration(ut+st) * 10 * time.Millisecond
}
