package main

import (
	"bytes"
	"fmt"
	"math/rand"
	"os"
	"os/exec"
	"regexp"
	"sort"
	"strings"
	"sync"
	"sync/atomic"
	"time"

	u "github.com/utreexo/utreexo"
)

// query is one read-only entry point of MapPollard; it returns a canonical string of its result.
type query struct {
	name string
	run  func(m *u.MapPollard, probeHashes []u.Hash, probeTargets []uint64) string
}

func allQueries() []query {
	return []query{
		{"GetRoots", func(m *u.MapPollard, _ []u.Hash, _ []uint64) string { return hs(m.GetRoots()) }},
		{"GetStump", func(m *u.MapPollard, _ []u.Hash, _ []uint64) string {
			s := m.GetStump()
			return fmt.Sprintf("%d %s", s.NumLeaves, hs(s.Roots))
		}},
		{"GetNumLeaves", func(m *u.MapPollard, _ []u.Hash, _ []uint64) string { return fmt.Sprint(m.GetNumLeaves()) }},
		{"GetTreeRows", func(m *u.MapPollard, _ []u.Hash, _ []uint64) string { return fmt.Sprint(m.GetTreeRows()) }},
		{"Prove", func(m *u.MapPollard, h []u.Hash, _ []uint64) string {
			p, err := m.Prove(h)
			if err != nil {
				return "err"
			}
			return us(p.Targets) + " " + hs(p.Proof)
		}},
		{"GetLeafPosition", func(m *u.MapPollard, h []u.Hash, _ []uint64) string {
			var out []string
			for _, x := range append([]u.Hash{{0xaa, 0x55}}, h...) {
				p, ok := m.GetLeafPosition(x)
				out = append(out, fmt.Sprintf("%d/%v", p, ok))
			}
			return strings.Join(out, ",")
		}},
		{"GetLeafHashPositions", func(m *u.MapPollard, h []u.Hash, _ []uint64) string { return us(m.GetLeafHashPositions(h)) }},
		{"GetHash", func(m *u.MapPollard, _ []u.Hash, t []uint64) string {
			var out []u.Hash
			for _, p := range t {
				out = append(out, m.GetHash(p))
			}
			return hs(out)
		}},
		{"GetMissingPositions", func(m *u.MapPollard, _ []u.Hash, t []uint64) string {
			return us(m.GetMissingPositions(append([]uint64{}, t...)))
		}},
		{"Write", func(m *u.MapPollard, _ []u.Hash, _ []uint64) string {
			var b bytes.Buffer
			n, err := m.Write(&b)
			if err != nil {
				return "err"
			}
			// map iteration order is arbitrary: compare a canonical digest (restore + dump)
			m2 := u.NewMapPollard(m.Full)
			if _, err := m2.Read(bytes.NewReader(b.Bytes())); err != nil {
				return "unreadable"
			}
			d := dumpMap(&m2)
			var ks []uint64
			for k := range d.nodes {
				ks = append(ks, k)
			}
			sort.Slice(ks, func(a, b int) bool { return ks[a] < ks[b] })
			s := fmt.Sprintf("%d %d %d ", n, d.n, d.rows)
			for _, k := range ks {
				s += fmt.Sprintf("%d:%s:%v,", k, hx(d.nodes[k].Hash)[:8], d.nodes[k].Remember)
			}
			return s + fmt.Sprint(len(d.cached))
		}},
		{"Verify", func(m *u.MapPollard, h []u.Hash, _ []uint64) string {
			// a verification without remembering, of a proof the forest itself produced
			p, err := m.Prove(h)
			if err != nil {
				return "noproof"
			}
			return errStr(m.Verify(h, p, false))
		}},
	}
}

// the hook variable of the package is set once; the active handler is swapped atomically
var hookHandler atomic.Value // func(string)

func installHook() {
	u.VerifPointHook = func(site string) {
		if h, _ := hookHandler.Load().(func(string)); h != nil {
			h(site)
		}
	}
}
func setHook(f func(string)) {
	if f == nil {
		f = func(string) {}
	}
	hookHandler.Store(f)
}

// pausedWriter: the writer is suspended inside its critical section at each hook site; every query
// is started, must not complete during the pause, and its result must be the pre- or the
// post-operation result.
func pausedWriter(cfg runCfg, e *emitter, rng *rand.Rand) {
	grace := 40 * time.Millisecond
	qs := allQueries()
	setHook(nil)
	installHook()
	nHist := tierN(cfg, 12, 120)
	for hI := 0; hI < nHist; hI++ {
		e.line("CASE pause%d", hI)
		rf := &refForest{}
		m := u.NewMapPollard(hI%2 == 0)
		m.TotalRows = []uint8{0, 63, 5}[hI%3]
		R := map[u.Hash]bool{}
		type rec struct {
			dels, adds []u.Hash
			proof      u.Proof
			prev       []u.Hash
			before     *refForest
		}
		var hist []rec
		for op := 0; op < tierN(cfg, 8, 14); op++ {
			// choose the writer operation
			kind := rng.Intn(6)
			if rf.n() < 3 {
				kind = 0
			}
			var opName string
			var writer func() error
			var after func()
			probeH := func() []u.Hash {
				if m.Full {
					l := rf.liveHashes()
					if len(l) > 3 {
						l = l[:3]
					}
					return l
				}
				l := sortedSet(R)
				if len(l) > 3 {
					l = l[:3]
				}
				return l
			}()
			var probeT []uint64
			for p := uint64(0); p < 12; p++ {
				probeT = append(probeT, p)
			}
			switch kind {
			case 0, 1: // Modify
				dels, _ := pickDels(rng, rf)
				if len(dels) > 3 {
					dels = dels[:3]
				}
				adds := freshLeaves(1 + rng.Intn(5))
				proof, _ := rf.prove(dels)
				l := toLeaves(adds)
				for i := range l {
					l[i].Remember = true
				}
				if !m.Full && len(dels) > 0 {
					m.Verify(dels, proof, true)
				}
				opName = "Modify"
				writer = func() error { return m.Modify(l, dels, proof) }
				r := rec{dels, adds, proof, rf.roots(), rf.clone()}
				after = func() {
					hist = append(hist, r)
					for _, d := range dels {
						delete(R, d)
					}
					for _, a := range adds {
						R[a] = true
					}
					rf.apply(dels, adds)
				}
			case 2: // Undo
				if len(hist) == 0 {
					continue
				}
				r := hist[len(hist)-1]
				opName = "Undo"
				writer = func() error { return m.Undo(uint64(len(r.adds)), r.proof, r.dels, r.prev) }
				after = func() {
					hist = hist[:len(hist)-1]
					for _, a := range r.adds {
						delete(R, a)
					}
					for _, d := range r.dels {
						R[d] = true
					}
					rf = r.before
				}
			case 3: // Ingest / Verify(remember)
				live := rf.liveHashes()
				if len(live) == 0 {
					continue
				}
				sub := []u.Hash{live[rng.Intn(len(live))]}
				proof, _ := rf.prove(sub)
				if rng.Intn(2) == 0 {
					opName = "Ingest"
					writer = func() error { return m.Ingest(sub, proof) }
				} else {
					opName = "VerifyRemember"
					writer = func() error { return m.Verify(sub, proof, true) }
				}
				after = func() { R[sub[0]] = true }
			case 4: // Prune
				if m.Full || len(R) == 0 {
					continue
				}
				l := sortedSet(R)
				sub := []u.Hash{l[rng.Intn(len(l))]}
				opName = "Prune"
				writer = func() error { return m.Prune(sub) }
				after = func() { delete(R, sub[0]) }
			case 5: // Read (restore own serialization into the same instance)
				var b bytes.Buffer
				m.Write(&b)
				data := append([]byte{}, b.Bytes()...)
				opName = "Read"
				writer = func() error { _, err := m.Read(bytes.NewReader(data)); return err }
				after = func() {}
			}
			// pre-operation results
			pre := make([]string, len(qs))
			for i, q := range qs {
				pre[i] = q.run(&m, probeH, probeT)
			}
			// run the writer, pausing at the first hook site it reaches
			paused := make(chan string, 1)
			resume := make(chan struct{})
			var once sync.Once
			var target = &m
			setHook(func(site string) {
				_ = target
				once.Do(func() {
					paused <- site
					<-resume
				})
			})
			wdone := make(chan error, 1)
			go func() { wdone <- writer() }()
			site := ""
			select {
			case site = <-paused:
			case err := <-wdone:
				// the operation passed no hook site (e.g. nothing to do): just account for it
				setHook(nil)
				if err != nil {
					e.hfail("writer."+opName, "%v", err)
				}
				after()
				continue
			case <-time.After(5 * time.Second):
				e.hfail("deadlock.writer."+opName, "writer neither reached a hook site nor returned")
				setHook(nil)
				return
			}
			// start every query while the writer is suspended inside its critical section
			type res struct {
				i   int
				out string
			}
			results := make(chan res, len(qs))
			var completedEarly int32
			var inPause int32 = 1
			for i, q := range qs {
				i, q := i, q
				go func() {
					defer func() {
						if r := recover(); r != nil {
							results <- res{i, fmt.Sprintf("panic: %v", r)}
						}
					}()
					out := q.run(&m, probeH, probeT)
					if atomic.LoadInt32(&inPause) == 1 {
						atomic.AddInt32(&completedEarly, 1)
						e.hfail("query-during-writer-section."+q.name, "%s completed while the writer was suspended inside %s at %s", q.name, opName, site)
					}
					results <- res{i, out}
				}()
			}
			time.Sleep(grace)
			atomic.StoreInt32(&inPause, 0)
			close(resume)
			select {
			case err := <-wdone:
				if err != nil {
					e.hfail("writer."+opName, "%v", err)
				}
			case <-time.After(5 * time.Second):
				e.hfail("deadlock.writer."+opName, "writer did not finish after resume")
				return
			}
			setHook(nil)
			got := make([]string, len(qs))
			for range qs {
				select {
				case r := <-results:
					got[r.i] = r.out
				case <-time.After(5 * time.Second):
					e.hfail("deadlock.query", "a query did not return after the writer finished (%s at %s)", opName, site)
					return
				}
			}
			after()
			post := make([]string, len(qs))
			for i, q := range qs {
				post[i] = q.run(&m, probeH, probeT)
			}
			for i, q := range qs {
				if got[i] != pre[i] && got[i] != post[i] {
					e.hfail("mixed-state."+q.name, "%s during %s@%s returned neither the pre- nor the post-operation result", q.name, opName, site)
				}
				e.count("paused_queries")
			}
			e.count("site_" + site)
			e.distinct(fmt.Sprintf("%d:%d:%s:%s", hI, op, opName, site))
		}
	}
}

// raceChild: concurrent readers against one writer under the race detector.
func raceChild(seed int64, tier string) {
	rng := rand.New(rand.NewSource(seed))
	qs := allQueries()
	iters := 150
	if tier == "thorough" {
		iters = 1500
	}
	for _, full := range []bool{true, false} {
		rf := &refForest{}
		m := u.NewMapPollard(full)
		m.TotalRows = 0
		var mu sync.Mutex // protects probe data shared between the writer and the readers
		var probeH []u.Hash
		stop := make(chan struct{})
		var wg sync.WaitGroup
		for r := 0; r < 6; r++ {
			wg.Add(1)
			go func(r int) {
				defer wg.Done()
				lr := rand.New(rand.NewSource(seed + int64(r)))
				for {
					select {
					case <-stop:
						return
					default:
					}
					mu.Lock()
					ph := append([]u.Hash{}, probeH...)
					mu.Unlock()
					q := qs[lr.Intn(len(qs))]
					q.run(&m, ph, []uint64{0, 1, 2, 3, 4, 8})
				}
			}(r)
		}
		R := map[u.Hash]bool{}
		type rec struct {
			dels, adds []u.Hash
			proof      u.Proof
			prev       []u.Hash
			before     *refForest
		}
		var hist []rec
		for it := 0; it < iters; it++ {
			switch k := rng.Intn(7); {
			case k < 3 || rf.n() < 3:
				dels, _ := pickDels(rng, rf)
				if len(dels) > 2 {
					dels = dels[:2]
				}
				adds := freshLeaves(1 + rng.Intn(4))
				proof, _ := rf.prove(dels)
				l := toLeaves(adds)
				for i := range l {
					l[i].Remember = true
				}
				if !full && len(dels) > 0 {
					m.Verify(dels, proof, true)
				}
				hist = append(hist, rec{dels, adds, proof, rf.roots(), rf.clone()})
				m.Modify(l, dels, proof)
				for _, d := range dels {
					delete(R, d)
				}
				for _, a := range adds {
					R[a] = true
				}
				rf.apply(dels, adds)
			case k == 3 && len(hist) > 0:
				r := hist[len(hist)-1]
				hist = hist[:len(hist)-1]
				m.Undo(uint64(len(r.adds)), r.proof, r.dels, r.prev)
				for _, a := range r.adds {
					delete(R, a)
				}
				for _, d := range r.dels {
					R[d] = true
				}
				rf = r.before
			case k == 4:
				live := rf.liveHashes()
				if len(live) > 0 {
					sub := []u.Hash{live[rng.Intn(len(live))]}
					proof, _ := rf.prove(sub)
					if rng.Intn(2) == 0 {
						m.Ingest(sub, proof)
					} else {
						m.Verify(sub, proof, true)
					}
					R[sub[0]] = true
				}
			case k == 5 && !full && len(R) > 0:
				l := sortedSet(R)
				sub := []u.Hash{l[rng.Intn(len(l))]}
				m.Prune(sub)
				delete(R, sub[0])
			case k == 6:
				var b bytes.Buffer
				m.Write(&b)
				m.Read(bytes.NewReader(b.Bytes()))
			}
			mu.Lock()
			if full {
				probeH = rf.liveHashes()
			} else {
				probeH = sortedSet(R)
			}
			if len(probeH) > 3 {
				probeH = probeH[:3]
			}
			mu.Unlock()
		}
		close(stop)
		wg.Wait()
	}
}

// racingVerify: Verify(remember) of a leaf races with a Modify that deletes a neighbour of that leaf.
// Whatever the order, afterwards the forest must have the roots of the block applied once (a Stump
// updated serially is the yardstick) and must still prove what it remembers.
func racingVerify(seed int64, tier string) {
	rng := rand.New(rand.NewSource(seed + 77))
	rounds := 400
	if tier == "thorough" {
		rounds = 4000
	}
	for round := 0; round < rounds; round++ {
		rf := &refForest{}
		m := u.NewMapPollard(false)
		m.TotalRows = []uint8{0, 63}[round%2]
		st := u.Stump{}
		adds := freshLeaves(4 + rng.Intn(12))
		l := toLeaves(adds)
		for i := range l {
			l[i].Remember = true
		}
		m.Modify(l, nil, u.Proof{})
		st.Update(nil, adds, u.Proof{})
		rf.apply(nil, adds)
		for step := 0; step < 6; step++ {
			live := rf.liveHashes()
			if len(live) < 3 {
				break
			}
			x := live[rng.Intn(len(live))]
			var y u.Hash
			for {
				y = live[rng.Intn(len(live))]
				if y != x {
					break
				}
			}
			px, _ := rf.prove([]u.Hash{x})
			py, _ := rf.prove([]u.Hash{y})
			var wg sync.WaitGroup
			wg.Add(2)
			start := make(chan struct{})
			go func() {
				defer wg.Done()
				<-start
				m.Verify([]u.Hash{x}, px, true)
			}()
			go func() {
				defer wg.Done()
				<-start
				m.Modify(nil, []u.Hash{y}, py)
			}()
			close(start)
			wg.Wait()
			st.Update([]u.Hash{y}, nil, py)
			rf.apply([]u.Hash{y}, nil)
			if !eqHashes(m.GetRoots(), st.Roots) {
				fmt.Fprintf(os.Stderr, "VERIF-DIVERGED roots of the map forest differ from the serially updated stump after a Verify(remember) raced with a Modify (round %d step %d)\n", round, step)
				return
			}
			// what the forest hands out must verify against the true state
			if p, err := m.Prove([]u.Hash{x}); err == nil {
				if _, err := u.Verify(st, []u.Hash{x}, p); err != nil {
					fmt.Fprintf(os.Stderr, "VERIF-DIVERGED map forest hands out a proof that does not verify after a Verify(remember) raced with a Modify (round %d step %d)\n", round, step)
					return
				}
			}
		}
	}
}

// snapshotReaders: readers take GetStump() snapshots in a tight loop while a writer applies and undoes
// blocks.  Every snapshot must be the (roots, leaf count) of a state that existed between two blocks:
// the writer publishes the state it is about to produce before it calls Modify/Undo, and the readers'
// snapshots are checked against the published set afterwards.
func snapshotReaders(seed int64, tier string) {
	rng := rand.New(rand.NewSource(seed + 991))
	iters := 600
	if tier == "thorough" {
		iters = 6000
	}
	key := func(n uint64, roots []u.Hash) string { return fmt.Sprintf("%d:%s", n, hs(roots)) }
	for _, full := range []bool{true, false} {
		rf := &refForest{}
		m := u.NewMapPollard(full)
		m.TotalRows = []uint8{0, 63}[rng.Intn(2)]
		var mu sync.Mutex
		known := map[string]bool{key(0, nil): true}
		publish := func(r *refForest) {
			mu.Lock()
			known[key(r.n(), r.roots())] = true
			mu.Unlock()
		}
		stop := make(chan struct{})
		var wg sync.WaitGroup
		seen := make([]map[string]bool, 6)
		for r := 0; r < 6; r++ {
			seen[r] = map[string]bool{}
			wg.Add(1)
			go func(r int) {
				defer wg.Done()
				for {
					select {
					case <-stop:
						return
					default:
					}
					st := m.GetStump()
					seen[r][key(st.NumLeaves, st.Roots)] = true
				}
			}(r)
		}
		type rec struct {
			dels, adds []u.Hash
			proof      u.Proof
			prev       []u.Hash
			before     *refForest
		}
		var hist []rec
		for it := 0; it < iters; it++ {
			if rng.Intn(4) == 0 && len(hist) > 0 {
				r := hist[len(hist)-1]
				hist = hist[:len(hist)-1]
				publish(r.before)
				m.Undo(uint64(len(r.adds)), r.proof, r.dels, r.prev)
				rf = r.before
				continue
			}
			dels, _ := pickDels(rng, rf)
			if len(dels) > 3 {
				dels = dels[:3]
			}
			adds := freshLeaves(1 + rng.Intn(4))
			proof, _ := rf.prove(dels)
			l := toLeaves(adds)
			for i := range l {
				l[i].Remember = rng.Intn(3) == 0
			}
			if !full && len(dels) > 0 {
				m.Verify(dels, proof, true)
			}
			hist = append(hist, rec{dels, adds, proof, rf.roots(), rf.clone()})
			next := rf.clone()
			next.apply(dels, adds)
			publish(next)
			m.Modify(l, dels, proof)
			rf = next
			if rf.n() > 200 {
				break
			}
		}
		close(stop)
		wg.Wait()
		for r := range seen {
			for k := range seen[r] {
				if !known[k] {
					n := k
					if len(n) > 90 {
						n = n[:90] + "..."
					}
					fmt.Fprintf(os.Stderr, "VERIF-DIVERGED GetStump returned a (leaf count, roots) pair that is the state of no block boundary (full=%v): %s\n", full, n)
					return
				}
			}
		}
	}
}

var raceFn = regexp.MustCompile(`github.com/utreexo/utreexo\.\(\*MapPollard\)\.(\w+)\(\)`)

func genC12(cfg runCfg, e *emitter, rng *rand.Rand) {
	// part A: race detector, in a child process so that its report can be captured
	e.line("CASE race")
	self, _ := os.Executable()
	cmd := exec.Command(self, "-prop", "C12", "-tier", cfg.tier, "-seed", fmt.Sprint(cfg.seed), "-race-child")
	cmd.Env = append(os.Environ(), "GORACE=halt_on_error=0 exitcode=0 history_size=2")
	var stderr bytes.Buffer
	cmd.Stderr = &stderr
	done := make(chan error, 1)
	go func() { done <- cmd.Run() }()
	select {
	case err := <-done:
		if err != nil {
			e.hfail("race-child", "child failed: %v %s", err, lastLines(stderr.String(), 5))
		}
	case <-time.After(10 * time.Minute):
		cmd.Process.Kill()
		e.hfail("deadlock.race-child", "concurrent run did not finish (deadlock?)")
	}
	reports := strings.Split(stderr.String(), "WARNING: DATA RACE")
	seen := map[string]bool{}
	for _, r := range reports[1:] {
		fns := raceFn.FindAllStringSubmatch(r, -1)
		var names []string
		for _, f := range fns {
			names = append(names, f[1])
		}
		key := "unknown"
		if len(names) >= 2 {
			key = names[0] + "|" + names[len(names)/2]
		}
		top := map[string]bool{}
		for _, n := range names {
			top[n] = true
		}
		var l []string
		for n := range top {
			l = append(l, n)
		}
		sort.Strings(l)
		key = strings.Join(l, ",")
		if !seen[key] {
			seen[key] = true
			e.hfail("race", "data race reported by the race detector involving MapPollard methods {%s}", key)
		}
	}
	for _, l := range strings.Split(stderr.String(), "\n") {
		if strings.HasPrefix(l, "VERIF-DIVERGED") {
			e.hfail("mixed-state.concurrent", "%s", l)
		}
	}
	e.stats["race_reports"] = len(reports) - 1
	e.stats["race_detector_enabled"] = raceEnabledInt()
	// part B: writer suspended at every hook site
	pausedWriter(cfg, e, rng)
	e.sample = append(e.sample, "writer suspended inside Modify at Modify.between-remove-and-add; 11 queries started; none may complete; each result = pre or post state")
}

func lastLines(s string, n int) string {
	l := strings.Split(strings.TrimSpace(s), "\n")
	if len(l) > n {
		l = l[len(l)-n:]
	}
	return strings.Join(l, " | ")
}

func init() { generators["C12"] = genC12 }
