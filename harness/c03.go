package main

import (
	"fmt"
	"math/rand"
	"sort"
	"time"

	u "github.com/utreexo/utreexo"
)

type hblock struct {
	dels, adds []u.Hash
}

// buildState replays blocks on fresh implementations (honest proofs from the generator-side reference).
func buildState(blocks []hblock, rows []uint8) (*refForest, *implSet) {
	rf := &refForest{}
	is := newImplSet(rows)
	for _, b := range blocks {
		proof, _ := rf.prove(b.dels)
		is.stump.Update(b.dels, b.adds, proof)
		is.pol.Modify(toLeaves(b.adds), b.dels, proof)
		for _, m := range is.maps {
			m.Modify(toLeaves(b.adds), b.dels, proof)
		}
		rf.apply(b.dels, b.adds)
	}
	return rf, is
}

func randomBlocks(rng *rand.Rand, nb, maxAdd int, maxLeaves uint64) []hblock {
	rf := &refForest{}
	var out []hblock
	for b := 0; b < nb; b++ {
		dels, _ := pickDels(rng, rf)
		if len(dels) == len(rf.liveHashes()) && rng.Intn(3) != 0 && len(dels) > 1 {
			dels = dels[:len(dels)/2] // keep something alive most of the time
		}
		nAdd := pickAdds(rng, rf.n(), maxAdd)
		if rf.n()+uint64(nAdd) > maxLeaves {
			if rf.n() >= maxLeaves {
				nAdd = 0
			} else {
				nAdd = int(maxLeaves - rf.n())
			}
		}
		adds := freshLeaves(nAdd)
		out = append(out, hblock{dels, adds})
		rf.apply(dels, adds)
	}
	return out
}

func emitBlocks(e *emitter, blocks []hblock) {
	e.line("RESET")
	for _, b := range blocks {
		e.line("BLOCK %s %s", hs(b.dels), hs(b.adds))
	}
}

func safeCall(f func() string) (res string) {
	defer func() {
		if r := recover(); r != nil {
			res = "panic"
		}
	}()
	return f()
}

// verifyEverywhere sends one (hashes, targets, proof) triple to every verification entry point.
func verifyEverywhere(e *emitter, is *implSet, label string, hashes []u.Hash, targets []uint64, proofH []u.Hash) (accepted bool) {
	proof := u.Proof{Targets: targets, Proof: proofH}
	args := fmt.Sprintf("%s %s %s", hs(hashes), us(targets), hs(proofH))
	e.untrusted(fmt.Sprintf("VERIFY %s stump %s", label, args), func() string {
		return safeCall(func() string {
			idx, err := u.Verify(is.stump, hashes, proof)
			if err != nil {
				return "err"
			}
			accepted = true
			return "ok " + is2(idx)
		})
	})
	e.untrusted(fmt.Sprintf("VERIFY %s pollard %s", label, args), func() string {
		return safeCall(func() string { return errStr(is.pol.Verify(hashes, proof, false)) })
	})
	for _, m := range is.maps {
		m := m
		e.untrusted(fmt.Sprintf("VERIFY %s.%s mapv:%d %s", label, mapName(m), m.TotalRows, args), func() string {
			return safeCall(func() string { return errStr(m.Verify(hashes, proof, false)) })
		})
		e.untrusted(fmt.Sprintf("VERIFY %s.%s vpp:%d %s", label, mapName(m), m.TotalRows, args), func() string {
			return safeCall(func() string { return errStr(m.VerifyPartialProof(targets, hashes, proofH, false)) })
		})
	}
	return accepted
}

// updateStump calls Stump.Update on a copy and checks atomic rejection.
func updateStump(e *emitter, st u.Stump, label string, dels, adds []u.Hash, targets []uint64, proofH []u.Hash) {
	cp := u.Stump{Roots: append([]u.Hash{}, st.Roots...), NumLeaves: st.NumLeaves}
	e.untrusted(fmt.Sprintf("UPDATE %s %s %s %s %s", label, hs(dels), hs(adds), us(targets), hs(proofH)), func() string {
		return safeCall(func() string {
			ud, err := cp.Update(dels, adds, u.Proof{Targets: targets, Proof: proofH})
			if err != nil {
				if cp.NumLeaves != st.NumLeaves || !eqHashes(cp.Roots, st.Roots) {
					e.hfail("atomic", "rejected Update changed the stump: before n=%d roots=%s after n=%d roots=%s", st.NumLeaves, hs(st.Roots), cp.NumLeaves, hs(cp.Roots))
				}
				return fmt.Sprintf("err %d %s", cp.NumLeaves, hs(cp.Roots))
			}
			return fmt.Sprintf("ok %d %s %s %d %s %s", cp.NumLeaves, hs(cp.Roots), us(ud.ToDestroy), ud.PrevNumLeaves,
				pairsCanon(ud.NewDelPos, ud.NewDelHash), pairsCanon(ud.NewAddPos, ud.NewAddHash))
		})
	})
}

func max0(x int) int {
	if x < 0 {
		return 0
	}
	return x
}

type alpha struct {
	hashes []u.Hash
	pos    []uint64
}

func alphabet(rf *refForest) alpha {
	rows := refRows(rf.n())
	nodes, _ := rf.layout(rows)
	var a alpha
	var ps []uint64
	for p := range nodes {
		ps = append(ps, p)
	}
	sort.Slice(ps, func(i, j int) bool { return ps[i] < ps[j] })
	seen := map[u.Hash]bool{}
	for _, p := range ps {
		if h := nodes[p].hash; h != empty && !seen[h] {
			seen[h] = true
			a.hashes = append(a.hashes, h)
		}
	}
	a.hashes = append(a.hashes, empty, u.Hash{0xfe, 0xed}, degenerateHashes()[1])
	// near misses: true hashes with one bit flipped at the end / at the start (a comparison on a prefix
	// or a suffix of the hash must not pass for the whole hash)
	for _, t := range rf.trees() {
		if t.root != nil {
			h1, h2 := t.root.hash, t.root.hash
			h1[31] ^= 1
			h2[0] ^= 1
			a.hashes = append(a.hashes, h1, h2)
		}
	}
	for p := uint64(0); p <= uint64(2)<<uint(rows)+1; p++ {
		a.pos = append(a.pos, p)
	}
	// positions written in the coordinates of a forest allocated with 63 rows (map forests accept them):
	// every row >= 1, offsets up to one past the width of the row in the minimal geometry
	for r := 1; r <= rows+1; r++ {
		for o := uint64(0); o <= (uint64(1)<<uint(max0(rows-r)))+1; o++ {
			a.pos = append(a.pos, refPos(r, 63, o))
		}
	}
	return a
}

// enumSmall enumerates claims over a small alphabet on a small forest.
func enumSmall(e *emitter, rng *rand.Rand, blocks []hblock, rows []uint8, budget2 int, applyAccepted bool) {
	rf, is := buildState(blocks, rows)
	a := alphabet(rf)
	var proofs [][]u.Hash
	proofs = append(proofs, nil)
	for _, h := range a.hashes {
		proofs = append(proofs, []u.Hash{h})
	}
	for _, h1 := range a.hashes {
		for _, h2 := range a.hashes {
			proofs = append(proofs, []u.Hash{h1, h2})
		}
	}
	nodes, _ := rf.layout(refRows(rf.n()))
	tryApply := func(hashes []u.Hash, targets []uint64, pf []u.Hash) {
		if !applyAccepted {
			return
		}
		seen := map[uint64]bool{}
		for _, t := range targets {
			nd, ok := nodes[t]
			if !ok || !nd.leaf || seen[t] {
				return
			}
			seen[t] = true
		}
		// the accepted claim names live leaves: every implementation must apply it identically
		_, is2 := buildState(blocks, rows)
		adds := freshLeaves(1)
		proof := u.Proof{Targets: targets, Proof: pf}
		safeCall(func() string { is2.stump.Update(hashes, adds, proof); return "" })
		safeCall(func() string { is2.pol.Modify(toLeaves(adds), hashes, proof); return "" })
		for _, m := range is2.maps {
			m := m
			safeCall(func() string { m.Modify(toLeaves(adds), hashes, proof); return "" })
		}
		e.line("BLOCKT %s %s", us(targets), hs(adds))
		emitRoots(e, is2)
		e.line("UNDO")
		e.count("accepted_applied")
	}
	// all single claims x all proofs of length <= 2
	for _, t := range a.pos {
		for _, h := range a.hashes {
			for _, pf := range proofs {
				if verifyEverywhere(e, is, "enum1", []u.Hash{h}, []uint64{t}, pf) {
					e.count("accepted")
					e.distinct(fmt.Sprintf("acc1:%d:%s:%s", t, hx(h), hs(pf)))
					tryApply([]u.Hash{h}, []uint64{t}, pf)
				}
				e.count("enum1_claims")
			}
		}
	}
	// sampled pairs of claims
	for i := 0; i < budget2; i++ {
		t1 := a.pos[rng.Intn(len(a.pos))]
		t2 := a.pos[rng.Intn(len(a.pos))]
		switch rng.Intn(6) {
		case 0:
			t2 = t1
		case 1:
			t2 = t1 ^ 1
		case 2:
			t2 = t1 | 1
		}
		h1 := a.hashes[rng.Intn(len(a.hashes))]
		h2 := a.hashes[rng.Intn(len(a.hashes))]
		if nd, ok := nodes[t1]; ok && rng.Intn(2) == 0 {
			h1 = nd.hash
		}
		if nd, ok := nodes[t2]; ok && rng.Intn(2) == 0 {
			h2 = nd.hash
		}
		pf := proofs[rng.Intn(len(proofs))]
		if verifyEverywhere(e, is, "enum2", []u.Hash{h1, h2}, []uint64{t1, t2}, pf) {
			e.count("accepted")
			e.distinct(fmt.Sprintf("acc2:%d:%d:%s", t1, t2, hs(pf)))
			tryApply([]u.Hash{h1, h2}, []uint64{t1, t2}, pf)
		}
		e.count("enum2_claims")
	}
}

// mutateHonest applies structured mutations to honest proofs on a larger forest.
func mutateHonest(e *emitter, rng *rand.Rand, blocks []hblock, rows []uint8, n int) {
	rf, is := buildState(blocks, rows)
	live := rf.liveHashes()
	if len(live) == 0 {
		return
	}
	frows := refRows(rf.n())
	nodes, leafPos := rf.layout(frows)
	var allPos []uint64
	for p := range nodes {
		allPos = append(allPos, p)
	}
	sort.Slice(allPos, func(i, j int) bool { return allPos[i] < allPos[j] })
	for i := 0; i < n; i++ {
		rng.Shuffle(len(live), func(a, b int) { live[a], live[b] = live[b], live[a] })
		k := 1 + rng.Intn(min(len(live), 5))
		req := append([]u.Hash{}, live[:k]...)
		proof, _ := rf.prove(req)
		hashes := append([]u.Hash{}, req...)
		targets := append([]uint64{}, proof.Targets...)
		pf := append([]u.Hash{}, proof.Proof...)
		kind := rng.Intn(14)
		name := ""
		switch kind {
		case 0:
			name = "honest"
		case 1: // move one target to the same relative path in another tree / another position holding a node
			name = "move-target"
			targets[rng.Intn(k)] = allPos[rng.Intn(len(allPos))]
		case 2:
			name = "dup-target"
			j := rng.Intn(k)
			targets = append(targets, targets[j])
			hashes = append(hashes, hashes[j])
		case 3: // replace a target by its parent or child coordinate
			name = "parent-child"
			j := rng.Intn(k)
			if rng.Intn(2) == 0 {
				targets[j] = u.Parent(targets[j], uint8(frows))
			} else {
				targets[j] = u.LeftChild(targets[j], uint8(frows)) | uint64(rng.Intn(2))
			}
		case 4:
			name = "zero-proof-hash"
			if len(pf) > 0 {
				pf[rng.Intn(len(pf))] = empty
			}
		case 5:
			name = "replace-proof-hash"
			if len(pf) > 0 {
				pf[rng.Intn(len(pf))] = nodes[allPos[rng.Intn(len(allPos))]].hash
			}
		case 6:
			name = "drop-proof-hash"
			if len(pf) > 0 {
				j := rng.Intn(len(pf))
				pf = append(pf[:j], pf[j+1:]...)
			}
		case 7:
			name = "append-proof-hash"
			pf = append(pf, nodes[allPos[rng.Intn(len(allPos))]].hash)
		case 8:
			name = "swap-proof-hashes"
			if len(pf) > 1 {
				a, b := rng.Intn(len(pf)), rng.Intn(len(pf))
				pf[a], pf[b] = pf[b], pf[a]
			}
		case 9: // claim an internal node / root hash at a leaf position or vice versa
			name = "wrong-hash"
			hashes[rng.Intn(k)] = nodes[allPos[rng.Intn(len(allPos))]].hash
		case 10: // wrong-tree: a leaf's hash claimed at the position with the same offset in another tree
			name = "wrong-tree"
			j := rng.Intn(k)
			other := live[rng.Intn(len(live))]
			targets[j] = leafPos[other]
		case 11:
			name = "zero-target-hash"
			hashes[rng.Intn(k)] = empty
		case 12: // a root (or any node) claimed with a hash that differs only in its last / first byte
			name = "near-miss-hash"
			ps := allPos[rng.Intn(len(allPos))]
			if rng.Intn(2) == 0 {
				for _, pp := range allPos {
					if nodes[pp].isRoot && nodes[pp].hash != empty {
						ps = pp
					}
				}
			}
			h := nodes[ps].hash
			if rng.Intn(2) == 0 {
				h[31] ^= 0x80
			} else {
				h[3] ^= 1
			}
			hashes = []u.Hash{h}
			targets = []uint64{ps}
			rp, _ := rf.prove(nil)
			_ = rp
			pf = nil
			if !nodes[ps].isRoot {
				// honest sibling path of that node
				p := ps
				for !nodes[p].isRoot {
					pf = append(pf, nodes[nodes[p].sib].hash)
					p = nodes[p].parent
				}
			}
		case 13: // the hash of an ancestor claimed at a leaf position; the proof hashes in between replaced by
			// a "degenerate" non-zero hash that a sloppy emptiness test could take for the all-zero one
			name = "lifted-claim"
			t := leafPos[req[0]]
			var path []u.Hash
			p := t
			var anc []uint64
			for !nodes[p].isRoot {
				path = append(path, nodes[nodes[p].sib].hash)
				p = nodes[p].parent
				anc = append(anc, p)
			}
			if len(anc) > 0 {
				lift := 1 + rng.Intn(len(anc))
				filler := degenerateHashes()[rng.Intn(len(degenerateHashes()))]
				hashes = []u.Hash{nodes[anc[lift-1]].hash}
				targets = []uint64{t}
				pf = nil
				for x := 0; x < lift; x++ {
					pf = append(pf, filler)
				}
				pf = append(pf, path[lift:]...)
			}
		}
		e.count("mut_" + name)
		if verifyEverywhere(e, is, "mut."+name, hashes, targets, pf) {
			e.count("accepted")
		}
		e.distinct(fmt.Sprintf("mut:%s:%s:%s", name, us(targets), hs(pf)))
	}
}

func genC03(cfg runCfg, e *emitter, rng *rand.Rand) {
	nSmall := tierN(cfg, 5, 40)
	maxLeaves := uint64(tierN(cfg, 5, 8))
	budget2 := tierN(cfg, 6000, 40000)
	rows := []uint8{0, 63}
	for i := 0; i < nSmall; i++ {
		e.line("CASE small%d", i)
		blocks := randomBlocks(rng, 1+rng.Intn(3), 4, maxLeaves)
		if i == 0 {
			// the shape of D3/D4: 10 leaves would be too big for enum; use 5 leaves with dead slots
			l := freshLeaves(5)
			blocks = []hblock{{nil, l}, {[]u.Hash{l[1], l[3]}, nil}}
		}
		emitBlocks(e, blocks)
		enumSmall(e, rng, blocks, rows, budget2, false)
	}
	for i := 0; i < tierN(cfg, 30, 600); i++ {
		e.line("CASE mut%d", i)
		blocks := randomBlocks(rng, 2+rng.Intn(6), tierN(cfg, 12, 60), 1<<20)
		emitBlocks(e, blocks)
		mutateHonest(e, rng, blocks, rows, tierN(cfg, 60, 200))
	}
	e.sample = append(e.sample, "VERIFY enum1 stump <hash> <pos> <proof of <=2 hashes> -> ok|err, for every position x alphabet hash x proof")
}

// genC04: totality, no panic, atomic rejection, on boundary and malformed inputs.
func genC04(cfg runCfg, e *emitter, rng *rand.Rand) {
	rows := []uint8{0, 63}
	big := []uint64{1 << 40, 1 << 62, 1 << 63, 1<<63 + 1, ^uint64(0) - 1, ^uint64(0)}
	nStates := tierN(cfg, 25, 300)
	for i := 0; i < nStates; i++ {
		e.line("CASE tot%d", i)
		var blocks []hblock
		if i%5 == 0 {
			blocks = nil // empty accumulator
		} else {
			blocks = randomBlocks(rng, 1+rng.Intn(5), tierN(cfg, 8, 40), 1<<20)
		}
		emitBlocks(e, blocks)
		rf, is := buildState(blocks, rows)
		frows := refRows(rf.n())
		a := alphabet(rf)
		var cand []uint64
		cand = append(cand, big...)
		top := uint64(2) << uint(frows)
		cand = append(cand, top-2, top-1, top, top+1, rf.n(), rf.n()+1, 0, 1)
		for r := 0; r <= frows; r++ {
			s := refPos(r, frows, 0)
			cand = append(cand, s, s+1)
			if s > 0 {
				cand = append(cand, s-1)
			}
			cand = append(cand, s+(rf.n()>>uint(r)))
		}
		live := rf.liveHashes()
		for j := 0; j < tierN(cfg, 120, 400); j++ {
			k := rng.Intn(4)
			if rng.Intn(10) == 0 {
				k = 4 + rng.Intn(6)
			}
			var ts []uint64
			var hh []u.Hash
			for x := 0; x < k; x++ {
				ts = append(ts, cand[rng.Intn(len(cand))])
				hh = append(hh, a.hashes[rng.Intn(len(a.hashes))])
			}
			switch rng.Intn(8) {
			case 0: // mismatched lengths
				if len(hh) > 0 {
					hh = hh[:len(hh)-1]
				} else {
					hh = append(hh, a.hashes[0])
				}
			case 1: // honest claim plus a boundary target
				if len(live) > 0 {
					req := []u.Hash{live[rng.Intn(len(live))]}
					p, _ := rf.prove(req)
					ts = append(p.Targets, cand[rng.Intn(len(cand))])
					hh = append(req, a.hashes[rng.Intn(len(a.hashes))])
				}
			}
			var pf []u.Hash
			np := rng.Intn(4)
			if rng.Intn(6) == 0 {
				np = 10 * (frows + 1) // oversized
			}
			for x := 0; x < np; x++ {
				pf = append(pf, a.hashes[rng.Intn(len(a.hashes))])
			}
			verifyEverywhere(e, is, "tot", hh, ts, pf)
			updateStump(e, is.stump, "tot", hh, freshLeaves(rng.Intn(3)), ts, pf)
			e.distinct(fmt.Sprintf("tot:%s:%d:%d", us(ts), len(hh), len(pf)))
			e.count(fmt.Sprintf("targets_%d", len(ts)))
		}
		// the additions are caller-supplied hashes too: honest deletion proofs together with odd additions
		// (all-zero hash, repeated hash, hash of a live leaf or of an inner node); accepted or not, a
		// rejection must leave the stump as it was
		for j := 0; j < tierN(cfg, 12, 40) && len(live) > 0; j++ {
			var req []u.Hash
			for _, h := range live {
				if rng.Intn(3) == 0 && len(req) < 4 {
					req = append(req, h)
				}
			}
			p, _ := rf.prove(req)
			var adds []u.Hash
			for x := 0; x < 1+rng.Intn(3); x++ {
				switch rng.Intn(5) {
				case 0:
					adds = append(adds, empty)
				case 1:
					adds = append(adds, live[rng.Intn(len(live))])
				case 2:
					adds = append(adds, a.hashes[rng.Intn(len(a.hashes))])
				case 3:
					if len(adds) > 0 {
						adds = append(adds, adds[0])
					} else {
						adds = append(adds, newLeaf())
					}
				default:
					adds = append(adds, newLeaf())
				}
			}
			updateStump(e, is.stump, "oddadds", req, adds, p.Targets, p.Proof)
			e.count("odd_additions")
		}
	}
	// well-formed stumps that no history of this run reaches: huge leaf counts (up to 2^64-1) with
	// popcount(NumLeaves) arbitrary roots; every entry point must return (no oracle state: totality only)
	e.line("CASE hugestumps")
	for _, n := range []uint64{1 << 62, 1<<62 + 5, 1 << 63, 1<<63 + 1, 1<<63 + 1<<20 + 3, ^uint64(0), ^uint64(0) - 1, 1<<40 + 1} {
		var roots []u.Hash
		for b := 63; b >= 0; b-- {
			if n>>uint(b)&1 == 1 {
				roots = append(roots, newLeaf())
			}
		}
		st := u.Stump{Roots: roots, NumLeaves: n}
		for j := 0; j < 6; j++ {
			var ts []uint64
			var hh []u.Hash
			for x := 0; x < 1+rng.Intn(3); x++ {
				t := []uint64{0, n - 1, n, 1 << 63, ^uint64(0), rng.Uint64()}[rng.Intn(6)]
				ts = append(ts, t)
				hh = append(hh, newLeaf())
			}
			var pf []u.Hash
			for x := 0; x < rng.Intn(70); x++ {
				pf = append(pf, newLeaf())
			}
			e.untrusted(fmt.Sprintf("NOPANIC hugestump.verify.n=%d", n), func() string {
				return safeCall(func() string { _, err := u.Verify(st, hh, u.Proof{Targets: ts, Proof: pf}); return errStr(err) })
			})
			e.untrusted(fmt.Sprintf("NOPANIC hugestump.update.n=%d", n), func() string {
				return safeCall(func() string {
					cp := u.Stump{Roots: append([]u.Hash{}, st.Roots...), NumLeaves: st.NumLeaves}
					_, err := cp.Update(hh, nil, u.Proof{Targets: ts, Proof: pf})
					if err != nil && (cp.NumLeaves != st.NumLeaves || !eqHashes(cp.Roots, st.Roots)) {
						e.hfail("atomic", "rejected Update changed a stump with %d leaves", n)
					}
					return errStr(err)
				})
			})
			e.count("hugestump_calls")
		}
	}

	// timing curve: many targets
	e.line("CASE timing")
	blocks := []hblock{{nil, freshLeaves(tierN(cfg, 3000, 20000))}}
	emitBlocks(e, blocks)
	rf, is := buildState(blocks, []uint8{63})
	live := rf.liveHashes()
	for _, k := range []int{10, 100, 1000, tierN(cfg, 2500, 10000)} {
		req := append([]u.Hash{}, live[:k]...)
		p, _ := rf.prove(req)
		t0 := time.Now()
		ok := true
		e.untrusted(fmt.Sprintf("HONEST timing%d", k), func() string {
			_, err := u.Verify(is.stump, req, p)
			ok = err == nil
			return errStr(err)
		})
		el := time.Since(t0)
		e.stats[fmt.Sprintf("verify_ns_per_target_%d", k)] = int(el.Nanoseconds()) / k
		_ = ok
		// garbage targets of the same size
		ts := make([]uint64, k)
		hh := make([]u.Hash, k)
		for i := range ts {
			ts[i] = rng.Uint64() >> uint(rng.Intn(64))
			hh[i] = live[rng.Intn(len(live))]
		}
		e.untrusted(fmt.Sprintf("NOPANIC garbage%d", k), func() string {
			return safeCall(func() string { _, err := u.Verify(is.stump, hh, u.Proof{Targets: ts, Proof: req}); return errStr(err) })
		})
	}
	e.sample = append(e.sample, "VERIFY tot stump <hashes> <targets incl. 2^63, 2^64-1, row starts +-1> <proof> -> ok|err|panic|hang")
}

// genC05: accepted non-canonical encodings are applied identically by all implementations.
func genC05(cfg runCfg, e *emitter, rng *rand.Rand) {
	rows := []uint8{0, 3, 63}
	// (a) small exhaustive part: accepted claims on live leaves are applied
	for i := 0; i < tierN(cfg, 3, 20); i++ {
		e.line("CASE small%d", i)
		blocks := randomBlocks(rng, 1+rng.Intn(3), 4, uint64(tierN(cfg, 5, 7)))
		if i == 0 {
			l := freshLeaves(10)
			blocks = []hblock{{nil, l}, {[]u.Hash{l[1], l[2], l[3]}, nil}}
			e.line("RESET")
			for _, b := range blocks {
				e.line("BLOCK %s %s", hs(b.dels), hs(b.adds))
			}
			// the D4 shape: leaf 0's hash claimed at position 8 with node 25 as proof
			rf, is := buildState(blocks, rows)
			nodes, _ := rf.layout(refRows(rf.n()))
			if nd, ok := nodes[25]; ok {
				verifyEverywhere(e, is, "d4shape", []u.Hash{l[0]}, []uint64{8}, []u.Hash{nd.hash})
			}
			continue
		}
		emitBlocks(e, blocks)
		enumSmall(e, rng, blocks, rows, tierN(cfg, 1500, 10000), true)
	}
	// (b) histories in which every block is applied in a non-canonical encoding
	for hI := 0; hI < tierN(cfg, 240, 2500); hI++ {
		e.line("CASE enc%d", hI)
		e.line("RESET")
		rf := &refForest{}
		is := newImplSet(rows)
		is.addPartials([]uint8{63, 0, 4})
		for _, pi := range is.parts {
			pi.lazy = false
		}
		nb := 2 + rng.Intn(9)
		sig := ""
		for b := 0; b < nb; b++ {
			dels, strat := pickDels(rng, rf)
			adds := freshLeaves(pickAdds(rng, rf.n(), 8))
			proof, _ := rf.prove(dels)
			// joint permutation of targets and hashes; junk appended to the proof
			perm := rng.Perm(len(dels))
			hh := make([]u.Hash, len(dels))
			ts := make([]uint64, len(dels))
			for i, j := range perm {
				hh[i], ts[i] = dels[j], proof.Targets[j]
			}
			pf := append([]u.Hash{}, proof.Proof...)
			junk := rng.Intn(4)
			for i := 0; i < junk; i++ {
				pf = append(pf, newLeaf())
			}
			enc := u.Proof{Targets: ts, Proof: pf}
			sig += fmt.Sprintf("%s%d+%d j%d;", strat[:1], len(dels), len(adds), junk)
			acc := true
			if len(dels) > 0 {
				acc = verifyEverywhere(e, is, "enc", hh, ts, pf)
				e.line("HONEST enc %s", map[bool]string{true: "ok", false: "err"}[acc])
			}
			if !acc {
				break
			}
			safeCall(func() string {
				if _, err := is.stump.Update(hh, adds, enc); err != nil {
					e.hfail("Update.stump", "accepted block rejected by Update: %v", err)
				}
				return ""
			})
			if r := safeCall(func() string { return errStr(is.pol.Modify(toLeaves(adds), hh, enc)) }); r != "ok" {
				e.hfail("Modify.pol", "accepted block not applied: %s", r)
			}
			for _, m := range is.maps {
				m := m
				if r := safeCall(func() string { return errStr(m.Modify(toLeaves(adds), hh, enc)) }); r != "ok" {
					e.hfail("Modify."+mapName(m), "accepted block not applied: %s", r)
				}
			}
			// partial forests: the same non-canonical encoding is verified with remember, then applied
			rem := make([]bool, len(adds))
			for i := range rem {
				rem[i] = rng.Intn(2) == 0
			}
			is.applyPartials(e, hh, adds, enc, rem)
			before := rf.clone()
			prevRoots, prevN := rf.roots(), rf.n()
			rf.apply(dels, adds)
			e.line("BLOCKT %s %s", us(ts), hs(adds))
			emitRoots(e, is)
			// "for all reachable states": half of the histories also reach states through Undo - the
			// block just applied is undone (with the canonical proof) and the history goes on from there
			if hI%2 == 1 && rng.Intn(2) == 0 {
				undoOne := func(label string, p u.Utreexo) {
					if is.dead[label] {
						return
					}
					guarded(e, "Undo."+label, func() {
						if err := p.Undo(uint64(len(adds)), proof, dels, prevRoots); err != nil {
							e.hfail("Undo."+label, "%v", err)
							is.dead[label] = true
						}
					})
				}
				undoOne("pol", &is.pol)
				for _, m := range is.maps {
					undoOne(mapName(m), m)
				}
				for _, pi := range is.parts {
					undoOne(mapName(pi.m), pi.m)
					for _, a := range adds {
						delete(pi.R, a)
					}
					for _, d := range dels {
						pi.R[d] = true
					}
				}
				is.stump = u.Stump{Roots: prevRoots, NumLeaves: prevN}
				rf = before
				e.line("UNDO")
				emitRoots(e, is)
				sig += "U;"
				e.count("enc_undo")
			}
		}
		e.distinct(sig)
		if hI < 2 {
			e.sample = append(e.sample, "history "+sig)
		}
	}
}

func init() {
	generators["C03"] = genC03
	generators["C04"] = genC04
	generators["C05"] = genC05
}

// degenerateHashes: non-zero hashes with a structure that a sloppy "is this the empty hash" test (word-wise XOR
// fold, prefix comparison, single-byte test) could mistake for the all-zero hash.
func degenerateHashes() []u.Hash {
	var d1, d2, d3, d4, d5 u.Hash
	d1[0], d1[8] = 1, 1
	for i := range d2 {
		d2[i] = 1
	}
	for i := 12; i < 32; i++ {
		d3[i] = byte(i)
	}
	d4[31] = 1
	d5[0] = 1
	return []u.Hash{empty, d1, d2, d3, d4, d5}
}
