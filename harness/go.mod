module verifharness

go 1.21

require github.com/utreexo/utreexo v0.0.0

require golang.org/x/exp v0.0.0-20220414153411-bcd21879b8fd // indirect

replace github.com/utreexo/utreexo => /repo
