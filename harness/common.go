package main

import (
	"bufio"
	"crypto/sha512"
	"encoding/binary"
	"encoding/hex"
	"fmt"
	"hash/fnv"
	"math/rand"
	"os"
	"sort"
	"strconv"
	"strings"

	u "github.com/utreexo/utreexo"
)

// ---------- output ----------

type emitter struct {
	w      *bufio.Writer
	lines  int
	stats  map[string]int
	sample []string
	seen   map[uint64]struct{}
	ucalls int

	// process isolation of calls on untrusted input (see isolate.go)
	child   bool
	callIdx int
	hung    map[int]bool
	lastHung int
	muted   bool
	inCall   bool
	deferred []string
}

func newEmitter(path string) *emitter {
	f, err := os.Create(path)
	if err != nil {
		panic(err)
	}
	return &emitter{w: bufio.NewWriterSize(f, 1<<20), stats: map[string]int{}}
}

func (e *emitter) line(format string, a ...interface{}) {
	if e.muted {
		return
	}
	s := fmt.Sprintf(format, a...)
	if strings.HasPrefix(s, "U ") {
		// stateless mirror calls: shard marker every 5000 lines, distinct successful calls counted
		if e.ucalls%5000 == 0 {
			fmt.Fprintf(e.w, "CASE u%d\n", e.ucalls/5000)
		}
		e.ucalls++
		if !strings.HasSuffix(s, "err") {
			e.distinct(s)
		}
	}
	e.w.WriteString(s)
	e.w.WriteByte('\n')
	e.lines++
}
func (e *emitter) count(k string) {
	if !e.muted {
		e.stats[k]++
	}
}
func (e *emitter) countN(k string, n int) {
	if !e.muted {
		e.stats[k] += n
	}
}
func (e *emitter) close() {
	e.stats["distinct_nontrivial"] = len(e.seen)
	// judgements made by the harness itself (HFAIL on violation), for the evidence
	hj := 0
	for k, v := range e.stats {
		if k == "calls_checked" || k == "paused_queries" || strings.HasSuffix(k, "_truncations") ||
			strings.HasSuffix(k, "_writer_failures") || strings.Contains(k, "_restore_") {
			hj += v
		}
	}
	e.stats["harness_judgements"] = hj
	e.w.Flush()
}

// distinct records one non-trivial case (by its canonical text) for the evidence.
func (e *emitter) distinct(key string) {
	if e.muted {
		return
	}
	if e.seen == nil {
		e.seen = map[uint64]struct{}{}
	}
	h := fnv.New64a()
	h.Write([]byte(key))
	e.seen[h.Sum64()] = struct{}{}
}

// hfail is a judgement the harness itself makes (panic, watchdog, argument mutation ...).
func (e *emitter) hfail(tag string, format string, a ...interface{}) {
	l := fmt.Sprintf("HFAIL %s %s", tag, strings.ReplaceAll(fmt.Sprintf(format, a...), "\n", " "))
	if e.inCall {
		// inside an isolated call the event line is still open: emit after it is closed
		e.deferred = append(e.deferred, l)
		return
	}
	e.line("%s", l)
}

func hx(h u.Hash) string { return hex.EncodeToString(h[:]) }
func hs(l []u.Hash) string {
	if len(l) == 0 {
		return "-"
	}
	s := make([]string, len(l))
	for i, h := range l {
		s[i] = hx(h)
	}
	return strings.Join(s, ",")
}
func us(l []uint64) string {
	if len(l) == 0 {
		return "-"
	}
	s := make([]string, len(l))
	for i, p := range l {
		s[i] = strconv.FormatUint(p, 10)
	}
	return strings.Join(s, ",")
}
func is(l []int) string {
	if len(l) == 0 {
		return "-"
	}
	s := make([]string, len(l))
	for i, p := range l {
		s[i] = strconv.Itoa(p)
	}
	return strings.Join(s, ",")
}
func pairs(ps []uint64, hh []u.Hash) string {
	if len(ps) == 0 {
		return "-"
	}
	s := make([]string, len(ps))
	for i := range ps {
		s[i] = strconv.FormatUint(ps[i], 10) + ":" + hx(hh[i])
	}
	return strings.Join(s, ",")
}
// pairsCanon is pairs with entries of EQUAL position put in a canonical order (by hash): Go's sort is unstable, so
// their relative order carries no information (equal positions only occur for garbage additions).
func pairsCanon(ps []uint64, hh []u.Hash) string {
	type ent struct {
		p uint64
		h u.Hash
	}
	var out []ent
	used := make([]bool, len(ps))
	for i := range ps {
		if used[i] {
			continue
		}
		var grp []ent
		for j := i; j < len(ps); j++ {
			if !used[j] && ps[j] == ps[i] {
				grp = append(grp, ent{ps[j], hh[j]})
				used[j] = true
			}
		}
		sort.Slice(grp, func(a, b int) bool { return hx(grp[a].h) < hx(grp[b].h) })
		out = append(out, grp...)
	}
	p2 := make([]uint64, len(out))
	h2 := make([]u.Hash, len(out))
	for i, e := range out {
		p2[i], h2[i] = e.p, e.h
	}
	return pairs(p2, h2)
}
func b01(b bool) string {
	if b {
		return "1"
	}
	return "0"
}

// ---------- leaves ----------

var leafCtr uint64

func newLeaf() u.Hash {
	leafCtr++
	var b [8]byte
	binary.LittleEndian.PutUint64(b[:], leafCtr)
	return u.Hash(sha512.Sum512_256(b[:]))
}
// structuredLeaves: k distinct leaf hashes that share their first 28 bytes ("txid || output index")
func structuredLeaves(k int) []u.Hash {
	base := newLeaf()
	out := make([]u.Hash, k)
	for i := range out {
		out[i] = base
		binary.BigEndian.PutUint32(out[i][28:], uint32(i))
	}
	return out
}
func toLeaves(h []u.Hash) []u.Leaf {
	l := make([]u.Leaf, len(h))
	for i := range h {
		l[i] = u.Leaf{Hash: h[i]}
	}
	return l
}

var empty u.Hash

// ---------- generator-side reference (used to CHOOSE inputs and to build honest proofs;
// never to judge the implementation: the judge is the oracle extracted from Coq) ----------

func refH(l, r u.Hash) u.Hash {
	h := sha512.New512_256()
	h.Write(l[:])
	h.Write(r[:])
	var o u.Hash
	copy(o[:], h.Sum(nil))
	return o
}

type cnode struct {
	hash u.Hash
	l, r *cnode
	slot int
}
type refForest struct{ leaves []u.Hash }

func (rf *refForest) n() uint64 { return uint64(len(rf.leaves)) }
func (rf *refForest) compress(lo, h int) *cnode {
	if h == 0 {
		if rf.leaves[lo] == empty {
			return nil
		}
		return &cnode{hash: rf.leaves[lo], slot: lo}
	}
	l := rf.compress(lo, h-1)
	r := rf.compress(lo+(1<<(h-1)), h-1)
	if l == nil {
		return r
	}
	if r == nil {
		return l
	}
	return &cnode{hash: refH(l.hash, r.hash), l: l, r: r, slot: -1}
}
func refRows(n uint64) int {
	r := 0
	for (uint64(1) << r) < n {
		r++
	}
	return r
}
func refPos(row, rows int, off uint64) uint64 {
	var start uint64
	for i := 0; i < row; i++ {
		start += uint64(1) << (rows - i)
	}
	return start + off
}

// refDecode returns (row, offset) of a position in a forest of `rows` rows.
func refDecode(pos uint64, rows int) (int, uint64, bool) {
	var start uint64
	for r := 0; r <= rows; r++ {
		width := uint64(1) << (rows - r)
		if pos < start+width {
			return r, pos - start, true
		}
		start += width
	}
	return 0, 0, false
}
func refTranslate(pos uint64, from, to int) uint64 {
	r, o, ok := refDecode(pos, from)
	if !ok {
		return pos
	}
	return refPos(r, to, o)
}

type refTree struct {
	h, lo int
	root  *cnode
}

func (rf *refForest) trees() []refTree {
	var ts []refTree
	n := len(rf.leaves)
	lo := 0
	for h := 62; h >= 0; h-- {
		if (uint64(n)>>h)&1 == 1 {
			ts = append(ts, refTree{h, lo, rf.compress(lo, h)})
			lo += 1 << h
		}
	}
	return ts
}
func (rf *refForest) roots() []u.Hash {
	rs := []u.Hash{}
	for _, t := range rf.trees() {
		if t.root == nil {
			rs = append(rs, empty)
		} else {
			rs = append(rs, t.root.hash)
		}
	}
	return rs
}

type refNodeInfo struct {
	pos, parent, sib uint64
	hash             u.Hash
	leaf, isRoot     bool
	tree             int
}

func (rf *refForest) layout(rows int) (map[uint64]*refNodeInfo, map[u.Hash]uint64) {
	nodes := map[uint64]*refNodeInfo{}
	leafPos := map[u.Hash]uint64{}
	for ti, t := range rf.trees() {
		if t.root == nil {
			p := refPos(t.h, rows, uint64(t.lo>>t.h))
			nodes[p] = &refNodeInfo{pos: p, hash: empty, isRoot: true, tree: ti}
			continue
		}
		var rec func(c *cnode, row int, off uint64, parent, sib uint64, isRoot bool)
		rec = func(c *cnode, row int, off uint64, parent, sib uint64, isRoot bool) {
			p := refPos(row, rows, off)
			nodes[p] = &refNodeInfo{pos: p, hash: c.hash, leaf: c.l == nil, parent: parent, sib: sib, isRoot: isRoot, tree: ti}
			if c.l == nil {
				leafPos[c.hash] = p
				return
			}
			lp := refPos(row-1, rows, off*2)
			rp := refPos(row-1, rows, off*2+1)
			rec(c.l, row-1, off*2, p, rp, false)
			rec(c.r, row-1, off*2+1, p, lp, false)
		}
		rec(t.root, t.h, uint64(t.lo>>t.h), 0, 0, true)
	}
	return nodes, leafPos
}

// prove builds the honest proof for the given live leaves (targets in request order).
func (rf *refForest) prove(hashes []u.Hash) (u.Proof, bool) {
	rows := refRows(rf.n())
	nodes, leafPos := rf.layout(rows)
	targets := make([]uint64, len(hashes))
	have := map[uint64]bool{}
	for i, h := range hashes {
		p, ok := leafPos[h]
		if !ok {
			return u.Proof{}, false
		}
		targets[i] = p
	}
	for _, t := range targets {
		p := t
		for {
			have[p] = true
			if nodes[p].isRoot {
				break
			}
			p = nodes[p].parent
		}
	}
	need := map[uint64]bool{}
	for p := range have {
		if nodes[p].isRoot {
			continue
		}
		if s := nodes[p].sib; !have[s] {
			need[s] = true
		}
	}
	var np []uint64
	for p := range need {
		np = append(np, p)
	}
	sort.Slice(np, func(a, b int) bool { return np[a] < np[b] })
	var ph []u.Hash
	for _, p := range np {
		ph = append(ph, nodes[p].hash)
	}
	return u.Proof{Targets: targets, Proof: ph}, true
}
func (rf *refForest) liveHashes() []u.Hash {
	var l []u.Hash
	for _, h := range rf.leaves {
		if h != empty {
			l = append(l, h)
		}
	}
	return l
}
func (rf *refForest) clone() *refForest {
	c := &refForest{leaves: make([]u.Hash, len(rf.leaves))}
	copy(c.leaves, rf.leaves)
	return c
}
func (rf *refForest) apply(dels, adds []u.Hash) {
	dm := map[u.Hash]bool{}
	for _, d := range dels {
		dm[d] = true
	}
	for i, h := range rf.leaves {
		if h != empty && dm[h] {
			rf.leaves[i] = empty
		}
	}
	rf.leaves = append(rf.leaves, adds...)
}

// pickDels chooses a deletion subset with a mix of strategies; returns the strategy name.
func pickDels(rng *rand.Rand, rf *refForest) ([]u.Hash, string) {
	live := rf.liveHashes()
	if len(live) == 0 {
		return nil, "none"
	}
	switch rng.Intn(10) {
	case 0:
		return nil, "none"
	case 1:
		out := append([]u.Hash{}, live...)
		rng.Shuffle(len(out), func(i, j int) { out[i], out[j] = out[j], out[i] })
		return out, "all"
	case 2, 3:
		ts := rf.trees()
		t := ts[rng.Intn(len(ts))]
		var out []u.Hash
		for s := t.lo; s < t.lo+(1<<t.h); s++ {
			if rf.leaves[s] != empty {
				out = append(out, rf.leaves[s])
			}
		}
		rng.Shuffle(len(out), func(i, j int) { out[i], out[j] = out[j], out[i] })
		return out, "wholetree"
	case 4:
		// sibling pairs in the current layout
		nodes, _ := rf.layout(refRows(rf.n()))
		var out []u.Hash
		for _, nd := range nodes {
			if nd.leaf && !nd.isRoot && nd.pos&1 == 0 {
				if sb, ok := nodes[nd.sib]; ok && sb.leaf && rng.Intn(3) == 0 {
					out = append(out, nd.hash, sb.hash)
				}
			}
		}
		sort.Slice(out, func(a, b int) bool { return string(out[a][:]) < string(out[b][:]) })
		rng.Shuffle(len(out), func(i, j int) { out[i], out[j] = out[j], out[i] })
		return out, "sibpairs"
	case 5:
		// leaves that are roots of their tree or climbed at least one row
		nodes, _ := rf.layout(refRows(rf.n()))
		var out []u.Hash
		for _, nd := range nodes {
			if nd.leaf && nd.pos >= rf.n() && rng.Intn(2) == 0 {
				out = append(out, nd.hash)
			}
		}
		sort.Slice(out, func(a, b int) bool { return string(out[a][:]) < string(out[b][:]) })
		rng.Shuffle(len(out), func(i, j int) { out[i], out[j] = out[j], out[i] })
		return out, "climbed"
	default:
		k := 1 + rng.Intn(len(live))
		if rng.Intn(2) == 0 && k > 3 {
			k = 1 + rng.Intn(3)
		}
		rng.Shuffle(len(live), func(i, j int) { live[i], live[j] = live[j], live[i] })
		return live[:k], "random"
	}
}

// pickAdds chooses an addition count biased to cross powers of two.
func pickAdds(rng *rand.Rand, n uint64, max int) int {
	if n == 0 {
		return 1 + rng.Intn(max)
	}
	switch rng.Intn(6) {
	case 0:
		return 0
	case 1:
		// reach the next power of two or go one past it
		p := uint64(1)
		for p <= n {
			p <<= 1
		}
		d := int(p - n)
		if d <= max*2 {
			return d + rng.Intn(2)
		}
		return rng.Intn(max + 1)
	default:
		return rng.Intn(max + 1)
	}
}

func freshLeaves(k int) []u.Hash {
	out := make([]u.Hash, k)
	for i := range out {
		out[i] = newLeaf()
	}
	return out
}

func eqHashes(a, b []u.Hash) bool {
	if len(a) != len(b) {
		return false
	}
	for i := range a {
		if a[i] != b[i] {
			return false
		}
	}
	return true
}
func eqU64(a, b []uint64) bool {
	if len(a) != len(b) {
		return false
	}
	for i := range a {
		if a[i] != b[i] {
			return false
		}
	}
	return true
}

// shaVectors emits self-test vectors for the oracle's SHA-512/256.
func shaVectors(e *emitter, rng *rand.Rand) {
	for _, l := range []int{1, 8, 64, 111, 112, 127, 128, 200} {
		b := make([]byte, l)
		rng.Read(b)
		s := sha512.Sum512_256(b)
		e.line("SHA %s %s", hex.EncodeToString(b), hex.EncodeToString(s[:]))
	}
}
