package main

import (
	"fmt"
	"math/rand"

	u "github.com/utreexo/utreexo"
)

// genC09: partial map forests through interleavings of Modify / Verify(remember) / Ingest / Prune / Undo,
// also started from bare roots at a reached state.
func genC09(cfg runCfg, e *emitter, rng *rand.Rand) {
	nHist := tierN(cfg, 1000, 10000)
	rowsChoices := []uint8{0, 4, 63}
	for hI := 0; hI < nHist; hI++ {
		e.line("CASE part%d", hI)
		mmReset()
		prng := rand.New(rand.NewSource(cfg.seed*1000003 + int64(hI)))
		e.line("RESET")
		rf := &refForest{}
		m := u.NewMapPollard(false)
		m.TotalRows = rowsChoices[hI%3]
		pi := &partialInst{m: &m, R: map[u.Hash]bool{}}
		fromRootsAt := -1
		if hI%4 == 3 {
			fromRootsAt = 1 + rng.Intn(4)
		}
		var hist []blockRec
		var dead []u.Hash
		sig := ""
		ok := true
		nOps := 6 + rng.Intn(tierN(cfg, 10, 20))
		for op := 0; op < nOps && ok; op++ {
			kind := rng.Intn(10)
			if rf.n() == 0 {
				kind = 0
			}
			if op == fromRootsAt && rf.n() > 0 {
				// restart from bare roots: nothing is remembered, nothing can be undone
				nm := u.NewMapPollardFromRoots(rf.roots(), rf.n(), false)
				pi = &partialInst{m: &nm, R: map[u.Hash]bool{}}
				hist = nil
				sig += "F;"
				e.count("op_fromroots")
			}
			guarded(e, "op", func() {
				switch {
				case kind < 5: // block
					dels, strat := pickDels(rng, rf)
					if len(dels) > 4 && rng.Intn(2) == 0 {
						dels = dels[:3]
					}
					nAdd := pickAdds(rng, rf.n(), 6)
					adds := freshLeaves(nAdd)
					leaves := make([]u.Leaf, nAdd)
					var remAdds []u.Hash
					for i := range adds {
						leaves[i] = u.Leaf{Hash: adds[i], Remember: rng.Intn(3) == 0}
						if leaves[i].Remember {
							remAdds = append(remAdds, adds[i])
						}
					}
					proof, _ := rf.prove(dels)
					if len(dels) > 0 {
						if err := mmVerify(e, pi.m, dels, proof); err != nil {
							e.hfail("VerifyRemember", "%v", err)
							ok = false
							return
						}
					}
					hist = append(hist, blockRec{dels: dels, adds: adds, remAdds: remAdds, proof: proof, prevRoots: rf.roots(), before: rf.clone()})
					if err := mmModify(e, pi.m, leaves, dels, proof); err != nil {
						e.hfail("Modify", "%v", err)
						ok = false
						return
					}
					for _, d := range dels {
						delete(pi.R, d)
					}
					for _, a := range remAdds {
						pi.R[a] = true
					}
					rf.apply(dels, adds)
					dead = append(dead, dels...)
					e.line("BLOCK %s %s", hs(dels), hs(adds))
					sig += fmt.Sprintf("B%s%d+%d;", strat[:1], len(dels), nAdd)
					e.count("op_block")
				case kind < 7: // remember an arbitrary live subset
					live := rf.liveHashes()
					if len(live) == 0 {
						return
					}
					rng.Shuffle(len(live), func(i, j int) { live[i], live[j] = live[j], live[i] })
					sub := append([]u.Hash{}, live[:1+rng.Intn(min(len(live), 4))]...)
					proof, _ := rf.prove(sub)
					if rng.Intn(2) == 0 {
						if err := mmVerify(e, pi.m, sub, proof); err != nil {
							e.hfail("VerifyRemember2", "%v", err)
							ok = false
							return
						}
						sig += fmt.Sprintf("V%d;", len(sub))
						e.count("op_verify_remember")
					} else {
						if err := mmIngest(e, pi.m, sub, proof); err != nil {
							e.hfail("Ingest", "%v", err)
							ok = false
							return
						}
						sig += fmt.Sprintf("I%d;", len(sub))
						e.count("op_ingest")
					}
					for _, d := range sub {
						pi.R[d] = true
					}
				case kind < 9: // prune
					rl := sortedSet(pi.R)
					if len(rl) == 0 {
						return
					}
					rng.Shuffle(len(rl), func(i, j int) { rl[i], rl[j] = rl[j], rl[i] })
					sub := rl[:1+rng.Intn(len(rl))]
					if err := mmPrune(e, pi.m, sub); err != nil {
						e.hfail("Prune", "%v", err)
						ok = false
						return
					}
					for _, d := range sub {
						delete(pi.R, d)
					}
					sig += fmt.Sprintf("P%d;", len(sub))
					e.count("op_prune")
				default: // undo
					if len(hist) == 0 {
						return
					}
					r := hist[len(hist)-1]
					hist = hist[:len(hist)-1]
					if err := mmUndo(e, pi.m, uint64(len(r.adds)), r.proof, r.dels, r.prevRoots); err != nil {
						e.hfail("Undo", "rows %d: %v", pi.m.TotalRows, err)
						ok = false
						return
					}
					for _, a := range r.adds {
						delete(pi.R, a)
					}
					for _, d := range r.dels {
						pi.R[d] = true
					}
					rf = r.before
					liveNow := map[u.Hash]bool{}
					for _, h := range rf.liveHashes() {
						liveNow[h] = true
					}
					var nd []u.Hash
					for _, d := range dead {
						if !liveNow[d] {
							nd = append(nd, d)
						}
					}
					dead = append(nd, r.adds...)
					e.line("UNDO")
					sig += "U;"
					e.count("op_undo")
				}
			})
			if ok {
				observePartial(e, pi, rf, dead, rng)
				// calls an honest caller would not make, on a clone (own random stream: the histories stay as they are)
				if prng.Intn(4) == 0 {
					var last *blockRec
					if len(hist) > 0 {
						last = &hist[len(hist)-1]
					}
					mmProbe(e, pi.m, rf, sortedSet(pi.R), last, prng)
				}
			}
		}
		e.distinct(sig)
		if hI < 2 {
			e.sample = append(e.sample, fmt.Sprintf("partial forest TotalRows=%d ops %s", pi.m.TotalRows, sig))
		}
	}
}

func init() { generators["C09"] = genC09 }
