//go:build !race

package main

func raceEnabledInt() int { return 0 }
