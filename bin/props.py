"""Per-property configuration for bin/check."""
import json, os, re

TRUSTED_BASE = [
    "Coq 8.16.1 kernel (coqc; vm_compute used, native_compute not used); coqchk in the thorough tier",
    "extraction: ExtrOcamlBasic only (bool/option/list/prod/unit/sumbool -> OCaml), no Extract Constant / "
    "Extract Inductive of our own; nat, positive, N, Z stay extracted inductives",
    "OCaml 4.13.1 + zarith (decimal <-> N conversion), oracle/main.ml (parser, printer, dispatch), "
    "oracle/sha.ml (SHA-512/256, self-tested against crypto/sha512 vectors on every run)",
    "Go harness (generators, canonicalisation, watchdogs) built from /repo's working tree with -tags verif",
]
ALLOWED_AXIOMS = set()   # none expected; standard-library axioms would have to be named here


def load_known(root):
    out = []
    p = os.path.join(root, "known_findings.jsonl")
    if os.path.exists(p):
        for l in open(p):
            l = l.strip()
            if l and not l.startswith("#"):
                out.append(json.loads(l))
    return out


def match_known(kf, pid, tag, detail):
    """A failure is a known finding only if an *open* entry for this property matches tag and detail."""
    for k in kf:
        if k.get("status") != "open" or k.get("property") != pid:
            continue
        if re.search(k["tag_re"], tag) and re.search(k["detail_re"], detail):
            return k
    return None


def _imp(name):
    import importlib
    return importlib.import_module(name)


def gen_lock(env):
    return _imp("gen_lock").run(env)


def gen_eff(env):
    return _imp("gen_eff").run(env)


PROPS = {
    "C16": dict(
        rule="every exported/unexported position function is called on (a) all positions 0..2^(h+1)+2, all leaf "
             "counts, all rises/drops for heights h<=5 (quick) / 7 (thorough), all target subsets of forests <= 6/9 "
             "leaves for ProofPositions/deTwin, (b) row starts/ends +-1, 2^63, 2^64-1 and random 64-bit values for "
             "every height up to 63; distinct_nontrivial counts distinct call lines whose result is not an error",
        strength="P: geometry theorems about the mirror (Properties/C16.v); mirror = code on every generated call",
        assumptions=["forestRows <= 63 in the theorems (the property's own bound)"],
    ),
}
