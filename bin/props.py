"""Per-property configuration for bin/check."""
import json, os, re

TRUSTED_BASE = [
    "Coq 8.16.1 kernel (coqc; vm_compute used, native_compute not used); coqchk in the thorough tier",
    "extraction: ExtrOcamlBasic only (bool/option/list/prod/unit/sumbool -> OCaml), no Extract Constant / "
    "Extract Inductive of our own; nat, positive, N, Z stay extracted inductives",
    "OCaml 4.13.1 + zarith (decimal <-> N conversion), oracle/main.ml (parser, printer, dispatch), "
    "oracle/sha.ml (SHA-512/256, self-tested against crypto/sha512 vectors on every run)",
    "Go harness (generators, canonicalisation, watchdogs) built from /repo's working tree with -tags verif",
]
ALLOWED_AXIOMS = set()   # none expected; standard-library axioms would have to be named here


def load_known(root):
    out = []
    p = os.path.join(root, "known_findings.jsonl")
    if os.path.exists(p):
        for l in open(p):
            l = l.strip()
            if l and not l.startswith("#"):
                out.append(json.loads(l))
    return out


def match_known(kf, pid, tag, detail):
    """A failure is a known finding only if an *open* entry for this property matches tag and detail."""
    for k in kf:
        if k.get("status") != "open" or k.get("property") != pid:
            continue
        if re.search(k["tag_re"], tag) and re.search(k["detail_re"], detail):
            return k
    return None


def _imp(name):
    import importlib
    return importlib.import_module(name)


def gen_lock(env):
    return _imp("gen_lock").run(env)


def gen_eff(env):
    return _imp("gen_eff").run(env)


HIST_RULE = ("block histories from the empty accumulator generated from one PRNG (VERIF_SEED): deletion strategy in "
             "{none, all, whole tree, sibling pairs, climbed leaves/roots, random subset}, addition counts biased to cross "
             "powers of two and to overwrite empty roots; distinct_nontrivial = number of distinct history signatures "
             "(sequence of strategy/|dels|/|adds| per block)")

PROPS = {
    "C01": dict(
        rule=HIST_RULE + "; after every block Stump, Pollard and full MapPollard (TotalRows 0,1,3,5,31,50,63) report roots and "
             "leaf count, judged against the reference forest (roots of the compressed slot segments)",
        strength="P: batching/leaf-count theorems on the reference; V: Stump/Pollard/MapPollard = reference on every block",
        level_text="Theorems about the reference forest (batching independence, leaf count) plus a correspondence run in which "
                   "an oracle extracted from the Coq reference judges the roots all three implementations report after every block "
                   "of random histories. The refinement of the Go algorithms to the reference is validated by that run, not yet proved.",
        technique="Coq reference model + extracted-oracle correspondence over random block histories",
    ),
    "C02": dict(
        rule=HIST_RULE + "; before every block Pollard and MapPollard prove the block's deletions and 3 random subsets in random "
             "order; the proofs are compared with the reference's canonical proof; the canonical proof is given to Verify, "
             "Pollard.Verify and MapPollard.Verify (must accept, returned root indexes compared) and to the Verify mirror",
        strength="P: canonical order; V: Prove = canonical proof, verifiers accept, mirror(Verify) = Verify",
        level_text="Canonical proofs are defined on the Coq reference (siblings of targets-and-ancestors that are not themselves in that "
                   "set, ascending); the extracted oracle checks byte-for-byte that every prover returns them and that every verifier "
                   "accepts them, and the Gallina mirror of Verify/calculateHashes is compared with the code on the same calls.",
        technique="Coq reference model + mirror of Verify + extracted-oracle correspondence",
    ),
    "C10": dict(
        rule=HIST_RULE + "; after every block: GetLeafPosition for every live leaf, every dead leaf, every internal node hash and a "
             "fresh hash; GetHash for every position in [0, 2^(rows+1)+3] and 2^40, 2^63, 2^64-2, 2^64-1; NodeMap/NumDels/"
             "CachedLeaves counts; Pollard and full MapPollard (TotalRows 0,4,63)",
        strength="P: look-up theorems on the reference; V: implementation look-ups = reference",
        level_text="Look-up semantics are theorems about the reference layout; every look-up the implementation answers along random "
                   "histories is judged by the extracted oracle. One known finding (D7) is reported, any other wrong answer is a violation.",
        technique="Coq reference model + extracted-oracle correspondence",
    ),
    "C11": dict(
        rule=HIST_RULE + "; every block's UpdateData is compared field by field with the reference update data and the whole "
             "Stump.Update call with its Gallina mirror",
        strength="P: field order/sortedness on the reference; V: UpdateData = reference, mirror(Stump.Update) = Stump.Update",
        level_text="Update data is defined on the Coq reference (destroyed empty roots in order, post-deletion hashes of every pre-block "
                   "node on a target-to-root path, added leaves and children of created parents); the extracted oracle compares every "
                   "field of every UpdateData the stump returns, and the Gallina mirror of Stump.Update is compared with the code.",
        technique="Coq reference model + mirror of Stump.Update + extracted-oracle correspondence",
    ),
    "C16": dict(
        level_text="Geometry theorems (Qed, no axioms) about an executable Gallina mirror of utils.go with uint64/uint8 wrap-around "
                   "written out; the mirror is compared with the code on every generated call (exhaustive for small heights, boundary/"
                   "random up to height 63), so a change of the code shows up as a correspondence failure.",
        technique="Coq proof about executable mirror + extracted-oracle correspondence",
        rule="every exported/unexported position function is called on (a) all positions 0..2^(h+1)+2, all leaf "
             "counts, all rises/drops for heights h<=5 (quick) / 7 (thorough), all target subsets of forests <= 6/9 "
             "leaves for ProofPositions/deTwin, (b) row starts/ends +-1, 2^63, 2^64-1 and random 64-bit values for "
             "every height up to 63; distinct_nontrivial counts distinct call lines whose result is not an error",
        strength="P: geometry theorems about the mirror (Properties/C16.v); mirror = code on every generated call",
        assumptions=["forestRows <= 63 in the theorems (the property's own bound)"],
    ),
}

HOOK_COMMITS = ["1f8cf1e"]
NOT_YET = {}
