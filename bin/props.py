"""Per-property configuration for bin/check."""
import json, os, re

TRUSTED_BASE = [
    "Coq 8.16.1 kernel (coqc; vm_compute used, native_compute not used); coqchk in the thorough tier",
    "extraction: ExtrOcamlBasic only (bool/option/list/prod/unit/sumbool -> OCaml), no Extract Constant / "
    "Extract Inductive of our own; nat, positive, N, Z stay extracted inductives",
    "OCaml 4.13.1 + zarith (decimal <-> N conversion), oracle/main.ml (parser, printer, dispatch), "
    "oracle/sha.ml (SHA-512/256, self-tested against crypto/sha512 vectors on every run)",
    "Go harness (generators, canonicalisation, watchdogs, harness-side judgements) built from /repo's working tree with -tags verif",
    "translators tools/lockscan (lock table of mappollard.go) and tools/effscan (slice-effect IR incl. its table of library-function effects) for the generated obligations of C12/C17",
    "hand-written Gallina mirrors tied by the correspondence run: Model/Utils, UtilsFast, Verify, Evict, Codec, MapRead, ProofOps, ProofUpdate, MapMut, TTL; "
    "not modelled: Pollard's pointer manipulation, Go runtime/scheduler/RWMutex/memory model, io contracts (observable behaviour judged only)",
    "axioms: none (Print Assumptions under every property theorem must be closed; no standard-library axiom is used)",
]
ALLOWED_AXIOMS = set()   # none expected; standard-library axioms would have to be named here


def load_known(root):
    out = []
    p = os.path.join(root, "known_findings.jsonl")
    if os.path.exists(p):
        for l in open(p):
            l = l.strip()
            if l and not l.startswith("#"):
                out.append(json.loads(l))
    return out


def match_known(kf, pid, tag, detail):
    """A failure is a known finding only if an *open* entry for this property matches tag and detail."""
    for k in kf:
        if k.get("status") != "open" or k.get("property") != pid:
            continue
        if re.search(k["tag_re"], tag) and re.search(k["detail_re"], detail):
            return k
    return None


def _imp(name):
    import importlib
    return importlib.import_module(name)


def gen_lock(env):
    return _imp("gen_lock").run(env)


def gen_eff(env):
    return _imp("gen_eff").run(env)


HIST_RULE = ("block histories from the empty accumulator generated from one PRNG (VERIF_SEED): deletion strategy in "
             "{none, all, whole tree, sibling pairs, climbed leaves/roots, random subset}, addition counts biased to cross "
             "powers of two and to overwrite empty roots; distinct_nontrivial = number of distinct history signatures "
             "(sequence of strategy/|dels|/|adds| per block)")

PROPS = {
    "C01": dict(
        rule=HIST_RULE + "; after every block Stump, Pollard and full MapPollard (TotalRows 0,1,3,5,31,50,63) report roots and "
             "leaf count, judged against the reference forest (roots of the compressed slot segments)",
        strength="P: C01_map_forest_every_history - the mirror of the MapPollard mutators reports the reference roots and leaf count after EVERY valid history of blocks (deletions + additions, remap, empty roots), prunes, ingests, verify-with-remember, full and partial forests, any allocated height; batching/leaf-count theorems on the reference; Stump.add mirror = reference for every state and batch (stump_add_refines); mirror of Stump.Update driven by canonical proofs = reference over EVERY history of valid blocks (C01_stump_history, <= 2^63 leaves, no axioms); V: Stump/Pollard/MapPollard = reference on every block, mirror = code",
        level_text="Theorems about the reference forest (batching independence, leaf count) plus a correspondence run in which "
                   "an oracle extracted from the Coq reference judges the roots all three implementations report after every block "
                   "of random histories. For the roots-only verifier the refinement is proved: the Gallina mirror of Stump.Update (repaired code) "
                   "computes the reference roots and leaf count after every block of every valid history (C01_stump_history); the mirror "
                   "is compared with the code on the same calls. For Pollard and MapPollard the refinement of the mutators is validated "
                   "by the correspondence run, not proved.",
        technique="Coq reference model + extracted-oracle correspondence over random block histories",
    ),
    "C02": dict(
        rule=HIST_RULE + "; before every block Pollard and MapPollard prove the block's deletions and 3 random subsets in random "
             "order; the proofs are compared with the reference's canonical proof; the canonical proof is given to Verify, "
             "Pollard.Verify and MapPollard.Verify (must accept, returned root indexes compared) and to the Verify mirror",
        strength="P: C02_map_forest_every_history - after every valid history the MapPollard mirror proves its tracked leaves (full forest: any live leaves) with exactly the canonical proof; canonical order; every list of live leaves has a canonical proof (C02_live_sets_provable); the Verify mirror ACCEPTS the canonical proof of any distinct live leaves of any forest <= 2^63 leaves and returns the expected root indexes (C02_canonical_proof_verifies, _root_indexes); MapPollard.Prove mirror = canonical proof (C10 map_prove_canonical); V: Prove = canonical proof, verifiers accept, mirror(Verify) = Verify",
        level_text="Canonical proofs are defined on the Coq reference (siblings of targets-and-ancestors that are not themselves in that "
                   "set, ascending); the extracted oracle checks byte-for-byte that every prover returns them and that every verifier "
                   "accepts them, and the Gallina mirror of Verify/calculateHashes is compared with the code on the same calls.",
        technique="Coq reference model + mirror of Verify + extracted-oracle correspondence",
    ),
    "C03": dict(
        rule="(a) exhaustive over a small alphabet on small forests (<=5/8 leaves, states with deleted slots): every position in "
             "[0, 2^(rows+1)+1] x every hash in {all node hashes, zero, fresh} x every proof of <=2 alphabet hashes, plus sampled "
             "pairs of claims (duplicates, siblings, nested); (b) structured mutations of honest proofs on larger forests (move/"
             "duplicate a target, parent/child coordinate, zero/replace/drop/append/swap proof hashes, wrong hash, wrong tree); "
             "each triple goes to Verify, Pollard.Verify, MapPollard.Verify and VerifyPartialProof; distinct_nontrivial = distinct "
             "accepted triples + distinct mutated triples",
        strength="P: C03_sound - unbounded soundness of the repaired mirror of Verify and Pollard.Verify (free hash algebra, leaves are atoms, <= 2^63 leaves, no axioms), with rejection corollaries; C03_sound_map / _map_partial: the same for the mirror of MapPollard.verify and VerifyPartialProof on every state consistent with the reference, positions read in either coordinate system; refutation witnesses for the pinned verifier; V: mirror(Verify/Pollard.Verify/MapPollard.verify) = code on every call; accepted => true on every call (oracle), incl. TotalRows-coordinate targets for map forests",
        level_text="The verifier (calculateHashes, Verify, Pollard.Verify root matching) is mirrored in Gallina and proved SOUND for all "
                   "inputs in the free hash algebra: if the mirror accepts (hashes, targets, proof) against the roots of the reference "
                   "forest of any slot list, every claimed hash is the hash of the node at its claimed position (C03_sound, by a "
                   "parametric soundness lemma for the hashing loop, the structure of the reference layout and the geometry lemmas). "
                   "Coq theorems also exhibit the false claims the pinned commit accepted (defects D2-D4, repaired). "
                   "Every generated (hashes, targets, proof) triple is run on the code and on the mirror (must agree), and every accepted "
                   "claim is checked against the reference forest by the extracted oracle.",
        technique="Coq mirror of the verifier + refutation witnesses + extracted-oracle soundness check on enumerated/mutated inputs",
        timeout=3000,
    ),
    "C04": dict(
        rule="states incl. the empty accumulator; targets drawn from {2^40, 2^62, 2^63, 2^63+1, 2^64-2, 2^64-1, row starts +-1, "
             "first non-existing position of each row, max position +-1, 0, 1}, 0-9 targets, mismatched lengths, empty and 10x oversized "
             "proofs; every call in a killable child process with a deadline; Stump.Update on a copy, compared with the pre-call "
             "stump on rejection; timing of Verify for 10..10^4 targets; distinct_nontrivial = distinct (targets, #hashes, #proof)",
        strength="P: every entry point is total - Verify, Pollard.Verify, Stump.Update, MapPollard.verify, VerifyPartialProof mirrors return accept or reject for ARBITRARY input on states <= 2^63 leaves (no panic, loop within (k+1)(rows+3) iterations: C04_*_total, calc_iterations_bound); atomic rejection of Stump.Update (all inputs); non-termination witness for the pinned loop; V: no hang/panic on generated inputs incl. stumps up to 2^64-1 leaves, mirror = code",
        level_text="Atomic rejection is a theorem about the state-passing Gallina mirror of Stump.Update for every input; the pinned "
                   "commit's non-terminating loop is exhibited as a Coq witness (and was repaired). Totality on the real code is "
                   "checked by running every entry point on boundary/malformed inputs in a killable child process with a watchdog, "
                   "and comparing outcome and post-state with the mirror.",
        technique="Coq mirror with explicit fuel/Err/Panic outcomes + watchdogged differential run",
        timeout=3000,
    ),
    "C05": dict(
        rule="(a) small forests: every accepted enumerated claim whose targets are live leaves is applied (with one addition) to "
             "fresh copies of Stump, Pollard and MapPollard (TotalRows 0,3,63); (b) histories in which every block is applied in a "
             "non-canonical encoding: targets and hashes jointly permuted, 0-3 junk hashes appended; roots compared with the "
             "reference after deleting exactly the leaves at the claimed positions",
        strength="refuted(pinned) P; P: C05_map_forest_any_encoding - the mirror of MapPollard.Modify given the targets in ANY order and ANY proof hashes ends consistent with the reference forest after the block (same roots as the stump: C01_map_forest_every_history); for ANY accepted encoding (any target order, unused trailing hashes) whose targets are leaf positions the mirror of the repaired Stump.Update ends with exactly the reference roots/leaf count, per block and along every history (C05_any_accepted_deletion/_block/_history, free hash algebra, <= 2^63 leaves); outcome independent of the encoding (any injective hash2); canonical encoding: any hash type (C05_stump_applies_block_like_reference, _history); V: accepted (incl. non-canonical) encodings applied identically by all implementations (oracle)",
        level_text="A Coq witness shows that at the pinned commit an accepted proof made the stump delete another leaf than the forests "
                   "(defect D4, repaired). For the repaired code it is a theorem that the mirror of Stump.Update, given the canonical proof "
                   "of distinct live leaves, ends with exactly the reference roots and leaf count of the block (and so over whole "
                   "histories), and - in the free hash algebra - the same for EVERY encoding the verifier accepts whose targets "
                   "are leaf positions (C05_any_accepted_*). On the repaired code every accepted non-canonical encoding is applied to all implementations "
                   "and judged against the reference forest by the extracted oracle; the Verify mirror is compared on every call.",
        technique="Coq mirror + refutation witness + extracted-oracle correspondence on non-canonical encodings",
        timeout=3000,
    ),
    "C06": dict(
        rule=HIST_RULE + "; n blocks, then undo k in [1,n] newest-first, after EACH undo: roots, leaf count, position of tracked "
             "leaves (live and dead), GetHash at every position, 3 random Prove requests, NodeMap/NumDels/CachedLeaves counts; "
             "then redo with other blocks; Pollard, full MapPollard (TotalRows 0,5,63) and partial MapPollard (TotalRows 0,63; "
             "deletions verified with remember first; stored map and cached set dumped)",
        strength="P: C06_map_forest_general_block_then_undo and C06_map_forest_k_blocks_then_k_undos - the mirror of MapPollard.Modify then MapPollard.Undo (general blocks: deletions incl. siblings/subtrees/whole trees, additions over empty roots, remap), to ANY depth, returns to a state consistent with the forest before the blocks: same roots, leaf count, and by the read-side theorems same positions and byte-identical proofs (full and partial forests, any allocated height); C06_map_forest_undo_general_block: Undo alone from any state in the invariant; C06_map_forest_mixed_histories / _as_if_never_applied: every valid history MIXING blocks and undos on a map forest ends observationally equal to the clean history without the undone blocks (full AND partial forests: C06_partial_map_forest_mixed_histories / _as_if_never_applied); Pollard (pointer forest): V only; undo is the exact inverse on the reference to any depth, observational equivalence is a bisimulation; V: implementations after Undo = reference previous state; Gallina mirror of MapPollard.Modify/Undo (Model/MapMut.v) = code state-for-state on every call",
        level_text="The reference-level inverse (one block and any depth) is a Coq theorem; that Pollard.Undo and MapPollard.Undo "
                   "(full and partial) land in a state observationally identical to the reference's previous state is judged by the "
                   "extracted oracle after every single undo and after redo on another branch.",
        technique="Coq reference model theorem + extracted-oracle correspondence over undo/redo histories",
    ),
    "C07": dict(
        rule=HIST_RULE + "; a light client (Stump + Proof + hashes) is updated with Proof.Update from block data and UpdateData only; "
             "remember pattern per history in {none, all, last only, random}; after every block the oracle checks hashes = expected "
             "set ordered by position, targets = true positions, proof = canonical hashes, and Verify accepts",
        strength="P: C07_light_client_every_history - a whole light client (mirror of Stump.Update + mirror of Proof.Update, block data only) after EVERY valid history holds exactly previous-leaves-minus-deleted-plus-remembered with true positions and canonical proof hashes, its stump is the reference stump and Verify accepts (<= 2^63 leaves, any hash with never-empty hash2, barring collisions: cblock_ok); C07_update_every_block: per block the mirror of Proof.Update computes EXACTLY the expected cached proof, whole subtrees/trees deleted included; C07_update_addition_blocks: for every addition-only block (any forest incl. empty roots written over and row growth, any cached set, any remember pattern, <= 2^63 leaves) and for every block with REGULAR deletions followed by any additions (C07_update_regular_deletion_blocks: any number of deleted leaves as long as no inner node loses all its leaves; survivors and proof positions move up); the full statement incl. whole-subtree deletions decided by kernel computation on all 19,375 cases of 4 slots (C07_update_all_blocks_4_slots; its proof is open); set algebra of the cached leaves (abstract); the expected cached proof of any live set exists, is the canonical proof of its leaves and is accepted by the Verify mirror (C07_expected_cached_is_canonical/_exists/_verifies, <= 2^63 leaves); V: Proof.Update output = that expected cached proof, for two clients sharing block data",
        level_text="The leaf set a client must hold after a block is a Coq theorem on the abstract model; the canonical cached proof of "
                   "that set is computed by the extracted reference and compared with what Proof.Update produced, after every block.",
        technique="Coq abstract model + extracted-oracle correspondence (light client along histories)",
    ),
    "C08": dict(
        rule=HIST_RULE + "; as C07, then Proof.Undo newest-first to depth k (all k sampled), canonical cached proof in the pre-block "
             "state checked after every undo (and Verify against the previous stump), followed by further updates on another branch",
        strength="P: C08_undo_every_block - the mirror of Proof.Undo computes EXACTLY the expected cached proof of the previous state for EVERY valid block (whole subtrees/trees deleted included, any additions, any remember subset, <= 2^63 leaves); C08_light_client_block_then_undo and C08_light_client_undo_to_any_depth: a light client that undoes the last k blocks newest-first is in step with the state k blocks ago; C08_undo_addition_blocks - the mirror of Proof.Undo computes EXACTLY the expected cached proof of the previous state for every addition-only block (any forest: re-created empty roots, a row lost; <= 2^63 leaves) and for every block with REGULAR deletions followed by any additions (C08_undo_regular_deletion_blocks); (intermediate results: C08_undo_reduces_to_undoDel, C08_undo_regular_deletion_blocks, C08_undo_all_blocks_4_slots by kernel computation); which leaves remain after undo (abstract); the expected cached proof in the previous state exists, is canonical and verifies (C08_expected_cached_*); V: Proof.Undo output = that expected cached proof in the previous state, at every depth",
        level_text="Which leaves a cached proof keeps through undo is a Coq theorem on the abstract model (no added leaf, nothing invented, "
                   "nothing lost except what the block deleted); the extracted oracle checks that Proof.Undo yields exactly the canonical "
                   "proof of that set in the previous state, at every depth.",
        technique="Coq abstract model + extracted-oracle correspondence (undo of cached proofs)",
    ),
    "C09": dict(
        rule="random interleavings of Modify (random Remember flags), Verify(remember) / Ingest of arbitrary live sets, Prune of "
             "arbitrary cached subsets and Undo on NewMapPollard(false) with TotalRows in {0,4,63}, a quarter of the runs restarted "
             "from NewMapPollardFromRoots at a reached state; after EVERY operation the stored map and cached leaves are dumped: "
             "every stored (pos,hash) true, stored within allowed(R), needed(R) within stored, cached set = R, look-ups, canonical "
             "proofs of random sub-lists of R; distinct_nontrivial = distinct operation sequences",
        strength="P: C09_every_history - from the empty forest EVERY valid sequence of general blocks (deletions of any remembered leaves incl. siblings/subtrees/whole trees, then additions incl. remap and empty roots), prunes, ingests and verify-with-remember runs without error on the mirror and ends consistent with the reference (all read-side theorems apply), storing only allowed positions; the mutator mirrors PRESERVE one invariant: additions incl. remap and empty roots (C09_additions_preserve_invariant), Prune, Ingest, Verify(remember) (C09_prune/_ingest/_verify_remember_preserves_invariant), with \"stores only what is allowed\" (C09_add_invariant_stores_only_allowed, C09_prune_preserves_tidy); deletions (C09_deletions_preserve_invariant, MapMutRemoveTidy); undo: V only here (see C06); ordering of needed positions, read-side theorems on every consistent state (C09c_*); V: stored/needed/allowed invariants and provability after every operation; Gallina mirror of the MUTATORS (Model/MapMut.v: Modify, Undo, Verify(remember), Ingest, Prune) = code state-for-state on every call incl. rejected ones; mirror of the read side (Model/MapRead.v: Prove, GetHash, GetLeafPosition(s), GetRoots, GetMissingPositions, VerifyPartialProof, verify) = code on every dumped state",
        level_text="needed(R) and allowed(R) are defined on the Coq reference; after every operation of random interleavings the "
                   "extracted oracle checks the dumped partial forest against them and against the true hashes.",
        technique="Coq reference model + extracted-oracle invariant check after every operation",
    ),
    "C12": dict(
        rule="(a) generated obligation: lock/field-access table of MapPollard regenerated from the source (lockscan) and wf_table "
             "re-proved; (b) race-detector build: 6 reader goroutines calling all 11 queries against a writer doing Modify/Undo/"
             "Ingest/Verify(remember)/Prune/Read; (c) writer suspended inside its critical section at every verifPoint site, all "
             "queries started: none may complete, each result must equal the pre- or post-operation result; "
             "distinct_nontrivial = distinct (operation, site) pauses",
        strength="P: protocol theorems (race freedom, whole-block atomicity, no deadlock) for every wf table; generated: table_ok; V: race detector + paused-writer runs",
        level_text="A reader-writer-lock protocol model with theorems that a well-formed lock table implies race freedom, whole-block "
                   "atomicity and absence of deadlock; the table is regenerated from mappollard.go on every run and re-checked. "
                   "Schedules are additionally sampled with the race detector and with a writer suspended at hook sites.",
        technique="Coq protocol theorems + table regenerated from source + race-detector/paused-writer runs",
        race=True, gen=gen_lock, timeout=3000, coq_targets=["theories/Proofs/LockSafe.vo"],
        note="sync.RWMutex implementing the protocol, the Go memory model and the scheduler are trusted; lockscan (source translator) is trusted.",
    ),
    "C13": dict(
        rule="states of Pollard, full and partial MapPollard (TotalRows 0,4,5,63) after random histories: restore under 5 chunkings "
             "(whole, 1 byte, 16, random, data-with-EOF), every truncation point (sampled above 600 bytes in quick), writer failure "
             "at 50/400 offsets, byte counts and SerializeSize, restored instance observed through the interface by the oracle and "
             "compared on internal maps incl. Remember, then 3 blocks + undo on the restored instances; the bytes WriteTo produced "
             "must equal the Coq encoding of the reference forest (niece view) and the bytes MapPollard.Write produced must decode "
             "with the Coq mirror to exactly the dumped maps and re-encode to the same bytes",
        strength="P: round trip, chunk independence, every strict prefix rejected, size, failing sink, never out of fuel (both formats) + niece view of the reference forest is well-formed; V: Go bytes = Coq encoding of the reference; faults on every state",
        level_text="Both wire formats are mirrored in Gallina over byte lists with chunk-oracle readers and failing sinks; round-trip, "
                   "chunking independence, prefix rejection and size theorems are proved there; the Go code is run on every reader "
                   "chunking, truncation point and sink failure and the restored instances are judged by the extracted oracle.",
        technique="Coq codec mirror theorems + fault-enumerating differential run",
    ),
    "C14": dict(
        rule="forests after random histories; pairs of target sets (random, overlapping, sorted and unsorted parallel order): AddProof "
             "vs canonical proof of the union; GetProofSubset on random permuted subsets (hashes, targets, proof) and on an "
             "uncovered target (must err); GetMissingPositions vs the reference definition; MapPollard.GetMissingPositions vs "
             "'canonical positions not stored'; VerifyPartialProof with the true hashes (accept) and one flipped bit (reject)",
        strength="P: the mirrors of AddProof, GetProofSubset and GetMissingPositions compute EXACTLY the reference values for all states <= 2^63 leaves and all duplicate-free requests in any order (C14_addproof_is_canonical_union, C14_subset_is_canonical, C14_subset_error_iff_uncovered, C14_missing_positions_exact); C14_partial_proof_protocol_complete: MapPollard.GetMissingPositions mirror = the canonical proof positions not stored, and VerifyPartialProof given the true hashes at exactly those positions ACCEPTS (every consistent state, any live targets); canonical proofs depend only on the leaf set; V: mirrors = code on every call; every helper's output = canonical proofs/positions of the reference; VerifyPartialProof with the missing hashes supplied succeeds",
        level_text="Union and coverage are Coq theorems on the abstract level; the exact proofs/positions each helper must return are "
                   "computed by the extracted reference and compared with AddProof, GetProofSubset, GetMissingPositions and the map "
                   "forest's partial-proof API.",
        technique="Coq reference model + extracted-oracle correspondence",
    ),
    "C15": dict(
        rule=HIST_RULE + "; block summaries fed to the tracker; limits 1,2,3,5,total,total+5,10^6; the schedule is judged on the three "
             "clauses with added_at/deleted_at computed from the slot history; genTTLs' lists compared with the reference TTL facts; "
             "the eviction loop compared with its Gallina mirror on the same TTL lists",
        strength="P: C15_ttls_are_exactly_the_reference_facts - the mirror of AddBlockSummary/genTTLs (backward walk with undoAdd/undoDel on positions) returns EXACTLY the reference TTL facts for every valid history up to 2^62 leaves, and never fails (C15_tracker_total); subset/memory/completeness of the eviction-loop mirror for all well-formed TTL lists and all limits; V: TTL mirror = genTTLs and eviction mirror = loop on every history; genTTLs = reference TTL facts; schedule clauses on the implementation",
        level_text="The eviction loop of GenerateCachingSchedule is mirrored in Gallina and the three clauses are proved for every "
                   "well-formed TTL input and every memory limit; that genTTLs produces exactly the TTL facts of the slot history and "
                   "that the Go loop equals the mirror are checked by the extracted oracle along random histories.",
        technique="Coq proof about executable mirror of the eviction loop + extracted-oracle correspondence",
    ),
    "C17": dict(
        rule="(a) generated obligation: slice-effect IR and per-function summaries regenerated from the package's SSA (effscan) and "
             "re-validated by the Coq checker; entry points must not write their caller-slice parameters; (b) dynamic: along random "
             "histories every API call receives argument slices with sentinel-filled spare capacity; contents and spare capacity "
             "compared after each call; earlier returned proofs re-compared after every later call; distinct_nontrivial = distinct histories",
        strength="P: checker soundness (interprocedural, no axioms); generated: effects_ok, entry_points_clean, no_retain; V: dynamic snapshots",
        level_text="A flow-insensitive slice-effect IR with a concrete heap semantics and a checker proved sound in Coq (if check_program "
                   "holds, no array owned by a caller parameter outside the declared write set is ever modified). The IR and the "
                   "summaries are regenerated from the source on every run and re-checked; the entry points listed in the property "
                   "must come out clean. One named value-preserving exemption (MapPollard.Undo) and the stability of earlier results "
                   "of three methods are covered by the dynamic snapshot run.",
        technique="Coq verified checker + effect IR regenerated from source (go/ssa) + dynamic argument snapshots",
        gen=gen_eff, timeout=3000, coq_targets=["theories/Proofs/EffectSound.vo"],
        note="SSA-to-IR mapping and the table of library primitives (copy, append, sort, io, binary, fmt) are trusted; see tools/effscan/README.md.",
    ),
    "C10": dict(
        rule=HIST_RULE + "; after every block: GetLeafPosition for every live leaf, every dead leaf, every internal node hash and a "
             "fresh hash; GetHash for every position in [0, 2^(rows+1)+3] and 2^40, 2^63, 2^64-2, 2^64-1; NodeMap/NumDels/"
             "CachedLeaves counts; Pollard and full MapPollard (TotalRows 0,4,63)",
        strength="P: C10_map_forest_every_history - after every valid history the MapPollard mirror finds a hash exactly when it tracks it (full forest: exactly the live leaves) and reports its true position; look-up/GetHash theorems on every consistent state (C10 map_*); look-up theorems on the reference; V: implementation look-ups = reference; mirror of the MapPollard read side (Model/MapRead.v) = code on every dumped state",
        level_text="Look-up semantics are theorems about the reference layout; every look-up the implementation answers along random "
                   "histories is judged by the extracted oracle.",
        technique="Coq reference model + extracted-oracle correspondence",
    ),
    "C11": dict(
        rule=HIST_RULE + "; every block's UpdateData is compared field by field with the reference update data and the whole "
             "Stump.Update call with its Gallina mirror",
        strength="P: C11_update_data - EVERY field of the update data the mirror of Stump.Update returns for a valid block equals the specification (to_destroy, prev leaf count, new_del, new_add) and the new state is the reference state, any hash type with never-empty hash2, <= 2^63 leaves, no axioms (C11_del_data, rootsToDestroy_spec, stump_add_collects); V: UpdateData = reference, mirror(Stump.Update) = Stump.Update",
        level_text="Update data is defined on the Coq reference (destroyed empty roots in order, post-deletion hashes of every pre-block "
                   "node on a target-to-root path, added leaves and children of created parents); the extracted oracle compares every "
                   "field of every UpdateData the stump returns, and the Gallina mirror of Stump.Update is compared with the code. That the "
                   "mirror returns exactly the specified record for every valid block is a theorem (C11_update_data, C11_update_data_accepted).",
        technique="Coq reference model + mirror of Stump.Update + extracted-oracle correspondence",
    ),
    "C16": dict(
        level_text="Geometry theorems (Qed, no axioms) about an executable Gallina mirror of utils.go with uint64/uint8 wrap-around "
                   "written out; the mirror is compared with the code on every generated call (exhaustive for small heights, boundary/"
                   "random up to height 63), so a change of the code shows up as a correspondence failure.",
        technique="Coq proof about executable mirror + extracted-oracle correspondence",
        rule="every exported/unexported position function is called on (a) all positions 0..2^(h+1)+2, all leaf "
             "counts, all rises/drops for heights h<=5 (quick) / 7 (thorough), all target subsets of forests <= 6/9 "
             "leaves for ProofPositions/deTwin, (b) row starts/ends +-1, 2^63, 2^64-1 and random 64-bit values for "
             "every height up to 63; distinct_nontrivial counts distinct call lines whose result is not an error",
        strength="P: geometry theorems about the mirror (Properties/C16.v); mirror = code on every generated call",
        assumptions=["forestRows <= 63 in the theorems (the property's own bound)"],
    ),
}

# hooks
HOOK_COMMITS = ["1f8cf1e", "3a2bcc9"]
NOT_YET = {}
PROPS = {k: v for k, v in PROPS.items() if not k.endswith("_pending")}
