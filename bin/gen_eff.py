"""C17: regenerate Gen/EffIR.v (slice-effect IR + summaries) from /repo's source (tools/effscan, go/ssa) and
re-check the generated obligations (Gen/EffIROk.v: effects_ok, entry_points_clean, ...)."""
import os, re


def run(env):
    sh, ROOT, REPO, COQ, BUILD, GOENV = env["sh"], env["ROOT"], env["REPO"], env["COQ"], env["BUILD"], env["GOENV"]
    res = {"obligations": 2, "discharged": 0, "violations": [], "known": [], "theorems": [], "files": []}
    tdir = os.path.join(ROOT, "tools", "effscan")
    exe = os.path.join(BUILD, "effscan")
    rc, out = sh(["go", "build", "-o", exe, "."], cwd=tdir, env=GOENV, timeout=900)
    if rc != 0:
        raise SystemExit("CHECK-ERROR: effscan does not build\n" + out[-3000:])
    gen = os.path.join(COQ, "theories", "Gen", "EffIR.v")
    rc, explain = sh([exe, "-repo", REPO, "-out", gen, "-explain"], env=GOENV, timeout=900)
    res["files"] = [gen]
    rp = os.path.join(env["rdir"], "C17-effects.txt")
    if rc == 2:
        open(rp, "w").write("# effscan refused the source (unsupported construct): the effect IR can no longer be generated\n"
                            + explain[-6000:] + "\n")
        res["violations"].append((rp, "no-failing-input-found"))
        return res
    r1, o1 = sh(["timeout", "1200", "coqc", "-Q", "theories", "Utreexo", "theories/Gen/EffIR.v"], cwd=COQ, timeout=1300)
    r2, o2 = (1, "") if r1 != 0 else sh(["timeout", "1200", "coqc", "-Q", "theories", "Utreexo", "theories/Gen/EffIROk.v"], cwd=COQ, timeout=1300)
    if r1 == 0:
        res["discharged"] += 1
    if r2 == 0:
        res["discharged"] += 1
        res["theorems"] = re.findall(r"^\s*(?:Theorem|Corollary|Lemma)\s+(\w+)", open(os.path.join(COQ, "theories", "Gen", "EffIROk.v")).read(), re.M)
    else:
        open(rp, "w").write("# generated obligation (effects_ok / entry_points_clean / ...) no longer checks for the effect IR "
                            "regenerated from %s\n# effscan -explain (dirty entry points with a witness chain of statements):\n%s\n\n%s\n%s\n"
                            % (REPO, explain[-8000:], o1[-1500:], o2[-3000:]))
        res["violations"].append((rp, "no-failing-input-found"))
    m = re.search(r"(\d+) functions", explain)
    res["summary"] = {"effscan_exit": rc, "explain_tail": explain.strip().splitlines()[-6:]}
    return res
