"""C12: regenerate Gen/LockTable.v from /repo's source (tools/lockscan) and re-check the generated
obligation table_ok + the instantiated protocol theorems (Gen/LockTableOk.v)."""
import os, re


def run(env):
    sh, ROOT, REPO, COQ, BUILD, GOENV = env["sh"], env["ROOT"], env["REPO"], env["COQ"], env["BUILD"], env["GOENV"]
    res = {"obligations": 0, "discharged": 0, "violations": [], "known": [], "theorems": [], "files": []}
    tdir = os.path.join(ROOT, "tools", "lockscan")
    exe = os.path.join(BUILD, "lockscan")
    rc, out = sh(["go", "build", "-o", exe, "."], cwd=tdir, env=GOENV, timeout=600)
    if rc != 0:
        raise SystemExit("CHECK-ERROR: lockscan does not build\n" + out)
    rc, out = sh([exe, "-selftest"], env=GOENV, timeout=300)
    if rc != 0:
        raise SystemExit("CHECK-ERROR: lockscan selftest failed\n" + out[-3000:])
    gen = os.path.join(COQ, "theories", "Gen", "LockTable.v")
    rc, explain = sh([exe, "-repo", REPO, "-out", gen, "-explain", "-check"], env=GOENV, timeout=300)
    res["files"] = [gen]
    res["obligations"] = 2     # the table is produced and accepted by Coq; table_ok + instances compile
    rp = os.path.join(env["rdir"], "C12-locktable.txt")
    if rc == 1:
        open(rp, "w").write("# lockscan refused the source (construct outside what it can translate): the lock table "
                            "obligation can no longer be generated\n" + explain[-6000:] + "\n")
        res["violations"].append((rp, "no-failing-input-found"))
        return res
    r1, o1 = sh(["timeout", "600", "coqc", "-Q", "theories", "Utreexo", "theories/Gen/LockTable.v"], cwd=COQ)
    r2, o2 = (1, "") if r1 != 0 else sh(["timeout", "600", "coqc", "-Q", "theories", "Utreexo", "theories/Gen/LockTableOk.v"], cwd=COQ)
    if r1 == 0:
        res["discharged"] += 1
    if r2 == 0:
        res["discharged"] += 1
        res["theorems"] = re.findall(r"^\s*(?:Theorem|Corollary|Lemma)\s+(\w+)", open(os.path.join(COQ, "theories", "Gen", "LockTableOk.v")).read(), re.M)
    else:
        bad = [l for l in explain.splitlines() if l.startswith("violation")]
        open(rp, "w").write("# generated obligation table_ok : wf_table lock_table = true no longer checks\n"
                            "# offending rows of the lock table regenerated from %s/mappollard.go:\n%s\n\n%s\n%s\n"
                            % (REPO, "\n".join(bad) or explain[-3000:], o1[-2000:], o2[-3000:]))
        # the concrete failing schedule is searched by the dynamic part (race detector / paused writer)
        res["violations"].append((rp, "no-failing-input-found"))
    res["table"] = [l.strip() for l in open(gen) if l.strip().startswith("mkRow")]
    return res
