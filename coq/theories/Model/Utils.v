(** Mirror of /repo/utils.go: the position arithmetic, function by function, on [N] with
    Go's [uint64]/[uint8] wrap-around written out.  Names follow the Go names.
    Loops run on fuel that is provably sufficient (64-bit words). *)
From Utreexo Require Export Base.Bits64.
From Coq Require Import ZArith.
Open Scope N_scope.

(** [uint64(2<<forestRows) - 1] *)
Definition mask (fr : N) : N := sub64 (shl 2 fr) 1.

Definition LeftChild (p fr : N) : N := and64 (shl p 1) (mask fr).
Definition RightChild (p fr : N) : N := or64 (and64 (shl p 1) (mask fr)) 1.

Definition ChildMany (p drop fr : N) : option N :=
  if drop =? 0 then Some p
  else if fr <? drop then None
  else Some (and64 (shl p drop) (mask fr)).

Definition sibling (p : N) : N := xor64 p 1.
Definition leftSib (p : N) : N := andnot64 p 1.
Definition rightSib (p : N) : N := or64 p 1.
Definition isLeftNiece (p : N) : bool := and64 p 1 =? 0.

Definition Parent (p fr : N) : N := or64 (shr p 1) (shl 1 fr).

Definition ParentMany (p rise fr : N) : option N :=
  if rise =? 0 then Some p
  else if fr <? rise then None
  else Some (and64 (or64 (shr p rise) (shl (mask fr) (sub8 fr (sub8 rise 1)))) (mask fr)).

Definition rootPosition (leaves h fr : N) : N :=
  let m := mask fr in
  let before := and64 leaves (shl m (add8 h 1)) in
  let shifted := or64 (shr before h) (shl m (sub8 (add8 fr 1) h)) in
  and64 shifted m.

Definition TreeRows (n : N) : N := if n =? 0 then 0 else len64 (n - 1).
Definition numRoots (n : N) : N := popcount n.
Definition rootExistsOnRow (n h : N) : bool := and64 (shr n h) 1 =? 1.
Definition maxLeafCount (fr : N) : N := shl 1 fr.
Definition maxPosition (fr : N) : N := sub64 (shl 2 fr) 1.

(** [for h := int(totalRows); h >= 0; h--] *)
Fixpoint RootPositions_loop (fuel : nat) (n h total : N) : list N :=
  let here := if rootExistsOnRow n (u8 h) then [rootPosition n (u8 h) total] else [] in
  match fuel with
  | O => here
  | S f => if h =? 0 then here else here ++ RootPositions_loop f n (h - 1) total
  end.
Definition RootPositions (n total : N) : list N :=
  RootPositions_loop (N.to_nat total) n total total.

Fixpoint DetectRow_loop (fuel : nat) (p marker h : N) : N :=
  match fuel with
  | O => h
  | S f => if and64 p marker =? 0 then h else DetectRow_loop f p (shr marker 1) (add8 h 1)
  end.
Definition DetectRow (p fr : N) : N := DetectRow_loop 65 p (shl 1 fr) 0.

Definition startPositionAtRow (row fr : N) : N := sub64 (shl 2 fr) (shl 2 (sub8 fr row)).
Definition maxPossiblePosAtRow (row total : N) : N :=
  let m := mask total in sub64 (and64 (shl m (sub8 total row)) m) 1.

(** returns the value and whether an error was returned (callers ignore the error) *)
Definition maxPositionAtRow (row fr n : N) : N * bool :=
  match ParentMany n row fr with
  | None => (0, true)
  | Some m => (if m =? 0 then 0 else m - 1, false)
  end.

Definition translatePos (p from to : N) : N :=
  let row := DetectRow p from in
  if row =? 0 then p
  else add64 (sub64 p (startPositionAtRow row from)) (startPositionAtRow row to).

Definition translatePositions (l : list N) (from to : N) : list N :=
  map (fun p => translatePos p from to) l.

Definition isRootPositionOnRow (p n row : N) : bool :=
  negb (and64 n (shl 1 row) =? 0) && (rootPosition n row (TreeRows n) =? p).
Definition isRootPosition (p n : N) : bool :=
  isRootPositionOnRow p n (DetectRow p (TreeRows n)).
Definition isRootPositionTotalRows (p n total : N) : bool :=
  if total =? TreeRows n then isRootPosition p n
  else isRootPosition (translatePos p total (TreeRows n)) n.
Definition isRootPositionOnRowTotalRows (p n row fr : N) : bool :=
  if TreeRows n =? fr then isRootPositionOnRow p n row
  else isRootPositionOnRow (translatePos p fr (TreeRows n)) n row.

Definition isAncestor (hi lo fr : N) : bool :=
  if hi =? lo then false
  else
    let lr := DetectRow lo fr in
    let hr := DetectRow hi fr in
    if hr <? lr then false
    else match ParentMany lo (sub8 hr lr) fr with
         | None => false
         | Some a => hi =? a
         end.

Definition removeBit (val bit : N) : N :=
  let m := sub64 (shl 2 bit) 1 in
  let upper := and64 val (xor64 max64 m) in
  let m2 := sub64 (shl 1 bit) 1 in
  let lower := and64 val (not64 (xor64 max64 m2)) in
  or64 (shr upper 1) lower.

Definition addBit (val place : N) (bit : bool) : N :=
  let m := sub64 (shl 1 place) 1 in
  let upper := shl (and64 val (xor64 max64 m)) 1 in
  let lower := and64 val (not64 (xor64 max64 m)) in
  if bit then or64 (or64 upper lower) (shl 1 place) else or64 upper lower.

Definition calcNextPosition (p del fr : N) : option N :=
  let delRow := DetectRow del fr in
  let posRow := DetectRow p fr in
  if delRow <? posRow then None
  else
    let lower := removeBit p (sub8 delRow posRow) in
    let toRow := add8 posRow 1 in
    let higher := shl (shl 1 toRow) (sub8 fr toRow) in
    Some (or64 higher lower).

Definition calcPrevPosition (p del fr : N) : N :=
  let delRow := DetectRow del fr in
  let posRow := DetectRow p fr in
  let m := not64 (shl (shl 1 posRow) (sub8 fr posRow)) in
  let lower := and64 p m in
  let place := sub8 delRow (sub8 posRow 1) in
  addBit lower place (isLeftNiece del).

Definition getLowestRoot_step (n row : N) : bool := negb (and64 n (shl 1 row) =? 0).

(** [DetectOffset]: [tRows] is a Go [int] that may reach -1, hence [Z]. *)
Definition u8z (z : Z) : N := Z.to_N (z mod 256)%Z.
Fixpoint DetectOffset_loop (fuel : nat) (p nr n : N) (tRows : Z) (bigger : N)
  : option (N * N * N) :=
  match fuel with
  | O => None
  | S f =>
      if (and64 (shl p nr) (maxPosition (u8z tRows))) <? (and64 (maxLeafCount (u8z tRows)) n)
      then
        let p' := xor64 p 1 in
        Some (bigger, sub8 (u8z tRows) nr, not64 p')
      else if (tRows <? 0)%Z then None
      else
        let treeSize := and64 (shl 1 (Z.to_N tRows)) n in
        if treeSize =? 0 then DetectOffset_loop f p nr n (tRows - 1)%Z bigger
        else DetectOffset_loop f (sub64 p treeSize) nr n (tRows - 1)%Z (add8 bigger 1)
  end.
Definition DetectOffset (p n : N) : option (N * N * N) :=
  let tRows := TreeRows n in
  DetectOffset_loop 70 p (DetectRow p tRows) n (Z.of_N tRows) 0.

Fixpoint inForest_loop (fuel : nat) (p marker m : N) : N :=
  match fuel with
  | O => p
  | S f => if and64 p marker =? 0 then p
           else inForest_loop f (or64 (and64 (shl p 1) m) 1) marker m
  end.
Definition inForest (p n fr : N) : bool :=
  if p <? n then true
  else
    let marker := shl 1 fr in
    let m := sub64 (shl marker 1) 1 in
    if m <=? p then false
    else inForest_loop 65 p marker m <? n.

(** [insertInOrder]: insert before the first element greater than [el]. *)
Fixpoint insertInOrder (l : list N) (el : N) : list N :=
  match l with
  | [] => [el]
  | y :: t => if el <? y then el :: l else y :: insertInOrder t el
  end.

(** [deTwin], index based exactly as in Go. *)
Fixpoint deTwin_loop (fuel : nat) (i : nat) (l : list N) (fr : N) : list N :=
  match fuel with
  | O => l
  | S f =>
      match nth_error l i, nth_error l (S i) with
      | Some a, Some b =>
          if rightSib a =? b then
            let l' := insertInOrder (firstn i l ++ skipn (S (S i)) l) (Parent a fr) in
            deTwin_loop f i l' fr
          else deTwin_loop f (S i) l fr
      | Some _, None => l
      | None, _ => l
      end
  end.
Definition deTwin (l : list N) (fr : N) : list N :=
  deTwin_loop (2 * length l + 2) 0 l fr.

(** [proofPosition] (single target). *)
Fixpoint proofPosition_loop (fuel : nat) (p h n total : N) : list N :=
  match fuel with
  | O => []
  | S f =>
      if total <? h then []
      else if isRootPositionTotalRows p n total then []
      else sibling p :: proofPosition_loop f (Parent p total) (add8 h 1) n total
  end.
Definition proofPosition (t n total : N) : list N :=
  proofPosition_loop 258 t (DetectRow t total) n total.

(** One row of [ProofPositions]: returns the updated (unsorted) targets, the proof positions
    and the next targets appended during this row. *)
Fixpoint PP_row (fuel : nat) (row n total : N) (ts : list N) : list N * list N * list N :=
  match fuel with
  | O => (ts, [], [])
  | S f =>
      match ts with
      | [] => ([], [], [])
      | t :: rest =>
          let skip := let '(a, b, c) := PP_row f row n total rest in (t :: a, b, c) in
          if maxPossiblePosAtRow row total <? t then skip
          else if negb (row =? DetectRow t total) then skip
          else if isRootPositionOnRowTotalRows t n row total then skip
          else
            let par := Parent t total in
            match rest with
            | t2 :: rest' =>
                if rightSib t =? t2 then
                  let '(a, b, c) := PP_row f row n total rest' in
                  (par :: t2 :: a, b, par :: c)
                else
                  let '(a, b, c) := PP_row f row n total rest in
                  (par :: a, sibling t :: b, par :: c)
            | [] => ([par], [sibling t], [par])
            end
      end
  end.

Fixpoint PP_rows (fuel : nat) (row n total : N) (ts : list N) : list N * list N :=
  match fuel with
  | O => ([], [])
  | S f =>
      if total <? row then ([], [])
      else
        let '(ts', pp, nx) := PP_row (S (length ts)) row n total ts in
        let '(pp2, nx2) := PP_rows f (row + 1) n total (sortN ts') in
        (pp ++ pp2, nx ++ nx2)
  end.

(** [ProofPositions]: [totalRows] is a [uint8]; [row <= totalRows] with a [uint8] counter never
    ends for [totalRows = 255]; the mirror is only used for [totalRows <= 64] (fuel 70). *)
Definition ProofPositions (targets : list N) (n total : N) : list N * list N :=
  PP_rows 70 0 n total targets.
