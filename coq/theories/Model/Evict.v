(** Executable mirror of the eviction loop of
    [func (cs *CachingScheduleTracker) GenerateCachingSchedule(maxMemory int) [][]uint64]
    (/repo/prove.go).  The input of the mirror is [cs.ttls] as left by [cs.genTTLs()] (one list
    of [ttlInfo{pos, ttl}] per block); [genTTLs] itself is not modelled.

    Conventions.
    - [pos : uint64] is an [N]; [ttl : int] is a [Z] (the loop decrements before it tests
      [== 0], so values <= 0 are meaningful).  The decrement wraps like Go's 64-bit [int]
      ([dec64]); with in-range inputs every intermediate value is in range, so comparisons on
      [Z] agree with comparisons on [int].
    - [cache : []ttlInfo] is a list in slice order.
    - [createHeights : map[uint64]int] is an association list with map semantics: lookup of a
      missing key yields 0 (Go zero value), [ch_set] overwrites, [ch_del] deletes by key.
    - [cachingSch : [][]uint64] is a list of lists of length [len(cs.ttls)]; a Go [nil] inner
      slice and an empty inner slice are both [[]].
    - [maxMemory : int] is a [nat] (a negative value makes [make([]ttlInfo, 0, maxMemory)]
      panic before the loop starts).

    Definitions only; proofs are in Proofs/EvictInv.v. *)
From Coq Require Import NArith ZArith List Bool.
Import ListNotations.

Notation entry := (N * Z)%type (only parsing).

(** [x -= 1] on a Go [int] (64 bit, two's complement, wrapping). *)
Definition min_int64 : Z := (-9223372036854775808)%Z.
Definition max_int64 : Z := 9223372036854775807%Z.
Definition dec64 (z : Z) : Z :=
  if Z.eqb z min_int64 then max_int64 else (z - 1)%Z.

(** * createHeights : map[uint64]int *)
Fixpoint ch_get (p : N) (ch : list (N * nat)) : nat :=
  match ch with
  | [] => 0
  | (k, v) :: r => if N.eqb k p then v else ch_get p r
  end.

Fixpoint ch_del (p : N) (ch : list (N * nat)) : list (N * nat) :=
  match ch with
  | [] => []
  | (k, v) :: r => if N.eqb k p then ch_del p r else (k, v) :: ch_del p r
  end.

Definition ch_set (p : N) (v : nat) (ch : list (N * nat)) : list (N * nat) :=
  (p, v) :: ch_del p ch.

(** * slices.Sort on []uint64 (insertion sort; the result of sorting is unique) *)
Fixpoint ins (x : N) (l : list N) : list N :=
  match l with
  | [] => [x]
  | y :: r => if N.leb x y then x :: y :: r else y :: ins x r
  end.

Fixpoint isort (l : list N) : list N :=
  match l with
  | [] => []
  | x :: r => ins x (isort r)
  end.

(** [s = append(s, p); slices.Sort(s)] *)
Definition sort_append (p : N) (l : list N) : list N := isort (l ++ [p]).

(** [cachingSch[n] = f(cachingSch[n])]; the index is always in range in the Go code (it is
    0 or the index of an earlier block, and the loop body only runs when there is a block). *)
Fixpoint upd_nth (f : list N -> list N) (n : nat) (l : list (list N)) {struct l}
  : list (list N) :=
  match l with
  | [] => []
  | x :: r =>
      match n with
      | O => f x :: r
      | S n' => x :: upd_nth f n' r
      end
  end.

Record state : Type := mkState {
  st_cache : list entry;
  st_heights : list (N * nat);
  st_sched : list (list N)
}.

(** * First inner loop: [for j := 0; j < len(cache); j++ { cache[j].ttl -= 1; if ... == 0 {...} }]
    [todo] is [cache[j:]] (not yet visited), [kept] the visited entries that stay, reversed. *)
Fixpoint expire_loop (todo kept : list entry) (ch : list (N * nat)) (sch : list (list N))
  : state :=
  match todo with
  | [] => mkState (rev kept) ch sch
  | (p, r) :: todo' =>
      let r' := dec64 r in
      if Z.eqb r' 0 then
        let h := ch_get p ch in
        expire_loop todo' kept (ch_del p ch) (upd_nth (sort_append p) h sch)
      else
        expire_loop todo' ((p, r') :: kept) ch sch
  end.

Definition expire (st : state) : state :=
  expire_loop (st_cache st) [] (st_heights st) (st_sched st).

(** * Second inner loop, one iteration.
    [evict_first t c]: the first [k] with [cache[k].ttl > t]; returns the position removed
    and [slices.Delete(cache, k, k+1)]. *)
Fixpoint evict_first (t : Z) (c : list entry) : option (N * list entry) :=
  match c with
  | [] => None
  | (p, r) :: c' =>
      if Z.ltb t r then Some (p, c')
      else match evict_first t c' with
           | None => None
           | Some (q, c'') => Some (q, (p, r) :: c'')
           end
  end.

Definition insert1 (maxMemory i : nat) (st : state) (e : entry) : state :=
  let c := st_cache st in
  if Nat.ltb (length c) maxMemory then
    mkState (c ++ [e]) (ch_set (fst e) i (st_heights st)) (st_sched st)
  else
    match evict_first (snd e) c with
    | None => st
    | Some (q, c') =>
        mkState (c' ++ [e]) (ch_set (fst e) i (ch_del q (st_heights st))) (st_sched st)
    end.

(** Body of [for i, ttls := range cs.ttls]. *)
Definition step (maxMemory i : nat) (blk : list entry) (st : state) : state :=
  fold_left (insert1 maxMemory i) blk (expire st).

Fixpoint run (maxMemory i : nat) (blks : list (list entry)) (st : state) : state :=
  match blks with
  | [] => st
  | blk :: r => run maxMemory (S i) r (step maxMemory i blk st)
  end.

Definition init_state (n : nat) : state := mkState [] [] (repeat [] n).

(** State after the first [k] blocks (used by the proofs and for testing). *)
Definition state_at (maxMemory : nat) (ttls : list (list entry)) (k : nat) : state :=
  run maxMemory 0 (firstn k ttls) (init_state (length ttls)).

Definition schedule (maxMemory : nat) (ttls : list (list entry)) : list (list N) :=
  st_sched (run maxMemory 0 ttls (init_state (length ttls))).

(** * Well-formed inputs: every ttl >= 1, all positions pairwise distinct. *)
Fixpoint nodupN (l : list N) : bool :=
  match l with
  | [] => true
  | x :: r => negb (existsb (N.eqb x) r) && nodupN r
  end.

Definition ttl_okb (ttls : list (list entry)) : bool :=
  forallb (fun e => Z.leb 1 (snd e)) (concat ttls) && nodupN (map fst (concat ttls)).

Definition ttl_ok (ttls : list (list entry)) : Prop :=
  Forall (fun e => (1 <= snd e)%Z) (concat ttls) /\ NoDup (map fst (concat ttls)).

(** * Memory accounting.
    An entry created in block [i] with ttl [t] occupies the cache during blocks
    [i, i+1, ..., i+t-1]. *)
Definition alive_at (i : nat) (t : Z) (b : nat) : Prop :=
  (i <= b)%nat /\ (Z.of_nat b < Z.of_nat i + t)%Z.

Definition alive_atb (i : nat) (t : Z) (b : nat) : bool :=
  Nat.leb i b && Z.ltb (Z.of_nat b) (Z.of_nat i + t).

Definition ttl_of (p : N) (blk : list entry) : option Z :=
  match find (fun e => N.eqb (fst e) p) blk with
  | Some e => Some (snd e)
  | None => None
  end.

(** Scheduled positions alive at block [b]; [i] is the index of the head of [ttls]/[sch]. *)
Fixpoint alive_from (i b : nat) (ttls : list (list entry)) (sch : list (list N)) : list N :=
  match ttls, sch with
  | blk :: ttls', s :: sch' =>
      filter (fun p => match ttl_of p blk with
                       | Some t => alive_atb i t b
                       | None => false
                       end) s
      ++ alive_from (S i) b ttls' sch'
  | _, _ => []
  end.

Definition alive_count (ttls : list (list entry)) (sch : list (list N)) (b : nat) : nat :=
  length (alive_from 0 b ttls sch).

Definition total_entries (ttls : list (list entry)) : nat := length (concat ttls).

(** * Comparison with the implementation *)
Fixpoint list_eqb {A : Type} (eqb : A -> A -> bool) (l1 l2 : list A) : bool :=
  match l1, l2 with
  | [], [] => true
  | x :: r1, y :: r2 => eqb x y && list_eqb eqb r1 r2
  | _, _ => false
  end.

Definition check_schedule (maxMemory : nat) (ttls : list (list entry)) (impl : list (list N))
  : bool :=
  list_eqb (list_eqb N.eqb) impl (schedule maxMemory ttls).
