(** Mirror of the cached-proof maintenance code of prove.go: [Proof.Update]
    ([updateProofRemove], [getNewPositions], [updateProofAdd], [maybeRemap]) and [Proof.Undo]
    ([undoAdd] (the method), [pruneEdges], [moveDownPositions], [undoDel] (the method),
    [deTwinHashAndPos]) with the [hashAndPos] helpers they use.  The entry points are
    [proof_update] and [proof_undo]; the oracle re-computes every call of the C07/C08 harness runs
    with them (event [PU] of oracle/main.ml).

    Conventions
    - a Go [hashAndPos] (two parallel slices) is a list of pairs [hp H]; [toHashAndPos] of two slices
      of different lengths yields [None].  (Go does not always panic there: [sort.Sort] only swaps
      what is out of order and the merge helpers copy the two slices independently, so the Go code
      can go on with mis-aligned positions and hashes; the mirror does not follow it into that.
      The same holds for [calculateHashes] of Model/Verify.v, which [undoDel] calls.)
    - slices that Go mutates in place are returned; loops that index a slice while the body
      re-sorts or replaces it ([undoDel]) are recursions on the index over the current list(s);
    - [sort.Sort] on a [hashAndPos] is [sortK] (stable).  Go's sort is not stable, so for more than
      12 entries with *equal positions* the order of their hashes can differ; equal positions do
      not occur in honest runs;
    - the map-keyed helpers ([removeHashesFromHashAndPos], [getHashAndPosHashSubset]) are filters
      with [op_eqb];
    - an error or a panic of the Go code is [None]. *)
From Utreexo Require Export Base.Hash Model.Utils Model.UtilsFast Model.Verify Model.ProofOps.
Set Implicit Arguments.
Open Scope N_scope.

Section ProofUpdate.
  Variable H : Type.
  Variable HO : ops H.
  Notation hash2 := (op_hash2 HO).
  Notation empty := (op_empty HO).
  Notation Heqb := (op_eqb HO).

  (** [toHashAndPos origTargets origHashes] *)
  Definition toHashAndPos (ts : list N) (hs : list H) : option (list (hp H)) :=
    if Nat.eqb (length ts) (length hs) then Some (sortK (zip_hp ts hs)) else None.

  Definition positions (l : list (hp H)) : list N := map fst l.
  Definition hashes (l : list (hp H)) : list H := map snd l.

  (** membership in the [allKeys] map of the hash-keyed helpers *)
  Definition mem_hash (h : H) (l : list H) : bool := existsb (fun x => Heqb x h) l.

  (** [removeHashesFromHashAndPos slice1 slice2] (with [getHash] the identity) *)
  Definition removeHashesFromHashAndPos (a : list (hp H)) (b : list H) : list (hp H) :=
    filter (fun e => negb (mem_hash (snd e) b)) a.

  (** [getHashAndPosHashSubset a b] *)
  Definition getHashAndPosHashSubset (a : list (hp H)) (b : list H) : list (hp H) :=
    filter (fun e => mem_hash (snd e) b) a.

  (** [deTwinHashAndPos hnp forestRows], index based as in Go *)
  Fixpoint deTwinHP_loop (fuel : nat) (i : nat) (l : list (hp H)) (fr : N) : list (hp H) :=
    match fuel with
    | O => l
    | S f =>
        match nth_error l i, nth_error l (S i) with
        | Some a, Some b =>
            if rightSib (fst a) =? fst b then
              let l' := mergeSortedHashAndPos (firstn i l ++ skipn (S (S i)) l)
                          [(Parent (fst a) fr, hash2 (snd a) (snd b))] in
              deTwinHP_loop f i l' fr
            else deTwinHP_loop f (S i) l fr
        | _, _ => l
        end
    end.
  Definition deTwinHashAndPos (l : list (hp H)) (fr : N) : list (hp H) :=
    deTwinHP_loop (2 * length l + 2) 0 l fr.

  (** advancing a cursor: [for idx < len && s[idx] < pos { idx++ }] *)
  Fixpoint dropN_lt (l : list N) (pos : N) : list N :=
    match l with
    | x :: t => if x <? pos then dropN_lt t pos else l
    | [] => []
    end.
  Fixpoint dropHP_lt (l : list (hp H)) (pos : N) : list (hp H) :=
    match l with
    | x :: t => if fst x <? pos then dropHP_lt t pos else l
    | [] => []
    end.
  (** [idx < len && s[idx] == pos] *)
  Definition headN_is (l : list N) (pos : N) : bool :=
    match l with x :: _ => x =? pos | [] => false end.
  Definition headHP (l : list (hp H)) (pos : N) : option H :=
    match l with
    | x :: _ => if fst x =? pos then Some (snd x) else None
    | [] => None
    end.

  (** the first result of [DetectOffset]; the error value is 0 *)
  Definition subtree_of (p n : N) : N :=
    match DetectOffset p n with
    | Some (b, _, _) => b
    | None => 0
    end.

  (** ** [getNewPositions] *)

  (** [for pos > maxPossiblePosAtRow(row, totalRows) && row <= totalRows { row++ }] *)
  Fixpoint gnp_row (fuel : nat) (pos row total : N) : N :=
    match fuel with
    | O => row
    | S f =>
        if (maxPossiblePosAtRow row total <? pos) && (row <=? total)
        then gnp_row f pos (add8 row 1) total
        else row
    end.

  (** [for _, target := range blockTargets { ... }]; [row] is not updated when the position moves *)
  Fixpoint gnp_targets (bts : list N) (nextPos n row total : N) : N :=
    match bts with
    | [] => nextPos
    | t :: rest =>
        if isRootPositionOnRow nextPos n row then nextPos
        else if negb (subtree_of t n =? subtree_of nextPos n) then gnp_targets rest nextPos n row total
        else if isAncestor (Parent t total) nextPos total then
          gnp_targets rest
            (match calcNextPosition nextPos t total with Some q => q | None => 0 end) n row total
        else gnp_targets rest nextPos n row total
    end.

  Fixpoint gnp_loop (bts : list N) (sl : list (hp H)) (n total row : N) (appendRoots : bool)
    : list (hp H) :=
    match sl with
    | [] => []
    | e :: rest =>
        if Heqb (snd e) empty then gnp_loop bts rest n total row appendRoots
        else
          let row' := gnp_row 300 (fst e) row total in
          if total <? row' then []
          else
            let nextPos := gnp_targets bts (fst e) n row' total in
            if appendRoots || negb (isRootPositionOnRow nextPos n row')
            then (nextPos, snd e) :: gnp_loop bts rest n total row' appendRoots
            else gnp_loop bts rest n total row' appendRoots
    end.

  Definition getNewPositions (blockTargets : list N) (sl : list (hp H)) (n : N) (appendRoots : bool)
    : list (hp H) :=
    sortK (gnp_loop blockTargets sl n (TreeRows n) 0 appendRoots).

  (** ** [updateProofRemove] *)

  (** "Loop through oldProofs and only add the needed proof hashes" *)
  Fixpoint upr_keep (old : list (hp H)) (extra : list N) (upd : list (hp H)) : list (hp H) :=
    match old with
    | [] => []
    | e :: rest =>
        let pos := fst e in
        let extra' := dropN_lt extra pos in
        if headN_is extra' pos then upr_keep rest extra' upd
        else
          let upd' := dropHP_lt upd pos in
          match headHP upd' pos with
          | Some uh =>
              if Heqb uh empty then upr_keep rest extra' upd'
              else (pos, uh) :: upr_keep rest extra' upd'
          | None => e :: upr_keep rest extra' upd'
          end
    end.

  (** "Loop through the missingPos and add missing positions" *)
  Fixpoint upr_missing (missing : list N) (upd : list (hp H)) : list (hp H) :=
    match missing with
    | [] => []
    | m :: rest =>
        let upd' := dropHP_lt upd m in
        match headHP upd' m with
        | Some uh => (m, uh) :: upr_missing rest upd'
        | None => upr_missing rest upd'
        end
    end.

  (** result: (returned hashes, new Targets, new Proof) *)
  Definition updateProofRemove (targets : list N) (proof : list H) (blockTargets : list N)
             (cachedHashes : list H) (updated : list (hp H)) (n : N)
    : option (list H * list N * list H) :=
    let total := TreeRows n in
    let sortedBlockTargets := sortN blockTargets in
    match toHashAndPos targets cachedHashes with
    | None => None
    | Some twh0 =>
        let twh := subtractSortedHashAndPos twh0 sortedBlockTargets in
        let sortedCachedTargets := sortN targets in
        let '(proofPos, _) := ProofPositions_fast sortedCachedTargets n total in
        match toHashAndPos proofPos proof with
        | None => None
        | Some oldProofs =>
            let '(neededPos, _) := ProofPositions_fast (positions twh) n total in
            let extraPos := subtractSortedSlice (sortN (positions oldProofs)) neededPos in
            let kept := upr_keep oldProofs extraPos updated in
            let missingPos :=
              subtractSortedSlice (subtractSortedSlice (sortN neededPos) (positions oldProofs))
                                  sortedBlockTargets in
            let newProofs := kept ++ upr_missing missingPos updated in
            let detwinned := deTwin sortedBlockTargets total in
            let twh' := getNewPositions detwinned twh n true in
            let newProofs' := getNewPositions detwinned newProofs n false in
            Some (hashes twh', positions twh', hashes newProofs')
        end
    end.

  (** ** [updateProofAdd] *)

  (** [maybeRemap numLeaves numAdds hnp] *)
  Definition maybeRemap (n numAdds : N) (l : list (hp H)) : list (hp H) :=
    let newForestRows := TreeRows (add64 n numAdds) in
    let oldForestRows := TreeRows n in
    if oldForestRows <? newForestRows then
      map (fun e =>
             let row := DetectRow (fst e) (TreeRows n) in
             let oldStartPos := startPositionAtRow row oldForestRows in
             let newStartPos := startPositionAtRow row newForestRows in
             (add64 (sub64 (fst e) oldStartPos) newStartPos, snd e)) l
    else l.

  (** "Grab all the new hashes to be cached": the loop over [adds] with the [i--] trick *)
  Fixpoint remembered (fuel : nat) (i : N) (adds : list H) (rem : list N) : list H :=
    match fuel with
    | O => []
    | S f =>
        match adds, rem with
        | [], _ => []
        | _, [] => []
        | a :: adds', r :: rem' =>
            if i =? r then a :: remembered f (i + 1) adds' rem'
            else if r <? i then remembered f i adds rem'
            else remembered f (i + 1) adds' rem
        end
    end.

  (** "Add all the new proof hashes to the proof" *)
  Fixpoint upa_needed (needed : list N) (nodes : list (hp H)) : list (hp H) :=
    match needed with
    | [] => []
    | pos :: rest =>
        let nodes' := dropHP_lt nodes pos in
        match headHP nodes' pos with
        | Some h => (pos, h) :: upa_needed rest nodes'
        | None => upa_needed rest nodes'
        end
    end.

  Definition updateProofAdd (targets : list N) (proof : list H) (adds cachedDelHashes : list H)
             (remembers : list N) (newNodes : list (hp H)) (beforeNumLeaves : N)
             (toDestroy : list N) : option (list H * list N * list H) :=
    match toHashAndPos targets cachedDelHashes with
    | None => None
    | Some otwh0 =>
        let '(proofPos, _) :=
          ProofPositions_fast (positions otwh0) beforeNumLeaves (TreeRows beforeNumLeaves) in
        match toHashAndPos proofPos proof with
        | None => None
        | Some pwp0 =>
            let numAdds := N.of_nat (length adds) in
            let afterNumLeaves := add64 beforeNumLeaves numAdds in
            let otwh1 := maybeRemap beforeNumLeaves numAdds otwh0 in
            let pwp1 := maybeRemap beforeNumLeaves numAdds pwp0 in
            let moved :=
              fold_left (fun acc del =>
                           (getNewPositions [del] (fst acc) afterNumLeaves true,
                            getNewPositions [del] (snd acc) afterNumLeaves true))
                        toDestroy (otwh1, pwp1) in
            let otwh2 := fst moved in
            let pwp2 := snd moved in
            let newNodes' := mergeSortedHashAndPos newNodes pwp2 in
            let addHashes := remembered (S (length adds + length remembers)) 0 adds remembers in
            let remembersWithHash := getHashAndPosHashSubset newNodes' addHashes in
            let otwh3 := mergeSortedHashAndPos remembersWithHash otwh2 in
            let '(neededProofPositions, _) :=
              ProofPositions_fast (positions otwh3) afterNumLeaves (TreeRows afterNumLeaves) in
            let newProofWithPos := sortK (upa_needed neededProofPositions newNodes') in
            Some (hashes otwh3, positions otwh3, hashes newProofWithPos)
        end
    end.

  (** ** [Proof.Update]: (returned cached hashes, new [Targets], new [Proof]) *)
  Definition proof_update (targets : list N) (proof : list H) (cachedHashes addHashes : list H)
             (blockTargets : list N) (remembers : list N) (ud : UpdateData H)
    : option (list H * list N * list H) :=
    match updateProofRemove targets proof blockTargets cachedHashes (u_del ud) (u_prev ud) with
    | None => None
    | Some (ch1, t1, p1) =>
        updateProofAdd t1 p1 addHashes ch1 remembers (u_add ud) (u_prev ud) (u_to_destroy ud)
    end.

  (** ** [undoAdd] (the method on [Proof]) *)

  (** [moveDownPosition totalRows position delPos pos] *)
  Definition moveDownPosition (total position delPos pos : N) : N :=
    if (pos =? position) || isAncestor position pos total
    then calcPrevPosition pos delPos total
    else pos.

  (** [moveDownPositions] on the positions of a [hashAndPos] *)
  Definition moveDownPositions (total position delPos : N) (l : list (hp H)) : list (hp H) :=
    map (fun e => (moveDownPosition total position delPos (fst e), snd e)) l.

  (** [pruneEdges hnp numAdds numLeaves forestRows prevForestRows]; [None] = the error return *)
  Fixpoint pruneEdges (l : list (hp H)) (numAdds n forestRows prevForestRows : N)
    : option (list (hp H)) :=
    match l with
    | [] => Some []
    | e :: rest =>
        let row := DetectRow (fst e) forestRows in
        if prevForestRows <? row then pruneEdges rest numAdds n forestRows prevForestRows
        else
          let currentStartPos := startPositionAtRow row forestRows in
          let prevStartPos := startPositionAtRow row prevForestRows in
          let offset := sub64 (fst e) currentStartPos in
          let mp := maxPositionAtRow row prevForestRows (sub64 n numAdds) in
          if snd mp then None
          else
            match pruneEdges rest numAdds n forestRows prevForestRows with
            | None => None
            | Some r => if add64 prevStartPos offset <=? fst mp then Some (e :: r) else Some r
            end
    end.

  (** "Remap all positions to their previous positions before the remap" *)
  Definition remapDown (n forestRows prevForestRows : N) (l : list (hp H)) : list (hp H) :=
    map (fun e =>
           let row := DetectRow (fst e) (TreeRows n) in
           let currentStartPos := startPositionAtRow row forestRows in
           let prevStartPos := startPositionAtRow row prevForestRows in
           (add64 (sub64 (fst e) currentStartPos) prevStartPos, snd e)) l.

  Definition undoAdd (targets : list N) (proof : list H) (numAdds n : N) (cachedHashes : list H)
             (toDestroy : list N) : option (list H * list N * list H) :=
    match toHashAndPos targets cachedHashes with
    | None => None
    | Some twh0 =>
        let forestRows := TreeRows n in
        let '(proofPos, _) := ProofPositions_fast (positions twh0) n forestRows in
        match toHashAndPos proofPos proof with
        | None => None
        | Some pwp0 =>
            let prevForestRows := TreeRows (sub64 n numAdds) in
            if n =? numAdds then Some ([], [], [])
            else
              let undo_destroy (l : list (hp H)) :=
                fold_left (fun acc destroyed =>
                             moveDownPositions forestRows (Parent destroyed forestRows) destroyed acc)
                          (rev toDestroy) l in
              let twh1 := sortK (undo_destroy twh0) in
              let pwp1 := sortK (undo_destroy pwp0) in
              match pruneEdges twh1 numAdds n forestRows prevForestRows with
              | None => None
              | Some twh2 =>
                  match pruneEdges pwp1 numAdds n forestRows prevForestRows with
                  | None => None
                  | Some pwp2 =>
                      let twh3 := if prevForestRows <? forestRows
                                  then remapDown n forestRows prevForestRows twh2 else twh2 in
                      let pwp3 := if prevForestRows <? forestRows
                                  then remapDown n forestRows prevForestRows pwp2 else pwp2 in
                      let '(neededProofPos, _) :=
                        ProofPositions_fast (positions twh3) (sub64 n numAdds) prevForestRows in
                      let pwp4 := getHashAndPosSubset pwp3 neededProofPos in
                      Some (hashes twh3, positions twh3, hashes pwp4)
                  end
              end
        end
    end.

  (** ** [undoDel] (the method on [Proof]) *)

  (** [s.positions[i] = p] *)
  Fixpoint set_pos (i : nat) (p : N) (l : list (hp H)) : list (hp H) :=
    match i, l with
    | O, e :: t => (p, snd e) :: t
    | S j, e :: t => e :: set_pos j p t
    | _, [] => []
    end.

  (** "Look for the sibling in the cached targets": [for i, target := range targetsWithHashes.positions]
      reads element [i] of the slice that the body re-sorts in place.  [k] counts the remaining
      iterations, [tw] is the current slice, [np] is [newProofs]. *)
  Fixpoint ud_targets (k i : nat) (tw np : list (hp H)) (bt : N) (bh : H) (sibPos n total : N)
    : list (hp H) * list (hp H) :=
    match k with
    | O => (tw, np)
    | S k' =>
        match nth_error tw i with
        | None => (tw, np)
        | Some e =>
            let target := fst e in
            if negb (subtree_of target n =? subtree_of bt n)
            then ud_targets k' (S i) tw np bt bh sibPos n total
            else if isAncestor sibPos target total || (sibPos =? target) then
              ud_targets k' (S i)
                         (sortK (set_pos i (calcPrevPosition target bt total) tw))
                         (sortK (np ++ [(bt, bh)])) bt bh sibPos n total
            else ud_targets k' (S i) tw np bt bh sibPos n total
        end
    end.

  (** "Look for the sibling in the proof hashes": the [range] expression is evaluated once, so the
      loop reads the positions of the slice [proofWithPos] had when the loop started ([rng]); the
      body writes into the *current* [proofWithPos] ([cur]), which is a fresh slice after the first
      [mergeSortedHashAndPos].  While no merge has happened ([aliased]) the two are the same array,
      so the in-place write and sort are seen by the loop.  [None] = index out of range. *)
  Fixpoint ud_proof (k i : nat) (rng : list N) (aliased : bool) (cur : list (hp H))
           (bt : N) (bh : H) (sibPos n total : N) : option (list (hp H)) :=
    match k with
    | O => Some cur
    | S k' =>
        match nth_error rng i with
        | None => Some cur
        | Some target =>
            if negb (subtree_of target n =? subtree_of bt n)
            then ud_proof k' (S i) rng aliased cur bt bh sibPos n total
            else if isAncestor sibPos target total || (sibPos =? target) then
              match nth_error cur i with
              | None => None
              | Some ce =>
                  let sibHash := snd ce in
                  let cur1 := sortK (set_pos i (calcPrevPosition target bt total) cur) in
                  let rng' := if aliased then positions cur1 else rng in
                  let parentH := if isLeftNiece bt then hash2 bh sibHash else hash2 sibHash bh in
                  ud_proof k' (S i) rng' false (mergeSortedHashAndPos cur1 [(sibPos, parentH)])
                           bt bh sibPos n total
              end
            else ud_proof k' (S i) rng aliased cur bt bh sibPos n total
        end
    end.

  (** [for i := blockTargetsWithHash.Len() - 1; i >= 0; i--]: the detwinned block targets, last first *)
  Fixpoint ud_blocks (bts_rev : list (hp H)) (tw pw np : list (hp H)) (n total : N)
    : option (list (hp H) * list (hp H) * list (hp H)) :=
    match bts_rev with
    | [] => Some (tw, pw, np)
    | b :: rest =>
        let sibPos := Parent (fst b) total in
        let r := ud_targets (length tw) 0 tw np (fst b) (snd b) sibPos n total in
        match ud_proof (length pw) 0 (positions pw) true pw (fst b) (snd b) sibPos n total with
        | None => None
        | Some pw' => ud_blocks rest (fst r) pw' (snd r) n total
        end
    end.

  (** "Replace the proof hashes with the before hashes" *)
  Fixpoint ud_replace (pw before : list (hp H)) : list (hp H) :=
    match pw with
    | [] => []
    | e :: rest =>
        let before' := dropHP_lt before (fst e) in
        match headHP before' (fst e) with
        | Some h => (fst e, h) :: ud_replace rest before'
        | None => e :: ud_replace rest before'
        end
    end.

  (** [undoDel blockTargets blockHashes cachedHashes blockProof numLeaves]; the block proof is
      ([bpTargets], [bpProof]) *)
  Definition undoDel (targets : list N) (proof : list H) (blockTargets : list N)
             (blockHashes cachedHashes : list H) (bpTargets : list N) (bpProof : list H) (n : N)
    : option (list H * list N * list H) :=
    let total := TreeRows n in
    match blockTargets with
    | [] => Some (cachedHashes, targets, proof)
    | _ =>
        match toHashAndPos targets cachedHashes with
        | None => None
        | Some tw0 =>
            let '(proofPos, _) := ProofPositions_fast (positions tw0) n total in
            match toHashAndPos proofPos proof, toHashAndPos blockTargets blockHashes with
            | Some pw0, Some btw0 =>
                let btw := deTwinHashAndPos btw0 total in
                match ud_blocks (rev btw) tw0 pw0 [] n total with
                | None => None
                | Some (tw1, pw1, newProofs) =>
                    let pw2 := mergeSortedHashAndPos pw1 newProofs in
                    (* a nil [delHashes] cannot occur here: the lengths were compared above *)
                    match calculateHashes HO true n (Some blockHashes) bpTargets bpProof with
                    | Ok (before, _, _) =>
                        let pw3 := mergeSortedHashAndPos (ud_replace pw2 before) before in
                        let '(neededProofPos, _) := ProofPositions_fast (positions tw1) n total in
                        let pw4 := getHashAndPosSubset pw3 neededProofPos in
                        Some (hashes tw1, positions tw1, hashes pw4)
                    | _ => None
                    end
                end
            | _, _ => None
            end
        end
    end.

  (** ** [Proof.Undo]: (returned cached hashes, new [Targets], new [Proof]) *)
  Definition proof_undo (targets : list N) (proof : list H) (numAdds numLeaves : N) (dels : list N)
             (delHashes cachedHashes : list H) (toDestroy : list N)
             (blockTargets : list N) (blockProof : list H)
    : option (list H * list N * list H) :=
    match undoAdd targets proof numAdds numLeaves cachedHashes toDestroy with
    | None => None
    | Some (ch1, t1, p1) =>
        undoDel t1 p1 dels delHashes ch1 blockTargets blockProof (sub64 numLeaves numAdds)
    end.

End ProofUpdate.
