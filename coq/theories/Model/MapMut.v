(** Mirror of the MUTATORS of MapPollard (mappollard.go): [Modify] ([remove], [removeSingle],
    [forgetBelow], [updateHashes], [forgetUnneededDel], [add], [addSingle], [remap],
    [moveUpDescendants], [moveUpNieces], [moveUpChild], [pruneNieces], [prunePosition],
    [niecesPresent], [uncacheLeaves]), [Undo] ([undoAdd], [getWrittenOverEmptyRoots],
    [getRootsAfterDel], [undoSingleAdd], [placeEmptyRoot], [undoDeletion]), [Verify] with
    [remember = true] ([verify] + [ingest]), [Ingest] and [Prune].  The state is the record
    [mstate] of Model/MapRead.v.  The entry points are [mm_modify], [mm_undo],
    [mm_verify_remember], [mm_ingest], [mm_prune]; the oracle re-computes every mutation the C06/C09
    harness runs make with them (event [MM] of oracle/main.ml) and compares the resulting maps with
    the dumped Go maps as sets.

    Conventions
    - the two Go maps are association lists with UNIQUE keys: [Put] is delete-then-insert, [Delete]
      is a filter; a [Get] of an absent key yields Go's zero [Leaf] (all-zero hash, not remembered);
    - [None] = the Go method returns an error or panics (index out of range).  Errors that the Go
      code swallows ([remove] drops the error of [removeSingle]; [verify] drops the error of
      [ingest]) are swallowed here too: the helper returns the state reached at the early return;
    - Go's iteration over a map: [remap] ranges over [CachedLeaves] rewriting values only (a [map]
      here); [moveUpDescendants] collects the next row of positions in a Go map and ranges over it -
      here the positions are processed in ascending order.  The moves of one row have pairwise
      different targets unless a node below the deleted position and its mirror image below the
      sibling are both stored, which [forgetBelow] excludes in [removeSingle];
    - [forgetBelow], [moveUpDescendants], [placeEmptyRoot] visit 2^row positions as the Go code
      does (fuel = the row of the position, structural);
    - loops over a [uint8] row counter [row <= TotalRows] run on fuel 300 (they do not end in Go
      for [TotalRows = 255]);
    - a hash slice whose length differs from the length of the targets ([toHashAndPos] inside
      [ingest], [undoDeletion], [calculateHashes]) is outside the mirrored domain: [None]
      (as in Model/Verify.v and Model/ProofUpdate.v). *)
From Utreexo Require Export Base.Hash Model.Utils Model.UtilsFast Model.Verify Model.MapRead.
Set Implicit Arguments.
Open Scope N_scope.

Section MapMut.
  Variable H : Type.
  Variable HO : ops H.
  Notation hash2 := (op_hash2 HO).
  Notation empty := (op_empty HO).
  Notation Heqb := (op_eqb HO).

  Definition leaf := (H * bool)%type.                 (* Go's [Leaf]: (Hash, Remember) *)
  Definition nodemap := list (N * leaf).
  Definition cachemap := list (H * N).
  Definition maps := (nodemap * cachemap)%type.

  (** ** the two maps *)
  Definition nodes_del (p : N) (l : nodemap) : nodemap := filter (fun e => negb (fst e =? p)) l.
  Definition nodes_put (p : N) (v : leaf) (l : nodemap) : nodemap := (p, v) :: nodes_del p l.
  Definition nodes_has (l : nodemap) (p : N) : bool :=
    match nodes_get l p with Some _ => true | None => false end.
  (** [v, _ := m.Nodes.Get(p)] *)
  Definition nodes_get0 (l : nodemap) (p : N) : leaf :=
    match nodes_get l p with Some v => v | None => (empty, false) end.
  Definition cached_del (h : H) (l : cachemap) : cachemap := filter (fun e => negb (Heqb (fst e) h)) l.
  Definition cached_put (h : H) (p : N) (l : cachemap) : cachemap := (h, p) :: cached_del h l.
  Definition cached_has (l : cachemap) (h : H) : bool :=
    match cached_get HO l h with Some _ => true | None => false end.
  (** [if _, found := CachedLeaves.Get(h); found { CachedLeaves.Put(h, p) }] *)
  Definition cached_move (h : H) (p : N) (l : cachemap) : cachemap :=
    if cached_has l h then cached_put h p l else l.

  (** ** pruning *)

  (** [niecesPresent] *)
  Definition niecesPresent (total : N) (nd : nodemap) (pos : N) : bool :=
    if DetectRow pos total =? 0 then false
    else nodes_has nd (LeftChild (sibling pos) total) || nodes_has nd (RightChild (sibling pos) total).

  (** [prunePosition] *)
  Definition prunePosition (total : N) (nd : nodemap) (pos : N) : nodemap :=
    let node := nodes_get0 nd pos in
    let sibNode := nodes_get0 nd (sibling pos) in
    if negb (snd node) && negb (snd sibNode) then
      let nd1 := if niecesPresent total nd (sibling pos) then nd else nodes_del (sibling pos) nd in
      if niecesPresent total nd1 pos then nd1 else nodes_del pos nd1
    else nd.

  (** [pruneNieces] *)
  Definition pruneNieces (total : N) (nd : nodemap) (pos : N) : nodemap :=
    if DetectRow pos total =? 0 then nd else prunePosition total nd (LeftChild pos total).

  (** [forgetUnneededDel]: [for row := DetectRow(del); row <= TotalRows; row++] *)
  Fixpoint fud_loop (fuel : nat) (n total row parentPos : N) (nd : nodemap) : nodemap :=
    match fuel with
    | O => nd
    | S f =>
        if total <? row then nd
        else
          let parentPos' := Parent parentPos total in
          if isRootPositionTotalRows parentPos' n total then nd
          else fud_loop f n total (add8 row 1) parentPos' (prunePosition total nd parentPos')
    end.
  Definition forgetUnneededDel (n total del : N) (nd : nodemap) : nodemap :=
    if isRootPositionTotalRows del n total then nd
    else fud_loop 300 n total (DetectRow del total) del nd.

  (** [forgetBelow]: the recursion visits every descendant; the row drops by one per level *)
  Fixpoint forgetBelow_rec (fuel : nat) (total pos : N) (nd : nodemap) : nodemap :=
    match fuel with
    | O => nd
    | S f =>
        if DetectRow pos total =? 0 then nd
        else
          let l := LeftChild pos total in
          let r := sibling l in
          forgetBelow_rec f total r (forgetBelow_rec f total l (nodes_del r (nodes_del l nd)))
    end.
  Definition forgetBelow (total pos : N) (nd : nodemap) : nodemap :=
    forgetBelow_rec (S (N.to_nat (DetectRow pos total))) total pos nd.

  (** ** moving nodes up *)

  (** [moveUpChild] for the child position [c]: the flag is [false] when [calcNextPosition] fails
      (the state is then the one at the error return) *)
  Definition moveUp_one (total delPos c : N) (st : maps) : maps * bool :=
    match calcNextPosition c delPos total with
    | None => (st, false)
    | Some nextPos =>
        match nodes_get (fst st) c with
        | Some v => ((nodes_put nextPos v (nodes_del c (fst st)), cached_move (fst v) nextPos (snd st)), true)
        | None => (st, true)
        end
    end.

  (** [moveUpNieces] on every position of [toMoveUp]: returns the child positions *)
  Fixpoint moveUp_row (total delPos : N) (ps : list N) (st : maps) : maps * list N * bool :=
    match ps with
    | [] => (st, [], true)
    | p :: t =>
        if DetectRow p total =? 0 then moveUp_row total delPos t st
        else
          let l := LeftChild p total in
          let r := RightChild p total in
          match moveUp_one total delPos l st with
          | (st1, false) => (st1, [], false)
          | (st1, true) =>
              match moveUp_one total delPos r st1 with
              | (st2, false) => (st2, [], false)
              | (st2, true) =>
                  let '(st3, cs, ok) := moveUp_row total delPos t st2 in (st3, l :: r :: cs, ok)
              end
          end
    end.

  Fixpoint dedup_sorted (l : list N) : list N :=
    match l with
    | x :: (y :: _) as t => if x =? y then dedup_sorted t else x :: dedup_sorted t
    | _ => l
    end.

  (** [for h := row; h >= 0; h--] : [k] iterations *)
  Fixpoint mud_loop (k : nat) (total delPos : N) (ps : list N) (st : maps) : maps * bool :=
    match k with
    | O => (st, true)
    | S k' =>
        match moveUp_row total delPos ps st with
        | (st1, _, false) => (st1, false)
        | (st1, cs, true) => mud_loop k' total delPos (dedup_sorted (sortN cs)) st1
        end
    end.

  (** [moveUpDescendants position delPos _] *)
  Definition moveUpDescendants (total position delPos : N) (st : maps) : maps * bool :=
    let row := DetectRow position total in
    if row =? 0 then (st, true)
    else mud_loop (S (N.to_nat row)) total delPos (sortN [position; sibling position]) st.

  (** ** deletion *)

  (** [updateHashes position hash] *)
  Fixpoint uh_loop (fuel : nat) (n total : N) (full : bool) (row pos : N) (h : H) (nd : nodemap)
    : nodemap :=
    match fuel with
    | O => nd
    | S f =>
        if total <? row then nd
        else
          let sibNode := nodes_get0 nd (sibling pos) in
          let h' := if isLeftNiece pos then hash2 h (fst sibNode) else hash2 (fst sibNode) h in
          let pos' := Parent pos total in
          let nd' := if nodes_has nd pos' then nodes_put pos' (h', full) nd else nd in
          if isRootPositionTotalRows pos' n total then nd'
          else uh_loop f n total full (add8 row 1) pos' h' nd'
    end.
  Definition updateHashes (n total : N) (full : bool) (position : N) (h : H) (nd : nodemap) : nodemap :=
    let pos := Parent position total in
    uh_loop 300 n total full (DetectRow pos total) pos h nd.

  (** [removeSingle del]; the error is dropped by the caller, so the result is the state at the
      return *)
  Definition removeSingle (n total : N) (full : bool) (del : N) (st : maps) : maps :=
    let nd0 := forgetBelow total del (fst st) in
    let ca := snd st in
    if isRootPositionTotalRows del n total then (nodes_put del (empty, full) nd0, ca)
    else
      let nd1 := nodes_del del nd0 in
      let sibp := sibling del in
      let finish (nd : nodemap) (ca' : cachemap) (h : H) : maps :=
        (forgetUnneededDel n total del (updateHashes n total full del h nd), ca') in
      match nodes_get nd1 sibp with
      | Some node =>
          let nd2 := nodes_put (Parent del total) node (nodes_del sibp nd1) in
          let oca := if cached_has ca (fst node)
                     then match calcNextPosition sibp del total with
                          | Some np => Some (cached_put (fst node) np ca)
                          | None => None
                          end
                     else Some ca in
          match oca with
          | None => (nd2, ca)
          | Some ca2 =>
              match moveUpDescendants total sibp del (nd2, ca2) with
              | (st3, false) => st3
              | ((nd3, ca3), true) => finish nd3 ca3 (fst node)
              end
          end
      | None => finish nd1 ca empty
      end.

  (** [remove proof delHashes] *)
  Definition remove (m : mstate H) (delHashes : list H) (targets : list N) : option maps :=
    if negb (forallb (cached_has (ms_cached m)) delHashes) then None
    else
      let ca := fold_left (fun c h => cached_del h c) delHashes (ms_cached m) in
      let n := ms_n m in
      let total := ms_total m in
      let sorted := sortN targets in
      let tr := if total =? TreeRows n then sorted else translatePositions sorted (TreeRows n) total in
      let dels := deTwin tr total in
      Some (fold_left (fun st d => removeSingle n total (ms_full m) d st) dels (ms_nodes m, ca)).

  (** ** addition *)

  (** the positions of [l], ascending: the order in which [remap] visits them *)
  Definition keys_sorted (l : nodemap) : list N := sortN (map fst l).

  (** [remap]: (new TotalRows, maps); [None] = error of [maxPositionAtRow].
      The Go loop walks rows 1..TotalRows and, in each, the positions from the start of the row to
      [maxPositionAtRow]: that is every such position in ascending order; the positions that are
      not stored are skipped.  The new positions lie beyond every visited position. *)
  Definition remap (n total : N) (st : maps) : option (N * maps) :=
    let nextRows := TreeRows (add64 n 1) in
    if nextRows <=? total then Some (total, st)
    else
      let step (acc : option nodemap) (i : N) : option nodemap :=
        match acc with
        | None => None
        | Some nd =>
            let h := DetectRow i total in
            if (h =? 0) || (total <? h) then Some nd
            else
              let mp := maxPositionAtRow h total n in
              if snd mp then None
              else if (startPositionAtRow h total <=? i) && (i <=? fst mp) then
                match nodes_get nd i with
                | Some v =>
                    let j := add64 (startPositionAtRow h nextRows) (sub64 i (startPositionAtRow h total)) in
                    Some (nodes_put j v (nodes_del i nd))
                | None => Some nd
                end
              else Some nd
        end in
      match fold_left step (keys_sorted (fst st)) (Some (fst st)) with
      | None => None
      | Some nd' =>
          Some (nextRows, (nd', map (fun e => (fst e, translatePos (snd e) total nextRows)) (snd st)))
      end.

  (** the loop of [addSingle]: [for h := uint8(0); (NumLeaves>>h)&1 == 1; h++] *)
  Fixpoint as_loop (fuel : nat) (n total : N) (full : bool) (addH : H) (addRem : bool)
           (h : N) (pNode : leaf) (position : N) (st : maps) : option maps :=
    match fuel with
    | O => Some st
    | S f =>
        if and64 (shr n h) 1 =? 1 then
          let rootPos := rootPosition n h total in
          match nodes_get (fst st) rootPos with
          | None => None
          | Some node =>
              let r :=
                if Heqb (fst node) empty then
                  let nd1 := nodes_del position (nodes_del rootPos (fst st)) in
                  let ca1 := if addRem && Heqb (fst pNode) addH
                             then cached_move addH (Parent position total) (snd st) else snd st in
                  match moveUpDescendants total position rootPos (nd1, ca1) with
                  | (st', true) => Some (st', pNode)
                  | (_, false) => None
                  end
                else Some (st, (hash2 (fst node) (fst pNode), full)) in
              match r with
              | None => None
              | Some (st2, pNode') =>
                  let position' := Parent position total in
                  let nd3 := pruneNieces total (nodes_put position' pNode' (fst st2)) position' in
                  as_loop f n total full addH addRem (add8 h 1) pNode' position' (nd3, snd st2)
              end
          end
        else Some st
    end.

  (** [addSingle add]: (new TotalRows, maps) *)
  Definition addSingle (n total : N) (full : bool) (add : leaf) (st : maps) : option (N * maps) :=
    match remap n total st with
    | None => None
    | Some (total', (nd, ca)) =>
        let rem := full || snd add in
        let nd1 := nodes_put n (fst add, rem) nd in
        let ca1 := if rem then cached_put (fst add) n ca else ca in
        match as_loop 65 n total' full (fst add) rem 0 (fst add, rem) n (nd1, ca1) with
        | Some st' => Some (total', st')
        | None => None
        end
    end.

  (** [add adds] *)
  Fixpoint add_all (full : bool) (adds : list leaf) (n total : N) (st : maps) : option (N * N * maps) :=
    match adds with
    | [] => Some (n, total, st)
    | a :: rest =>
        match addSingle n total full a st with
        | None => None
        | Some (total', st') => add_all full rest (add64 n 1) total' st'
        end
    end.

  (** ** [Modify] *)
  Definition mm_modify (m : mstate H) (adds : list leaf) (delHashes : list H) (targets : list N)
             (proof : list H) : option (mstate H) :=
    match remove m delHashes targets with
    | None => None
    | Some st =>
        match add_all (ms_full m) adds (ms_n m) (ms_total m) st with
        | None => None
        | Some (n', total', (nd, ca)) => Some (mkM nd ca n' total' (ms_full m))
        end
    end.

  (** ** undoing the additions *)

  (** [rootsToDestory numAdds numLeaves roots] on the emptiness flags of the roots (the Go code
      only compares the hashes with the zero hash and pushes a non-zero filler); [None] = index
      out of range *)
  Fixpoint rtd_chainB (fuel : nat) (n h rowsAfter : N) (roots_rev : list bool)
    : option (list N * list bool) :=
    match fuel with
    | O => Some ([], roots_rev)
    | S f =>
        if and64 (shr n h) 1 =? 1 then
          match roots_rev with
          | r :: rest =>
              match rtd_chainB f n (add8 h 1) rowsAfter rest with
              | Some (d, rr) => Some ((if r then [rootPosition n h rowsAfter] else []) ++ d, rr)
              | None => None
              end
          | [] => None
          end
        else Some ([], roots_rev)
    end.
  Fixpoint rtd_loopB (k : nat) (n rowsAfter : N) (roots_rev : list bool) : option (list N) :=
    match k with
    | O => Some []
    | S k' =>
        match rtd_chainB 65 n 0 rowsAfter roots_rev with
        | None => None
        | Some (d, rr) =>
            match rtd_loopB k' (add64 n 1) rowsAfter (false :: rr) with
            | Some d2 => Some (d ++ d2)
            | None => None
            end
        end
    end.
  Definition rootsToDestroyB (numAdds n : N) (roots : list H) : option (list N) :=
    let flags := map (fun r => Heqb r empty) roots in
    if existsb (fun b => b) flags
    then rtd_loopB (N.to_nat numAdds) n (TreeRows (add64 n numAdds)) (rev flags)
    else Some [].

  (** [getRootsAfterDel]: the previous roots with the deleted ones zeroed; [None] = index out of
      range *)
  Fixpoint grad_inner (d : N) (j : nat) (prevRootPos : list N) (roots : list H) : option (list H) :=
    match prevRootPos with
    | [] => Some roots
    | p :: t =>
        if d =? p then
          match set_nth j empty roots with
          | Some roots' => grad_inner d (S j) t roots'
          | None => None
          end
        else grad_inner d (S j) t roots
    end.
  Definition getRootsAfterDel (n total numAdds : N) (targets prevRootPos : list N) (prevRoots : list H)
    : option (list H) :=
    let detwined := deTwin (translatePositions (sortN targets) (TreeRows (sub64 n numAdds)) total) total in
    fold_left (fun acc d => match acc with
                            | Some roots => grad_inner d 0 prevRootPos roots
                            | None => None
                            end) detwined (Some prevRoots).

  (** [getWrittenOverEmptyRoots] *)
  Fixpoint gwo_loop (i : nat) (prevRoots : list H) (prevRootPos destroyed : list N) : option (list N) :=
    match prevRoots with
    | [] => Some []
    | r :: t =>
        let here :=
          if Heqb r empty then
            match destroyed with
            | [] => Some []
            | _ => match nth_error prevRootPos i with
                   | Some p => Some (map (fun _ => p) (filter (fun d => d =? p) destroyed))
                   | None => None
                   end
            end
          else Some [] in
        match here, gwo_loop (S i) t prevRootPos destroyed with
        | Some a, Some b => Some (a ++ b)
        | _, _ => None
        end
    end.
  Definition getWrittenOverEmptyRoots (n total numAdds : N) (targets : list N) (origPrevRoots : list H)
    : option (list N) :=
    let prevN := sub64 n numAdds in
    let prevRootPos := RootPositions prevN total in
    match getRootsAfterDel n total numAdds targets prevRootPos origPrevRoots with
    | None => None
    | Some prevRoots =>
        match rootsToDestroyB numAdds prevN prevRoots with
        | None => None
        | Some destroyed0 =>
            let destroyed := if TreeRows n =? total then destroyed0
                             else translatePositions destroyed0 (TreeRows n) total in
            gwo_loop 0 prevRoots prevRootPos destroyed
        end
    end.

  (** [i] running over [0 .. k-1], added to [start] *)
  Fixpoint offsets (k : nat) (start : N) : list N :=
    match k with
    | O => []
    | S k' => start :: offsets k' (add64 start 1)
    end.

  (** [placeEmptyRoot prevRootPos]: flag [false] = error return (state at the return) *)
  Definition per_move (total : N) (full : bool) (prevRootPos pos : N) (st : maps) : maps * bool :=
    match calcNextPosition pos prevRootPos total with
    | None => (st, false)
    | Some curPos =>
        match nodes_get (fst st) curPos with
        | Some v =>
            if negb (Heqb (fst v) empty) then
              let nd1 := nodes_del curPos (fst st) in
              let cached := cached_has (snd st) (fst v) in
              let v' := (fst v, if cached || full then true else snd v) in
              let ca1 := if cached then cached_put (fst v) pos (snd st) else snd st in
              ((nodes_put pos v' nd1, ca1), true)
            else (st, true)
        | None => (st, true)
        end
    end.
  Fixpoint per_row (total : N) (full : bool) (prevRootPos : N) (ps : list N) (st : maps) : maps * bool :=
    match ps with
    | [] => (st, true)
    | p :: t =>
        match per_move total full prevRootPos p st with
        | (st1, false) => (st1, false)
        | (st1, true) => per_row total full prevRootPos t st1
        end
    end.
  (** [for h := int(row); h > 0; h--] *)
  Fixpoint per_loop (h : nat) (total : N) (full : bool) (prevRootPos sib : N) (st : maps) : maps * bool :=
    match h with
    | O => (st, true)
    | S h' =>
        match ChildMany sib (N.of_nat h) total with
        | None => (st, false)
        | Some child =>
            match per_row total full prevRootPos (offsets (N.to_nat (shl 1 (N.of_nat h))) child) st with
            | (st1, false) => (st1, false)
            | (st1, true) => per_loop h' total full prevRootPos sib st1
            end
        end
    end.
  Definition placeEmptyRoot (total : N) (full : bool) (prevRootPos : N) (st : maps) : maps * bool :=
    let sib := sibling prevRootPos in
    per_loop (N.to_nat (DetectRow sib total)) total full prevRootPos sib st.

  (** [getLowestRoot] *)
  Fixpoint glr_loop (fuel : nat) (n row total : N) : N :=
    match fuel with
    | O => row
    | S f => if total <? row then row
             else if getLowestRoot_step n row then row
             else glr_loop f n (add8 row 1) total
    end.
  Definition getLowestRoot (n total : N) : N := glr_loop 300 n 0 total.

  (** [undoSingleAdd]: [for h := int(row); h >= 0; h--] *)
  Fixpoint usa_loop (h : nat) (total : N) (full : bool) (pos lChild : N) (erp : list N) (st : maps)
    : option (maps * list N) :=
    let st1 := match nodes_get (fst st) pos with
               | Some lf => (nodes_del pos (fst st), cached_del (fst lf) (snd st))
               | None => st
               end in
    match h with
    | O => Some (st1, erp)
    | S h' =>
        let r := match erp with
                 | e :: rest =>
                     if e =? lChild then
                       match placeEmptyRoot total full lChild st1 with
                       | (_, false) => None
                       | (st2, true) => Some ((nodes_put lChild (empty, true) (fst st2), snd st2), rest)
                       end
                     else Some (st1, erp)
                 | [] => Some (st1, erp)
                 end in
        match r with
        | None => None
        | Some (st3, erp') =>
            let pos' := RightChild pos total in
            usa_loop h' total full pos' (LeftChild pos' total) erp' st3
        end
    end.
  Definition undoSingleAdd (n total : N) (full : bool) (erp : list N) (st : maps)
    : option (maps * list N) :=
    let row := getLowestRoot n total in
    let pos := rootPosition (sub64 n 1) row total in
    usa_loop (N.to_nat row) total full pos (LeftChild pos total) erp st.

  (** [undoAdd]: the loop over [numAdds] *)
  Fixpoint undoAdd_loop (k : nat) (n total : N) (full : bool) (erp : list N) (st : maps)
    : option (N * maps) :=
    match k with
    | O => Some (n, st)
    | S k' =>
        match undoSingleAdd n total full erp st with
        | None => None
        | Some (st', erp') => undoAdd_loop k' (sub64 n 1) total full erp' st'
        end
    end.
  Definition undoAdd (m : mstate H) (numAdds : N) (targets : list N) (origPrevRoots : list H)
    : option (N * maps) :=
    match getWrittenOverEmptyRoots (ms_n m) (ms_total m) numAdds targets origPrevRoots with
    | None => None
    | Some erp => undoAdd_loop (N.to_nat numAdds) (ms_n m) (ms_total m) (ms_full m) erp
                               (ms_nodes m, ms_cached m)
    end.

  (** ** undoing the deletions *)

  (** "Go through the detwined targets in descending order and move down the nodes" *)
  Fixpoint ud_movedown (n total : N) (full : bool) (dts_rev : list N) (st : maps) : maps * bool :=
    match dts_rev with
    | [] => (st, true)
    | t :: rest =>
        let r := if inForest (sibling t) n total then placeEmptyRoot total full t st else (st, true) in
        match r with
        | (st1, false) => (st1, false)
        | (st1, true) =>
            let sib := Parent t total in
            let prevPos := calcPrevPosition sib t total in
            let st2 :=
              match nodes_get (fst st1) sib with
              | Some v =>
                  let cached := cached_has (snd st1) (fst v) in
                  let v' := (fst v, if cached || full then true else snd v) in
                  let ca := if cached then cached_put (fst v) prevPos (snd st1) else snd st1 in
                  (nodes_put prevPos v' (nodes_del sib (fst st1)), ca)
              | None => st1
              end in
            ud_movedown n total full rest st2
        end
    end.

  (** "place in the proof hashes into the calculated positions": returns the maps and the proof
      slice as [calculateHashes] will see it; [None] = index out of range *)
  Fixpoint ud_fill (full : bool) (i : nat) (proofPos : list N) (given : list H) (nd : nodemap)
    : option (nodemap * list H) :=
    match proofPos with
    | [] => Some (nd, [])
    | pos :: rest =>
        match nth_error given i with
        | None => None
        | Some g =>
            match nodes_get nd pos with
            | Some lf =>
                match ud_fill full (S i) rest given nd with
                | Some (nd', l) => Some (nd', fst lf :: l)
                | None => None
                end
            | None =>
                match ud_fill full (S i) rest given (nodes_put pos (g, full) nd) with
                | Some (nd', l) => Some (nd', g :: l)
                | None => None
                end
            end
        end
    end.

  (** the last loop of [undoDeletion] and of [ingest]: store the calculated nodes *)
  Fixpoint put_calculated (full : bool) (targetPos : list N) (l : list (hp H)) (st : maps) : maps :=
    match l with
    | [] => st
    | (pos, h) :: rest =>
        let isTarget := memN pos targetPos in
        let nd := nodes_put pos (h, full || isTarget) (fst st) in
        let ca := if isTarget then cached_put h pos (snd st) else snd st in
        put_calculated full targetPos rest (nd, ca)
    end.

  (** [undoDeletion proof hashes] on the state with [n] leaves *)
  Definition undoDeletion (n total : N) (full : bool) (targets : list N) (proof hashes : list H)
             (st : maps) : option maps :=
    if negb (Nat.eqb (length targets) (length hashes)) then None
    else
      let tr := TreeRows n in
      let same := tr =? total in
      let pos0 := sortN targets in
      let positions := if same then pos0 else sortN (translatePositions pos0 tr total) in
      let dts := deTwin positions total in
      match ud_movedown n total full (rev dts) st with
      | (_, false) => None
      | ((nd1, ca1), true) =>
          let '(pp0, _) := ProofPositions_fast (sortN targets) n tr in
          let proofPos := if same then pp0 else translatePositions (trimProofPos n tr pp0) tr total in
          let ogiven :=
            if Nat.eqb (length proofPos) (length proof) then Some proof
            else if full then Some (map (fun _ => empty) proofPos) else None in
          match ogiven with
          | None => None
          | Some given =>
              match ud_fill full 0 proofPos given nd1 with
              | None => None
              | Some (nd2, proof') =>
                  match calculateHashes HO true n (Some hashes) targets proof' with
                  | Ok (newhnp, _, _) =>
                      let l := if same then newhnp
                               else sortK (map (fun e => (translatePos (fst e) tr total, snd e)) newhnp) in
                      let tts := if same then targets else translatePositions targets tr total in
                      Some (put_calculated full tts l (nd2, ca1))
                  | _ => None
                  end
              end
          end
      end.

  (** the last loop of [Undo]: write the previous roots; [None] = index out of range *)
  Fixpoint put_roots (full : bool) (rootPos : list N) (roots : list H) (st : maps) : option maps :=
    match rootPos with
    | [] => Some st
    | p :: t =>
        match roots with
        | [] => None
        | r :: rs => put_roots full t rs (nodes_put p (r, cached_has (snd st) r || full) (fst st), snd st)
        end
    end.

  (** ** [Undo] *)
  Definition mm_undo (m : mstate H) (numAdds : N) (targets : list N) (proof hashes origPrevRoots : list H)
    : option (mstate H) :=
    match undoAdd m numAdds targets origPrevRoots with
    | None => None
    | Some (n', st1) =>
        match undoDeletion n' (ms_total m) (ms_full m) targets proof hashes st1 with
        | None => None
        | Some st2 =>
            match put_roots (ms_full m) (RootPositions n' (ms_total m)) origPrevRoots st2 with
            | None => None
            | Some (nd, ca) => Some (mkM nd ca n' (ms_total m) (ms_full m))
            end
        end
    end.

  (** ** [ingest] *)

  (** "Calculate and ingest the proof": [None] = index out of range *)
  Fixpoint ingest_fill (full : bool) (i : nat) (proofPos : list N) (given : list H) (nd : nodemap)
    : option nodemap :=
    match proofPos with
    | [] => Some nd
    | pos :: rest =>
        if nodes_has nd pos then ingest_fill full (S i) rest given nd
        else match nth_error given i with
             | Some g => ingest_fill full (S i) rest given (nodes_put pos (g, full) nd)
             | None => None
             end
    end.

  (** [ingest delHashes proof]: [None] = panic; otherwise the state after the proof hashes were
      stored (the state at the error return) and, when [calculateHashes] succeeds, the final state *)
  Definition ingest_steps (m : mstate H) (delHashes : list H) (targets : list N) (proof : list H)
    : option (mstate H * option (mstate H)) :=
    if negb (Nat.eqb (length targets) (length delHashes)) then None
    else
      let n := ms_n m in
      let total := ms_total m in
      let tr := TreeRows n in
      let same := total =? tr in
      let pos0 := sortN targets in
      let positions := if same then pos0 else sortN (translatePositions pos0 tr total) in
      let '(pp0, _) := ProofPositions_fast positions n total in
      let proofPos := if negb same && Nat.ltb (length proof) (length pp0)
                      then trimProofPos n tr pp0 else pp0 in
      match ingest_fill (ms_full m) 0 proofPos proof (ms_nodes m) with
      | None => None
      | Some nd1 =>
          let m1 := mkM nd1 (ms_cached m) n total (ms_full m) in
          match calculateHashes HO true n (Some delHashes) targets proof with
          | Ok (inter, _, _) =>
              let l := if same then inter
                       else sortK (map (fun e => (translatePos (fst e) tr total, snd e)) inter) in
              let '(nd2, ca2) := put_calculated (ms_full m) positions l (nd1, ms_cached m) in
              Some (m1, Some (mkM nd2 ca2 n total (ms_full m)))
          | Err => Some (m1, None)
          | _ => None
          end
      end.

  (** ** [Ingest] *)
  Definition mm_ingest (m : mstate H) (delHashes : list H) (targets : list N) (proof : list H)
    : option (mstate H) :=
    match ingest_steps m delHashes targets proof with
    | Some (_, Some m') => Some m'
    | _ => None
    end.

  (** ** [Verify] with [remember = true]: [verify] hands [ingest] the translated targets and drops
      its error *)
  Definition mm_verify_remember (m : mstate H) (delHashes : list H) (targets : list N) (proof : list H)
    : option (mstate H) :=
    match map_verify HO m delHashes targets proof with
    | Ok _ =>
        let tr := TreeRows (ms_n m) in
        let targets' := if tr =? ms_total m then targets else translatePositions targets (ms_total m) tr in
        match ingest_steps m delHashes targets' proof with
        | Some (_, Some m') => Some m'
        | Some (m1, None) => Some m1
        | None => None
        end
    | _ => None
    end.

  (** ** [Prune] *)

  (** [for row := DetectRow(pos); row <= TreeRows(NumLeaves); row++] *)
  Fixpoint prune_up (fuel : nat) (n total row pos : N) (nd : nodemap) : nodemap :=
    match fuel with
    | O => nd
    | S f =>
        if TreeRows n <? row then nd
        else if isRootPositionTotalRows pos n total then nd
        else prune_up f n total (add8 row 1) (Parent pos total) (prunePosition total nd pos)
    end.

  Fixpoint prune_loop (n total : N) (hashes : list H) (st : maps) : option maps :=
    match hashes with
    | [] => Some st
    | h :: rest =>
        match cached_get HO (snd st) h with
        | None => prune_loop n total rest st
        | Some pos =>
            let ca := cached_del h (snd st) in
            match nodes_get (fst st) pos with
            | None => None
            | Some lf =>
                let nd := nodes_put pos (fst lf, false) (fst st) in
                prune_loop n total rest (prune_up 300 n total (DetectRow pos total) pos nd, ca)
            end
        end
    end.

  Definition mm_prune (m : mstate H) (hashes : list H) : option (mstate H) :=
    if ms_full m then Some m
    else match prune_loop (ms_n m) (ms_total m) hashes (ms_nodes m, ms_cached m) with
         | Some (nd, ca) => Some (mkM nd ca (ms_n m) (ms_total m) (ms_full m))
         | None => None
         end.

End MapMut.
