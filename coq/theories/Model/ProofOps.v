(** Mirror of the proof-combination helpers of prove.go: [AddProof], [GetProofSubset] and the
    stand-alone [GetMissingPositions], with their merge/subtract helpers.  Inputs whose parallel
    slices have different lengths (which panic or are undefined in Go) yield [None]. *)
From Utreexo Require Export Base.Hash Model.Utils Model.UtilsFast Model.Verify.
Set Implicit Arguments.
Open Scope N_scope.

(** [subtractSortedSlice a b]: two-pointer removal of the elements of [b] from [a] *)
Fixpoint subN (fuel : nat) (a b : list N) : list N :=
  match fuel with
  | O => a
  | S f =>
      match a, b with
      | [], _ => []
      | _, [] => a
      | x :: a', y :: b' =>
          if x =? y then subN f a' b'
          else if x <? y then x :: subN f a' b
          else subN f a b'
      end
  end.
Definition subtractSortedSlice (a b : list N) : list N := subN (S (length a + length b)) a b.

(** [mergeSortedSlicesFunc] on positions *)
Fixpoint mergeN_ (fuel : nat) (a b : list N) : list N :=
  match fuel with
  | O => []
  | S f =>
      match a, b with
      | [], _ => b
      | _, [] => a
      | x :: a', y :: b' =>
          if x <? y then x :: mergeN_ f a' b
          else if y <? x then y :: mergeN_ f a b'
          else x :: mergeN_ f a' b'
      end
  end.
Definition mergeSortedSlices (a b : list N) : list N := mergeN_ (S (length a + length b)) a b.

Section ProofOps.
  Variable H : Type.
  Variable HO : ops H.

  (** [subtractSortedHashAndPos a b] *)
  Fixpoint subHP (fuel : nat) (a : list (hp H)) (b : list N) : list (hp H) :=
    match fuel with
    | O => a
    | S f =>
        match a, b with
        | [], _ => []
        | _, [] => a
        | x :: a', y :: b' =>
            if fst x =? y then subHP f a' b'
            else if fst x <? y then x :: subHP f a' b
            else subHP f a b'
        end
    end.
  Definition subtractSortedHashAndPos (a : list (hp H)) (b : list N) : list (hp H) :=
    subHP (S (length a + length b)) a b.

  (** [getHashAndPosSubset a b]: the entries of [a] whose position is in [b] (both sorted) *)
  Fixpoint subsetHP (fuel : nat) (a : list (hp H)) (b : list N) : list (hp H) :=
    match fuel with
    | O => []
    | S f =>
        match a, b with
        | [], _ => []
        | _, [] => []
        | x :: a', y :: b' =>
            if fst x =? y then x :: subsetHP f a' b'
            else if y <? fst x then subsetHP f a b'
            else subsetHP f a' b
        end
    end.
  Definition getHashAndPosSubset (a : list (hp H)) (b : list N) : list (hp H) :=
    subsetHP (S (length a + length b)) a b.

  Definition same_len {A B} (a : list A) (b : list B) : bool := Nat.eqb (length a) (length b).

  (** [AddProof proofA proofB targetHashesA targetHashesB numLeaves]: (hashes, targets, proof) *)
  Definition AddProof (tA : list N) (pA : list H) (tB : list N) (pB : list H)
             (hA hB : list H) (n : N) : option (list H * list N * list H) :=
    let total := TreeRows n in
    let targetsA := sortN tA in
    let '(ppA, calcA) := ProofPositions_fast targetsA n total in
    let targetsB := sortN tB in
    let '(ppB, calcB) := ProofPositions_fast targetsB n total in
    if negb (same_len ppA pA && same_len ppB pB && same_len tA hA && same_len tB hB) then None
    else
      let c0 := mergeSortedHashAndPos (zip_hp ppA pA) (zip_hp ppB pB) in
      let calcC := mergeSortedSlices calcA calcB in
      let c1 := subtractSortedHashAndPos c0 calcC in
      let targetsC := mergeSortedSlices targetsA targetsB in
      let c2 := subtractSortedHashAndPos c1 targetsC in
      let cachedC := mergeSortedHashAndPos (sortK (zip_hp tA hA)) (sortK (zip_hp tB hB)) in
      Some (map snd cachedC, targetsC, map snd c2).

  Fixpoint index_of (x : N) (l : list (hp H)) : option H :=
    match l with
    | [] => None
    | e :: t => if fst e =? x then Some (snd e) else index_of x t
    end.
  Fixpoint all_someH (l : list (option H)) : option (list H) :=
    match l with
    | [] => Some []
    | Some x :: t => match all_someH t with Some r => Some (x :: r) | None => None end
    | None :: _ => None
    end.

  (** [GetProofSubset proof hashes wants numLeaves]: [None] = error *)
  Definition GetProofSubset (ts : list N) (pf : list H) (hashes : list H) (wants : list N) (n : N)
    : option (list H * list N * list H) :=
    let total := TreeRows n in
    let sortedT := sortN ts in
    if negb (Nat.eqb (length (subtractSortedSlice (sortN wants) sortedT)) 0) then None
    else if negb (same_len ts hashes) then None
    else
      let thp := sortK (zip_hp ts hashes) in
      match calculateHashes HO true n (Some hashes) ts pf with
      | Ok (inter, _, _) =>
          let '(positions, _) := ProofPositions_fast sortedT n total in
          (* toHashAndPos copies both slices to their own lengths; a shorter hash slice panics in Go *)
          if Nat.ltb (length pf) (length positions) then None
          else
            let proofPos := sortK (zip_hp positions pf) in
            let all := mergeSortedHashAndPos (sortK inter) proofPos in
            let twp := getHashAndPosSubset thp (sortN wants) in
            let '(wantPP, _) := ProofPositions_fast (map fst twp) n total in
            let sel := getHashAndPosSubset all wantPP in
            if negb (same_len sel wantPP) then None
            else
              match all_someH (map (fun w => index_of w twp) wants) with
              | Some rh => Some (rh, wants, map snd sel)
              | None => None
              end
      | _ => None
      end.

  (** the stand-alone [GetMissingPositions numLeaves proofTargets desiredTargets] *)
  Definition GetMissingPositionsFn (n : N) (proofTargets desired : list N) : list N :=
    let total := TreeRows n in
    let targets := sortN proofTargets in
    let des := subtractSortedSlice (sortN desired) targets in
    match des with
    | [] => []
    | _ =>
        let '(desiredPositions, _) := ProofPositions_fast des n total in
        let '(have, comp) := ProofPositions_fast targets n total in
        subtractSortedSlice desiredPositions (sortN (have ++ targets ++ comp))
    end.
End ProofOps.
