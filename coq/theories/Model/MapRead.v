(** Mirror of the read side of MapPollard (mappollard.go): the queries compute their answers from the
    position->leaf map [Nodes], the hash->position map [CachedLeaves], [NumLeaves] and [TotalRows].
    The maps are association lists (first binding wins; the harness dumps Go maps, whose keys are
    unique).  Functions and their order of operations follow the Go methods of the same name. *)
From Utreexo Require Export Base.Hash Model.Utils Model.UtilsFast Model.Verify.
Set Implicit Arguments.
Open Scope N_scope.

Section MapRead.
  Variable H : Type.
  Variable HO : ops H.
  Notation empty := (op_empty HO).
  Notation Heqb := (op_eqb HO).

  Record mstate := mkM {
    ms_nodes : list (N * (H * bool));     (* position (TotalRows coordinates) -> (hash, remember) *)
    ms_cached : list (H * N);             (* leaf hash -> position (TotalRows coordinates) *)
    ms_n : N; ms_total : N; ms_full : bool }.

  Fixpoint nodes_get (l : list (N * (H * bool))) (p : N) : option (H * bool) :=
    match l with
    | [] => None
    | (k, v) :: t => if k =? p then Some v else nodes_get t p
    end.
  Fixpoint cached_get (l : list (H * N)) (h : H) : option N :=
    match l with
    | [] => None
    | (k, v) :: t => if Heqb k h then Some v else cached_get t h
    end.

  (** [GetHash] *)
  Definition GetHash (m : mstate) (p : N) : H :=
    let tr := TreeRows (ms_n m) in
    let p' := if negb (ms_total m =? tr) && (p <=? maxPosition tr)
              then translatePos p tr (ms_total m) else p in
    match nodes_get (ms_nodes m) p' with Some (h, _) => h | None => empty end.

  (** [getLeafHashPosition] / [GetLeafPosition] *)
  Definition GetLeafPosition (m : mstate) (h : H) : option N :=
    match cached_get (ms_cached m) h with
    | None => None
    | Some p => let tr := TreeRows (ms_n m) in
                Some (if ms_total m =? tr then p else translatePos p (ms_total m) tr)
    end.
  (** [GetLeafHashPositions]: 0 where not found *)
  Definition GetLeafHashPositions (m : mstate) (hs : list H) : list N :=
    map (fun h => match GetLeafPosition m h with Some p => p | None => 0 end) hs.

  (** [getRoots]: hashes at the root positions (the zero hash when a root is not stored) *)
  Definition getRoots (m : mstate) : list H :=
    map (fun p => match nodes_get (ms_nodes m) p with Some (h, _) => h | None => empty end)
        (RootPositions (ms_n m) (ms_total m)).
  Definition getStump (m : mstate) : stump H := mkStump (getRoots m) (ms_n m).

  Fixpoint all_some {A} (l : list (option A)) : option (list A) :=
    match l with
    | [] => Some []
    | Some x :: t => match all_some t with Some r => Some (x :: r) | None => None end
    | None :: _ => None
    end.

  (** [Prove]: [None] = error *)
  Definition Prove (m : mstate) (hs : list H) : option (list N * list H) :=
    match all_some (map (cached_get (ms_cached m)) hs) with
    | None => None
    | Some orig =>
        let targets := sortN orig in
        let '(proofPos, _) := ProofPositions_fast targets (ms_n m) (ms_total m) in
        match all_some (map (fun p => match nodes_get (ms_nodes m) p with
                                      | Some (h, _) => Some h | None => None end) proofPos) with
        | None => None
        | Some hashes =>
            let tr := TreeRows (ms_n m) in
            let orig' := if ms_total m =? tr then orig
                         else map (fun p => translatePos p (ms_total m) tr) orig in
            Some (orig', hashes)
        end
    end.

  (** [trimProofPos]: the prefix of positions that are in the forest (minimal geometry) *)
  Fixpoint trimProofPos (n rows : N) (l : list N) : list N :=
    match l with
    | [] => []
    | p :: t => if inForest p n rows then p :: trimProofPos n rows t else []
    end.

  (** [GetMissingPositions] *)
  Definition GetMissingPositions (m : mstate) (origTargets : list N) : list N :=
    match origTargets with
    | [] => []
    | _ =>
        let tr := TreeRows (ms_n m) in
        let targets := sortN origTargets in
        let '(pp, _) := ProofPositions_fast targets (ms_n m) tr in
        let pp' := if tr =? ms_total m then pp else translatePositions pp tr (ms_total m) in
        let missing := filter (fun p => match nodes_get (ms_nodes m) p with Some _ => false | None => true end) pp' in
        if tr =? ms_total m then missing
        else trimProofPos (ms_n m) tr (translatePositions missing (ms_total m) tr)
    end.

  (** [VerifyPartialProof] (remember = false): fill in the stored hashes, then [verify] *)
  Fixpoint fill_proof (nodes : list (N * (H * bool))) (pps : list N) (given : list H)
    : option (list H) :=
    match pps with
    | [] => Some []
    | p :: t =>
        let stored := match nodes_get nodes p with Some (h, _) => h | None => empty end in
        if Heqb stored empty then
          match given with
          | [] => None
          | g :: gs => match fill_proof nodes t gs with Some r => Some (g :: r) | None => None end
          end
        else match fill_proof nodes t given with Some r => Some (stored :: r) | None => None end
    end.
  Definition map_verify (m : mstate) (hs : list H) (ts : list N) (pf : list H) : outcome (list nat) :=
    let tr := TreeRows (ms_n m) in
    let total := ms_total m in
    if tr =? total then Verify HO true (getStump m) hs ts pf
    else if forallb (fun t => if t <=? maxPosition tr then true
                              else let row := DetectRow t total in
                                   negb (tr <? row) &&
                                   (sub64 t (startPositionAtRow row total) <? shl 1 (sub8 tr row))) ts
         then Verify HO true (getStump m) hs (translatePositions ts total tr) pf
         else Err.
  Definition VerifyPartialProof (m : mstate) (origTargets : list N) (delHashes proofHashes : list H)
    : outcome (list nat) :=
    let tr := TreeRows (ms_n m) in
    let targets := sortN origTargets in
    let '(pp, _) := ProofPositions_fast targets (ms_n m) tr in
    let pp' := if tr =? ms_total m then pp else translatePositions pp tr (ms_total m) in
    match fill_proof (ms_nodes m) pp' proofHashes with
    | None => Err
    | Some all => map_verify m delHashes origTargets all
    end.
End MapRead.
