(** Mirror of the TTL generation of the caching-schedule tracker of prove.go
    ([type CachingScheduleTracker], [AddBlockSummary] with [delRootInfo] / [rootInfoToDestroy] /
    [addRootInfo], and [genTTLs] with the position-only [undoAdd] / [undoSingleAdd] / [undoDel] /
    [moveDownPositions] / [getPrevPos], prove.go:1422-1806) and of [subtreeRow] (utils.go).
    The eviction loop that consumes the TTLs is Model/Evict.v.  Entry points:
    [ttl_empty], [ttl_add_block_summary], [ttl_gen], [ttl_run]; the oracle re-computes the TTLs of every
    C15 history with them (event [TTLM] of oracle/main.ml) and compares with [cs.ttls] entry by entry,
    in the order Go produces.

    Conventions
    - [uint64] / [uint8] values are [N] with the wrap-around written out ([add64], [sub64], [add8]);
      [numAdds : uint16] is an [N] (< 65536 for the caller); the [int] block indexes are [nat]; a ttl
      ([int], a difference of two block indexes) is a [Z];
    - a Go slice is a list in slice order; the parallel slices of the tracker are parallel lists;
    - a slice the Go code pops from its end ([roots] in [rootInfoToDestroy] / [addRootInfo]) is kept
      REVERSED inside the loop (a stack, head = last element);
    - slices that Go mutates in place are returned; [for j, pos := range positions { positions[j] = f pos }]
      is [map f] (the loop writes only the element it has just read);
    - [copySortedFunc(_, uint64Cmp)] is [sortN]; [slices.Sort] on [[]int] is [sortNat] (the sorted
      result is unique, stability is irrelevant); [slices.Index] is [indexN] (first occurrence);
    - [xy [][2]int]: only component 0 (the block of the deletion) is ever read; the mirror keeps that;
    - a panic of the Go code is [None]: [roots[len(roots)-1]] on an empty slice, an index beyond
      [xy] / [cached], [slices.Delete] out of range, and a tracker whose parallel slices have different
      lengths (Go then either panics on an index or silently ignores the surplus; [AddBlockSummary]
      appends to all five slices together, so this is unreachable through the API);
    - [DetectOffset] errors are ignored by the Go code ([subtree, _, _, _ := ...]); the value is then 0
      ([subtree_of] of Model/ProofUpdate.v);
    - no Go map is involved anywhere in this code; every order below is the order of the Go slices.

    Definitions only; proofs are in Proofs/TTLSpec.v. *)
From Utreexo Require Export Model.Utils Model.ProofUpdate.
From Coq Require Import ZArith.
Open Scope N_scope.

(** [const CSTTotalRows = 63] *)
Definition CSTTotalRows : N := 63.

(** [type rootInfo struct { pos uint64; isZombie bool }] *)
Record rootInfo : Type := mkRI { ri_pos : N; ri_zombie : bool }.

(** [type CachingScheduleTracker struct] without [ttls] (the result of [genTTLs]) *)
Record tracker : Type := mkTracker {
  cs_deletions : list (list N);
  cs_numAdds : list N;
  cs_numLeaves : list N;
  cs_toDestroy : list (list N);
  cs_roots : list (list rootInfo)
}.

(** [NewCachingScheduleTracker(blockCount)] *)
Definition ttl_empty : tracker := mkTracker [] [] [] [] [].

(** * utils.go: [subtreeRow numLeaves subTree]

    [h] is a Go [int] running from [TreeRows(numLeaves)] down to -1; the result is [uint8(h)],
    255 when the subtree does not exist.  [fuel] counts the values [h], [h-1], ..., 0. *)
Fixpoint subtreeRow_loop (fuel : nat) (n subTree sawTrees : N) : N :=
  match fuel with
  | O => 255
  | S f =>
      let h := N.of_nat f in
      if rootExistsOnRow n h then
        if subTree =? u8 sawTrees then h
        else subtreeRow_loop f n subTree (sawTrees + 1)
      else subtreeRow_loop f n subTree sawTrees
  end.
Definition subtreeRow (n subTree : N) : N :=
  subtreeRow_loop (S (N.to_nat (TreeRows n))) n subTree 0.

(** * Root infos *)

(** [for h := uint8(0); (numLeaves>>h)&1 == 1; h++ { root := roots[len-1]; roots = roots[:len-1];
    if root.isZombie { deleted = append(deleted, rootPosition(numLeaves, h, totalRows)) } }];
    [st] is [roots] reversed, [del] is [deleted] reversed.  65 iterations suffice for a 64-bit word. *)
Fixpoint ritd_inner (fuel : nat) (total n h : N) (st : list rootInfo) (del : list N)
  : option (list rootInfo * list N) :=
  match fuel with
  | O => Some (st, del)
  | S f =>
      if and64 (shr n h) 1 =? 1 then
        match st with
        | [] => None
        | r :: st' =>
            ritd_inner f total n (add8 h 1) st'
                       (if ri_zombie r then rootPosition n h total :: del else del)
        end
      else Some (st, del)
  end.

(** [for i := uint64(0); i < numAdds; i++ { ...; roots = append(roots, rootInfo{}); numLeaves++ }] *)
Fixpoint ritd_loop (k : nat) (total n : N) (st : list rootInfo) (del : list N) : option (list N) :=
  match k with
  | O => Some (rev del)
  | S k' =>
      match ritd_inner 65 total n 0 st del with
      | None => None
      | Some (st', del') => ritd_loop k' total (add64 n 1) (mkRI 0 false :: st') del'
      end
  end.

(** [rootInfoToDestroy totalRows numAdds numLeaves origRoots] *)
Definition rootInfoToDestroy (total numAdds n : N) (origRoots : list rootInfo) : option (list N) :=
  if existsb ri_zombie origRoots
  then ritd_loop (N.to_nat numAdds) total n (rev origRoots) []
  else Some [].

(** [pos := numLeaves; for h := uint8(0); (numLeaves>>h)&1 == 1; h++ { roots = roots[:len-1];
    pos = Parent(pos, totalRows) }] *)
Fixpoint ari_inner (fuel : nat) (total n h pos : N) (st : list rootInfo)
  : option (list rootInfo * N) :=
  match fuel with
  | O => Some (st, pos)
  | S f =>
      if and64 (shr n h) 1 =? 1 then
        match st with
        | [] => None
        | _ :: st' => ari_inner f total n (add8 h 1) (Parent pos total) st'
        end
      else Some (st, pos)
  end.

Fixpoint ari_loop (k : nat) (total n : N) (st : list rootInfo) : option (list rootInfo * N) :=
  match k with
  | O => Some (rev st, n)
  | S k' =>
      match ari_inner 65 total n 0 n st with
      | None => None
      | Some (st', pos) => ari_loop k' total (add64 n 1) (mkRI pos false :: st')
      end
  end.

(** [addRootInfo totalRows origRoots numAdds numLeaves] : (roots, numLeaves) *)
Definition addRootInfo (total : N) (origRoots : list rootInfo) (numAdds n : N)
  : option (list rootInfo * N) :=
  ari_loop (N.to_nat numAdds) total n (rev origRoots).

(** [delRootInfo totalRows origRoots targets] *)
Definition delRootInfo (total : N) (origRoots : list rootInfo) (targets : list N) : list rootInfo :=
  match targets with
  | [] => origRoots
  | _ =>
      fold_left (fun roots pos =>
                   map (fun r => if ri_pos r =? pos then mkRI (ri_pos r) true else r) roots)
                (deTwin (sortN targets) total) origRoots
  end.

(** * [AddBlockSummary deletions numAdds]

    In the first block the deletions are stored as passed (not translated); [cs.numLeaves[len-1]] of
    a tracker with roots but without leaf counts (unreachable) reads as 0. *)
Definition ttl_add_block_summary (cs : tracker) (deletions : list N) (numAdds : N) : option tracker :=
  match cs_roots cs with
  | [] =>
      match addRootInfo CSTTotalRows [] numAdds 0 with
      | None => None
      | Some (newRoots, newNumLeaves) =>
          Some (mkTracker (cs_deletions cs ++ [deletions]) (cs_numAdds cs ++ [numAdds])
                          (cs_numLeaves cs ++ [newNumLeaves]) (cs_toDestroy cs ++ [[]])
                          (cs_roots cs ++ [newRoots]))
      end
  | _ =>
      let numLeaves := last (cs_numLeaves cs) 0 in
      let roots := last (cs_roots cs) [] in
      let rows := TreeRows numLeaves in
      let translatedDels := translatePositions deletions rows CSTTotalRows in
      let roots1 := delRootInfo CSTTotalRows roots translatedDels in
      match rootInfoToDestroy CSTTotalRows numAdds numLeaves roots1 with
      | None => None
      | Some toDestroy =>
          match addRootInfo CSTTotalRows roots1 numAdds numLeaves with
          | None => None
          | Some (newRoots, newNumLeaves) =>
              Some (mkTracker (cs_deletions cs ++ [translatedDels]) (cs_numAdds cs ++ [numAdds])
                              (cs_numLeaves cs ++ [newNumLeaves]) (cs_toDestroy cs ++ [toDestroy])
                              (cs_roots cs ++ [newRoots]))
          end
      end
  end.

(** * Undoing a block on a list of positions *)

(** [slices.Index(s, x)] *)
Fixpoint indexN (x : N) (l : list N) : option nat :=
  match l with
  | [] => None
  | y :: t => if y =? x then Some O
              else match indexN x t with Some k => Some (S k) | None => None end
  end.

(** [slices.Delete(s, k, k+1)] for an index in range *)
Definition delete_at {A : Type} (k : nat) (l : list A) : list A := firstn k l ++ skipn (S k) l.

(** [undoDel totalRows positions deleted numLeaves] (the function, not the method on [Proof]) *)
Definition undoDelPos (total : N) (positions deleted : list N) (n : N) : list N :=
  match deleted, positions with
  | [], _ => positions
  | _, [] => positions
  | _, _ =>
      fold_left
        (fun ps d =>
           let sibPos := Parent d total in
           map (fun pos =>
                  if negb (subtree_of (translatePos d total (TreeRows n)) n
                           =? subtree_of (translatePos pos total (TreeRows n)) n) then pos
                  else if isAncestor sibPos pos total || (sibPos =? pos)
                       then calcPrevPosition pos d total
                       else pos) ps)
        (rev (deTwin (sortN deleted) total)) positions
  end.

(** [moveDownPositions totalRows position delPos cached] on a slice of positions *)
Definition moveDownPositionsN (total position delPos : N) (cached : list N) : list N :=
  map (moveDownPosition total position delPos) cached.

(** the loop of [undoSingleAdd]: [for row := int(subtreeRows); row >= 0; row--]; [fuel] is [row + 1],
    so [row == 0] is [fuel = 1]. *)
Fixpoint usa_loop (fuel : nat) (total pos : N) (positions toDestroy : list N) (removed : option nat)
  : list N * list N * option nat :=
  match fuel with
  | O => (positions, toDestroy, removed)
  | S f =>
      let possibleRoot := LeftChild pos total in
      let '(positions1, toDestroy1) :=
        match indexN possibleRoot toDestroy with
        | Some k => (moveDownPositionsN total pos possibleRoot positions, delete_at k toDestroy)
        | None => (positions, toDestroy)
        end in
      let removed1 :=
        match f with
        | O => match indexN pos positions1 with Some k => Some k | None => removed end
        | S _ => removed
        end in
      usa_loop f total (RightChild pos total) positions1 toDestroy1 removed1
  end.

(** [undoSingleAdd totalRows positions toDestroy numLeaves] : (positions, toDestroy, removedPosIdx);
    [None] is Go's -1 *)
Definition undoSingleAdd (total : N) (positions toDestroy : list N) (n : N)
  : list N * list N * option nat :=
  let pos0 := sub64 n 1 in
  let subtree := subtree_of pos0 n in
  let subtreeRows := subtreeRow n subtree in
  let pos := rootPosition n subtreeRows total in
  usa_loop (S (N.to_nat subtreeRows)) total pos positions toDestroy None.

(** [for i := 0; i < int(numAdds); i++]; [created] is accumulated reversed *)
Fixpoint undoAdd_loop (k : nat) (total : N) (positions toDestroy : list N) (n : N)
         (created_rev : list nat) : list N * list nat :=
  match k with
  | O => (positions, rev created_rev)
  | S k' =>
      let '(positions1, toDestroy1, idx) := undoSingleAdd total positions toDestroy n in
      undoAdd_loop k' total positions1 toDestroy1 (sub64 n 1)
                   (match idx with Some i => i :: created_rev | None => created_rev end)
  end.

(** [undoAdd totalRows positions origToDestroy numAdds numLeaves] : (positions, created) *)
Definition undoAddPos (total : N) (positions origToDestroy : list N) (numAdds n : N)
  : list N * list nat :=
  undoAdd_loop (N.to_nat numAdds) total positions (sortN origToDestroy) n [].

(** [getPrevPos totalRows cached deleted toDestroy numAdds numLeaves] (not called by [genTTLs], which
    inlines it to read the created positions between the two steps) *)
Definition getPrevPos (total : N) (cached deleted toDestroy : list N) (numAdds n : N)
  : list N * list nat :=
  let '(cached1, created) := undoAddPos total cached toDestroy numAdds n in
  (undoDelPos total cached1 deleted (sub64 n numAdds), created).

(** * [genTTLs] *)

(** [slices.Sort] on [[]int] *)
Fixpoint insertNat (x : nat) (l : list nat) : list nat :=
  match l with
  | [] => [x]
  | y :: t => if Nat.leb x y then x :: l else y :: insertNat x t
  end.
Definition sortNat (l : list nat) : list nat := fold_right insertNat [] l.

(** "Set ttls": [for j := len(createdIdxs)-1; j >= 0; j-- { idx := createdIdxs[j];
    ttls[i] = append(ttls[i], ttlInfo{pos: cached[idx], ttl: xy[idx][0] - i}) }]; the argument is
    [createdIdxs] reversed *)
Fixpoint set_ttls (i : nat) (cached : list N) (xy : list nat) (created_rev : list nat)
  : option (list (N * Z)) :=
  match created_rev with
  | [] => Some []
  | idx :: rest =>
      match nth_error xy idx, nth_error cached idx, set_ttls i cached xy rest with
      | Some deletedAt, Some pos, Some r => Some ((pos, (Z.of_nat deletedAt - Z.of_nat i)%Z) :: r)
      | _, _, _ => None
      end
  end.

(** "Remove the created positions from the cache":
    [for k, idx := range createdIdxs { useIdx := idx - k; cached = slices.Delete(cached, useIdx, useIdx+1);
    xy = slices.Delete(xy, useIdx, useIdx+1) }] over the SORTED indexes *)
Fixpoint remove_created (k : nat) (sorted : list nat) (cached : list N) (xy : list nat)
  : option (list N * list nat) :=
  match sorted with
  | [] => Some (cached, xy)
  | idx :: rest =>
      if Nat.ltb idx k then None
      else
        let useIdx := (idx - k)%nat in
        if Nat.ltb useIdx (length cached) && Nat.ltb useIdx (length xy)
        then remove_created (S k) rest (delete_at useIdx cached) (delete_at useIdx xy)
        else None
  end.

(** one block of the tracker as [genTTLs] reads it *)
Record blockSummary : Type := mkBS {
  bs_deletions : list N; bs_numAdds : N; bs_numLeaves : N; bs_toDestroy : list N
}.

(** body of [for i := len(cs.deletions) - 1; i >= 0; i--]: (ttls[i], cached, xy) *)
Definition gen_step (i : nat) (b : blockSummary) (cached : list N) (xy : list nat)
  : option (list (N * Z) * list N * list nat) :=
  let '(cached1, createdIdxs) :=
    undoAddPos CSTTotalRows cached (bs_toDestroy b) (bs_numAdds b) (bs_numLeaves b) in
  match set_ttls i cached1 xy (rev createdIdxs) with
  | None => None
  | Some ttls =>
      match remove_created 0 (sortNat createdIdxs) cached1 xy with
      | None => None
      | Some (cached2, xy2) =>
          let cached3 := undoDelPos CSTTotalRows cached2 (bs_deletions b)
                                    (sub64 (bs_numLeaves b) (bs_numAdds b)) in
          Some (ttls, cached3 ++ bs_deletions b, xy2 ++ map (fun _ => i) (bs_deletions b))
      end
  end.

(** the loop, newest block first; [blocks_rev] is the not yet visited prefix reversed, so the index
    of its head is the length of its tail; the result is in block order *)
Fixpoint gen_loop (blocks_rev : list blockSummary) (cached : list N) (xy : list nat)
         (acc : list (list (N * Z))) : option (list (list (N * Z))) :=
  match blocks_rev with
  | [] => Some acc
  | b :: rest =>
      match gen_step (length rest) b cached xy with
      | None => None
      | Some (ttls, cached', xy') => gen_loop rest cached' xy' (ttls :: acc)
      end
  end.

Fixpoint zip_blocks (ds : list (list N)) (na nl : list N) (td : list (list N)) : list blockSummary :=
  match ds, na, nl, td with
  | d :: ds', a :: na', l :: nl', t :: td' => mkBS d a l t :: zip_blocks ds' na' nl' td'
  | _, _, _, _ => []
  end.

Definition tracker_blocks (cs : tracker) : list blockSummary :=
  zip_blocks (cs_deletions cs) (cs_numAdds cs) (cs_numLeaves cs) (cs_toDestroy cs).

(** [genTTLs]: [cs.ttls] afterwards, [ttls[i]] in append order *)
Definition ttl_gen (cs : tracker) : option (list (list (N * Z))) :=
  let k := length (cs_deletions cs) in
  if Nat.eqb (length (cs_numAdds cs)) k && Nat.eqb (length (cs_numLeaves cs)) k
     && Nat.eqb (length (cs_toDestroy cs)) k
  then gen_loop (rev (tracker_blocks cs)) [] [] []
  else None.

(** [AddBlockSummary] for every (targets, numAdds) of a history, then [genTTLs] *)
Fixpoint ttl_summaries (cs : tracker) (hist : list (list N * N)) : option tracker :=
  match hist with
  | [] => Some cs
  | (dels, numAdds) :: rest =>
      match ttl_add_block_summary cs dels numAdds with
      | None => None
      | Some cs' => ttl_summaries cs' rest
      end
  end.

Definition ttl_run (hist : list (list N * N)) : option (list (list (N * Z))) :=
  match ttl_summaries ttl_empty hist with
  | None => None
  | Some cs => ttl_gen cs
  end.
