(** Mirror of the verifier: [calculateHashes] (prove.go), [Verify], [Stump.del/add/Update],
    [rootsToDestory] (stump.go), [Pollard.Verify]'s root matching (prove.go).

    The functions are state-passing and return an [outcome] so that "rejects", "panics" (an index
    out of range) and "does not terminate within the fuel" are different observable results.

    [strict = true] is the code as it is in /repo now (after the [fix:] commits);
    [strict = false] is the code as it was at the pinned commit and is only used to state the
    [..._refuted] witnesses. *)
From Utreexo Require Export Base.Hash Model.Utils.
Set Implicit Arguments.
Open Scope N_scope.

Inductive outcome (A : Type) := Ok (a : A) | Err | Panic | OutOfFuel.
Arguments Err {A}. Arguments Panic {A}. Arguments OutOfFuel {A}.

Section Verify.
  Variable H : Type.
  Variable HO : ops H.
  Notation hash2 := (op_hash2 HO).
  Notation empty := (op_empty HO).
  Notation Heqb := (op_eqb HO).

  Definition hp := (N * H)%type.

  (** [getNextHash] *)
  Definition getNextHash (p : N) (h sib : H) : H :=
    if Heqb h empty then sib
    else if Heqb sib empty then h
    else if isLeftNiece p then hash2 h sib else hash2 sib h.

  (** [mergeSortedHashAndPos a b] *)
  Fixpoint merge_hp (fuel : nat) (a b : list hp) : list hp :=
    match fuel with
    | O => []
    | S f =>
        match a, b with
        | [], _ => b
        | _, [] => a
        | x :: a', y :: b' =>
            if fst x <? fst y then x :: merge_hp f a' b
            else if fst y <? fst x then y :: merge_hp f a b'
            else x :: merge_hp f a' b'
        end
    end.
  Definition mergeSortedHashAndPos (a b : list hp) : list hp :=
    merge_hp (S (length a + length b)) a b.

  (** [nextLeastSlice] on the two queues: 0 = first, 1 = second, 2 = none *)
  Definition nextLeast (q1 q2 : list hp) : N :=
    match q1, q2 with
    | x :: _, y :: _ => if fst x <? fst y then 0 else 1
    | _ :: _, [] => 0
    | [], _ :: _ => 1
    | [], [] => 2
    end.

  (** inner loop [for provePos > maxPos { row++ ... }]; [None] = fuel exhausted,
      [Some None] = strict bound hit *)
  Fixpoint row_loop (strict : bool) (fuel : nat) (p row total n : N) : option (option N) :=
    match fuel with
    | O => None
    | S f =>
        if fst (maxPositionAtRow row total n) <? p then
          let row' := add8 row 1 in
          if strict && (total <? row') then Some None
          else row_loop strict f p row' total n
        else Some (Some row)
    end.

  Record cstate := mkC {
    c_row : N; c_tp : list hp; c_np : list hp; c_all : list hp; c_proof : list H;
    c_prev : option N; c_roots : list H; c_rows : list N }.

  Definition calc_result := (list hp * list H * list N)%type.

  (** the main loop of [calculateHashes] *)
  Fixpoint calc_loop (strict : bool) (fuel : nat) (n total : N) (st : cstate)
                     (tp_all : list hp) : outcome calc_result :=
    match fuel with
    | O => OutOfFuel
    | S f =>
        let finish := Ok (mergeSortedHashAndPos (c_all st) tp_all, c_roots st, c_rows st) in
        if total <? c_row st then finish
        else
          let idx := nextLeast (c_tp st) (c_np st) in
          if idx =? 2 then finish
          else
            (* pop the element *)
            let '(p, h, tp1, np1) :=
              match idx, c_tp st, c_np st with
              | 0, x :: t, q => (fst x, snd x, t, q)
              | _, q, x :: t => (fst x, snd x, q, t)
              | _, _, _ => (0, empty, [], [])  (* unreachable *)
              end in
            (* look for the sibling *)
            let sidx0 := nextLeast tp1 np1 in
            let sidx :=
              match sidx0, tp1, np1 with
              | 0, x :: _, _ => if rightSib p =? fst x then 0 else 2
              | 1, _, x :: _ => if rightSib p =? fst x then 1 else 2
              | _, _, _ => 2
              end in
            if strict && (match c_prev st with Some q => p <=? q | None => false end) then Err
            else
              match row_loop strict 300 p (c_row st) total n with
              | None => OutOfFuel
              | Some None => Err
              | Some (Some row) =>
                  if isRootPositionOnRow p n row then
                    calc_loop strict f n total
                      (mkC row tp1 np1 (c_all st) (c_proof st) (Some p)
                           (c_roots st ++ [h]) (c_rows st ++ [row])) tp_all
                  else if strict && negb (sidx =? 2) && negb (isLeftNiece p) then Err
                  else
                    let par := Parent p total in
                    match sidx, tp1, np1 with
                    | 0, x :: tp2, _ =>
                        let e := (par, getNextHash p h (snd x)) in
                        calc_loop strict f n total
                          (mkC row tp2 (np1 ++ [e]) (c_all st ++ [e]) (c_proof st)
                               (Some (rightSib p)) (c_roots st) (c_rows st)) tp_all
                    | 1, _, x :: np2 =>
                        let e := (par, getNextHash p h (snd x)) in
                        calc_loop strict f n total
                          (mkC row tp1 (np2 ++ [e]) (c_all st ++ [e]) (c_proof st)
                               (Some (rightSib p)) (c_roots st) (c_rows st)) tp_all
                    | _, _, _ =>
                        match c_proof st with
                        | [] => Err
                        | ph :: prest =>
                            let e := (par, getNextHash p h ph) in
                            calc_loop strict f n total
                              (mkC row tp1 (np1 ++ [e]) (c_all st ++ [e]) prest
                                   (Some p) (c_roots st) (c_rows st)) tp_all
                        end
                    end
              end
    end.

  (** fuel: every iteration consumes a target or a queue element; a target creates at most
      [rows + 1] queue elements *)
  Definition calc_fuel (k : nat) (total : N) : nat := (S k) * (N.to_nat total + 3).

  Fixpoint zip_hp (ts : list N) (hs : list H) : list hp :=
    match ts, hs with
    | t :: ts', h :: hs' => (t, h) :: zip_hp ts' hs'
    | _, _ => []
    end.

  (** [calculateHashes numLeaves delHashes proof]; [hashes = None] is Go's [nil]
      (targets get the all-zero hash) *)
  Definition calculateHashes (strict : bool) (n : N) (hashes : option (list H))
             (targets : list N) (proof : list H) : outcome calc_result :=
    let total := TreeRows n in
    let hs := match hashes with
              | Some l => l
              | None => map (fun _ => empty) targets
              end in
    (* toHashAndPos copies [len] of each slice; a shorter hash slice panics in sort.Swap -
       callers check the lengths first, the mirror reports Panic *)
    if negb (Nat.eqb (length hs) (length targets)) then Panic
    else
      let tp := sortK (zip_hp targets hs) in
      calc_loop strict (calc_fuel (length targets) total) n total
                (mkC 0 tp [] [] proof None [] []) tp.

  Fixpoint has_empty (l : list H) : bool :=
    match l with [] => false | x :: t => Heqb x empty || has_empty t end.

  (** root index of the tree of a given row: number of set bits above that row *)
  Definition rootIndexForRow (n row : N) : nat := N.to_nat (numRoots (shr n (add8 row 1))).

  (** the pinned commit's greedy matching: walk the roots from the last to the first *)
  Fixpoint greedy_match (roots_rev : list (nat * H)) (cands : list H) : list nat :=
    match roots_rev with
    | [] => []
    | (i, r) :: t =>
        match cands with
        | c :: cs => if Heqb r c then i :: greedy_match t cs else greedy_match t cands
        | [] => []
        end
    end.
  Fixpoint index_from (i : nat) (l : list H) : list (nat * H) :=
    match l with [] => [] | x :: t => (i, x) :: index_from (S i) t end.

  Fixpoint strict_match (n : N) (roots : list H) (cands : list H) (rows : list N) : list nat :=
    match cands, rows with
    | c :: cs, r :: rs =>
        let idx := rootIndexForRow n r in
        match nth_error roots idx with
        | Some x => if Heqb x c then idx :: strict_match n roots cs rs
                    else strict_match n roots cs rs
        | None => strict_match n roots cs rs
        end
    | _, _ => []
    end.

  Record stump := mkStump { st_roots : list H; st_n : N }.

  (** [Verify]: the indexes of the matched roots *)
  Definition Verify (strict : bool) (s : stump) (hashes : list H) (targets : list N)
             (proof : list H) : outcome (list nat) :=
    if negb (Nat.eqb (length hashes) (length targets)) then Err
    else if strict && (has_empty hashes || has_empty proof) then Err
    else
      match calculateHashes strict (st_n s) (Some hashes) targets proof with
      | Ok (_, cands, rows) =>
          let idxs := if strict then strict_match (st_n s) (st_roots s) cands rows
                      else greedy_match (rev (index_from 0 (st_roots s))) cands in
          if Nat.eqb (length cands) (length idxs) then Ok idxs else Err
      | Err => Err | Panic => Panic | OutOfFuel => OutOfFuel
      end.

  (** [Pollard.Verify]: same computation against the forest's root hashes *)
  Definition PollardVerify (strict : bool) (s : stump) (hashes : list H) (targets : list N)
             (proof : list H) : outcome unit :=
    match hashes with
    | [] => Ok tt
    | _ =>
        if negb (Nat.eqb (length hashes) (length targets)) then Err
        else if strict && (has_empty hashes || has_empty proof) then Err
        else
          match calculateHashes strict (st_n s) (Some hashes) targets proof with
          | Ok (_, cands, rows) =>
              match cands with
              | [] => Err
              | _ =>
                  let idxs := if strict then strict_match (st_n s) (st_roots s) cands rows
                              else greedy_match (rev (index_from 0 (st_roots s))) cands in
                  if Nat.eqb (length cands) (length idxs) then Ok tt else Err
              end
          | Err => Err | Panic => Panic | OutOfFuel => OutOfFuel
          end
    end.

  Fixpoint set_nth (i : nat) (x : H) (l : list H) : option (list H) :=
    match i, l with
    | O, _ :: t => Some (x :: t)
    | S j, y :: t => match set_nth j x t with Some t' => Some (y :: t') | None => None end
    | _, [] => None
    end.
  Fixpoint write_roots (roots : list H) (idxs : list nat) (vals : list H) : option (list H) :=
    match idxs, vals with
    | i :: is, v :: vs =>
        match set_nth i v roots with
        | Some r' => write_roots r' is vs
        | None => None
        end
    | _, _ => Some roots
    end.

  (** [Stump.del]: new state, intermediate (positions, hashes) *)
  Definition stump_del (strict : bool) (s : stump) (hashes : list H) (targets : list N)
             (proof : list H) : stump * outcome (list hp) :=
    match Verify strict s hashes targets proof with
    | Ok idxs =>
        match calculateHashes strict (st_n s) None targets proof with
        | Ok (inter, modified, _) =>
            if negb (Nat.eqb (length modified) (length idxs)) then (s, Err)
            else match write_roots (st_roots s) idxs modified with
                 | Some r' => (mkStump r' (st_n s), Ok inter)
                 | None => (s, Panic)
                 end
        | Err => (s, Err) | Panic => (s, Panic) | OutOfFuel => (s, OutOfFuel)
        end
    | Err => (s, Err) | Panic => (s, Panic) | OutOfFuel => (s, OutOfFuel)
    end.

  (** [rootsToDestory numAdds numLeaves roots] *)
  Fixpoint rtd_chain (fuel : nat) (n h rowsAfter : N) (roots_rev : list H)
    : list N * list H :=
    match fuel with
    | O => ([], roots_rev)
    | S f =>
        if and64 (shr n h) 1 =? 1 then
          match roots_rev with
          | r :: rest =>
              let '(d, rr) := rtd_chain f n (add8 h 1) rowsAfter rest in
              ((if Heqb r empty then [rootPosition n h rowsAfter] else []) ++ d, rr)
          | [] => ([], [])     (* index out of range in Go; unreachable for well-formed stumps *)
          end
        else ([], roots_rev)
    end.
  Fixpoint rtd_loop (k : nat) (n rowsAfter : N) (roots_rev : list H) (filler : H) : list N :=
    match k with
    | O => []
    | S k' =>
        let '(d, rr) := rtd_chain 65 n 0 rowsAfter roots_rev in
        d ++ rtd_loop k' (n + 1) rowsAfter (filler :: rr) filler
    end.
  (** [filler] is any non-empty hash (Go uses Hash{1}) *)
  Definition rootsToDestroy (filler : H) (numAdds : nat) (n : N) (roots : list H) : list N :=
    if has_empty roots
    then rtd_loop numAdds n (TreeRows (n + N.of_nat numAdds)) (rev roots) filler
    else [].

  (** the [updatedNodes] map of [Stump.add], keyed by hash *)
  Fixpoint map_put (m : list (H * N)) (h : H) (p : N) : list (H * N) :=
    match m with
    | [] => [(h, p)]
    | (k, v) :: t => if Heqb k h then (k, p) :: t else (k, v) :: map_put t h p
    end.

  Fixpoint lift_pos (dels : list N) (p afterRows : N) : N :=
    match dels with
    | [] => p
    | d :: t =>
        let p' := if isAncestor (Parent d afterRows) p afterRows
                  then match calcNextPosition p d afterRows with Some q => q | None => 0 end
                  else p in
        lift_pos t p' afterRows
    end.

  Fixpoint add_chain (fuel : nat) (n h afterRows : N) (roots_rev : list H) (acc : H) (p : N)
           (m : list (H * N)) : list H * H * list (H * N) :=
    match fuel with
    | O => (roots_rev, acc, m)
    | S f =>
        if and64 (shr n h) 1 =? 1 then
          match roots_rev with
          | r :: rest =>
              if Heqb r empty then add_chain f n (add8 h 1) afterRows rest acc p m
              else
                let m1 := map_put (map_put m r (leftSib p)) acc p in
                add_chain f n (add8 h 1) afterRows rest (hash2 r acc) (Parent p afterRows) m1
          | [] => ([], acc, m)
          end
        else (roots_rev, acc, m)
    end.

  Fixpoint add_loop (strict : bool) (filler : H) (adds : list H) (n afterRows : N)
           (roots_rev : list H) (m : list (H * N)) : list H * N * list (H * N) :=
    match adds with
    | [] => (roots_rev, n, m)
    | a :: rest =>
        let deleted := rootsToDestroy filler (length adds) n (rev roots_rev) in
        let p := lift_pos deleted n afterRows in
        let m0 := if strict then map_put m a p else m in
        let '(rr, acc, m1) := add_chain 65 n 0 afterRows roots_rev a p m0 in
        add_loop strict filler rest (n + 1) afterRows (acc :: rr) m1
    end.

  (** [Stump.add]: new stump, (positions, hashes) sorted by position, destroyed roots *)
  Definition stump_add (strict : bool) (filler : H) (s : stump) (adds : list H)
    : stump * list hp * list N :=
    let afterRows := TreeRows (st_n s + N.of_nat (length adds)) in
    let allDeleted := rootsToDestroy filler (length adds) (st_n s) (st_roots s) in
    let '(rr, n', m) := add_loop strict filler adds (st_n s) afterRows (rev (st_roots s)) [] in
    (mkStump (rev rr) n', sortK (map (fun e => (snd e, fst e)) m), allDeleted).

  Record UpdateData := mkUpd {
    u_to_destroy : list N; u_prev : N;
    u_del : list hp; u_add : list hp }.

  (** [Stump.Update] *)
  Definition stump_update (strict : bool) (filler : H) (s : stump) (delHashes adds : list H)
             (targets : list N) (proof : list H) : stump * outcome UpdateData :=
    match stump_del strict s delHashes targets proof with
    | (s1, Ok inter) =>
        let '(s2, added, destroyed) := stump_add strict filler s1 adds in
        (s2, Ok (mkUpd destroyed (st_n s1) inter added))
    | (s1, Err) => (s1, Err)
    | (s1, Panic) => (s1, Panic)
    | (s1, OutOfFuel) => (s1, OutOfFuel)
    end.

End Verify.
