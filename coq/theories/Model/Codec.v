(** Executable mirrors of the two serialization formats of /repo over [list byte]:
      [Pollard.WriteTo] / [writeOne] / [RestorePollardFrom] / [readOne] / [SerializeSize]
      (/repo/pollard.go, /repo/polnode.go) and [MapPollard.Write] / [MapPollard.Read]
      (/repo/mappollard.go).  Definitions only; proofs are in Proofs/CodecRT.v.

    Conventions.
    - A byte is an [N]; [is_byte b := b < 256].  Hash data is opaque to both codecs (copied, never
      interpreted), so the theorems need [is_byte] nowhere; only the little-endian integer fields
      are constrained ([< 2^64], rows [< 256]).
    - The object stored by [WriteTo] is the NIECE tree: [PNode data leaf nieces].  [leaf] is the
      leaf-flag byte of the record ([getChildren] returned [nil, nil]); [nieces] is [Some] iff
      both niece pointers are non-nil.  [readOne] rebuilds exactly [data] and the niece pointers
      and uses the leaf flag only to decide whether the node enters [NodeMap]; the decoded image
      keeps the flag so that nothing of the stream is forgotten.
    - [NodeMap] (keyed by [Hash.mini()], the first 12 bytes) is not built during the walk: its
      size is recomputed from the decoded image as the number of distinct 12-byte prefixes among
      the records with leaf flag 1 and non-zero data, in stream order ([nodemap_size]).
    - The two Go maps of a [MapPollard] are association lists in stream order; the reader applies
      [Put] in stream order ([put_all]: a later duplicate key overwrites the value in place).
      [MapPollard.Read] is modelled on a freshly constructed receiver (empty maps).
    - Results are [Ok v | Err | OutOfFuel].  There is no panic outcome: neither reader indexes a
      slice with a data-dependent index and [make([]*polNode, numRoots(..))] is bounded by 64.
      [OutOfFuel] is an artefact of structural recursion; Proofs/CodecRT.v shows that it never
      arises with the fuel the entry points use.
    - An [io.Reader] is an abstract state [R] with [rf k r] = [io.ReadFull(r, buf[:k])].  Two
      instances: plain byte lists ([take_rf]) and chunked readers ([read_full], which loops over
      [Read] calls whose sizes come from a chunk oracle, as [io.ReadAtLeast] does).
    - An [io.Writer] that fails is a byte budget [lim]: a [Write] that would cross it fails. *)
From Utreexo Require Import Base.Bits64 Base.Hash Spec.Forest.
Open Scope N_scope.

Definition byte := N.
Definition is_byte (b : byte) : Prop := b < 256.
Definition b2n (b : bool) : byte := if b then 1 else 0.

Inductive res (A : Type) : Type := Ok (a : A) | Err | OutOfFuel.
Arguments Ok {A} a.
Arguments Err {A}.
Arguments OutOfFuel {A}.

(** ** Little-endian integers *)
Fixpoint le_bytes (n : nat) (x : N) : list byte :=
  match n with
  | O => []
  | S k => x mod 256 :: le_bytes k (x / 256)
  end.
(** [binary.LittleEndian.Uint64] (on any number of bytes) *)
Fixpoint le_value (l : list byte) : N :=
  match l with
  | [] => 0
  | b :: t => b + 256 * le_value t
  end.
(** [binary.LittleEndian.PutUint64] *)
Definition u64le (x : N) : list byte := le_bytes 8 x.
Definition get_u64le (l : list byte) : option (N * list byte) :=
  if Nat.leb 8 (length l) then Some (le_value (firstn 8 l), skipn 8 l) else None.

(** ** Byte strings *)
Definition zeros32 : list byte := repeat 0 32.
(** [data == empty] for a 32-byte array *)
Definition is_zeros (d : list byte) : bool := forallb (N.eqb 0) d.
Fixpoint bytes_eqb (a b : list byte) : bool :=
  match a, b with
  | [], [] => true
  | x :: a', y :: b' => (x =? y) && bytes_eqb a' b'
  | _, _ => false
  end.
Fixpoint mem_bytes (x : list byte) (l : list (list byte)) : bool :=
  match l with
  | [] => false
  | y :: t => bytes_eqb x y || mem_bytes x t
  end.
Fixpoint dedup_bytes (l : list (list byte)) : list (list byte) :=
  match l with
  | [] => []
  | x :: t => if mem_bytes x t then dedup_bytes t else x :: dedup_bytes t
  end.
(** [Hash.mini()] *)
Definition mini (d : list byte) : list byte := firstn 12 d.

(** ** Go maps as association lists *)
Section Assoc.
  Variables K V : Type.
  Variable eqb : K -> K -> bool.
  (** [m.Put(k, v)]: overwrite in place, else append *)
  Fixpoint put (k : K) (v : V) (m : list (K * V)) : list (K * V) :=
    match m with
    | [] => [(k, v)]
    | (k', v') :: t => if eqb k k' then (k, v) :: t else (k', v') :: put k v t
    end.
  Definition put_all (l : list (K * V)) : list (K * V) :=
    fold_left (fun m kv => put (fst kv) (snd kv) m) l [].
  Fixpoint assoc (k : K) (m : list (K * V)) : option V :=
    match m with
    | [] => None
    | (k', v) :: t => if eqb k k' then Some v else assoc k t
    end.
End Assoc.
Arguments put {K V} eqb k v m.
Arguments put_all {K V} eqb l.
Arguments assoc {K V} eqb k m.

(** ** The pointer forest image *)
Inductive ptree : Type :=
  PNode (data : list byte) (leaf : bool) (nieces : option (ptree * ptree)).

Record pimage : Type := mkPimage {
  p_numleaves : N;
  p_numdels : N;
  p_roots : list ptree }.

(** [getCount] *)
Fixpoint ptree_count (t : ptree) : nat :=
  match t with
  | PNode _ _ None => 1
  | PNode _ _ (Some (l, r)) => ptree_count l + 1 + ptree_count r
  end.
Fixpoint ptree_height (t : ptree) : nat :=
  match t with
  | PNode _ _ None => 0
  | PNode _ _ (Some (l, r)) => S (Nat.max (ptree_height l) (ptree_height r))
  end.
(** [GetTotalCount] *)
Definition node_count (img : pimage) : nat :=
  fold_right (fun t acc => (ptree_count t + acc)%nat) 0%nat (p_roots img).
(** [SerializeSize] *)
Definition serialize_size (img : pimage) : nat :=
  (node_count img * 32 + 16 + node_count img * 2)%nat.

(** data of the records that [readOne] puts into [NodeMap], in stream (pre-)order *)
Fixpoint ptree_leaf_hashes (t : ptree) : list (list byte) :=
  match t with
  | PNode d lf nc =>
      (if lf && negb (is_zeros d) then [d] else []) ++
      match nc with
      | None => []
      | Some (l, r) => ptree_leaf_hashes l ++ ptree_leaf_hashes r
      end
  end.
Definition pimage_leaf_hashes (img : pimage) : list (list byte) :=
  flat_map ptree_leaf_hashes (p_roots img).
Definition pimage_minis (img : pimage) : list (list byte) :=
  map mini (pimage_leaf_hashes img).
(** number of records that enter [NodeMap] *)
Definition count_leaves (img : pimage) : nat := length (pimage_leaf_hashes img).
(** [len(p.NodeMap)] after all the [Put]s *)
Definition nodemap_size (img : pimage) : nat := length (dedup_bytes (pimage_minis img)).

(** *** Writer: [writeOne], [WriteTo] *)
Fixpoint enc_ptree (t : ptree) : list byte :=
  match t with
  | PNode d lf nc =>
      d ++ [b2n lf] ++
      match nc with
      | None => [0]
      | Some (l, r) => [1] ++ enc_ptree l ++ enc_ptree r
      end
  end.
Definition enc_roots (ts : list ptree) : list byte := flat_map enc_ptree ts.
Definition encode_pollard (img : pimage) : list byte :=
  u64le (p_numleaves img) ++ u64le (p_numdels img) ++ enc_roots (p_roots img).

(** the exact sequence of [w.Write] calls *)
Fixpoint chunks_ptree (t : ptree) : list (list byte) :=
  match t with
  | PNode d lf nc =>
      d :: [b2n lf] ::
      match nc with
      | None => [[0]]
      | Some (l, r) => [1] :: chunks_ptree l ++ chunks_ptree r
      end
  end.
Definition chunks_pollard (img : pimage) : list (list byte) :=
  u64le (p_numleaves img) :: u64le (p_numdels img) :: flat_map chunks_ptree (p_roots img).

(** a sink that accepts [lim] bytes in total; [written] = bytes accepted so far.  The count
    returned on success is the sum of the counts returned by the [Write] calls. *)
Fixpoint write_from (lim written : nat) (cs : list (list byte)) : res nat :=
  match cs with
  | [] => Ok written
  | c :: t =>
      if Nat.leb (written + length c) lim then write_from lim (written + length c) t else Err
  end.
Definition write_with_limit (lim : nat) (cs : list (list byte)) : res nat := write_from lim 0 cs.

(** ** The map forest image *)
Record mimage : Type := mkMimage {
  m_rows : N;
  m_numleaves : N;
  m_cached : list (list byte * N);            (* CachedLeaves: hash -> position *)
  m_nodes : list (N * (list byte * bool)) }.  (* Nodes: position -> Leaf{Hash, Remember} *)

Definition enc_cached (cs : list (list byte * N)) : list byte :=
  flat_map (fun e => fst e ++ u64le (snd e)) cs.
Definition enc_nodes (ns : list (N * (list byte * bool))) : list byte :=
  flat_map (fun e => u64le (fst e) ++ (fst (snd e) ++ [b2n (snd (snd e))])) ns.
Definition encode_map (img : mimage) : list byte :=
  [m_rows img] ++ u64le (m_numleaves img) ++
  u64le (N.of_nat (length (m_cached img))) ++ enc_cached (m_cached img) ++
  u64le (N.of_nat (length (m_nodes img))) ++ enc_nodes (m_nodes img).
Definition encode_map_image : mimage -> list byte := encode_map.

Definition chunks_map (img : mimage) : list (list byte) :=
  [m_rows img] :: u64le (m_numleaves img) ::
  u64le (N.of_nat (length (m_cached img))) ::
  flat_map (fun e => [fst e; u64le (snd e)]) (m_cached img) ++
  u64le (N.of_nat (length (m_nodes img))) ::
  flat_map (fun e => [u64le (fst e); fst (snd e) ++ [b2n (snd (snd e))]]) (m_nodes img).

(** the final sanity check of [MapPollard.Read] *)
Definition map_check (img : mimage) : bool :=
  forallb (fun e => match assoc N.eqb (snd e) (m_nodes img) with
                    | Some lf => bytes_eqb (fst e) (fst lf)
                    | None => false
                    end) (m_cached img).

(** ** Readers *)
(** [for i := 0; i < int(x); i++]: a count of [2^63] or more is a negative [int] *)
Definition count_int (x : N) : N := if x <? 2 ^ 63 then x else 0.
(** [buf[0] == 1] for a one-byte buffer *)
Definition flag_is1 (b : list byte) : bool := hd 0 b =? 1.

Section Decoders.
  Variable R : Type.
  (** [rf k r] = [io.ReadFull(r, buf[:k])] *)
  Variable rf : nat -> R -> res (list byte * R).

  (** a parser returns the value, the number of bytes it consumed ([totalBytes]) and the reader *)
  Definition parser (A : Type) : Type := R -> res (A * nat * R).
  Definition pret {A} (a : A) : parser A := fun r => Ok (a, 0%nat, r).
  Definition pbind {A B} (p : parser A) (f : A -> parser B) : parser B := fun r =>
    match p r with
    | Ok (a, n, r1) =>
        match f a r1 with
        | Ok (b, m, r2) => Ok (b, (n + m)%nat, r2)
        | Err => Err
        | OutOfFuel => OutOfFuel
        end
    | Err => Err
    | OutOfFuel => OutOfFuel
    end.
  Definition pread (k : nat) : parser (list byte) := fun r =>
    match rf k r with
    | Ok (bs, r1) => Ok (bs, k, r1)
    | Err => Err
    | OutOfFuel => OutOfFuel
    end.

  (** [readOne] *)
  Fixpoint read_one (fuel : nat) : parser ptree :=
    match fuel with
    | O => fun _ => OutOfFuel
    | S f =>
        pbind (pread 32) (fun d =>
        pbind (pread 1) (fun b1 =>
        pbind (pread 1) (fun b2 =>
          if flag_is1 b2 then
            pbind (read_one f) (fun l =>
            pbind (read_one f) (fun r =>
            pret (PNode d (flag_is1 b1) (Some (l, r)))))
          else pret (PNode d (flag_is1 b1) None))))
    end.

  Fixpoint read_roots (fuel : nat) (k : nat) : parser (list ptree) :=
    match k with
    | O => pret []
    | S k' =>
        pbind (read_one fuel) (fun t =>
        pbind (read_roots fuel k') (fun ts => pret (t :: ts)))
    end.

  Definition pollard_parser (fuel : nat) : parser pimage :=
    pbind (pread 8) (fun b1 =>
    pbind (pread 8) (fun b2 =>
    pbind (read_roots fuel (N.to_nat (popcount (le_value b1)))) (fun ts =>
    pret (mkPimage (le_value b1) (le_value b2) ts)))).

  (** [len(p.NodeMap) != int(p.NumLeaves-p.NumDels)] *)
  Definition pollard_check (img : pimage) : bool :=
    let d := sub64 (p_numleaves img) (p_numdels img) in
    (d <? 2 ^ 63) && (N.of_nat (nodemap_size img) =? d).

  (** [RestorePollardFrom] *)
  Definition decode_pollard_gen (fuel : nat) (r : R) : res (pimage * nat) :=
    match pollard_parser fuel r with
    | Ok (img, n, _) => if pollard_check img then Ok (img, n) else Err
    | Err => Err
    | OutOfFuel => OutOfFuel
    end.

  Fixpoint read_cached (fuel : nat) (n : N) : parser (list (list byte * N)) :=
    match fuel with
    | O => fun _ => OutOfFuel
    | S f =>
        if n =? 0 then pret []
        else
          pbind (pread 32) (fun h =>
          pbind (pread 8) (fun p =>
          pbind (read_cached f (N.pred n)) (fun tl =>
          pret ((h, le_value p) :: tl))))
    end.

  Fixpoint read_nodes (fuel : nat) (n : N) : parser (list (N * (list byte * bool))) :=
    match fuel with
    | O => fun _ => OutOfFuel
    | S f =>
        if n =? 0 then pret []
        else
          pbind (pread 8) (fun p =>
          pbind (pread 33) (fun lb =>
          pbind (read_nodes f (N.pred n)) (fun tl =>
          pret ((le_value p, (firstn 32 lb, nth 32 lb 0 =? 1)) :: tl))))
    end.

  Definition map_parser (fuel : nat) : parser mimage :=
    pbind (pread 1) (fun rb =>
    pbind (pread 8) (fun nlb =>
    pbind (pread 8) (fun ncb =>
    pbind (read_cached fuel (count_int (le_value ncb))) (fun cs =>
    pbind (pread 8) (fun nnb =>
    pbind (read_nodes fuel (count_int (le_value nnb))) (fun ns =>
    pret (mkMimage (hd 0 rb) (le_value nlb) (put_all bytes_eqb cs) (put_all N.eqb ns)))))))).

  (** [MapPollard.Read] on a fresh receiver *)
  Definition decode_map_gen (fuel : nat) (r : R) : res (mimage * nat) :=
    match map_parser fuel r with
    | Ok (img, n, _) => if map_check img then Ok (img, n) else Err
    | Err => Err
    | OutOfFuel => OutOfFuel
    end.
End Decoders.
Arguments pret {R A} a r.
Arguments pbind {R A B} p f r.
Arguments pread {R} rf k r.
Arguments read_one {R} rf fuel r.
Arguments read_roots {R} rf fuel k r.
Arguments pollard_parser {R} rf fuel r.
Arguments decode_pollard_gen {R} rf fuel r.
Arguments read_cached {R} rf fuel n r.
Arguments read_nodes {R} rf fuel n r.
Arguments map_parser {R} rf fuel r.
Arguments decode_map_gen {R} rf fuel r.

(** *** Instance 1: the whole stream is a byte list *)
Definition take_rf (k : nat) (l : list byte) : res (list byte * list byte) :=
  if Nat.leb k (length l) then Ok (firstn k l, skipn k l) else Err.

(** every record has at least one byte, so [length l + 1] bounds both the recursion depth of
    [readOne] and the number of records of a map section *)
Definition decode_pollard (l : list byte) : res (pimage * nat) :=
  decode_pollard_gen take_rf (S (length l)) l.
Definition decode_map (l : list byte) : res (mimage * nat) :=
  decode_map_gen take_rf (S (length l)) l.

Definition res_to_option {A} (x : res A) : option A :=
  match x with Ok a => Some a | _ => None end.
Definition decode_pollard_bytes (l : list byte) : option (pimage * nat) :=
  res_to_option (decode_pollard l).
Definition decode_map_bytes (l : list byte) : option (mimage * nat) :=
  res_to_option (decode_map l).

(** *** Instance 2: chunked readers
    [r_chunks]: the sizes the successive [Read] calls are willing to return (a size 0 counts as
    1, and once the list is exhausted every call returns 1 byte); a call never returns more than
    the buffer holds nor more than is left.  [r_eofdata]: the reader reports [io.EOF] together
    with the last bytes instead of on the following call. *)
Record reader : Type := mkReader {
  r_data : list byte;
  r_chunks : list nat;
  r_eofdata : bool }.

(** one [Read] into a buffer of [k] bytes: bytes, [err == io.EOF], next state *)
Definition read1 (k : nat) (r : reader) : list byte * bool * reader :=
  let c := match r_chunks r with [] => 1%nat | c :: _ => Nat.max 1 c end in
  let n := Nat.min k (Nat.min c (length (r_data r))) in
  let rest := skipn n (r_data r) in
  let eof := match r_data r with
             | [] => true
             | _ :: _ => r_eofdata r && Nat.eqb (length rest) 0
             end in
  (firstn n (r_data r), eof, mkReader rest (tl (r_chunks r)) (r_eofdata r)).

(** [io.ReadAtLeast(r, buf, len(buf))]: [for n < min && err == nil { r.Read(buf[n:]) }], then
    [n >= min] is success whatever [err] was *)
Fixpoint read_full_loop (fuel need : nat) (acc : list byte) (r : reader)
  : res (list byte * reader) :=
  match need with
  | O => Ok (acc, r)
  | S _ =>
      match fuel with
      | O => OutOfFuel
      | S f =>
          let '(bs, eof, r') := read1 need r in
          match (need - length bs)%nat with
          | O => Ok (acc ++ bs, r')
          | S _ as need' => if eof then Err else read_full_loop f need' (acc ++ bs) r'
          end
      end
  end.
Definition read_full (k : nat) (r : reader) : res (list byte * reader) :=
  read_full_loop k k [] r.

Definition decode_pollard_chunked (r : reader) : res (pimage * nat) :=
  decode_pollard_gen read_full (S (length (r_data r))) r.
Definition decode_map_chunked (r : reader) : res (mimage * nat) :=
  decode_map_gen read_full (S (length (r_data r))) r.

(** ** Well-formed images *)
Fixpoint wf_ptree (t : ptree) : Prop :=
  match t with
  | PNode d _ nc =>
      length d = 32%nat /\
      match nc with
      | None => True
      | Some (l, r) => wf_ptree l /\ wf_ptree r
      end
  end.
Fixpoint wf_ptreeb (t : ptree) : bool :=
  match t with
  | PNode d _ nc =>
      Nat.eqb (length d) 32 &&
      match nc with
      | None => true
      | Some (l, r) => wf_ptreeb l && wf_ptreeb r
      end
  end.

(** [nodemap_size] is [len(NodeMap)], a Go [int]: hence the bound [2^63] *)
Definition wf_pimage (img : pimage) : Prop :=
  p_numleaves img < 2 ^ 64 /\
  p_numdels img <= p_numleaves img /\
  p_numleaves img - p_numdels img < 2 ^ 63 /\
  length (p_roots img) = N.to_nat (popcount (p_numleaves img)) /\
  Forall wf_ptree (p_roots img) /\
  N.of_nat (nodemap_size img) = p_numleaves img - p_numdels img.
Definition wf_pimageb (img : pimage) : bool :=
  (p_numleaves img <? 2 ^ 64) &&
  (p_numdels img <=? p_numleaves img) &&
  (p_numleaves img - p_numdels img <? 2 ^ 63) &&
  Nat.eqb (length (p_roots img)) (N.to_nat (popcount (p_numleaves img))) &&
  forallb wf_ptreeb (p_roots img) &&
  (N.of_nat (nodemap_size img) =? p_numleaves img - p_numdels img).

(** the map lengths are Go [int]s: hence the bounds [2^63] *)
Definition wf_mimage (img : mimage) : Prop :=
  m_rows img < 256 /\
  m_numleaves img < 2 ^ 64 /\
  N.of_nat (length (m_cached img)) < 2 ^ 63 /\
  N.of_nat (length (m_nodes img)) < 2 ^ 63 /\
  Forall (fun e => length (fst e) = 32%nat /\ snd e < 2 ^ 64) (m_cached img) /\
  Forall (fun e => fst e < 2 ^ 64 /\ length (fst (snd e)) = 32%nat) (m_nodes img) /\
  NoDup (map fst (m_cached img)) /\
  NoDup (map fst (m_nodes img)) /\
  (forall h p, In (h, p) (m_cached img) -> exists b, In (p, (h, b)) (m_nodes img)).

Fixpoint nodup_bytesb (l : list (list byte)) : bool :=
  match l with
  | [] => true
  | x :: t => negb (mem_bytes x t) && nodup_bytesb t
  end.
Fixpoint nodupNb (l : list N) : bool :=
  match l with
  | [] => true
  | x :: t => negb (memN x t) && nodupNb t
  end.
Definition wf_mimageb (img : mimage) : bool :=
  (m_rows img <? 256) &&
  (m_numleaves img <? 2 ^ 64) &&
  (N.of_nat (length (m_cached img)) <? 2 ^ 63) &&
  (N.of_nat (length (m_nodes img)) <? 2 ^ 63) &&
  forallb (fun e => Nat.eqb (length (fst e)) 32 && (snd e <? 2 ^ 64)) (m_cached img) &&
  forallb (fun e => (fst e <? 2 ^ 64) && Nat.eqb (length (fst (snd e))) 32) (m_nodes img) &&
  nodup_bytesb (map fst (m_cached img)) &&
  nodupNb (map fst (m_nodes img)) &&
  map_check img.

(** ** The niece view of the reference forest
    [x] is the node written, [y] its sibling: [x]'s niece pointers are [y]'s children, and [x]'s
    leaf flag says that [y]'s niece pointers (= [x]'s children) are nil.  A root points to its
    own children.  A tree without survivors is a root with the all-zero hash and no nieces. *)
Section NieceView.
  Variable H : Type.
  Variable bytes_of : H -> list byte.

  Definition is_leafc (t : ctree H) : bool :=
    match t with CLeaf _ => true | CNode _ _ _ => false end.

  Fixpoint enc2 (x y : ctree H) {struct y} : ptree :=
    PNode (bytes_of (chash x)) (is_leafc x)
          (match y with
           | CLeaf _ => None
           | CNode _ l r => Some (enc2 l r, enc2 r l)
           end).

  Definition root_view (o : option (ctree H)) : ptree :=
    match o with
    | None => PNode zeros32 true None
    | Some t =>
        PNode (bytes_of (chash t)) (is_leafc t)
              (match t with
               | CLeaf _ => None
               | CNode _ l r => Some (enc2 l r, enc2 r l)
               end)
    end.

  Definition niece_view (f : list (nat * N * option (ctree H))) : list ptree :=
    map (fun e => root_view (snd e)) f.

  Definition encode_pollard_of_forest (f : list (nat * N * option (ctree H)))
             (numleaves numdels : N) : list byte :=
    encode_pollard (mkPimage numleaves numdels (niece_view f)).
End NieceView.
Arguments is_leafc {H} t.
Arguments enc2 {H} bytes_of x y.
Arguments root_view {H} bytes_of o.
Arguments niece_view {H} bytes_of f.
Arguments encode_pollard_of_forest {H} bytes_of f numleaves numdels.

(** the pointer-forest image of the reference state [s]: [NumLeaves] = slots ever added,
    [NumDels] = dead slots, roots = niece view of the compressed trees *)
Section ForestImage.
  Variable H : Type.
  Variable HO : ops H.
  Variable bytes_of : H -> list byte.
  Definition forest_image (s : slots H) : pimage :=
    mkPimage (num_leaves s) (N.of_nat (length s - length (live s)))
             (niece_view bytes_of (forest HO s)).
End ForestImage.
Arguments forest_image {H} HO bytes_of s.
