(** [ProofPositions] as the oracle executes it.  The definition in [Model.Utils] mirrors the Go loop
    literally and binds the "skip this element" result before the tests, which under OCaml's strict
    evaluation evaluates the recursive call twice per element (exponential in the number of targets).
    [PP_row_fast] makes the recursive call once; [ProofPositions_fast_eq] proves the two equal, so
    every theorem about [ProofPositions] holds for what the oracle runs. *)
From Utreexo Require Export Model.Utils.
Open Scope N_scope.

Fixpoint PP_row_fast (fuel : nat) (row n total : N) (ts : list N) : list N * list N * list N :=
  match fuel with
  | O => (ts, [], [])
  | S f =>
      match ts with
      | [] => ([], [], [])
      | t :: rest =>
          if (maxPossiblePosAtRow row total <? t)
             || negb (row =? DetectRow t total)
             || isRootPositionOnRowTotalRows t n row total
          then let '(a, b, c) := PP_row_fast f row n total rest in (t :: a, b, c)
          else
            let par := Parent t total in
            match rest with
            | t2 :: rest' =>
                if rightSib t =? t2 then
                  let '(a, b, c) := PP_row_fast f row n total rest' in
                  (par :: t2 :: a, b, par :: c)
                else
                  let '(a, b, c) := PP_row_fast f row n total rest in
                  (par :: a, sibling t :: b, par :: c)
            | [] => ([par], [sibling t], [par])
            end
      end
  end.

Lemma PP_row_fast_eq fuel row n total ts :
  PP_row_fast fuel row n total ts = PP_row fuel row n total ts.
Proof.
  revert ts; induction fuel as [|f IH]; intros ts; [reflexivity|].
  destruct ts as [|t rest]; [reflexivity|].
  cbn [PP_row_fast PP_row].
  destruct (maxPossiblePosAtRow row total <? t); cbn [orb];
    [rewrite IH; reflexivity|].
  destruct (negb (row =? DetectRow t total)); cbn [orb];
    [rewrite IH; reflexivity|].
  destruct (isRootPositionOnRowTotalRows t n row total);
    [rewrite IH; reflexivity|].
  destruct rest as [|t2 rest']; [reflexivity|].
  destruct (rightSib t =? t2); rewrite IH; reflexivity.
Qed.

Fixpoint PP_rows_fast (fuel : nat) (row n total : N) (ts : list N) : list N * list N :=
  match fuel with
  | O => ([], [])
  | S f =>
      if total <? row then ([], [])
      else
        let '(ts', pp, nx) := PP_row_fast (S (length ts)) row n total ts in
        let '(pp2, nx2) := PP_rows_fast f (row + 1) n total (sortN ts') in
        (pp ++ pp2, nx ++ nx2)
  end.

Lemma PP_rows_fast_eq fuel row n total ts :
  PP_rows_fast fuel row n total ts = PP_rows fuel row n total ts.
Proof.
  revert row ts; induction fuel as [|f IH]; intros row ts; [reflexivity|].
  cbn [PP_rows_fast PP_rows]. destruct (total <? row); [reflexivity|].
  rewrite PP_row_fast_eq.
  destruct (PP_row (S (length ts)) row n total ts) as [[ts' pp] nx].
  rewrite IH. reflexivity.
Qed.

Definition ProofPositions_fast (targets : list N) (n total : N) : list N * list N :=
  PP_rows_fast 70 0 n total targets.

Theorem ProofPositions_fast_eq targets n total :
  ProofPositions_fast targets n total = ProofPositions targets n total.
Proof. apply PP_rows_fast_eq. Qed.
