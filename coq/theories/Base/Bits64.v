(** Go's fixed-width unsigned arithmetic on [N], with every wrap-around written out.
    [uint64] values are [N]s below [2^64], [uint8] values are [N]s below [256]. *)
From Coq Require Export NArith List Bool.
Export ListNotations.
Open Scope N_scope.

(** [W] = 2^64 and the masks are written as literals, and reduction modulo a power of two as a mask,
    so that the extracted oracle does not recompute a power and a division at every operation;
    [wrap_mod] gives the arithmetic reading used by all proofs. *)
Definition W : N := 18446744073709551616.
Definition mask64 : N := 18446744073709551615.
Definition wrap (x : N) : N := N.land x mask64.
Definition u8 (x : N) : N := x mod 256.
Lemma W_pow : W = 2 ^ 64. Proof. reflexivity. Qed.
Lemma wrap_mod x : wrap x = x mod W.
Proof. unfold wrap. change mask64 with (N.ones 64). rewrite N.land_ones. reflexivity. Qed.
Lemma u8_mod x : u8 x = x mod 256.
Proof. reflexivity. Qed.

(** [x << s] for a [uint64] [x]; Go gives 0 once the count reaches the width. *)
Definition shl (x s : N) : N := if 64 <=? s then 0 else wrap (N.shiftl x s).
(** [x >> s]; no wrap needed for [x < 2^64]. *)
Definition shr (x s : N) : N := N.shiftr x s.
Definition add64 (x y : N) : N := wrap (x + y).
Definition sub64 (x y : N) : N := wrap (x + W - y).
Definition max64 : N := W - 1.
Definition not64 (x : N) : N := max64 - x.
Definition and64 := N.land.
Definition or64 := N.lor.
Definition xor64 := N.lxor.
(** [x &^ y] *)
Definition andnot64 (x y : N) : N := N.ldiff x y.

Definition add8 (x y : N) : N := u8 (x + y).
Definition sub8 (x y : N) : N := u8 (x + 256 - y).

Fixpoint popcount_pos (p : positive) : N :=
  match p with
  | xH => 1
  | xO q => popcount_pos q
  | xI q => 1 + popcount_pos q
  end.
Definition popcount (n : N) : N :=
  match n with N0 => 0 | Npos p => popcount_pos p end.

(** [bits.Len64] *)
Definition len64 (n : N) : N := N.size n.

(** Insertion sort on [N] (ascending); [slices.Sort]/[sort.Slice] on positions. *)
Fixpoint insertN (x : N) (l : list N) : list N :=
  match l with
  | [] => [x]
  | y :: t => if x <=? y then x :: l else y :: insertN x t
  end.
Definition sortN (l : list N) : list N := fold_right insertN [] l.

(** Stable insertion sort of pairs by first component. *)
Section SortKey.
  Context {A : Type}.
  Fixpoint insertK (x : N * A) (l : list (N * A)) : list (N * A) :=
    match l with
    | [] => [x]
    | y :: t => if fst x <=? fst y then x :: l else y :: insertK x t
    end.
  Definition sortK (l : list (N * A)) : list (N * A) := fold_right insertK [] l.
End SortKey.

Fixpoint memN (x : N) (l : list N) : bool :=
  match l with [] => false | y :: t => (x =? y) || memN x t end.

Fixpoint dedupN (l : list N) : list N :=
  match l with
  | [] => []
  | x :: t => if memN x t then dedupN t else x :: dedupN t
  end.
