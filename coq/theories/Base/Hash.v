(** The hash operations every definition is parameterised by: the binary node hash, the all-zero
    hash and a decision procedure for equality.  For execution the oracle instantiates [H] with
    32-byte strings and SHA-512/256; inside Coq, [H] is the free term algebra ([Spec.Term]). *)
From Utreexo Require Export Base.Bits64.

Record ops (H : Type) := mkOps {
  op_hash2 : H -> H -> H;
  op_empty : H;
  op_eqb : H -> H -> bool }.
Arguments mkOps {H}.
Arguments op_hash2 {H}.
Arguments op_empty {H}.
Arguments op_eqb {H}.

(** [Heqb] decides equality *)
Definition ops_ok {H} (O : ops H) : Prop := forall a b, op_eqb O a b = true <-> a = b.
