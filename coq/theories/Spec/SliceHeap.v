(** Slice-effect IR for property C17: syntax, concrete (flow-insensitive,
    nondeterministic) semantics, abstract domain and the executable checker
    [check_program].  Definitions only; the soundness proof is in
    Proofs/EffectSound.v, the generated program in Gen/EffIR.v.

    Reading of the model.  An "array" is any memory object the Go program can
    write through a reference (slice backing array, struct cell, map, closure).
    A variable of a function denotes the SET of arrays the corresponding SSA
    value may reference.  The heap has no pointer structure of its own: the
    translation (tools/effscan) is responsible for making every variable
    include the arrays that become reachable from it (see the README there).
    A function body is a SET of statements; an execution of the function is
    any finite sequence of instances of these statements, in any order and
    multiplicity, each with arbitrary data. *)
From Coq Require Import List String Arith Bool.
Import ListNotations.

Definition var := nat.
Definition fid := nat.
Definition arr := nat.

(** Owners: where may an array come from, as seen from one activation of a
    function. *)
Inductive owner : Type :=
| OParam (i : nat)   (* referenced by parameter [i] when the function was entered *)
| OFresh             (* allocated after the function was entered *)
| OGlobal.           (* referenced by a package-level variable *)

Definition owner_eqb (a b : owner) : bool :=
  match a, b with
  | OParam i, OParam j => Nat.eqb i j
  | OFresh, OFresh => true
  | OGlobal, OGlobal => true
  | _, _ => false
  end.

Inductive stmt : Type :=
| SMake (x : var)
| SAlias (x : var) (ys : list var)
| SWrite (x : var)
| SAppend (x y : var)
| SCopy (dst src : var)
| SSort (x : var)
| SCall (rs : list var) (f : fid) (args : list var)
| SRet (xs : list var)
| SWriteExempt (x : var) (tag : string)
| SGlobal (x : var).

(** A function with the analyser's CLAIMS: [vals] is the owner set of every
    variable (indexed by the variable), [writes] the owners whose arrays the
    function may modify (transitively through its callees), [rets] what each
    result may reference.  Variables [0 .. nparams-1] are the parameters. *)
Record fn : Type := {
  fname : string;
  nparams : nat;
  body : list stmt;
  vals : list (list owner);
  writes : list owner;
  rets : list (list owner)
}.

Definition program := list fn.

(* ------------------------------------------------------------------------- *)
(** * Concrete semantics *)

Record state : Type := mkState {
  cells : arr -> list nat;        (* contents of every array *)
  next : nat;                     (* allocation counter: arrays [< next] exist *)
  env : var -> arr -> Prop        (* arrays a variable may currently reference *)
}.

Definition set_cells (h : arr -> list nat) (a : arr) (l : list nat) : arr -> list nat :=
  fun b => if Nat.eqb b a then l else h b.

Definition add_env (e : var -> arr -> Prop) (x : var) (S : arr -> Prop) : var -> arr -> Prop :=
  fun y a => e y a \/ (y = x /\ S a).

(** Environment of a callee: parameter [x] is bound to the arrays of the
    [x]-th argument, every other variable is empty. *)
Definition bind_args (n : nat) (args : list var) (e : var -> arr -> Prop) : var -> arr -> Prop :=
  fun x a => x < n /\ exists y, nth_error args x = Some y /\ e y a.

(** Arrays the callee may hand back as its [k]-th result. *)
Definition ret_source (gd : fn) (e : var -> arr -> Prop) (k : nat) (a : arr) : Prop :=
  exists xs x, In (SRet xs) (body gd) /\ nth_error xs k = Some x /\ e x a.

Section Semantics.
  Variable p : program.
  Variable G : arr -> Prop.         (* arrays referenced by package-level variables *)

  Inductive step : stmt -> state -> state -> Prop :=
  | step_make : forall x s l,
      step (SMake x) s
           (mkState (set_cells (cells s) (next s) l) (S (next s))
                    (add_env (env s) x (eq (next s))))
  | step_alias : forall x ys s (S : arr -> Prop),
      (forall a, S a -> exists y, In y ys /\ env s y a) ->
      step (SAlias x ys) s (mkState (cells s) (next s) (add_env (env s) x S))
  | step_global : forall x s (S : arr -> Prop),
      (forall a, S a -> G a) ->
      step (SGlobal x) s (mkState (cells s) (next s) (add_env (env s) x S))
  | step_write : forall x s a l,
      env s x a ->
      step (SWrite x) s (mkState (set_cells (cells s) a l) (next s) (env s))
  | step_sort : forall x s a l,
      env s x a ->
      step (SSort x) s (mkState (set_cells (cells s) a l) (next s) (env s))
  | step_copy : forall dst src s a l,
      env s dst a ->
      step (SCopy dst src) s (mkState (set_cells (cells s) a l) (next s) (env s))
  | step_exempt : forall x tag s a l,
      (* the named exemption: a write that stores the value already there *)
      env s x a -> l = cells s a ->
      step (SWriteExempt x tag) s (mkState (set_cells (cells s) a l) (next s) (env s))
  | step_append_inplace : forall x y s a l,
      (* spare capacity: an array of [y] is modified and [x] references it *)
      env s y a ->
      step (SAppend x y) s
           (mkState (set_cells (cells s) a l) (next s) (add_env (env s) x (eq a)))
  | step_append_realloc : forall x y s l,
      step (SAppend x y) s
           (mkState (set_cells (cells s) (next s) l) (S (next s))
                    (add_env (env s) x (eq (next s))))
  | step_ret : forall xs s, step (SRet xs) s s
  | step_call : forall rs g args gd s sc' (e' : var -> arr -> Prop),
      nth_error p g = Some gd ->
      run g (mkState (cells s) (next s) (bind_args (nparams gd) args (env s))) sc' ->
      (forall x a, env s x a -> e' x a) ->
      (forall x a, e' x a ->
         env s x a
         \/ (exists k, nth_error rs k = Some x /\ ret_source gd (env sc') k a)
         \/ (exists j, nth_error args j = Some x /\ j < nparams gd /\ env sc' j a)) ->
      step (SCall rs g args) s (mkState (cells sc') (next sc') e')
  with run : fid -> state -> state -> Prop :=
  | run_nil : forall f s, run f s s
  | run_cons : forall f fd st s s1 s2,
      nth_error p f = Some fd -> In st (body fd) ->
      step st s s1 -> run f s1 s2 -> run f s s2.
End Semantics.

(* ------------------------------------------------------------------------- *)
(** * Abstract domain and checker *)

Definition mem_owner (o : owner) (l : list owner) : bool := existsb (owner_eqb o) l.
Definition subset_o (a b : list owner) : bool := forallb (fun o => mem_owner o b) a.
Definition value (f : fn) (x : var) : list owner := nth x (vals f) [].
Definition is_fresh (o : owner) : bool := match o with OFresh => true | _ => false end.

(** Every non-fresh owner of the set is in the declared write set. *)
Definition writable (f : fn) (V : list owner) : bool :=
  forallb (fun o => is_fresh o || mem_owner o (writes f)) V.

(** Translation of a callee owner into the caller through the arguments. *)
Definition sigma1 (f : fn) (args : list var) (o : owner) : list owner :=
  match o with
  | OParam j => match nth_error args j with Some y => value f y | None => [] end
  | OFresh => [OFresh]
  | OGlobal => [OGlobal]
  end.

Definition sigma_sub (f : fn) (args : list var) (V : list owner) (x : var) : bool :=
  forallb (fun o => subset_o (sigma1 f args o) (value f x)) V.

Fixpoint forallb_i {A : Type} (f : nat -> A -> bool) (i : nat) (l : list A) : bool :=
  match l with
  | [] => true
  | a :: t => f i a && forallb_i f (S i) t
  end.

Definition check_callee_write (f : fn) (args : list var) (o : owner) : bool :=
  match o with
  | OParam j => match nth_error args j with
                | Some y => writable f (value f y)
                | None => true
                end
  | OGlobal => mem_owner OGlobal (writes f)
  | OFresh => true
  end.

Definition check_stmt (p : program) (f : fn) (s : stmt) : bool :=
  match s with
  | SMake x => mem_owner OFresh (value f x)
  | SGlobal x => mem_owner OGlobal (value f x)
  | SAlias x ys => forallb (fun y => subset_o (value f y) (value f x)) ys
  | SWrite x => writable f (value f x)
  | SSort x => writable f (value f x)
  | SCopy dst _ => writable f (value f dst)
  | SWriteExempt _ _ => true
  | SAppend x y =>
      writable f (value f y) && subset_o (value f y) (value f x)
      && mem_owner OFresh (value f x)
  | SRet xs => forallb_i (fun k x => subset_o (value f x) (nth k (rets f) [])) 0 xs
  | SCall rs g args =>
      match nth_error p g with
      | None => false
      | Some gd =>
          Nat.eqb (List.length args) (nparams gd)
          && forallb (check_callee_write f args) (writes gd)
          && forallb_i (fun k r => sigma_sub f args (nth k (rets gd) []) r) 0 rs
          && forallb_i (fun j y => sigma_sub f args (value gd j) y) 0 args
      end
  end.

Definition check_params (f : fn) : bool :=
  forallb (fun i => mem_owner (OParam i) (value f i)) (seq 0 (nparams f)).

Definition check_fn (p : program) (f : fn) : bool :=
  check_params f && forallb (check_stmt p f) (body f).

Definition check_program (p : program) : bool := forallb (check_fn p) p.

(* ------------------------------------------------------------------------- *)
(** * Queries used by the generated obligations *)

Definition find_fn (p : program) (name : string) : option fn :=
  find (fun f => String.eqb (fname f) name) p.

Definition writes_param (p : program) (name : string) (i : nat) : bool :=
  match find_fn p name with
  | Some f => mem_owner (OParam i) (writes f)
  | None => false
  end.

(** An entry point is clean on the listed parameters: it declares no write to
    any of them and no write to package-level arrays. *)
Definition fn_clean_b (f : fn) (idxs : list nat) : bool :=
  forallb (fun i => negb (mem_owner (OParam i) (writes f))) idxs
  && negb (mem_owner OGlobal (writes f)).

Definition entry_clean_b (p : program) (e : string * list nat) : bool :=
  match find_fn p (fst e) with
  | Some f => fn_clean_b f (snd e)
  | None => false
  end.

(** No retention: at exit no OTHER parameter (in particular the receiver) may
    reference an array that was owned only by one of the listed parameters. *)
Definition fn_no_retain_b (f : fn) (idxs : list nat) : bool :=
  forallb (fun i =>
    forallb (fun j => Nat.eqb i j || negb (mem_owner (OParam i) (value f j)))
            (seq 0 (nparams f))) idxs.

Definition entry_no_retain_b (p : program) (e : string * list nat) : bool :=
  match find_fn p (fst e) with
  | Some f => fn_no_retain_b f (snd e)
  | None => false
  end.

(** Results are detached from library state: every result references only fresh
    arrays or arrays of the listed (caller-owned) parameters, and when the
    function has a receiver (parameter 0) that may itself acquire fresh arrays,
    no result may be fresh. *)
Definition fn_results_detached_b (f : fn) (idxs : list nat) (has_recv : bool) : bool :=
  forallb (fun R =>
    forallb (fun o =>
      match o with
      | OFresh => negb has_recv || negb (mem_owner OFresh (value f 0))
      | OParam i => existsb (Nat.eqb i) idxs
      | OGlobal => false
      end) R) (rets f).

Definition entry_results_detached_b (p : program) (recvs : list string)
           (e : string * list nat) : bool :=
  match find_fn p (fst e) with
  | Some f => fn_results_detached_b f (snd e) (existsb (String.eqb (fst e)) recvs)
  | None => false
  end.

Definition dirty_entries (p : program) (es : list (string * list nat)) : list (string * list nat) :=
  map (fun e => (fst e,
         match find_fn p (fst e) with
         | Some f => filter (fun i => mem_owner (OParam i) (writes f)) (snd e)
         | None => snd e
         end))
      (filter (fun e => negb (entry_clean_b p e)) es).

Definition stmt_exemptions (s : stmt) : list string :=
  match s with SWriteExempt _ t => [t] | _ => [] end.

Definition exemptions (p : program) : list string :=
  flat_map (fun f => flat_map stmt_exemptions (body f)) p.

(* ------------------------------------------------------------------------- *)
(** * Tags: the concrete meaning of owners, relative to an entry state *)

(** [has_tag G n0 e0 a o]: array [a] has owner [o] with respect to an activation
    entered with allocation counter [n0] and environment [e0]. *)
Definition has_tag (G : arr -> Prop) (n0 : nat) (e0 : var -> arr -> Prop)
           (a : arr) (o : owner) : Prop :=
  match o with
  | OParam i => e0 i a
  | OFresh => n0 <= a
  | OGlobal => G a
  end.

Definition covered (G : arr -> Prop) (n0 : nat) (e0 : var -> arr -> Prop)
           (a : arr) (V : list owner) : Prop :=
  exists o, In o V /\ has_tag G n0 e0 a o.

(** Entry condition of an activation of [fd]: only parameters are bound, and
    everything referenced exists. *)
Definition entry_ok (G : arr -> Prop) (fd : fn) (s0 : state) : Prop :=
  (forall x a, env s0 x a -> x < nparams fd /\ a < next s0)
  /\ (forall a, G a -> a < next s0).

(** Array [a] is protected in an activation of [fd]: none of its tags is in the
    declared write set. *)
Definition protected (G : arr -> Prop) (fd : fn) (s0 : state) (a : arr) : Prop :=
  forall o, In o (writes fd) -> ~ has_tag G (next s0) (env s0) a o.

(** The full soundness statement (proved as [check_sound] in
    Proofs/EffectSound.v). *)
Definition check_sound_statement : Prop :=
  forall (p : program) (G : arr -> Prop),
    check_program p = true ->
    forall f fd s0 s',
      nth_error p f = Some fd ->
      entry_ok G fd s0 ->
      run p G f s0 s' ->
      forall a, a < next s0 -> protected G fd s0 a -> cells s' a = cells s0 a.
