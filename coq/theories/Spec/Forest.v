(** The reference forest: the one mathematical object all properties talk about.
    It uses no position arithmetic from utils.go: only (row, offset) coordinates and
    [pos rows r o = 2^(rows+1) - 2^(rows+1-r) + o].

    A state is a slot list [s : list (option H)]: slot [i] is [Some h] while the i-th leaf ever
    added is live, [None] once it is deleted.  [length s] is the leaf count. *)
From Utreexo Require Export Base.Hash.
Set Implicit Arguments.
Open Scope N_scope.

Section Forest.
  Variable H : Type.
  Variable HO : ops H.
  Notation hash2 := (op_hash2 HO).
  Notation empty := (op_empty HO).
  Notation Heqb := (op_eqb HO).

  Definition slots := list (option H).

  Fixpoint memH (h : H) (l : list H) : bool :=
    match l with [] => false | x :: t => Heqb h x || memH h t end.

  (** ** Blocks *)
  Definition kill (dels : list H) (s : slots) : slots :=
    map (fun o => match o with
                  | Some h => if memH h dels then None else Some h
                  | None => None
                  end) s.
  Definition apply_block (s : slots) (dels adds : list H) : slots :=
    kill dels s ++ map Some adds.

  Definition live (s : slots) : list H :=
    flat_map (fun o => match o with Some h => [h] | None => [] end) s.

  (** ** Compression: contract every node that has a child without survivors *)
  Inductive ctree := CLeaf (h : H) | CNode (h : H) (l r : ctree).
  Definition chash (t : ctree) : H := match t with CLeaf h => h | CNode h _ _ => h end.

  Definition join (a b : option ctree) : option ctree :=
    match a, b with
    | None, x => x
    | x, None => x
    | Some l, Some r => Some (CNode (hash2 (chash l) (chash r)) l r)
    end.

  Fixpoint compress (k : nat) (seg : slots) : option ctree :=
    match k with
    | O => match seg with Some h :: _ => Some (CLeaf h) | _ => None end
    | S k' => let half := Nat.pow 2 k' in
              join (compress k' (firstn half seg)) (compress k' (skipn half seg))
    end.

  (** ** Trees: the binary digits of the leaf count, largest first.
      [trees k lo s]: [length s < 2^(k+1)]; entries are (row, first slot, compressed tree). *)
  Fixpoint trees (k : nat) (lo : N) (s : slots) : list (nat * N * option ctree) :=
    let sz := Nat.pow 2 k in
    let has := Nat.leb sz (length s) in
    let here := if has then [(k, lo, compress k (firstn sz s))] else [] in
    let rest := if has then skipn sz s else s in
    let lo' := if has then lo + N.of_nat sz else lo in
    match k with
    | O => here
    | S k' => here ++ trees k' lo' rest
    end.

  Definition forest (s : slots) : list (nat * N * option ctree) :=
    trees (Nat.log2 (length s)) 0 s.

  Definition root_hash (t : option ctree) : H :=
    match t with None => empty | Some c => chash c end.
  Definition roots (s : slots) : list H := map (fun e => root_hash (snd e)) (forest s).
  Definition num_leaves (s : slots) : N := N.of_nat (length s).

  (** ** Geometry *)
  Definition rows_of (n : N) : nat := N.to_nat (if n =? 0 then 0 else N.size (n - 1)).
  Definition pos (rows r : nat) (o : N) : N :=
    2 ^ (N.of_nat rows + 1) - 2 ^ (N.of_nat rows + 1 - N.of_nat r) + o.

  (** A placed node: coordinates, hash, whether it is a leaf, whether it is a tree root,
      row of its tree. *)
  Record node := mkNode { nrow : nat; noff : N; nhash : H; nleaf : bool; nroot : bool; ntree : nat }.

  Fixpoint place_tree (t : ctree) (r : nat) (o : N) (isroot : bool) (tr : nat) : list node :=
    match t with
    | CLeaf h => [mkNode r o h true isroot tr]
    | CNode h l rr =>
        mkNode r o h false isroot tr ::
        match r with
        | S r' => place_tree l r' (2 * o) false tr ++ place_tree rr r' (2 * o + 1) false tr
        | O => []
        end
    end.

  Definition place_entry (e : nat * N * option ctree) : list node :=
    let '(k, lo, t) := e in
    let o := lo / 2 ^ N.of_nat k in
    match t with
    | None => [mkNode k o empty false true k]
    | Some c => place_tree c k o true k
    end.

  (** every node of the forest (empty roots included, as non-leaf nodes with hash [empty]) *)
  Definition layout (s : slots) : list node := flat_map place_entry (forest s).

  Definition npos (rows : nat) (x : node) : N := pos rows (nrow x) (noff x).
  Definition same_coord (a b : node) : bool := Nat.eqb (nrow a) (nrow b) && (noff a =? noff b).

  Fixpoint find_coord (lay : list node) (r : nat) (o : N) : option node :=
    match lay with
    | [] => None
    | x :: t => if Nat.eqb (nrow x) r && (noff x =? o) then Some x else find_coord t r o
    end.
  Fixpoint find_pos (rows : nat) (lay : list node) (p : N) : option node :=
    match lay with
    | [] => None
    | x :: t => if npos rows x =? p then Some x else find_pos rows t p
    end.
  Fixpoint find_leaf (lay : list node) (h : H) : option node :=
    match lay with
    | [] => None
    | x :: t => if nleaf x && Heqb (nhash x) h then Some x else find_leaf t h
    end.

  (** hash stored at a position (in [rows] coordinates); [empty] where there is no node *)
  Definition hash_at (rows : nat) (lay : list node) (p : N) : H :=
    match find_pos rows lay p with Some x => nhash x | None => empty end.
  Definition leaf_pos (rows : nat) (lay : list node) (h : H) : option N :=
    match find_leaf lay h with Some x => Some (npos rows x) | None => None end.

  (** ** Canonical proofs *)
  (** ancestors of a node inside its tree, the node itself first, the tree root last *)
  Fixpoint path_up (fuel : nat) (lay : list node) (r : nat) (o : N) (tr : nat) : list (nat * N) :=
    (r, o) ::
    match fuel with
    | O => []
    | S f => if Nat.ltb r tr then path_up f lay (S r) (o / 2) tr else []
    end.

  Definition coord_eqb (a b : nat * N) : bool := Nat.eqb (fst a) (fst b) && (snd a =? snd b).
  Fixpoint mem_coord (c : nat * N) (l : list (nat * N)) : bool :=
    match l with [] => false | x :: t => coord_eqb c x || mem_coord c t end.
  Fixpoint dedup_coord (l : list (nat * N)) : list (nat * N) :=
    match l with
    | [] => []
    | x :: t => if mem_coord x t then dedup_coord t else x :: dedup_coord t
    end.

  Definition sib_coord (c : nat * N) : nat * N := (fst c, N.lxor (snd c) 1).

  (** the set K = targets and all their ancestors *)
  Definition known_set (lay : list node) (targets : list node) : list (nat * N) :=
    dedup_coord (flat_map (fun x => path_up 64 lay (nrow x) (noff x) (ntree x)) targets).

  Definition is_root_coord (lay : list node) (c : nat * N) : bool :=
    match find_coord lay (fst c) (snd c) with Some x => nroot x | None => false end.

  (** coordinates whose hash a verifier cannot compute: siblings of K that are not in K *)
  Definition proof_coords (lay : list node) (targets : list node) : list (nat * N) :=
    let K := known_set lay targets in
    dedup_coord
      (flat_map (fun c => if is_root_coord lay c then []
                          else if mem_coord (sib_coord c) K then [] else [sib_coord c]) K).

  Definition sort_coords (rows : nat) (l : list (nat * N)) : list (N * (nat * N)) :=
    sortK (map (fun c => (pos rows (fst c) (snd c), c)) l).

  (** canonical proof positions (ascending) and hashes *)
  Definition canon_proof_pos (rows : nat) (lay : list node) (targets : list node) : list N :=
    map fst (sort_coords rows (proof_coords lay targets)).
  Definition canon_proof_hashes (rows : nat) (lay : list node) (targets : list node) : list H :=
    map (fun e => match find_coord lay (fst (snd e)) (snd (snd e)) with
                  | Some x => nhash x | None => empty end)
        (sort_coords rows (proof_coords lay targets)).

  (** the proper ancestors of the targets (computable positions), ascending *)
  Definition computable_pos (rows : nat) (lay : list node) (targets : list node) : list N :=
    let K := known_set lay targets in
    let T := map (fun x => (nrow x, noff x)) targets in
    map fst (sort_coords rows (flat_map (fun c => if mem_coord c T then [] else [c]) K)).

  Fixpoint find_leaves (lay : list node) (hs : list H) : option (list node) :=
    match hs with
    | [] => Some []
    | h :: t => match find_leaf lay h, find_leaves lay t with
                | Some x, Some xs => Some (x :: xs)
                | _, _ => None
                end
    end.

  (** [prove]: targets in request order, canonical proof hashes; [None] if some hash is not a
      live leaf *)
  Definition prove (s : slots) (hs : list H) : option (list N * list H) :=
    let rows := rows_of (num_leaves s) in
    let lay := layout s in
    match find_leaves lay hs with
    | None => None
    | Some ts => Some (map (npos rows) ts, canon_proof_hashes rows lay ts)
    end.

  (** ** Update data (C11) *)
  Definition ojoin (a b : option H) : option H :=
    match a, b with
    | None, x => x
    | x, None => x
    | Some l, Some r => Some (hash2 l r)
    end.
  (** hash of a pre-block subtree once [dels] are removed *)
  Fixpoint after_del (dels : list H) (t : ctree) : option H :=
    match t with
    | CLeaf h => if memH h dels then None else Some h
    | CNode _ l r => ojoin (after_del dels l) (after_del dels r)
    end.
  Fixpoint has_del (dels : list H) (t : ctree) : bool :=
    match t with
    | CLeaf h => memH h dels
    | CNode _ l r => has_del dels l || has_del dels r
    end.
  Definition ohash (o : option H) : H := match o with Some h => h | None => empty end.

  (** every node on a path from a deleted leaf to its root, with its post-deletion hash *)
  Fixpoint del_nodes (dels : list H) (t : ctree) (r : nat) (o : N) : list (nat * N * H) :=
    if has_del dels t then
      (r, o, ohash (after_del dels t)) ::
      match t, r with
      | CNode _ l rr, S r' => del_nodes dels l r' (2 * o) ++ del_nodes dels rr r' (2 * o + 1)
      | _, _ => []
      end
    else [].

  Definition new_del (s : slots) (dels : list H) : list (N * H) :=
    let rows := rows_of (num_leaves s) in
    sortK (flat_map (fun e : nat * N * option ctree =>
                       let '(k, lo, t) := e in
                       match t with
                       | None => []
                       | Some c => map (fun x : nat * N * H => let '(r, o, h) := x in (pos rows r o, h))
                                       (del_nodes dels c k (lo / 2 ^ N.of_nat k))
                       end) (forest s)).

  Fixpoint has_leaf_in (adds : list H) (t : ctree) : bool :=
    match t with
    | CLeaf h => memH h adds
    | CNode _ l r => has_leaf_in adds l || has_leaf_in adds r
    end.
  (** children of every node created by the additions, and the added leaves themselves *)
  Fixpoint add_nodes (adds : list H) (t : ctree) (r : nat) (o : N) (isroot : bool)
    : list (nat * N * H) :=
    match t with
    | CLeaf h => if isroot && memH h adds then [(r, o, h)] else []
    | CNode h l rr =>
        if has_leaf_in adds t then
          match r with
          | S r' =>
              (r', 2 * o, chash l) :: (r', 2 * o + 1, chash rr) ::
              add_nodes adds l r' (2 * o) false ++ add_nodes adds rr r' (2 * o + 1) false
          | O => []
          end
        else []
    end.

  Definition new_add (s' : slots) (adds : list H) : list (N * H) :=
    let rows := rows_of (num_leaves s') in
    sortK (flat_map (fun e : nat * N * option ctree =>
                       let '(k, lo, t) := e in
                       match t with
                       | None => []
                       | Some c => map (fun x : nat * N * H => let '(r, o, h) := x in (pos rows r o, h))
                                       (add_nodes adds c k (lo / 2 ^ N.of_nat k) true)
                       end) (forest s')).

  (** empty roots overwritten while appending [k] leaves one by one to [s] (already killed),
      as positions in [rows] coordinates, in order of destruction *)
  Definition trailing_destroyed (rows : nat) (s : slots) : list N :=
    (* trees of s whose rows are the trailing set bits of [length s], lowest first *)
    let n := num_leaves s in
    let fix go (fuel : nat) (h : nat) (ts : list (nat * N * option ctree)) : list N :=
      match fuel with
      | O => []
      | S f =>
          if N.testbit n (N.of_nat h) then
            match ts with
            | (k, lo, t) :: rest =>
                (match t with
                 | None => [pos rows k (lo / 2 ^ N.of_nat k)]
                 | Some _ => []
                 end) ++ go f (S h) rest
            | [] => []
            end
          else []
      end in
    go 65%nat O (rev (forest s)).

  Fixpoint to_destroy (rows : nat) (s : slots) (adds : list H) : list N :=
    match adds with
    | [] => []
    | a :: t => trailing_destroyed rows s ++ to_destroy rows (s ++ [Some a]) t
    end.

  Record update_data := mkUD {
    ud_to_destroy : list N; ud_prev_num_leaves : N;
    ud_new_del : list (N * H); ud_new_add : list (N * H) }.

  Definition spec_update_data (s : slots) (dels adds : list H) : update_data :=
    let s1 := kill dels s in
    let s2 := s1 ++ map Some adds in
    mkUD (to_destroy (rows_of (num_leaves s2)) s1 adds) (num_leaves s)
         (new_del s dels) (new_add s2 adds).

  (** ** Partial forests (C09): what must and what may be stored for remembered leaves [R] *)
  Definition needed_pos (s : slots) (R : list H) : option (list N) :=
    let rows := rows_of (num_leaves s) in
    let lay := layout s in
    match find_leaves lay R with
    | None => None
    | Some ts => Some (sortN (dedupN (map (npos rows) ts ++ canon_proof_pos rows lay ts
                                      ++ map (fun c => pos rows (fst c) (snd c))
                                             (flat_map (fun c => if is_root_coord lay c then []
                                                                 else [sib_coord c])
                                                       (known_set lay ts)))))
    end.
  Definition allowed_pos (s : slots) (R : list H) : option (list N) :=
    let rows := rows_of (num_leaves s) in
    let lay := layout s in
    match find_leaves lay R with
    | None => None
    | Some ts =>
        let K := known_set lay ts in
        Some (sortN (dedupN (map (npos rows) (filter nroot lay)
                             ++ map (fun c => pos rows (fst c) (snd c)) K
                             ++ map (fun c => pos rows (fst c) (snd c))
                                    (flat_map (fun c => if is_root_coord lay c then []
                                                        else [sib_coord c]) K))))
    end.

End Forest.

