(** The free hash algebra: the symbolic reading of "barring a hash collision".
    [Node] is injective, never an [Atom], never [Zero], and well-founded by construction. *)
From Utreexo Require Export Base.Hash.

Inductive term := Zero | Atom (n : N) | Node (l r : term).

Fixpoint term_eqb (a b : term) : bool :=
  match a, b with
  | Zero, Zero => true
  | Atom x, Atom y => N.eqb x y
  | Node a1 a2, Node b1 b2 => term_eqb a1 b1 && term_eqb a2 b2
  | _, _ => false
  end.

Lemma term_eqb_spec a b : term_eqb a b = true <-> a = b.
Proof.
  revert b; induction a as [|x|a1 IH1 a2 IH2]; intros [|y|b1 b2]; cbn; split; intros E;
    try discriminate; try reflexivity.
  - apply N.eqb_eq in E. congruence.
  - injection E as ->. apply N.eqb_refl.
  - apply andb_true_iff in E as [E1 E2]. apply IH1 in E1. apply IH2 in E2. congruence.
  - injection E as -> ->. apply andb_true_iff. split; [apply IH1|apply IH2]; reflexivity.
Qed.

Definition term_ops : ops term := mkOps Node Zero term_eqb.
Lemma term_ops_ok : ops_ok term_ops.
Proof. intros a b. apply term_eqb_spec. Qed.
