(** The forest geometry as a specification, independent of utils.go: row [r] of a forest of height
    [h] holds the positions [gpos h r o = 2^(h+1) - 2^(h+1-r) + o], [o < 2^(h-r)].
    [geom_expect] gives, for a call of an exported position function on VALID coordinates, the result
    the geometry demands (as a list of numbers; [None] = the geometry says nothing about this call,
    e.g. positions outside the geometry).  Used by the oracle to judge the implementation's answers
    directly (property C16), next to the mirror correspondence. *)
From Utreexo Require Export Base.Bits64.
Open Scope N_scope.

Definition gstart (h r : N) : N := 2 ^ (h + 1) - 2 ^ (h + 1 - r).
Definition gpos (h r o : N) : N := gstart h r + o.

(** (row, offset) of a position of the height-[h] geometry *)
Fixpoint coord_loop (fuel : nat) (h r p : N) : option (N * N) :=
  match fuel with
  | O => None
  | S f =>
      if h <? r then None
      else if (gstart h r <=? p) && (p <? gstart h r + 2 ^ (h - r)) then Some (r, p - gstart h r)
      else coord_loop f h (r + 1) p
  end.
Definition coord_of (h p : N) : option (N * N) :=
  if 63 <? h then None else coord_loop 65 h 0 p.

Definition tree_rows (n : N) : N := if n =? 0 then 0 else N.size (n - 1).

(** row of the tree that contains the slots below coordinate (r, o), if those slots exist:
    the highest set bit k of n such that the slots before it ... computed by walking the trees *)
Fixpoint tree_of_loop (fuel : nat) (n : N) (k : N) (lo : N) (slot : N) (idx : N) : option (N * N * N) :=
  (* trees from the highest row k downwards; lo = first slot of the current tree *)
  match fuel with
  | O => None
  | S f =>
      let here := N.testbit n k in
      if here && (lo <=? slot) && (slot <? lo + 2 ^ k) then Some (k, lo, idx)
      else
        let lo' := if here then lo + 2 ^ k else lo in
        let idx' := if here then idx + 1 else idx in
        if k =? 0 then None else tree_of_loop f n (k - 1) lo' slot idx'
  end.
Definition tree_of (n slot : N) : option (N * N * N) := tree_of_loop 70 n 64 0 slot 0.

Definition in_forest (n r o : N) : bool := (o + 1) * 2 ^ r <=? n.

Definition root_coords (n : N) : list (N * N) :=
  flat_map (fun k => let k := N.of_nat k in
                     if N.testbit n k then [(k, 2 * (n / 2 ^ (k + 1)))] else [])
           (rev (seq 0 65)).

(** ** ProofPositions: for sorted, distinct, non-nested targets that exist in the forest of [n] leaves
    (coordinates of height [h]): the siblings of targets-and-ancestors that are not themselves targets
    or ancestors, ascending, and the proper ancestors (the computable positions), ascending. *)
Definition ceqb (a b : N * N) : bool := (fst a =? fst b) && (snd a =? snd b).
Fixpoint cmem (c : N * N) (l : list (N * N)) : bool :=
  match l with [] => false | x :: t => ceqb c x || cmem c t end.
Fixpoint cdedup (l : list (N * N)) : list (N * N) :=
  match l with [] => [] | x :: t => if cmem x t then cdedup t else x :: cdedup t end.
Definition is_root_c (n : N) (c : N * N) : bool := N.testbit n (fst c) && (snd c =? 2 * (n / 2 ^ (fst c + 1))).
(** proper ancestors of a coordinate up to (and including) the root of its tree *)
Fixpoint ancestors (fuel : nat) (n : N) (c : N * N) : list (N * N) :=
  match fuel with
  | O => []
  | S f => if is_root_c n c then [] else
             let p := (fst c + 1, snd c / 2) in p :: ancestors f n p
  end.
Definition pp_valid (n h : N) (cs : list (N * N)) : bool :=
  forallb (fun c => in_forest n (fst c) (snd c) && (fst c <=? h)) cs &&
  (* no target is an ancestor of another, none twice *)
  forallb (fun c => negb (cmem c (flat_map (ancestors 70 n) cs))) cs &&
  Nat.eqb (length (cdedup cs)) (length cs).
Definition pp_expect (n h : N) (ts : list N) : option (list N * list N) :=
  if (63 <? h) || (h <? tree_rows n) || negb (n <=? 2 ^ 63) then None else
  let ocs := map (coord_of h) ts in
  if forallb (fun o => match o with Some _ => true | None => false end) ocs then
    let cs := flat_map (fun o => match o with Some c => [c] | None => [] end) ocs in
    if pp_valid n h cs then
      let anc := cdedup (flat_map (ancestors 70 n) cs) in
      let K := cs ++ anc in
      let sibs := cdedup (flat_map (fun c => if is_root_c n c then []
                                             else let s := (fst c, N.lxor (snd c) 1) in
                                                  if cmem s K then [] else [s]) K) in
      Some (sortN (map (fun c => gpos h (fst c) (snd c)) sibs),
            sortN (map (fun c => gpos h (fst c) (snd c)) anc))
    else None
  else None.

(** expected results; function names as in the Go code *)
Definition geom_expect (fn : N) (a : list N) : option (list N) :=
  match fn, a with
  (* 1 Parent p h *)
  | 1, [p; h] => match coord_of h p with
                 | Some (r, o) => if r <? h then Some [gpos h (r + 1) (o / 2)] else None
                 | None => None end
  (* 2 LeftChild p h ; 3 RightChild *)
  | 2, [p; h] => match coord_of h p with
                 | Some (r, o) => if 0 <? r then Some [gpos h (r - 1) (2 * o)] else None
                 | None => None end
  | 3, [p; h] => match coord_of h p with
                 | Some (r, o) => if 0 <? r then Some [gpos h (r - 1) (2 * o + 1)] else None
                 | None => None end
  (* 4 DetectRow p h *)
  | 4, [p; h] => match coord_of h p with Some (r, _) => Some [r] | None => None end
  (* 5 ParentMany p k h (1 = ok value, 0 = error) *)
  | 5, [p; k; h] => match coord_of h p with
                    | Some (r, o) => if r + k <=? h then Some [1; gpos h (r + k) (o / 2 ^ k)] else None
                    | None => None end
  (* 6 ChildMany p k h *)
  | 6, [p; k; h] => match coord_of h p with
                    | Some (r, o) => if k <=? r then Some [1; gpos h (r - k) (o * 2 ^ k)] else None
                    | None => None end
  (* 7 sibling p (any height: the lowest bit flips) - only for positions that have a sibling *)
  | 7, [p] => Some [N.lxor p 1]
  (* 8 rootPosition n k h *)
  | 8, [n; k; h] => if (tree_rows n <=? h) && (h <=? 63) && N.testbit n k
                    then Some [gpos h k (2 * (n / 2 ^ (k + 1)))] else None
  (* 9 RootPositions n h *)
  | 9, [n; h] => if (tree_rows n <=? h) && (h <=? 63)
                 then Some (map (fun c => gpos h (fst c) (snd c)) (root_coords n)) else None
  (* 10 translatePos p from to *)
  | 10, [p; f; t] => match coord_of f p with
                     | Some (r, o) => if (r <=? t) && (t <=? 63) && (o <? 2 ^ (t - r)) then Some [gpos t r o] else None
                     | None => None end
  (* 11 TreeRows n *)
  | 11, [n] => if n <=? 2 ^ 63 then Some [tree_rows n] else None
  (* 12 inForest p n h *)
  | 12, [p; n; h] => match coord_of h p with
                     | Some (r, o) => Some [if in_forest n r o then 1 else 0]
                     | None => None end
  (* 13 isRootPosition p n *)
  | 13, [p; n] => if n <=? 2 ^ 63 then
                    match coord_of (tree_rows n) p with
                    | Some (r, o) => Some [if N.testbit n r && (o =? 2 * (n / 2 ^ (r + 1))) then 1 else 0]
                    | None => None end
                  else None
  (* 14 DetectOffset p n : tree index, branch length, low branch-length bits *)
  | 14, [p; n] =>
      if n <=? 2 ^ 63 then
        let h := tree_rows n in
        match coord_of h p with
        | Some (r, o) =>
            if in_forest n r o then
              match tree_of n (o * 2 ^ r) with
              | Some (k, lo, idx) =>
                  let bl := k - r in
                  let ol := o - lo / 2 ^ r in
                  Some [idx; bl; (2 ^ bl - 1) - (N.lxor ol 1) mod 2 ^ bl]
              | None => None
              end
            else None
        | None => None
        end
      else None
  (* 15 ProofPositions n h t1 t2 ... : proof positions, then 2^64 as a separator, then the computable ones *)
  | 15, n :: h :: ts =>
      match pp_expect n h ts with
      | Some (pp, comp) => Some (pp ++ [2 ^ 64] ++ comp)
      | None => None
      end
  | _, _ => None
  end.
