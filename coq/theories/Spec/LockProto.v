(** C12 - protocol model of the reader-writer-lock discipline of [MapPollard].

    Definitions only (the proofs are in [Proofs/LockSafe.v]).

    What is modelled.  One reader-writer lock [(readers, writer)] and any number of threads.  Each
    thread runs *method instances*: it picks an entry-point row of the table (an exported,
    non-excluded method), waits for the lock in the row's mode, performs an ARBITRARY finite list of
    accesses drawn from the row's read/write sets (any order, any multiplicity; the list is chosen
    non-deterministically at the acquire step), releases, and may start again.
    So that every conjunct of [wf_row] is load-bearing, the semantics also contains the *bad*
    behaviours that the conjuncts rule out: accesses before the lock is taken ([pre_reads],
    [pre_writes]), leaving without unlocking ([deferred = false]), acquiring the lock again while
    inside an instance ([calls_locking]) and writing the immutable fields ([writes_immutable]).
    For a well-formed table these steps are never enabled (or are harmless), and the semantics
    collapses to start / acquire / access / release.

    What is NOT modelled (trusted / out of scope): that [sync.RWMutex] implements this lock; the Go
    memory model; goroutine scheduling, writer preference and starvation of [sync.RWMutex] (a pending
    [Lock] blocks new [RLock]s in Go; this matters only for *nested* acquisition, which [wf_row]
    forbids through [calls_locking]); panics (e.g. a zero-value [MapPollard] has a nil [rwLock]);
    the *values* read and written (the correctness of a query result for the state it reads is the
    subject of C01-C10). The table itself is produced from the Go source by [tools/lockscan]
    (syntactic effect extraction, see its README for what is recognised and what is assumed). *)
From Coq Require Import List Bool Arith String.
Import ListNotations.

(** * The table *)

(** The fields guarded by [MapPollard.rwLock].  [Full] and [rwLock] are immutable after
    construction and are not listed; a write to them is recorded in [writes_immutable]. *)
Inductive field : Type := FNodes | FCached | FNumLeaves | FTotalRows.

(** Lock mode: [MR] = [RLock]/[RUnlock], [MW] = [Lock]/[Unlock]. *)
Inductive mode : Type := MR | MW.

(** One row per function or method that can touch a [*MapPollard].
    - [lock]: mode of the lock statement found at the top level of the body ([None]: no lock);
    - [deferred]: the statement directly after the lock statement is the matching deferred unlock
      and there is no other lock/unlock call in the body;
    - [reads]/[writes]: guarded fields read/written by the body and, transitively, by its callees,
      excluding what a callee does under a lock that the callee takes itself;
    - [calls_locking]: some (transitive) callee takes the lock itself;
    - [writes_immutable]: writes [Full] or [rwLock] (transitively);
    - [exported]: exported method of [*MapPollard] (a possible entry point of a thread);
    - [excluded]: declared outside the property (composite printing helpers);
    - [pre_reads]/[pre_writes]: guarded fields touched by the statements that precede the lock
      statement (subsets of [reads]/[writes]). *)
Record method_row : Type := mkRow {
  name : string;
  lock : option mode;
  deferred : bool;
  reads : list field;
  writes : list field;
  calls_locking : bool;
  writes_immutable : bool;
  exported : bool;
  excluded : bool;
  pre_reads : list field;
  pre_writes : list field
}.

Definition is_nil {A : Type} (l : list A) : bool :=
  match l with [] => true | _ :: _ => false end.

Definition is_some {A : Type} (o : option A) : bool :=
  match o with Some _ => true | None => false end.

Definition is_MW (o : option mode) : bool :=
  match o with Some MW => true | _ => false end.

(** The discipline for one row, as an executable boolean. *)
Definition row_disciplined (r : method_row) : bool :=
  implb (negb (is_nil (writes r))) (is_MW (lock r))       (* writes only under Lock            *)
  && implb (negb (is_nil (reads r))) (is_some (lock r))   (* reads only under RLock or Lock    *)
  && implb (is_some (lock r)) (deferred r)                (* every path releases               *)
  && negb (calls_locking r)                               (* no nested / repeated acquisition  *)
  && negb (writes_immutable r)                            (* Full, rwLock stay immutable       *)
  && is_nil (pre_reads r) && is_nil (pre_writes r).       (* nothing guarded before the lock   *)

Definition wf_row (r : method_row) : bool := excluded r || row_disciplined r.

Definition wf_table (t : list method_row) : bool := forallb wf_row (filter exported t).

(** Rows of [t] that violate the discipline (used by the examples; [lockscan -explain] prints the
    same list with reasons). *)
Definition violations (t : list method_row) : list string :=
  map name (filter (fun r => negb (wf_row r)) (filter exported t)).

(** Entry points of threads: exported rows that are not excluded.  Unexported rows are reachable
    only through them and their effects are already folded into the exported rows. *)
Definition entry (t : list method_row) (r : method_row) : Prop :=
  In r t /\ exported r = true /\ excluded r = false.

(** * Semantics *)

(** [Rd f]/[Wr f]: access to a guarded field.  [RdImm]/[WrImm]: access to the immutable part of the
    value ([Full], [rwLock]); every method reads it without the lock (it must read [rwLock] to take
    the lock at all), so it has to stay unwritten. *)
Inductive access : Type := Rd (f : field) | Wr (f : field) | RdImm | WrImm.

(** The location touched: [Some f] for a guarded field, [None] for the immutable part. *)
Definition acc_loc (a : access) : option field :=
  match a with Rd f => Some f | Wr f => Some f | RdImm => None | WrImm => None end.
Definition is_write (a : access) : Prop :=
  match a with Wr _ => True | WrImm => True | _ => False end.
Definition guarded (a : access) : Prop :=
  match a with Rd _ => True | Wr _ => True | _ => False end.

(** Two accesses conflict iff they touch the same location and at least one is a write. *)
Definition conflict (a b : access) : Prop :=
  acc_loc a = acc_loc b /\ (is_write a \/ is_write b).

(** The accesses an instance of row [r] may perform inside its section: writes of fields in
    [writes r]; reads of fields in [reads r] or in [writes r] (a method that may write a field may
    also read it); reads of the immutable part; writes of it only if [writes_immutable r]. *)
Definition acc_in_row (r : method_row) (a : access) : Prop :=
  match a with
  | Rd f => In f (reads r) \/ In f (writes r)
  | Wr f => In f (writes r)
  | RdImm => True
  | WrImm => writes_immutable r = true
  end.

(** The accesses an instance of row [r] may perform BEFORE it takes the lock. *)
Definition acc_in_pre (r : method_row) (a : access) : Prop :=
  match a with
  | Rd f => In f (pre_reads r)
  | Wr f => In f (pre_writes r)
  | RdImm => True
  | WrImm => writes_immutable r = true
  end.

(** [Nested r m accs]: inside an instance of [r] (still holding [r]'s lock, [accs] still to do) and
    blocked in a further acquisition in mode [m] made by a callee. *)
Inductive tstate : Type :=
| Idle
| Waiting (r : method_row)
| Running (r : method_row) (remaining : list access)
| Nested (r : method_row) (m : mode) (remaining : list access)
| Done.

Record lockst : Type := mkLock { readers : nat; writer : bool }.

Definition config : Type := (lockst * list tstate)%type.

Definition free_lock : lockst := mkLock 0 false.
Definition init (n : nat) : config := (free_lock, repeat Idle n).

(** [acquire lk m]: the lock state after a successful acquisition in mode [m], [None] if the
    thread must wait.  A row without lock statement starts immediately. *)
Definition acquire (lk : lockst) (m : option mode) : option lockst :=
  match m with
  | None => Some lk
  | Some MR => if writer lk then None else Some (mkLock (S (readers lk)) false)
  | Some MW => if writer lk then None
               else match readers lk with
                    | O => Some (mkLock 0 true)
                    | S _ => None
                    end
  end.

Definition release (lk : lockst) (m : option mode) : lockst :=
  match m with
  | None => lk
  | Some MR => mkLock (pred (readers lk)) (writer lk)
  | Some MW => mkLock (readers lk) false
  end.

Fixpoint upd {A : Type} (l : list A) (i : nat) (x : A) : list A :=
  match l, i with
  | [], _ => []
  | _ :: tl, O => x :: tl
  | y :: tl, S j => y :: upd tl j x
  end.

(** Step labels: which thread did what. *)
Inductive label : Type :=
| LStart (i : nat) (r : method_row)
| LAcquire (i : nat)
| LAccess (i : nat) (a : access)
| LRelease (i : nat)
| LLeak (i : nat)
| LNestBegin (i : nat)
| LNestEnd (i : nat)
| LAgain (i : nat).

Inductive step (t : list method_row) : config -> label -> config -> Prop :=
(* a thread calls an entry point *)
| step_start : forall lk ths i r,
    nth_error ths i = Some Idle ->
    entry t r ->
    step t (lk, ths) (LStart i r) (lk, upd ths i (Waiting r))
(* bad behaviour 1: an access made before the lock statement *)
| step_pre_access : forall lk ths i r a,
    nth_error ths i = Some (Waiting r) ->
    acc_in_pre r a ->
    step t (lk, ths) (LAccess i a) (lk, ths)
(* the lock is granted (or there is no lock statement); the accesses of this instance are chosen *)
| step_acquire : forall lk lk' ths i r accs,
    nth_error ths i = Some (Waiting r) ->
    Forall (acc_in_row r) accs ->
    acquire lk (lock r) = Some lk' ->
    step t (lk, ths) (LAcquire i) (lk', upd ths i (Running r accs))
(* one access inside the section *)
| step_access : forall lk ths i r a rest,
    nth_error ths i = Some (Running r (a :: rest)) ->
    step t (lk, ths) (LAccess i a) (lk, upd ths i (Running r rest))
(* return, undoing the lock effect *)
| step_release : forall lk ths i r,
    nth_error ths i = Some (Running r []) ->
    step t (lk, ths) (LRelease i) (release lk (lock r), upd ths i Done)
(* bad behaviour 2: return without unlocking, possible when the unlock is not deferred *)
| step_leak : forall lk ths i r,
    nth_error ths i = Some (Running r []) ->
    deferred r = false ->
    step t (lk, ths) (LLeak i) (lk, upd ths i Done)
(* bad behaviour 3: a callee takes the lock again (in any mode) ... *)
| step_nest_begin : forall lk ths i r m accs,
    nth_error ths i = Some (Running r accs) ->
    calls_locking r = true ->
    step t (lk, ths) (LNestBegin i) (lk, upd ths i (Nested r m accs))
(* ... and gets through only if the lock can be granted in that mode given what is held now
   (the inner section itself is contracted to a point) *)
| step_nest_end : forall lk lk' ths i r m accs,
    nth_error ths i = Some (Nested r m accs) ->
    acquire lk (Some m) = Some lk' ->
    step t (lk, ths) (LNestEnd i) (lk, upd ths i (Running r accs))
(* the goroutine makes another call *)
| step_again : forall lk ths i,
    nth_error ths i = Some Done ->
    step t (lk, ths) (LAgain i) (lk, upd ths i Idle).

(** Executions with their traces. *)
Inductive exec (t : list method_row) : config -> list label -> config -> Prop :=
| exec_nil : forall c, exec t c [] c
| exec_cons : forall c l c' tr c'',
    step t c l c' -> exec t c' tr c'' -> exec t c (l :: tr) c''.

Definition reachable (t : list method_row) (n : nat) (c : config) : Prop :=
  exists tr, exec t (init n) tr c.

(** * Properties *)

(** The accesses a thread can perform next. *)
Definition enabled (st : tstate) (a : access) : Prop :=
  match st with
  | Waiting r => acc_in_pre r a
  | Running r (b :: _) => a = b
  | _ => False
  end.

(** A race: two distinct threads with conflicting enabled accesses. *)
Definition racy (c : config) : Prop :=
  exists i j si sj a b,
    i <> j /\
    nth_error (snd c) i = Some si /\ nth_error (snd c) j = Some sj /\
    enabled si a /\ enabled sj b /\ conflict a b.

(** Thread [i] is inside an instance of a row locked in mode [m]. *)
Definition in_section (c : config) (i : nat) (m : mode) : Prop :=
  exists r accs, nth_error (snd c) i = Some (Running r accs) /\ lock r = Some m.

Definition unfinished (st : tstate) : Prop :=
  match st with Waiting _ | Running _ _ | Nested _ _ _ => True | _ => False end.

Definition some_thread_unfinished (c : config) : Prop :=
  exists i st, nth_error (snd c) i = Some st /\ unfinished st.

Definition can_step (t : list method_row) (c : config) : Prop :=
  exists l c', step t c l c'.
