(** Property predicates evaluated by the correspondence run.  Every judgement the oracle
    executable makes about an observation of the implementation is one of the boolean
    functions below, evaluated on the reference forest ([Spec.Forest]) or on the mirror
    ([Model.Verify], [Model.Utils]).  The OCaml driver only parses lines, calls these
    functions and prints their results. *)
From Utreexo Require Export Spec.Forest Model.Verify.
Set Implicit Arguments.
Open Scope N_scope.

Section Oracle.
  Variable H : Type.
  Variable HO : ops H.
  Notation hash2 := (op_hash2 HO).
  Notation empty := (op_empty HO).
  Notation Heqb := (op_eqb HO).

  Notation slots := (slots H).
  Notation node := (node H).

  Record ctx := mkCtx { cs : slots; clay : list node; crows : nat; croots : list H; cn : N }.
  Definition mk_ctx (s : slots) : ctx :=
    mkCtx s (layout HO s) (rows_of (num_leaves s)) (roots HO s)
          (num_leaves s).

  Fixpoint list_eqb {A} (eqb : A -> A -> bool) (a b : list A) : bool :=
    match a, b with
    | [], [] => true
    | x :: a', y :: b' => eqb x y && list_eqb eqb a' b'
    | _, _ => false
    end.
  Definition opt_eqb {A} (eqb : A -> A -> bool) (a b : option A) : bool :=
    match a, b with
    | None, None => true
    | Some x, Some y => eqb x y
    | _, _ => false
    end.
  Definition hp_eqb (a b : N * H) : bool := (fst a =? fst b) && Heqb (snd a) (snd b).

  (** C01 *)
  Definition chk_roots (c : ctx) (n : N) (rs : list H) : bool :=
    (n =? cn c) && list_eqb Heqb rs (croots c).

  (** C10: the number of tracked live leaves *)
  Definition chk_count (c : ctx) (v : N) : bool := v =? N.of_nat (length (live (cs c))).

  (** C10: look-ups.  [tracked] says whether the instance is supposed to track this hash
      (always true for full forests). *)
  Definition exp_leafpos (c : ctx) (tracked : bool) (h : H) : option N :=
    if tracked then leaf_pos HO (crows c) (clay c) h else None.
  Definition chk_leafpos (c : ctx) (tracked : bool) (h : H) (res : option N) : bool :=
    opt_eqb N.eqb (exp_leafpos c tracked h) res.
  (** a full forest returns the true hash everywhere; a partial one may also return [empty] *)
  Definition chk_gethash (c : ctx) (full : bool) (p : N) (res : H) : bool :=
    let e := hash_at HO (crows c) (clay c) p in
    Heqb res e || (negb full && Heqb res empty).

  (** ** Map forests allocated higher than needed ([TotalRows > TreeRows]) accept positions in
      either coordinate system: a position of the minimal geometry is read there; a position
      beyond the minimal geometry is read in the forest's own [total]-row coordinates (the code
      translates explicitly and the repository's tests pass such coordinates on purpose).
      [dual_node] is the node a position denotes under that reading. *)
  Fixpoint decode_pos (fuel : nat) (rows r : nat) (p : N) : option (nat * N) :=
    match fuel with
    | O => None
    | S f =>
        let s := pos rows r 0 in
        let w := 2 ^ N.of_nat (rows - r) in
        if p <? s then None
        else if p <? s + w then Some (r, p - s)
        else if Nat.ltb r rows then decode_pos f rows (S r) p else None
    end.
  Definition dual_node (c : ctx) (total : nat) (p : N) : option node :=
    if Nat.ltb (crows c) total && (2 ^ (N.of_nat (crows c) + 1) - 2 <? p) then
      match decode_pos 70 total 0 p with
      | Some (r, o) => find_coord (clay c) r o
      | None => None
      end
    else find_pos (crows c) (clay c) p.
  Definition chk_gethash_dual (c : ctx) (full : bool) (total : nat) (p : N) (res : H) : bool :=
    let e := match dual_node c total p with Some x => nhash x | None => empty end in
    Heqb res e || (negb full && Heqb res empty).

  (** C02: canonical proofs *)
  Definition exp_prove (c : ctx) (hs : list H) : option (list N * list H) :=
    match find_leaves HO (clay c) hs with
    | None => None
    | Some ts => Some (map (npos (crows c)) ts, canon_proof_hashes HO (crows c) (clay c) ts)
    end.
  Definition chk_prove (c : ctx) (hs : list H) (res : option (list N * list H)) : bool :=
    match exp_prove c hs, res with
    | Some (t, p), Some (t', p') => list_eqb N.eqb t t' && list_eqb Heqb p p'
    | None, None => true
    | _, _ => false
    end.

  (** the trees (root indexes, ascending as Verify returns them: lowest row first means
      highest index first) that contain the given leaves *)
  Fixpoint index_of_tree (k : nat) (f : list (nat * N * option (ctree H))) (i : nat) : option nat :=
    match f with
    | [] => None
    | (k', _, _) :: t => if Nat.eqb k k' then Some i else index_of_tree k t (S i)
    end.
  Fixpoint insert_desc (x : nat) (l : list nat) : list nat :=
    match l with
    | [] => [x]
    | y :: t => if Nat.eqb x y then l else if Nat.ltb y x then x :: l else y :: insert_desc x t
    end.
  Definition exp_root_indexes (c : ctx) (hs : list H) : option (list nat) :=
    match find_leaves HO (clay c) hs with
    | None => None
    | Some ts =>
        let f := forest HO (cs c) in
        Some (fold_right (fun x acc => match index_of_tree (ntree x) f 0 with
                                       | Some i => insert_desc i acc | None => acc end) [] ts)
    end.

  (** C03: every accepted claim is true *)
  Definition claim_true (c : ctx) (p : N) (h : H) : bool :=
    match find_pos (crows c) (clay c) p with
    | Some x => Heqb (nhash x) h
    | None => false
    end.
  Fixpoint claims_true (c : ctx) (ts : list N) (hs : list H) : bool :=
    match ts, hs with
    | [], [] => true
    | t :: ts', h :: hs' => claim_true c t h && claims_true c ts' hs'
    | _, _ => false
    end.

  Definition claim_true_dual (c : ctx) (total : nat) (p : N) (h : H) : bool :=
    match dual_node c total p with
    | Some x => Heqb (nhash x) h
    | None => false
    end.
  Fixpoint claims_true_dual (c : ctx) (total : nat) (ts : list N) (hs : list H) : bool :=
    match ts, hs with
    | [], [] => true
    | t :: ts', h :: hs' => claim_true_dual c total t h && claims_true_dual c total ts' hs'
    | _, _ => false
    end.

  Definition the_stump (c : ctx) : stump H := mkStump (croots c) (cn c).

  (** mirror outcome of Verify as a small code: 0 ok, 1 err, 2 panic, 3 out of fuel *)
  Definition out_code {A} (o : outcome A) : N :=
    match o with Ok _ => 0 | Err => 1 | Panic => 2 | OutOfFuel => 3 end.
  Definition mirror_verify (c : ctx) (hs : list H) (ts : list N) (pf : list H) : outcome (list nat) :=
    Verify HO true (the_stump c) hs ts pf.
  Definition mirror_pollard_verify (c : ctx) (hs : list H) (ts : list N) (pf : list H) : outcome unit :=
    PollardVerify HO true (the_stump c) hs ts pf.

  (** [MapPollard.verify]: a target beyond the minimal geometry must fit into its row of the minimal
      geometry (row <= TreeRows, offset < 2^(TreeRows-row)); then translate and Verify *)
  Definition target_fits (tr total t : N) : bool :=
    if t <=? maxPosition tr then true
    else
      let row := DetectRow t total in
      negb (tr <? row) && (sub64 t (startPositionAtRow row total) <? shl 1 (sub8 tr row)).

  Definition mirror_map_verify (c : ctx) (total : N) (hs : list H) (ts : list N) (pf : list H)
    : outcome (list nat) :=
    let tr := TreeRows (cn c) in
    if tr =? total then Verify HO true (the_stump c) hs ts pf
    else if forallb (target_fits tr total) ts
         then Verify HO true (the_stump c) hs (translatePositions ts total tr) pf
         else Err.

  (** C11 / C04: Stump.Update mirrored on the reference's stump *)
  Definition mirror_update (filler : H) (c : ctx) (dels adds : list H) (ts : list N) (pf : list H) :=
    stump_update HO true filler (the_stump c) dels adds ts pf.

  Definition chk_update_data (c : ctx) (dels adds : list H)
             (td : list N) (prev : N) (nd na : list (N * H)) : bool :=
    let u := spec_update_data HO (cs c) dels adds in
    list_eqb N.eqb td (ud_to_destroy u) && (prev =? ud_prev_num_leaves u)
    && list_eqb hp_eqb nd (ud_new_del u) && list_eqb hp_eqb na (ud_new_add u).

  (** C07 / C08 / C14: a cached proof for the leaf set [set] must be: hashes = [set] ordered by
      position, targets = their positions, proof = the canonical hashes *)
  Definition exp_cached (c : ctx) (set : list H) : option (list H * list N * list H) :=
    match find_leaves HO (clay c) set with
    | None => None
    | Some ts =>
        let sorted := map snd (sortK (map (fun x => (npos (crows c) x, x)) ts)) in
        Some (map (@nhash H) sorted, map (npos (crows c)) sorted,
              canon_proof_hashes HO (crows c) (clay c) sorted)
    end.
  Definition chk_cached (c : ctx) (set : list H) (hs : list H) (ts : list N) (pf : list H) : bool :=
    match exp_cached c set with
    | Some (h, t, p) => list_eqb Heqb h hs && list_eqb N.eqb t ts && list_eqb Heqb p pf
    | None => false
    end.

  (** C09: every stored entry true; stored within [allowed]; [needed] within stored *)
  Fixpoint all_true (c : ctx) (st : list (N * H)) : bool :=
    match st with
    | [] => true
    | (p, h) :: t => claim_true c p h && all_true c t
    end.
  Fixpoint subsetN (a b : list N) : bool :=
    match a with [] => true | x :: t => memN x b && subsetN t b end.
  Definition chk_stored (c : ctx) (R : list H) (st : list (N * H)) : N :=
    (* 0 ok, 1 untrue entry, 2 beyond allowed, 3 needed missing, 4 R not live *)
    match needed_pos HO (cs c) R, allowed_pos HO (cs c) R with
    | Some nd, Some al =>
        if negb (all_true c st) then 1
        else if negb (subsetN (map fst st) al) then 2
        else if negb (subsetN nd (map fst st)) then 3
        else 0
    | _, _ => 4
    end.

  (** C14: missing positions for proving [want] when holding proofs for [have]:
      canonical proof positions of [want \ have] that are neither held nor computable *)
  Definition exp_missing (c : ctx) (have want : list H) : option (list N) :=
    match find_leaves HO (clay c) have, find_leaves HO (clay c) want with
    | Some th, Some tw =>
        let rows := crows c in
        let lay := clay c in
        let hp := map (npos rows) th in
        let tw' := filter (fun x => negb (memN (npos rows x) hp)) tw in
        let held := hp ++ canon_proof_pos rows lay th ++ computable_pos rows lay th in
        Some (filter (fun p => negb (memN p held)) (canon_proof_pos rows lay tw'))
    | _, _ => None
    end.
  (** MapPollard.GetMissingPositions: canonical proof positions that are not stored *)
  Definition exp_missing_stored (c : ctx) (want : list H) (stored : list N) : option (list N) :=
    match find_leaves HO (clay c) want with
    | Some tw => Some (filter (fun p => negb (memN p stored))
                              (canon_proof_pos (crows c) (clay c) tw))
    | None => None
    end.

  (** leaves (hashes) sitting at the given positions; [None] if some position is not a leaf *)
  Fixpoint leaves_at (c : ctx) (ts : list N) : option (list H) :=
    match ts with
    | [] => Some []
    | t :: ts' =>
        match find_pos (crows c) (clay c) t, leaves_at c ts' with
        | Some x, Some l => if nleaf x then Some (nhash x :: l) else None
        | _, _ => None
        end
    end.

End Oracle.
