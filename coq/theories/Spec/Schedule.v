(** Caching-schedule facts derived from the slot history (C15): for every slot, the block in which
    its leaf was added and the block (if any) in which it was deleted. *)
From Utreexo Require Export Spec.Forest.
Set Implicit Arguments.
Open Scope N_scope.

Section Schedule.
  Variable H : Type.
  Variable HO : ops H.

  Record slotinfo := mkSI { si_added : nat; si_deleted : option nat }.

  (** mark the slots whose live leaf is in [dels] as deleted in block [b] *)
  Fixpoint mark_deleted (b : nat) (dels : list H) (s : slots H) (info : list slotinfo)
    : list slotinfo :=
    match s, info with
    | o :: s', i :: info' =>
        (match o with
         | Some h => if memH HO h dels then mkSI (si_added i) (Some b) else i
         | None => i
         end) :: mark_deleted b dels s' info'
    | _, _ => info
    end.

  Fixpoint hist_info (b : nat) (blocks : list (list H * list H)) (s : slots H)
           (info : list slotinfo) : list slotinfo :=
    match blocks with
    | [] => info
    | (dels, adds) :: rest =>
        let info1 := mark_deleted b dels s info in
        let info2 := info1 ++ map (fun _ => mkSI b None) adds in
        hist_info (S b) rest (apply_block HO s dels adds) info2
    end.

  Definition slot_info (blocks : list (list H * list H)) : list slotinfo :=
    hist_info 0 blocks [] [].

  Fixpoint strictly_asc (l : list N) : bool :=
    match l with
    | x :: ((y :: _) as t) => (x <? y) && strictly_asc t
    | _ => true
    end.

  (** clause 1: every position scheduled for block [b] is the slot of a leaf added in [b] and
      deleted in a later recorded block; listed once, ascending *)
  Definition entry_ok (info : list slotinfo) (b : nat) (p : N) : bool :=
    match nth_error info (N.to_nat p) with
    | Some i => Nat.eqb (si_added i) b &&
                match si_deleted i with Some d => Nat.ltb b d | None => false end
    | None => false
    end.
  Fixpoint sched_subset (info : list slotinfo) (b : nat) (sch : list (list N)) : bool :=
    match sch with
    | [] => true
    | l :: rest => forallb (entry_ok info b) l && strictly_asc l && sched_subset info (S b) rest
    end.

  (** clause 2: at no block more than [maxMem] scheduled leaves exist simultaneously *)
  Definition alive_at (info : list slotinfo) (x : nat) (p : N) : bool :=
    match nth_error info (N.to_nat p) with
    | Some i => Nat.leb (si_added i) x &&
                match si_deleted i with Some d => Nat.ltb x d | None => true end
    | None => false
    end.
  Definition sched_memory (info : list slotinfo) (nblocks maxMem : nat) (sch : list (list N)) : bool :=
    let all := concat sch in
    forallb (fun x => Nat.leb (length (filter (alive_at info x) all)) maxMem) (seq 0 nblocks).

  (** clause 3: with a limit of at least the number of leaves ever alive, every leaf added in a
      recorded block and deleted in a later recorded block is scheduled *)
  Definition sched_complete (info : list slotinfo) (maxMem : nat) (sch : list (list N)) : bool :=
    if Nat.ltb maxMem (length info) then true
    else
      let all := concat sch in
      forallb (fun k => match nth_error info k with
                        | Some i => match si_deleted i with
                                    | Some d => if Nat.ltb (si_added i) d then memN (N.of_nat k) all else true
                                    | None => true
                                    end
                        | None => true
                        end) (seq 0 (length info)).

  (** 0 ok; 1 wrong length; 2 clause 1; 3 clause 2; 4 clause 3 *)
  Definition chk_schedule (blocks : list (list H * list H)) (maxMem : nat) (sch : list (list N)) : N :=
    let info := slot_info blocks in
    if negb (Nat.eqb (length sch) (length blocks)) then 1
    else if negb (sched_subset info 0 sch) then 2
    else if negb (sched_memory info (length blocks) maxMem sch) then 3
    else if negb (sched_complete info maxMem sch) then 4
    else 0.

  (** the TTL facts a block summary history determines: per block, (slot, deleted - added) for every
      leaf added in that block and deleted in a later recorded block, ascending by slot *)
  Definition exp_ttls (blocks : list (list H * list H)) : list (list (N * N)) :=
    let info := slot_info blocks in
    map (fun b =>
           flat_map (fun k => match nth_error info k with
                              | Some i => match si_deleted i with
                                          | Some d => if Nat.eqb (si_added i) b && Nat.ltb b d
                                                      then [(N.of_nat k, N.of_nat (d - b))] else []
                                          | None => []
                                          end
                              | None => []
                              end) (seq 0 (length info)))
        (seq 0 (length blocks)).
End Schedule.
