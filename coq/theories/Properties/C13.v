(** C13 - Serialization round-trips exactly; damaged streams are never accepted silently.

    Mirrors (Model/Codec.v): [encode_pollard]/[chunks_pollard] = [Pollard.WriteTo]+[writeOne],
    [decode_pollard]/[decode_pollard_chunked] = [RestorePollardFrom]+[readOne],
    [serialize_size] = [SerializeSize]; [encode_map]/[chunks_map] = [MapPollard.Write],
    [decode_map]/[decode_map_chunked] = [MapPollard.Read] (fresh receiver).
    A decoder returns [Ok (image, bytes consumed) | Err | OutOfFuel]; there is no panic outcome
    and [OutOfFuel] is excluded by [decode_never_out_of_fuel].  [decode_*] reads from a plain
    byte list; [decode_*_chunked] reads through [io.ReadFull] from a reader that hands out the
    bytes in arbitrary chunks (optionally with [io.EOF] on the last data).
    This file contains only the property theorems; proofs live in Proofs/CodecRT.v. *)
From Coq Require Import NArith List Bool.
From Utreexo Require Import Base.Bits64 Base.Hash Spec.Forest Model.Codec Proofs.CodecRT.
Import ListNotations.
Open Scope N_scope.

(** T1. *)
Theorem pollard_roundtrip :
  forall img : pimage,
    wf_pimage img ->
    decode_pollard (encode_pollard img) = Ok (img, length (encode_pollard img)).
Proof. exact pollard_roundtrip_proof. Qed.
Print Assumptions pollard_roundtrip.

(** T2.  [wf_mimage]: no duplicate keys in either map, every cached (hash, pos) has
    [nodes[pos].Hash = hash], field widths. *)
Theorem map_roundtrip :
  forall img : mimage,
    wf_mimage img ->
    decode_map (encode_map img) = Ok (img, length (encode_map img)).
Proof. exact map_roundtrip_proof. Qed.
Print Assumptions map_roundtrip.

(** T3.  For EVERY byte stream (valid or not), every chunk oracle and either EOF convention the
    chunked restore gives the result (value, error or not, bytes consumed) of the plain one. *)
Theorem chunk_independent :
  (forall (data : list byte) (chunks : list nat) (eof_with_data : bool),
     decode_pollard_chunked (mkReader data chunks eof_with_data) = decode_pollard data) /\
  (forall (data : list byte) (chunks : list nat) (eof_with_data : bool),
     decode_map_chunked (mkReader data chunks eof_with_data) = decode_map data).
Proof. exact (conj pollard_chunk_independent_proof map_chunk_independent_proof). Qed.
Print Assumptions chunk_independent.

(** T4, strong form for both formats: every strict prefix of a valid stream is an error. *)
Theorem prefix_rejected :
  (forall (img : pimage) (k : nat),
     wf_pimage img -> (k < length (encode_pollard img))%nat ->
     decode_pollard (firstn k (encode_pollard img)) = Err) /\
  (forall (img : mimage) (k : nat),
     wf_mimage img -> (k < length (encode_map img))%nat ->
     decode_map (firstn k (encode_map img)) = Err).
Proof. exact (conj pollard_prefix_rejected_proof map_prefix_rejected_proof). Qed.
Print Assumptions prefix_rejected.

(** T5.  [node_count] = [GetTotalCount]. *)
Theorem size_predicted :
  forall img : pimage,
    wf_pimage img ->
    length (encode_pollard img) = (16 + 34 * node_count img)%nat /\
    serialize_size img = length (encode_pollard img).
Proof. exact size_predicted_proof. Qed.
Print Assumptions size_predicted.

(** T6.  A sink that accepts [lim] bytes: error iff the stream does not fit; otherwise the count
    returned is the number of bytes produced.  (No well-formedness needed.) *)
Theorem write_fail_err :
  (forall (img : pimage) (lim : nat),
     ((lim < length (encode_pollard img))%nat ->
        write_with_limit lim (chunks_pollard img) = Err) /\
     ((length (encode_pollard img) <= lim)%nat ->
        write_with_limit lim (chunks_pollard img) = Ok (length (encode_pollard img)))) /\
  (forall (img : mimage) (lim : nat),
     ((lim < length (encode_map img))%nat ->
        write_with_limit lim (chunks_map img) = Err) /\
     ((length (encode_map img) <= lim)%nat ->
        write_with_limit lim (chunks_map img) = Ok (length (encode_map img)))).
Proof. exact (conj pollard_write_fail_err_proof map_write_fail_err_proof). Qed.
Print Assumptions write_fail_err.

(** the [Write] calls produce exactly the stream *)
Theorem chunks_concat :
  (forall img : pimage, concat (chunks_pollard img) = encode_pollard img) /\
  (forall img : mimage, concat (chunks_map img) = encode_map img).
Proof. exact (conj concat_chunks_pollard concat_chunks_map). Qed.
Print Assumptions chunks_concat.

(** On ANY input the restore functions terminate with [Ok] or [Err] ... *)
Theorem decode_never_out_of_fuel :
  (forall l : list byte, decode_pollard l <> OutOfFuel) /\
  (forall l : list byte, decode_map l <> OutOfFuel).
Proof. exact (conj decode_pollard_no_fuel_proof decode_map_no_fuel_proof). Qed.
Print Assumptions decode_never_out_of_fuel.

(** ... and a reported count never exceeds what the stream holds. *)
Theorem decode_consumed_le :
  (forall (l : list byte) (img : pimage) (n : nat),
     decode_pollard l = Ok (img, n) -> (n <= length l)%nat) /\
  (forall (l : list byte) (img : mimage) (n : nat),
     decode_map l = Ok (img, n) -> (n <= length l)%nat).
Proof. exact (conj decode_pollard_consumed_proof decode_map_consumed_proof). Qed.
Print Assumptions decode_consumed_le.

(** Bytes after a valid stream are not touched: same image, same count. *)
Theorem roundtrip_trailing :
  (forall (img : pimage) (rest : list byte),
     wf_pimage img ->
     decode_pollard (encode_pollard img ++ rest) = Ok (img, length (encode_pollard img))) /\
  (forall (img : mimage) (rest : list byte),
     wf_mimage img ->
     decode_map (encode_map img ++ rest) = Ok (img, length (encode_map img))).
Proof. exact (conj pollard_roundtrip_trailing_proof map_roundtrip_trailing_proof). Qed.
Print Assumptions roundtrip_trailing.

(** T1-T4 combined, as the property reads: whatever the reader's chunking, the written bytes
    restore to the original and every strict prefix is an error. *)
Theorem pollard_any_reader :
  forall (img : pimage) (chunks : list nat) (eof_with_data : bool),
    wf_pimage img ->
    decode_pollard_chunked (mkReader (encode_pollard img) chunks eof_with_data)
    = Ok (img, length (encode_pollard img)) /\
    (forall k, (k < length (encode_pollard img))%nat ->
       decode_pollard_chunked (mkReader (firstn k (encode_pollard img)) chunks eof_with_data)
       = Err).
Proof. exact pollard_any_reader_proof. Qed.
Print Assumptions pollard_any_reader.

Theorem map_any_reader :
  forall (img : mimage) (chunks : list nat) (eof_with_data : bool),
    wf_mimage img ->
    decode_map_chunked (mkReader (encode_map img) chunks eof_with_data)
    = Ok (img, length (encode_map img)) /\
    (forall k, (k < length (encode_map img))%nat ->
       decode_map_chunked (mkReader (firstn k (encode_map img)) chunks eof_with_data) = Err).
Proof. exact map_any_reader_proof. Qed.
Print Assumptions map_any_reader.

(** T7.  Link to the reference forest: the image [WriteTo] stores for the reference state [s]
    ([forest_image]: niece view of the compressed trees, [NumDels] = dead slots) is well formed,
    and the records that enter [NodeMap] are exactly the live leaves.  Hypotheses: the counts fit
    ([uint64], [int]); hashes are 32 bytes; live leaf hashes are non-zero with pairwise distinct
    12-byte prefixes. *)
Theorem niece_view_wf :
  forall (H : Type) (HO : ops H) (bytes_of : H -> list byte) (s : slots H),
    N.of_nat (length s) < 2 ^ 64 ->
    N.of_nat (length (live s)) < 2 ^ 63 ->
    (forall x y, length (bytes_of (op_hash2 HO x y)) = 32%nat) ->
    (forall h, In h (live s) ->
       length (bytes_of h) = 32%nat /\ is_zeros (bytes_of h) = false) ->
    NoDup (map (fun h => mini (bytes_of h)) (live s)) ->
    wf_pimage (forest_image HO bytes_of s) /\
    count_leaves (forest_image HO bytes_of s) = length (live s) /\
    Permutation.Permutation (pimage_leaf_hashes (forest_image HO bytes_of s))
                            (map bytes_of (live s)).
Proof. exact niece_view_wf_proof. Qed.
Print Assumptions niece_view_wf.

Theorem forest_roundtrip :
  forall (H : Type) (HO : ops H) (bytes_of : H -> list byte) (s : slots H),
    N.of_nat (length s) < 2 ^ 64 ->
    N.of_nat (length (live s)) < 2 ^ 63 ->
    (forall x y, length (bytes_of (op_hash2 HO x y)) = 32%nat) ->
    (forall h, In h (live s) ->
       length (bytes_of h) = 32%nat /\ is_zeros (bytes_of h) = false) ->
    NoDup (map (fun h => mini (bytes_of h)) (live s)) ->
    let bytes := encode_pollard_of_forest bytes_of (forest HO s) (num_leaves s)
                   (N.of_nat (length s - length (live s))) in
    decode_pollard bytes = Ok (forest_image HO bytes_of s, length bytes).
Proof. exact forest_roundtrip_proof. Qed.
Print Assumptions forest_roundtrip.
