(** C06 - Undo is the exact inverse of a block, to any reorganisation depth (reference level). *)
From Utreexo Require Import Spec.Forest Proofs.AbstractModels.
Open Scope N_scope.

(** One block: from the number of additions and the deleted (slot, hash) pairs the pre-block state
    is recovered exactly.  (Undo receives positions, which determine the slot only up to the dead
    slots of a segment; the statement up to observational equivalence is the target, see DESIGN.) *)
Theorem C06_undo_inverse : forall (H : Type) (HO : ops H) s dels adds,
  spec_undo (apply_block HO s dels adds) (length adds) (dead_slots HO 0 dels s) = s.
Proof. exact spec_undo_inverse. Qed.
Print Assumptions C06_undo_inverse.

(** Any depth: undoing k blocks newest-first restores the state k blocks ago. *)
Theorem C06_undo_any_depth : forall (H : Type) (HO : ops H) s bs,
  undo_blocks HO s bs (apply_blocks HO s bs) = s.
Proof. exact spec_undo_depth. Qed.
Print Assumptions C06_undo_any_depth.
