(** C06 - Undo is the exact inverse of a block, to any reorganisation depth (reference level). *)
From Utreexo Require Import Spec.Forest Proofs.AbstractModels.
From Utreexo Require Import Spec.Forest Proofs.AbstractModels Proofs.StumpAdd Proofs.RefTheory.
From Coq Require Import List Permutation.
Open Scope N_scope.

(** One block: from the number of additions and the deleted (slot, hash) pairs the pre-block state
    is recovered exactly.  (Undo receives positions, which determine the slot only up to the dead
    slots of a segment; the statement up to observational equivalence is the target, see DESIGN.) *)
Theorem C06_undo_inverse : forall (H : Type) (HO : ops H) s dels adds,
  spec_undo (apply_block HO s dels adds) (length adds) (dead_slots HO 0 dels s) = s.
Proof. exact spec_undo_inverse. Qed.
Print Assumptions C06_undo_inverse.

(** Any depth: undoing k blocks newest-first restores the state k blocks ago. *)
Theorem C06_undo_any_depth : forall (H : Type) (HO : ops H) s bs,
  undo_blocks HO s bs (apply_blocks HO s bs) = s.
Proof. exact spec_undo_depth. Qed.
Print Assumptions C06_undo_any_depth.

(** ** merged from C06b.v *)

Theorem C06_equiv_refl : forall (H : Type) (HO : ops H) (s : slots H), equiv HO s s.
Proof. exact equiv_refl. Qed.
Print Assumptions C06_equiv_refl.

Theorem C06_equiv_sym : forall (H : Type) (HO : ops H) (s s' : slots H),
  equiv HO s s' -> equiv HO s' s.
Proof. exact equiv_sym. Qed.
Print Assumptions C06_equiv_sym.

Theorem C06_equiv_trans : forall (H : Type) (HO : ops H) (s1 s2 s3 : slots H),
  equiv HO s1 s2 -> equiv HO s2 s3 -> equiv HO s1 s3.
Proof. exact equiv_trans. Qed.
Print Assumptions C06_equiv_trans.

Theorem C06_equiv_roots : forall (H : Type) (HO : ops H) (s s' : slots H),
  equiv HO s s' -> roots HO s = roots HO s'.
Proof. exact equiv_roots. Qed.
Print Assumptions C06_equiv_roots.

Theorem C06_equiv_num_leaves : forall (H : Type) (HO : ops H) (s s' : slots H),
  equiv HO s s' -> num_leaves s = num_leaves s'.
Proof. exact equiv_num_leaves. Qed.
Print Assumptions C06_equiv_num_leaves.

Theorem C06_equiv_layout : forall (H : Type) (HO : ops H) (s s' : slots H),
  equiv HO s s' -> layout HO s = layout HO s'.
Proof. exact equiv_layout. Qed.
Print Assumptions C06_equiv_layout.

Theorem C06_equiv_prove : forall (H : Type) (HO : ops H) (s s' : slots H) (hs : list H),
  equiv HO s s' -> prove HO s hs = prove HO s' hs.
Proof. exact equiv_prove. Qed.
Print Assumptions C06_equiv_prove.

Theorem C06_forest_leaves : forall (H : Type) (HO : ops H) (s : slots H),
  flat_map entry_leaves (forest HO s) = live s.
Proof. exact forest_leaves. Qed.
Print Assumptions C06_forest_leaves.

Theorem C06_equiv_live_eq : forall (H : Type) (HO : ops H) (s s' : slots H),
  equiv HO s s' -> live s = live s'.
Proof. exact equiv_live_eq. Qed.
Print Assumptions C06_equiv_live_eq.

Theorem C06_equiv_live : forall (H : Type) (HO : ops H) (s s' : slots H),
  equiv HO s s' -> Permutation (live s) (live s').
Proof. exact equiv_live. Qed.
Print Assumptions C06_equiv_live.

Theorem C06_compress_kill : forall (H : Type) (HO : ops H) (dels : list H) (k : nat) (seg : slots H),
  compress HO k (kill HO dels seg) = oprune HO dels (compress HO k seg).
Proof. exact compress_kill. Qed.
Print Assumptions C06_compress_kill.

Theorem C06_forest_kill : forall (H : Type) (HO : ops H) (dels : list H) (s : slots H),
  forest HO (kill HO dels s) = map (prune_entry HO dels) (forest HO s).
Proof. exact forest_kill. Qed.
Print Assumptions C06_forest_kill.

Theorem C06_equiv_bisim : forall (H : Type) (HO : ops H) (s s' : slots H) (dels adds : list H),
  equiv HO s s' -> equiv HO (apply_block HO s dels adds) (apply_block HO s' dels adds).
Proof. exact equiv_bisim. Qed.
Print Assumptions C06_equiv_bisim.

Theorem C06_equiv_blocks : forall (H : Type) (HO : ops H) (bs : list (list H * list H)) (s s' : slots H),
  equiv HO s s' -> equiv HO (apply_blocks HO s bs) (apply_blocks HO s' bs).
Proof. exact equiv_blocks. Qed.
Print Assumptions C06_equiv_blocks.

Theorem C06_undo_equiv : forall (H : Type) (HO : ops H) (s : slots H) (dels adds : list H)
    (s0 : slots H) (bs : list (list H * list H)),
  equiv HO s0 (spec_undo (apply_block HO s dels adds) (length adds) (dead_slots HO 0 dels s)) ->
  equiv HO (apply_blocks HO s0 bs) (apply_blocks HO s bs).
Proof. exact undo_equiv. Qed.
Print Assumptions C06_undo_equiv.

Theorem C06_undo_equiv_depth : forall (H : Type) (HO : ops H) (s : slots H)
    (ubs : list (list H * list H)) (s0 : slots H) (bs : list (list H * list H)),
  equiv HO s0 (undo_blocks HO s ubs (apply_blocks HO s ubs)) ->
  equiv HO (apply_blocks HO s0 bs) (apply_blocks HO s bs).
Proof. exact undo_equiv_depth. Qed.
Print Assumptions C06_undo_equiv_depth.

(** ** the class-level undo: what [Undo] receives determines the previous class *)

(** the forest before a deletion from the forest after it and the (coordinate, hash) pairs of the
    deleted leaves *)
Theorem C06_forest_graft : forall (H : Type) (HO : ops H) (dels : list H) (s : slots H),
  map (graft_entry HO (deleted_leaves HO dels s)) (forest HO (kill HO dels s)) = forest HO s.
Proof. exact forest_graft. Qed.
Print Assumptions C06_forest_graft.

Theorem C06_kill_class_injective : forall (H : Type) (HO : ops H) (dels : list H) (s1 s2 : slots H),
  equiv HO (kill HO dels s1) (kill HO dels s2) ->
  deleted_leaves HO dels s1 = deleted_leaves HO dels s2 -> equiv HO s1 s2.
Proof. exact kill_class_injective. Qed.
Print Assumptions C06_kill_class_injective.

(** one addition on the class and its inverse (the inverse reads the emptiness of the roots) *)
Theorem C06_unsadd_sadd : forall (H : Type) (HO : ops H) (rf : list (nat * option (ctree H))) (a : H),
  unsadd (flags rf) (sadd HO rf (Some a)) = rf.
Proof. exact unsadd_sadd. Qed.
Print Assumptions C06_unsadd_sadd.

(** a whole block: from the forest after the block, the number of additions, the rows and emptiness
    of the roots after the deletions, and the coordinates and hashes of the deleted leaves *)
Theorem C06_class_undo : forall (H : Type) (HO : ops H) (s : slots H) (dels adds : list H),
  class_undo HO (forest HO (apply_block HO s dels adds)) (shape (rforest HO (kill HO dels s)))
             (length adds) (deleted_leaves HO dels s) = forest HO s.
Proof. exact class_undo_spec. Qed.
Print Assumptions C06_class_undo.

Theorem C06_block_class_injective : forall (H : Type) (HO : ops H) (s1 s2 : slots H)
    (d1 a1 d2 a2 : list H),
  equiv HO (apply_block HO s1 d1 a1) (apply_block HO s2 d2 a2) ->
  length a1 = length a2 ->
  shape (rforest HO (kill HO d1 s1)) = shape (rforest HO (kill HO d2 s2)) ->
  deleted_leaves HO d1 s1 = deleted_leaves HO d2 s2 ->
  equiv HO s1 s2.
Proof. exact block_class_injective. Qed.
Print Assumptions C06_block_class_injective.

(** the shape is known to [Undo]: rows = set bits of the previous leaf count; a root is empty after
    the deletions iff it was empty before or the deleted leaves fill its tree *)
Theorem C06_shape_rows : forall (H : Type) (HO : ops H) (s : slots H),
  map fst (shape (rforest HO s)) =
  filter (StumpAdd.bit (N.of_nat (length s))) (seq 0 (S (Nat.log2 (length s)))).
Proof. exact shape_rows. Qed.
Print Assumptions C06_shape_rows.

Theorem C06_shape_kill : forall (H : Type) (HO : ops H) (dels : list H) (s : slots H),
  shape (rforest HO (kill HO dels s)) =
  map (fun e : nat * N * option (ctree H) =>
         (fst (fst e), is_none (snd e) || full (entry_dels HO dels e) (fst (fst e))))
      (rev (forest HO s)).
Proof. exact shape_kill. Qed.
Print Assumptions C06_shape_kill.

(** positions carry the same information as coordinates *)
Theorem C06_deleted_leaves_by_pos : forall (H : Type) (HO : ops H) (d1 d2 : list H) (s1 s2 : slots H),
  num_leaves s1 = num_leaves s2 ->
  map (dpos (rows_of (num_leaves s1))) (deleted_leaves HO d1 s1) =
  map (dpos (rows_of (num_leaves s1))) (deleted_leaves HO d2 s2) ->
  deleted_leaves HO d1 s1 = deleted_leaves HO d2 s2.
Proof. exact deleted_leaves_by_pos. Qed.
Print Assumptions C06_deleted_leaves_by_pos.

(** ** Undo on the map forest (mirror [mm_undo] of MapPollard.Undo, Model/MapMut.v, compared with the
    code state for state on every call; Proofs/MapMutUndo.v).  Proved for ADDITION blocks: a block of
    any number of additions - dead slots, empty roots written over, a remap - followed by Undo with the
    block's addition count and the previous roots returns to a state consistent with the forest before
    the block (so every observable - roots, leaf count, positions, hashes, proofs - is the previous one,
    by the read-side theorems of C09/C10), and this composes to any depth.  General blocks (with
    deletions): Proofs/MapMutUndo2.v, theorems further below. *)
From Utreexo Require Import Base.Hash Spec.Forest Model.MapRead Model.MapMut Proofs.MapReadSpec
     Proofs.MapMutAdd Proofs.MapMutUndo.
Open Scope N_scope.

Theorem C06_map_forest_block_then_undo :
  forall (H : Type) (HO : ops H), ops_ok HO ->
  (forall x y, op_eqb HO (op_hash2 HO x y) (op_empty HO) = false) ->
  forall (s : slots H) (R : list H) (m : mstate H) (adds : list (H * bool)),
    MapMutAdd.Inv H HO s R m ->
    N.of_nat (length s) + N.of_nat (length adds) <= 2 ^ 63 ->
    MapMutAdd.adds_ok H HO s R (ms_full m) adds ->
    (forall h, In (Some h) (s ++ map Some (map fst adds)) -> forall x y, h <> op_hash2 HO x y) ->
    exists m1 m2,
      mm_modify HO m adds [] [] [] = Some m1 /\
      mm_undo HO m1 (N.of_nat (length adds)) [] [] [] (roots HO s) = Some m2 /\
      consistent HO s R m2 /\ getRoots HO m2 = roots HO s /\ ms_n m2 = ms_n m /\
      ms_total m <= ms_total m2 /\ ms_full m2 = ms_full m.
Proof. exact modify_undo_adds. Qed.
Print Assumptions C06_map_forest_block_then_undo.

(** Undo alone, from any state in the invariant of the post-block forest (also after prunes / ingests
    in between): the remembered leaves are the previous ones minus the undone additions *)
Theorem C06_map_forest_undo_additions :
  forall (H : Type) (HO : ops H), ops_ok HO ->
  (forall x y, op_eqb HO (op_hash2 HO x y) (op_empty HO) = false) ->
  forall (s0 : slots H) (adds R1 : list H) (m1 : mstate H),
    UInv HO (s0 ++ map Some adds) R1 m1 ->
    exists m2 R2,
      mm_undo HO m1 (N.of_nat (length adds)) [] [] [] (roots HO s0) = Some m2 /\
      consistent HO s0 R2 m2 /\ (forall x, In x R2 <-> In x R1 /\ ~ In x adds) /\
      getRoots HO m2 = roots HO s0 /\ ms_n m2 = num_leaves s0.
Proof. exact undo_adds_consistent. Qed.
Print Assumptions C06_map_forest_undo_additions.

(** "This composes": undoing the last k addition blocks newest first *)
Theorem C06_map_forest_undo_depth_k :
  forall (H : Type) (HO : ops H), ops_ok HO ->
  (forall x y, op_eqb HO (op_hash2 HO x y) (op_empty HO) = false) ->
  forall (bs : list (list H)) (s : slots H) (R : list H) (m : mstate H),
    UInv HO (apply_adds H s bs) R m ->
    exists m' R',
      undo_add_blocks H HO s bs m = Some m' /\ UInv HO s R' m' /\
      (forall x, In x R' <-> In x R /\ ~ In x (concat bs)) /\
      ms_n m' = N.of_nat (length s) /\ ms_total m' = ms_total m /\ ms_full m' = ms_full m.
Proof. exact undo_adds_depth. Qed.
Print Assumptions C06_map_forest_undo_depth_k.

(** ** GENERAL blocks (Proofs/MapMutUndo2.v): deletions of any remembered leaves (siblings, subtrees,
    whole trees) followed by additions (empty roots written over, remap), then Undo with that block's
    addition count, proof, deleted hashes and the previous roots: the mirror returns to a state
    consistent with the forest BEFORE the block - same roots and leaf count, and by the read-side
    theorems the same position for every tracked leaf and byte-identical proofs.  Full and partial
    forests, any allocated height.  (On a partial forest "stores nothing beyond what is allowed" after
    an Undo is validated by the correspondence run and by exhaustive computation, not proved.) *)
From Utreexo Require Import Spec.Oracle Proofs.MapMutUnify2 Proofs.MapMutUndo2.

Theorem C06_map_forest_general_block_then_undo :
  forall (H : Type) (HO : ops H), ops_ok HO ->
  (forall x y, op_eqb HO (op_hash2 HO x y) (op_empty HO) = false) ->
  forall (s : slots H) (R : list H) (m : mstate H) (adds : list (H * bool)) (dels : list H)
         (ts : list N) (pf : list H),
    MapMutAdd.Inv H HO s R m -> MapMutUnify2.nimage HO s -> MapMutUnify2.dels_ok s R dels ->
    exp_prove HO (mk_ctx HO s) dels = Some (ts, pf) ->
    N.of_nat (length s) + N.of_nat (length adds) <= 2 ^ 63 ->
    MapMutAdd.adds_ok H HO (kill HO dels s) (filter (fun h => negb (memH HO h dels)) R) (ms_full m) adds ->
    MapMutUnify2.noimg H HO adds ->
    exists m1 m2,
      mm_modify HO m adds dels ts pf = Some m1 /\
      mm_undo HO m1 (N.of_nat (length adds)) ts pf dels (roots HO s) = Some m2 /\
      consistent HO s R m2 /\ getRoots HO m2 = roots HO s /\ ms_n m2 = ms_n m /\
      ms_total m <= ms_total m2 /\ ms_full m2 = ms_full m.
Proof. exact modify_undo_block. Qed.
Print Assumptions C06_map_forest_general_block_then_undo.

(** Undo alone from any state in the invariant of the post-block forest: the remembered set becomes
    (previous minus the undone additions) plus the re-instated deleted leaves *)
Theorem C06_map_forest_undo_general_block :
  forall (H : Type) (HO : ops H), ops_ok HO ->
  (forall x y, op_eqb HO (op_hash2 HO x y) (op_empty HO) = false) ->
  forall (s : slots H) (dels adds : list H) (ts : list N) (pf R1 : list H) (m1 : mstate H),
    NoDup (live s) -> leaves_ok H HO s -> NoDup dels ->
    exp_prove HO (mk_ctx HO s) dels = Some (ts, pf) ->
    UInv HO (apply_block HO s dels adds) R1 m1 ->
    exists m2 R2,
      mm_undo HO m1 (N.of_nat (length adds)) ts pf dels (roots HO s) = Some m2 /\
      UInv HO s R2 m2 /\ (forall x, In x R2 <-> (In x R1 /\ ~ In x adds) \/ In x dels) /\
      ms_n m2 = N.of_nat (length s) /\ ms_total m2 = ms_total m1 /\ ms_full m2 = ms_full m1.
Proof. exact undo_block. Qed.
Print Assumptions C06_map_forest_undo_general_block.

(** "This composes: undoing the last k blocks in reverse order restores the state k blocks ago" *)
Theorem C06_map_forest_k_blocks_then_k_undos :
  forall (H : Type) (HO : ops H), ops_ok HO ->
  (forall x y, op_eqb HO (op_hash2 HO x y) (op_empty HO) = false) ->
  forall (bs : list (list H * list (H * bool))) (s : slots H) (R : list H) (m : mstate H),
    MapMutAdd.Inv H HO s R m -> MapMutUnify2.nimage HO s -> hist_ok H HO (ms_full m) s R bs ->
    exists mk m0,
      run_blocks H HO s bs m = Some mk /\
      undo_blocks H HO s (map (erase H) bs) mk = Some m0 /\
      consistent HO s R m0 /\ getRoots HO m0 = roots HO s /\ ms_n m0 = ms_n m /\
      ms_total m <= ms_total m0 /\ ms_full m0 = ms_full m.
Proof. exact modify_undo_blocks. Qed.
Print Assumptions C06_map_forest_k_blocks_then_k_undos.

Theorem C06_map_forest_undo_k_blocks :
  forall (H : Type) (HO : ops H), ops_ok HO ->
  (forall x y, op_eqb HO (op_hash2 HO x y) (op_empty HO) = false) ->
  forall (bs : list (list H * list H)) (s : slots H) (R : list H) (m : mstate H),
    blocks_ok H HO s bs -> UInv HO (apply_blocks H HO s bs) R m ->
    exists m' R',
      undo_blocks H HO s bs m = Some m' /\ consistent HO s R' m' /\
      (forall x, In x R' <-> Rback H bs (fun x0 => In x0 R) x) /\
      getRoots HO m' = roots HO s /\ ms_n m' = num_leaves s.
Proof. exact undo_blocks_consistent. Qed.
Print Assumptions C06_map_forest_undo_k_blocks.

(** ** "... and re-applying the same or different blocks from there behaves exactly as if the undone
    blocks had never been applied" (Proofs/MapMutUndo3.v): histories that MIX blocks and undos on a full
    map forest.  Every valid sequence of [SBlock]/[SUndo] operations from the empty forest runs on the
    mirror without error; the final state shows, for the forest obtained from the blocks that were NOT
    undone, the reference roots, leaf count, positions and canonical proofs - and it is observationally
    equal to the state reached by the clean history that never applied the undone blocks.  (Partial
    forests: theorems at the end of this file.) *)
From Utreexo Require Import Proofs.MapMutUndo3.

Theorem C06_map_forest_mixed_histories :
  forall (H : Type) (HO : ops H), ops_ok HO ->
  (forall x y, op_eqb HO (op_hash2 HO x y) (op_empty HO) = false) ->
  forall (T : N) (l : list (sop H)),
    T <= 63 -> svalid H HO true (st0 H) l ->
    exists m,
      srun_all H HO true (st0 H) (m0 H true T) l = Some m /\
      (let sF := fst (fst (sfinal H HO true (st0 H) l)) in
       getRoots HO m = roots HO sF /\ ms_n m = num_leaves sF /\
       (forall hs, (forall h, In h hs -> In (Some h) sF) -> NoDup hs ->
                   Prove HO m hs = exp_prove HO (mk_ctx HO sF) hs) /\
       (forall h, In (Some h) sF <-> (exists p, GetLeafPosition HO m h = Some p)) /\
       (forall h, GetLeafPosition HO m h = leaf_pos HO (rows_of (num_leaves sF)) (layout HO sF) h)).
Proof. exact full_history_observables. Qed.
Print Assumptions C06_map_forest_mixed_histories.

Theorem C06_map_forest_as_if_never_applied :
  forall (H : Type) (HO : ops H), ops_ok HO ->
  (forall x y, op_eqb HO (op_hash2 HO x y) (op_empty HO) = false) ->
  forall (T : N) (l : list (sop H)),
    T <= 63 -> svalid H HO true (st0 H) l ->
    exists m m',
      srun_all H HO true (st0 H) (m0 H true T) l = Some m /\
      MapMutUnify2.hrun2 H HO true ([], []) (m0 H true T) (as_bops H (rev (net H l []))) = Some m' /\
      getRoots HO m = getRoots HO m' /\ ms_n m = ms_n m' /\
      (forall h, GetLeafPosition HO m h = GetLeafPosition HO m' h) /\
      (forall hs, (forall h, In h hs -> exists p, GetLeafPosition HO m h = Some p) -> NoDup hs ->
                  Prove HO m hs = Prove HO m' hs).
Proof. exact full_history_as_if. Qed.
Print Assumptions C06_map_forest_as_if_never_applied.

(** ** The same for PARTIAL map forests (Proofs/MapMutUndo4.v proves that Undo leaves nothing
    superfluous stored, [undo_tidy_holds], so the invariant survives an Undo there too). *)
From Utreexo Require Import Proofs.MapMutUndo4.

Theorem C06_partial_map_forest_mixed_histories :
  forall (H : Type) (HO : ops H), ops_ok HO ->
  (forall x y, op_eqb HO (op_hash2 HO x y) (op_empty HO) = false) ->
  forall (T : N) (l : list (sop H)),
    T <= 63 -> svalid H HO false (st0 H) l ->
    exists m,
      srun_all H HO false (st0 H) (m0 H false T) l = Some m /\
      (let sF := fst (fst (sfinal H HO false (st0 H) l)) in
       let RF := snd (fst (sfinal H HO false (st0 H) l)) in
       getRoots HO m = roots HO sF /\ ms_n m = num_leaves sF /\
       (forall hs, (forall h, In h hs -> In h RF) -> NoDup hs ->
                   Prove HO m hs = exp_prove HO (mk_ctx HO sF) hs) /\
       (forall h, GetLeafPosition HO m h = exp_leafpos HO (mk_ctx HO sF) (memH HO h RF) h)).
Proof. exact partial_history_observables. Qed.
Print Assumptions C06_partial_map_forest_mixed_histories.

Theorem C06_partial_map_forest_as_if_never_applied :
  forall (H : Type) (HO : ops H), ops_ok HO ->
  (forall x y, op_eqb HO (op_hash2 HO x y) (op_empty HO) = false) ->
  forall (T : N) (l : list (sop H)),
    T <= 63 -> svalid H HO false (st0 H) l ->
    exists m m',
      srun_all H HO false (st0 H) (m0 H false T) l = Some m /\
      MapMutUnify2.hrun2 H HO false ([], []) (m0 H false T) (as_bops H (rev (net H l []))) = Some m' /\
      getRoots HO m = getRoots HO m' /\ ms_n m = ms_n m' /\
      (forall h, GetLeafPosition HO m h = GetLeafPosition HO m' h) /\
      (forall hs, (forall h, In h hs -> exists p, GetLeafPosition HO m h = Some p) -> NoDup hs ->
                  Prove HO m hs = Prove HO m' hs).
Proof. exact partial_history_as_if. Qed.
Print Assumptions C06_partial_map_forest_as_if_never_applied.
