(** C03 (to be merged into C03.v) - Verification is sound, unbounded, in the free hash algebra:
    an accepted proof only states true facts.  Proved in [Proofs.Soundness] from
    [Proofs.CalcSound] (the algorithm), [Proofs.LayoutStruct] (the reference layout) and
    [Proofs.UtilsGeom]/[Proofs.UtilsGeom2] (the position geometry).
    [atoms_only] is the definition of C03.v; [N.of_nat (length s) <= 2 ^ 63] is the 63-row limit
    of the library. *)
From Utreexo Require Import Model.Verify Spec.Term Spec.Forest Spec.Oracle Proofs.LayoutStruct
  Properties.C03 Proofs.Soundness.
Open Scope N_scope.

(** the full statement of C03.v, with the leaf-count bound *)
Theorem C03_sound : forall (s : slots term) hs ts pf idx,
    atoms_only s ->
    N.of_nat (length s) <= 2 ^ 63 ->
    Verify term_ops true (the_stump (mk_ctx term_ops s)) hs ts pf = Ok idx ->
    claims_true term_ops (mk_ctx term_ops s) ts hs = true.
Proof. exact C03_sound_holds. Qed.
Print Assumptions C03_sound.

(** (a) the same for [Pollard.Verify] (which accepts an empty hash list without looking) *)
Theorem C03_sound_pollard : forall (s : slots term) hs ts pf,
    atoms_only s ->
    N.of_nat (length s) <= 2 ^ 63 ->
    hs <> [] ->
    PollardVerify term_ops true (the_stump (mk_ctx term_ops s)) hs ts pf = Ok tt ->
    claims_true term_ops (mk_ctx term_ops s) ts hs = true.
Proof. exact C03_pollard_sound_holds. Qed.
Print Assumptions C03_sound_pollard.

(** (b) what [claims_true] says: claim by claim, a node of the forest at that position with
    that hash (any hash type with a correct equality test) *)
Theorem C03_claims_true_nodes : forall (H : Type) (HO : ops H) (c : ctx H) ts hs, ops_ok HO ->
    claims_true HO c ts hs = true ->
    length hs = length ts /\
    forall j t h, nth_error ts j = Some t -> nth_error hs j = Some h ->
      exists x, find_pos (crows c) (clay c) t = Some x /\ nhash x = h.
Proof. exact @claims_true_nodes. Qed.
Print Assumptions C03_claims_true_nodes.

(** soundness read node by node *)
Theorem C03_sound_nodes : forall (s : slots term) hs ts pf idx,
    atoms_only s ->
    N.of_nat (length s) <= 2 ^ 63 ->
    Verify term_ops true (the_stump (mk_ctx term_ops s)) hs ts pf = Ok idx ->
    forall j t h, nth_error ts j = Some t -> nth_error hs j = Some h ->
      exists x, find_pos (crows (mk_ctx term_ops s)) (clay (mk_ctx term_ops s)) t = Some x /\
                nhash x = h.
Proof. exact C03_sound_nodes_holds. Qed.
Print Assumptions C03_sound_nodes.

(** ... the node being the node of the layout at its (row, offset) coordinate *)
Theorem C03_sound_coordinates : forall (s : slots term) hs ts pf idx,
    atoms_only s ->
    N.of_nat (length s) <= 2 ^ 63 ->
    Verify term_ops true (the_stump (mk_ctx term_ops s)) hs ts pf = Ok idx ->
    forall j t h, nth_error ts j = Some t -> nth_error hs j = Some h ->
      exists x, tnode term_ops s (nrow x) (noff x) = Some x /\
                t = pos (rows_of (num_leaves s)) (nrow x) (noff x) /\ nhash x = h.
Proof. exact C03_sound_coords. Qed.
Print Assumptions C03_sound_coordinates.

(** (c) rejection: a false claim is never accepted, whatever the proof hashes *)
Theorem C03_false_claim_rejected : forall (s : slots term) hs ts pf idx,
    atoms_only s ->
    N.of_nat (length s) <= 2 ^ 63 ->
    claims_true term_ops (mk_ctx term_ops s) ts hs = false ->
    Verify term_ops true (the_stump (mk_ctx term_ops s)) hs ts pf <> Ok idx.
Proof. exact C03_reject_holds. Qed.
Print Assumptions C03_false_claim_rejected.

Theorem C03_false_claim_rejected_named : forall (s : slots term) hs ts pf idx j t h,
    atoms_only s ->
    N.of_nat (length s) <= 2 ^ 63 ->
    nth_error ts j = Some t -> nth_error hs j = Some h ->
    (forall x, find_pos (crows (mk_ctx term_ops s)) (clay (mk_ctx term_ops s)) t = Some x ->
               nhash x <> h) ->
    Verify term_ops true (the_stump (mk_ctx term_ops s)) hs ts pf <> Ok idx.
Proof. exact C03_reject_claim. Qed.
Print Assumptions C03_false_claim_rejected_named.

Theorem C03_false_claim_rejected_pollard : forall (s : slots term) hs ts pf,
    atoms_only s ->
    N.of_nat (length s) <= 2 ^ 63 ->
    hs <> [] ->
    claims_true term_ops (mk_ctx term_ops s) ts hs = false ->
    PollardVerify term_ops true (the_stump (mk_ctx term_ops s)) hs ts pf <> Ok tt.
Proof. exact C03_pollard_reject. Qed.
Print Assumptions C03_false_claim_rejected_pollard.

(** non-vacuity: a forest with dead slots and an empty root; an honest proof is accepted, the
    theorem's hypotheses hold and its conclusion is the computed value *)
Theorem C03_sound_nonvacuous :
    atoms_only ls_ex /\ N.of_nat (length ls_ex) <= 2 ^ 63 /\
    Verify term_ops true (the_stump (mk_ctx term_ops ls_ex))
           [Atom 7; Atom 3] [6; 2] [Atom 4; Atom 1] = Ok [2%nat; 0%nat] /\
    claims_true term_ops (mk_ctx term_ops ls_ex) [6; 2] [Atom 7; Atom 3] = true.
Proof. exact (conj ls_ex_atoms (conj ls_ex_bound (conj ex_honest_accepted ex_honest_by_theorem))). Qed.
Print Assumptions C03_sound_nonvacuous.
