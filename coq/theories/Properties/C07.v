(** C07 - A cached proof updated from block data alone stays complete and canonical
    (abstract model: the set of leaves a light client holds). *)
From Utreexo Require Import Spec.Forest Proofs.AbstractModels.

Theorem C07_cached_set : forall (H : Type) (HO : ops H), ops_ok HO -> forall C dels rem h,
  In h (cached_after HO C dels rem) <-> (In h C /\ ~ In h dels) \/ In h rem.
Proof. exact cached_after_spec. Qed.
Print Assumptions C07_cached_set.

From Utreexo Require Import Base.Hash Spec.Oracle Model.Verify Proofs.CalcSound Proofs.CachedVerifies.
From Coq Require Import Permutation.
Open Scope N_scope.

(** "canonical": what the correspondence check expects of [Proof.Update] ([exp_cached]: the cached
    leaves ordered by position, their positions, the canonical hashes) IS the canonical proof of
    those leaves ... *)
Theorem C07_expected_cached_is_canonical :
  forall (H : Type) (HO : ops H), ops_ok HO ->
  forall (s : slots H) set hs ts pf,
    NoDup (live s) -> NoDup set ->
    exp_cached HO (mk_ctx HO s) set = Some (hs, ts, pf) ->
    exp_prove HO (mk_ctx HO s) hs = Some (ts, pf) /\ Permutation hs set.
Proof. exact cached_is_canonical. Qed.
Print Assumptions C07_expected_cached_is_canonical.

(** ... "complete": it exists for every set of live leaves and the (repaired) roots-only verifier
    accepts it, for every forest of up to 2^63 leaves *)
Theorem C07_expected_cached_exists :
  forall (H : Type) (HO : ops H), ops_ok HO ->
  forall (s : slots H) set, (forall h, In h set -> In (Some h) s) ->
    exp_cached HO (mk_ctx HO s) set <> None.
Proof. exact cached_exists. Qed.
Print Assumptions C07_expected_cached_exists.

Theorem C07_expected_cached_verifies :
  forall (H : Type) (HO : ops H), ops_ok HO ->
  forall (s : slots H) set hs ts pf,
    (forall a b, NZ HO (op_hash2 HO a b)) ->
    (forall h, In (Some h) s -> NZ HO h) ->
    N.of_nat (length s) <= 2 ^ 63 ->
    NoDup (live s) -> NoDup set ->
    exp_cached HO (mk_ctx HO s) set = Some (hs, ts, pf) ->
    exists idx, Verify HO true (the_stump (mk_ctx HO s)) hs ts pf = Ok idx /\
                exp_root_indexes HO (mk_ctx HO s) hs = Some idx.
Proof. exact cached_verifies. Qed.
Print Assumptions C07_expected_cached_verifies.

(** ** The Go algorithm (mirror Model/ProofUpdate.v of the Go method Proof.Update, compared with the code on
    every call) computes the expected cached proof: proved for every ADDITION-ONLY block - any forest
    (dead slots, empty roots written over, row growth), any cached set, any remember pattern
    (Proofs/ProofUpdateSpec.v).  Blocks with deletions: next theorem. *)
From Utreexo Require Import Model.ProofUpdate Proofs.StumpDelData Proofs.ProofUpdateSpec.
From Coq Require Import Sorted.

Theorem C07_update_addition_blocks :
  forall (H : Type) (HO : ops H), ops_ok HO ->
  (forall a b, NZ HO (op_hash2 HO a b)) ->
  forall (s : slots H) (adds : list H),
  (forall h, In (Some h) s -> NZ HO h) ->
  N.of_nat (length s + length adds) <= 2 ^ 63 ->
  NoDup (live (s ++ map Some adds)) ->
  forall (C : list H) (rem : list N),
  NoDup C -> StronglySorted N.lt rem ->
  (forall x, In x (layout HO (s ++ map Some adds)) -> nleaf x = false -> ~ In (nhash x) (pick adds rem)) ->
  forall hC tC pC, exp_cached HO (mk_ctx HO s) C = Some (hC, tC, pC) ->
  proof_update HO tC pC hC adds [] rem (ud_of_spec (spec_update_data HO s [] adds))
  = exp_cached HO (mk_ctx HO (apply_block HO s [] adds)) (C ++ pick adds rem) /\
  exp_cached HO (mk_ctx HO (apply_block HO s [] adds)) (C ++ pick adds rem) <> None.
Proof. exact proof_update_add_only. Qed.
Print Assumptions C07_update_addition_blocks.

(** ... and for blocks WITH deletions followed by any additions, when the deletions are "regular":
    any number of deleted leaves (cached or not) such that no inner node of the forest loses all its
    leaves (no two sibling leaves / no whole subtree or tree deleted together).  Surviving sibling
    subtrees - with the cached leaves and proof positions inside them - may move up several rows
    (Proofs/ProofUpdateDel.v).  The general case follows below. *)
From Utreexo Require Import Proofs.AbstractModels Proofs.RefTheory Proofs.StumpAdd Proofs.ProofUpdateDel.

Theorem C07_update_regular_deletion_blocks :
  forall (H : Type) (HO : ops H), ops_ok HO ->
  (forall a b, NZ HO (op_hash2 HO a b)) ->
  forall (s : slots H) (hs adds C : list H) (rem : list N),
  (forall h, In (Some h) s -> NZ HO h) ->
  N.of_nat (length s + length adds) <= 2 ^ 63 ->
  NoDup (live s) -> NoDup hs ->
  (forall (e : StumpAdd.entry H) (ce : ctree H), In e (forest HO s) -> snd e = Some ce ->
     regular H HO hs ce /\ RefTheory.prune HO hs ce <> None) ->
  NoDup (live (kill HO hs s ++ map Some adds)) ->
  NoDup C -> StronglySorted N.lt rem ->
  (forall x, In x (layout HO (kill HO hs s ++ map Some adds)) -> nleaf x = false -> ~ In (nhash x) (pick adds rem)) ->
  forall hC tC pC bt pfd,
    exp_cached HO (mk_ctx HO s) C = Some (hC, tC, pC) ->
    exp_prove HO (mk_ctx HO s) hs = Some (bt, pfd) ->
    proof_update HO tC pC hC adds bt rem (ud_of_spec (spec_update_data HO s hs adds))
    = exp_cached HO (mk_ctx HO (apply_block HO s hs adds)) (cached_after HO C hs (pick adds rem)) /\
    exp_cached HO (mk_ctx HO (apply_block HO s hs adds)) (cached_after HO C hs (pick adds rem)) <> None.
Proof. exact @proof_update_regular_deletions. Qed.
Print Assumptions C07_update_regular_deletion_blocks.

(** ** EVERY valid block (Proofs/ProofUpdateDel2.v): the regularity hypothesis removed - sibling leaves,
    whole subtrees and whole trees may be deleted together ([deTwin] is specified as the roots of the
    maximal fully deleted subtrees).  This is the full statement of C07 for the mirror of Proof.Update:
    distinct live deletions, fresh additions, any cached set, any remember subset (ascending indexes). *)
From Utreexo Require Import Proofs.ProofUpdateDel2.

Theorem C07_update_every_block :
  forall (H : Type) (HO : ops H), ops_ok HO ->
  (forall a b, NZ HO (op_hash2 HO a b)) ->
  forall (s : slots H) (hs adds C : list H) (rem : list N),
  (forall h, In (Some h) s -> NZ HO h) ->
  N.of_nat (length s + length adds) <= 2 ^ 63 ->
  NoDup (live s) -> NoDup hs ->
  NoDup (live (kill HO hs s ++ map Some adds)) ->
  NoDup C -> StronglySorted N.lt rem ->
  (forall x, In x (layout HO (kill HO hs s ++ map Some adds)) -> nleaf x = false -> ~ In (nhash x) (pick adds rem)) ->
  forall hC tC pC bt pfd,
    exp_cached HO (mk_ctx HO s) C = Some (hC, tC, pC) ->
    exp_prove HO (mk_ctx HO s) hs = Some (bt, pfd) ->
    proof_update HO tC pC hC adds bt rem (ud_of_spec (spec_update_data HO s hs adds))
    = exp_cached HO (mk_ctx HO (apply_block HO s hs adds)) (cached_after HO C hs (pick adds rem)) /\
    exp_cached HO (mk_ctx HO (apply_block HO s hs adds)) (cached_after HO C hs (pick adds rem)) <> None.
Proof. exact @proof_update_every_block. Qed.
Print Assumptions C07_update_every_block.

(** the full statement (blocks with deletions), decided by computation on every state of 4 slots *)
Theorem C07_update_all_blocks_4_slots : pu_failures 4 4 = [].
Proof. exact pu_g0_exhaustive_4. Qed.
Print Assumptions C07_update_all_blocks_4_slots.

(** ** The whole property, for a whole light client over whole histories (Proofs/LightClient.v):
    the client = mirror of Stump.Update + mirror of Proof.Update, driven by block data alone; after
    EVERY valid history from the empty accumulator its stump is the stump of the reference forest,
    it holds exactly "previous leaves minus deleted plus remembered additions", paired with their true
    positions and the canonical proof hashes, and the stump verifier accepts that proof. *)
From Utreexo Require Import Spec.Term Proofs.StumpUpdate Proofs.LightClient.
From Coq Require Import Permutation.

Theorem C07_light_client_every_history :
  forall (H : Type) (HO : ops H), ops_ok HO ->
  (forall a b, NZ HO (op_hash2 HO a b)) ->
  forall filler : H, NZ HO filler ->
  forall bs : list (cblock H),
    N.of_nat (ctotal_adds H bs) <= 2 ^ 63 -> chist_ok H HO [] [] bs ->
    exists sF CF st hC tC pC,
      run_client H HO filler [] [] (mkStump [] 0, ([], [], [])) bs = Some (sF, CF, (st, (hC, tC, pC))) /\
      st = stump_of H HO sF /\
      exp_cached HO (mk_ctx HO sF) CF = Some (hC, tC, pC) /\
      exp_prove HO (mk_ctx HO sF) hC = Some (tC, pC) /\ Permutation hC CF /\
      exists idx, Verify HO true st hC tC pC = Ok idx.
Proof. exact light_client_from_genesis. Qed.
Print Assumptions C07_light_client_every_history.

(** non-vacuity: a concrete three-block history meets every hypothesis *)
Theorem C07_light_client_nonvacuous : chist_ok term term_ops [] [] lc_hist.
Proof. exact lc_hist_ok. Qed.
Print Assumptions C07_light_client_nonvacuous.
