(** C07 - A cached proof updated from block data alone stays complete and canonical
    (abstract model: the set of leaves a light client holds). *)
From Utreexo Require Import Spec.Forest Proofs.AbstractModels.

Theorem C07_cached_set : forall (H : Type) (HO : ops H), ops_ok HO -> forall C dels rem h,
  In h (cached_after HO C dels rem) <-> (In h C /\ ~ In h dels) \/ In h rem.
Proof. exact cached_after_spec. Qed.
Print Assumptions C07_cached_set.
