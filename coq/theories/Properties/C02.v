(** C02 - Every live leaf set is provable; proofs are canonical and verify everywhere. *)
From Utreexo Require Import Spec.Forest Proofs.SpecBasics.
Open Scope N_scope.

(** the canonical proof lists its positions in ascending order *)
Theorem C02_canonical_order : forall (H : Type) rows (lay targets : list (node H)),
  ascK (sort_coords rows (proof_coords lay targets)).
Proof. intros. apply sortK_asc. Qed.
Print Assumptions C02_canonical_order.

From Utreexo Require Import Base.Hash Model.Verify Spec.Oracle Proofs.CalcSound Proofs.CalcComplete
     Proofs.StumpUpdate.
From Coq Require Import Sorted.

(** "Every live leaf set is provable": the reference produces a proof for every list of live leaves *)
Theorem C02_live_sets_provable :
  forall (H : Type) (HO : ops H), ops_ok HO ->
  forall (s : slots H) (hs : list H),
    (forall h, In h hs -> In (Some h) s) -> exp_prove HO (mk_ctx HO s) hs <> None.
Proof. exact exp_prove_live. Qed.
Print Assumptions C02_live_sets_provable.

(** "...and verify everywhere" (roots-only verifier, as repaired): the canonical proof of any list
    of distinct live leaves is ACCEPTED by the mirror of [Stump.Verify], for forests of every size
    up to 2^63 leaves, and the root indexes it returns are those of the trees holding a target. *)
Theorem C02_canonical_proof_verifies :
  forall (H : Type) (HO : ops H) (s : slots H) (hs : list H) (ts : list N) (pf : list H),
  ops_ok HO ->
  (forall a b, NZ HO (op_hash2 HO a b)) ->
  (forall h, In (Some h) s -> NZ HO h) ->
  N.of_nat (length s) <= 2 ^ 63 ->
  NoDup hs ->
  exp_prove HO (mk_ctx HO s) hs = Some (ts, pf) ->
  exists rows,
    Verify HO true (the_stump (mk_ctx HO s)) hs ts pf
      = Ok (map (rootIndexForRow (N.of_nat (length s))) rows) /\
    StronglySorted N.lt rows /\
    (forall r, In r rows <->
       exists h x, In h hs /\ find_leaf HO (layout HO s) h = Some x /\ r = N.of_nat (ntree x)).
Proof. exact @verify_complete. Qed.
Print Assumptions C02_canonical_proof_verifies.

(** the same, stated with the oracle's expectation used by the correspondence check *)
Theorem C02_canonical_proof_root_indexes :
  forall (H : Type) (HO : ops H) (s : slots H) (hs : list H) (ts : list N) (pf : list H),
  ops_ok HO ->
  (forall a b, NZ HO (op_hash2 HO a b)) ->
  (forall h, In (Some h) s -> NZ HO h) ->
  N.of_nat (length s) <= 2 ^ 63 ->
  NoDup hs ->
  exp_prove HO (mk_ctx HO s) hs = Some (ts, pf) ->
  exists idx,
    Verify HO true (the_stump (mk_ctx HO s)) hs ts pf = Ok idx /\
    exp_root_indexes HO (mk_ctx HO s) hs = Some idx.
Proof. exact @verify_complete_indexes. Qed.
Print Assumptions C02_canonical_proof_root_indexes.

From Utreexo Require Import Model.MapRead Proofs.MapReadSpec Proofs.ProveVerifies.
(** prover and verifier together: the proof the mirror of [MapPollard.Prove] returns, on any state
    consistent with the reference forest ([consistent], the C09 invariant), for any distinct tracked
    leaves, is the canonical proof and is accepted by the mirror of [Stump.Verify] *)
Theorem C02_map_proof_is_canonical_and_verifies :
  forall (H : Type) (HO : ops H) (s : slots H) (R : list H) (m : mstate H) (hs : list H),
  ops_ok HO ->
  (forall a b, NZ HO (op_hash2 HO a b)) ->
  (forall h, In (Some h) s -> NZ HO h) ->
  consistent HO s R m ->
  (forall h, In h hs -> In h R) -> NoDup hs ->
  exists ts pf idx,
    Prove HO m hs = Some (ts, pf) /\
    exp_prove HO (mk_ctx HO s) hs = Some (ts, pf) /\
    Verify HO true (the_stump (mk_ctx HO s)) hs ts pf = Ok idx /\
    exp_root_indexes HO (mk_ctx HO s) hs = Some idx.
Proof. exact @map_prove_verifies. Qed.
Print Assumptions C02_map_proof_is_canonical_and_verifies.

From Utreexo Require Import Spec.Oracle.

(** ** The map forest (mirror of the MapPollard mutators, Model/MapMut.v) along EVERY history
    (Proofs/MapMutUnify2.v): after any valid sequence of general blocks, prunes, ingests and
    verifications-with-remember from the empty forest - full or partial, any allocated height - the
    mirror's roots and leaf count are those of the reference forest, it proves its tracked leaves with
    the canonical proof, and it finds a hash exactly when it tracks it (on a full forest: exactly the
    live leaves, at their true positions). *)
From Utreexo Require Import Model.MapRead Model.MapMut Proofs.MapMutUnify2.
Theorem C02_map_forest_every_history :
  forall (H : Type) (HO : ops H), ops_ok HO ->
  (forall x y, op_eqb HO (op_hash2 HO x y) (op_empty HO) = false) ->
  forall (T : N) (full : bool) (l : list (bop H)),
    T <= 63 -> hvalid2 H HO full ([], []) l ->
    exists m,
      hrun2 H HO full ([], []) (mkM [] [] 0 T full) l = Some m /\
      (let sF := fst (hfinal2 H HO full ([], []) l) in
       let RF := snd (hfinal2 H HO full ([], []) l) in
       getRoots HO m = roots HO sF /\
       ms_n m = num_leaves sF /\
       (forall hs, (forall h, In h hs -> In h RF) -> NoDup hs ->
                   Prove HO m hs = exp_prove HO (mk_ctx HO sF) hs) /\
       (forall h, GetLeafPosition HO m h = exp_leafpos HO (mk_ctx HO sF) (memH HO h RF) h) /\
       (full = true ->
        (forall hs, (forall h, In h hs -> In (Some h) sF) -> NoDup hs ->
                    Prove HO m hs = exp_prove HO (mk_ctx HO sF) hs) /\
        (forall h, In (Some h) sF <-> (exists p, GetLeafPosition HO m h = Some p)) /\
        (forall h, GetLeafPosition HO m h = leaf_pos HO (rows_of (num_leaves sF)) (layout HO sF) h))).
Proof. exact history2_observables. Qed.
Print Assumptions C02_map_forest_every_history.
