(** C02 - Every live leaf set is provable; proofs are canonical and verify everywhere. *)
From Utreexo Require Import Spec.Forest Proofs.SpecBasics.
Open Scope N_scope.

(** the canonical proof lists its positions in ascending order *)
Theorem C02_canonical_order : forall (H : Type) rows (lay targets : list (node H)),
  ascK (sort_coords rows (proof_coords lay targets)).
Proof. intros. apply sortK_asc. Qed.
Print Assumptions C02_canonical_order.
