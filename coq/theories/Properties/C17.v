(** C17 - Library calls never modify the caller's slices.
    This file contains only the property theorems; the checker and its
    semantics are in Spec/SliceHeap.v, the soundness proof in
    Proofs/EffectSound.v, the program generated from the Go source in
    Gen/EffIR.v and the obligations re-proved on every run in Gen/EffIROk.v. *)
From Coq Require Import List String Bool.
From Utreexo Require Import Spec.SliceHeap Proofs.EffectSound Gen.EffIR Gen.EffIROk.
Import ListNotations.
Local Open Scope string_scope.

(** Soundness of the checker, for every program. *)
Theorem C17_check_sound : check_sound_statement.
Proof. exact check_sound. Qed.
Print Assumptions C17_check_sound.

(** What a variable references at the end of an execution is bounded by its
    claimed owner set. *)
Theorem C17_check_sound_reach : forall (p : program) (G : arr -> Prop),
  check_program p = true ->
  forall f fd s0 s',
    nth_error p f = Some fd ->
    entry_ok G fd s0 ->
    run p G f s0 s' ->
    forall x a, env s' x a -> covered G (next s0) (env s0) a (value fd x).
Proof. exact check_sound_reach. Qed.
Print Assumptions C17_check_sound_reach.

(** The program generated from the current Go source passes the checker. *)
Theorem C17_effects_ok : check_program eff_ir = true.
Proof. exact effects_ok. Qed.
Print Assumptions C17_effects_ok.

(** All eighteen entry points are present ... *)
Theorem C17_entry_points_complete : map fst entry_points = expected_entry_names.
Proof. exact entry_points_complete. Qed.
Print Assumptions C17_entry_points_complete.

(** ... and declare no write to any caller-owned parameter. *)
Theorem C17_entry_points_clean :
  forallb (fun e => entry_clean_b eff_ir e) entry_points = true.
Proof. exact entry_points_clean. Qed.
Print Assumptions C17_entry_points_clean.

(** First half of C17: in every execution of an entry point, every array
    referenced by a caller-owned parameter (and not also handed in through a
    parameter the entry point is declared to write, i.e. the receiver) has the
    same contents at the end as at the start. *)
Theorem C17_callers_slices_unchanged : forall (G : arr -> Prop) e,
  In e entry_points ->
  exists f fd,
    nth_error eff_ir f = Some fd /\ fname fd = fst e /\
    forall s0 s',
      entry_ok G fd s0 ->
      run eff_ir G f s0 s' ->
      forall i a, In i (snd e) -> env s0 i a ->
        (forall j, In (OParam j) (writes fd) -> ~ env s0 j a) ->
        cells s' a = cells s0 a.
Proof. exact eff_ir_entry_points_clean. Qed.
Print Assumptions C17_callers_slices_unchanged.

(** No entry point lets the receiver (or any other parameter) keep a reference
    to an array that only a caller-owned parameter referenced: later calls on
    the same receiver cannot reach the slices passed to earlier calls. *)
Theorem C17_no_retention : forall (G : arr -> Prop) e,
  In e entry_points ->
  exists f fd,
    nth_error eff_ir f = Some fd /\ fname fd = fst e /\
    forall s0 s',
      entry_ok G fd s0 ->
      run eff_ir G f s0 s' ->
      forall i j a, In i (snd e) -> j < nparams fd -> j <> i ->
        env s' j a -> a < next s0 -> ~ G a ->
        exists k, k <> i /\ env s0 k a.
Proof. exact eff_ir_entry_points_no_retain. Qed.
Print Assumptions C17_no_retention.

(** Second half of C17, static part: for the entry points not listed in
    [dynamic_only_results], a result array is either one of the caller's own
    argument arrays or a fresh array the receiver does not reference. *)
Theorem C17_results_detached : forall (G : arr -> Prop) e,
  In e entry_points_detached ->
  exists f fd,
    nth_error eff_ir f = Some fd /\ fname fd = fst e /\
    forall s0 s',
      entry_ok G fd s0 ->
      run eff_ir G f s0 s' ->
      forall k a, ret_source fd (env s') k a ->
        (a < next s0 /\ exists i, In i (snd e) /\ env s0 i a)
        \/ (next s0 <= a /\
            (existsb (String.eqb (fst e)) entry_receivers = true -> ~ env s' 0 a)).
Proof. exact eff_ir_entry_results_detached. Qed.
Print Assumptions C17_results_detached.

Theorem C17_results_detached_count :
  List.length entry_points_detached + List.length dynamic_only_results
  = List.length entry_points.
Proof. exact entry_points_detached_count. Qed.
Print Assumptions C17_results_detached_count.

(** The excluded stand-alone GetMissingPositions does write its argument. *)
Theorem C17_getmissing_writes_arg : writes_param eff_ir "GetMissingPositions" 2 = true.
Proof. exact getmissing_writes_arg. Qed.
Print Assumptions C17_getmissing_writes_arg.

(** Exactly one named exemption (a value-preserving write). *)
Theorem C17_exemptions : exemptions eff_ir = [
  "MapPollard.Undo: proof.Proof[i] = leaf.Hash in undoDeletion (value-preserving write, decided dynamically)" ].
Proof. exact exemptions_exact. Qed.
Print Assumptions C17_exemptions.

Theorem C17_no_static_gaps : dynamic_only = [].
Proof. exact dynamic_only_empty. Qed.
Print Assumptions C17_no_static_gaps.
