(** C03 - Verification is sound: an accepted proof only states true facts.
    Status of this file: the witnesses below show that the verifier at the pinned commit
    (mirror with strict = false) accepted false claims (defects D2, D3, D4) and that the repaired
    verifier (strict = true, the code in /repo now) rejects exactly those inputs.
    The unbounded soundness theorem for the repaired mirror is stated as [C03_statement]. *)
From Utreexo Require Import Model.Verify Spec.Term Spec.Forest Spec.Oracle Proofs.VerifyBasics.
Open Scope N_scope.

(** Full statement (free algebra, leaves are atoms): what is to be proved about the repaired
    mirror.  Kept visible; see the [_partial]/witness theorems below for what is proved. *)
Definition atoms_only (s : slots term) : Prop :=
  forall h, In (Some h) s -> exists i, h = Atom i.
Definition C03_statement : Prop :=
  forall (s : slots term) hs ts pf idx, atoms_only s ->
    Verify term_ops true (the_stump (mk_ctx term_ops s)) hs ts pf = Ok idx ->
    claims_true term_ops (mk_ctx term_ops s) ts hs = true.

Theorem C03_unrepaired_refuted_duplicate_targets :
  exists idx, Verify T false (the_stump c5b) [lf 4; lf 2] [4; 4] [] = Ok idx
              /\ claims_true T c5b [4; 4] [lf 4; lf 2] = false.
Proof. exact D2_unrepaired_accepts. Qed.
Print Assumptions C03_unrepaired_refuted_duplicate_targets.

Theorem C03_unrepaired_refuted_zero_proof_hash :
  exists idx, Verify T false (the_stump c5) [root5] [0] [Zero; Zero] = Ok idx
              /\ claims_true T c5 [0] [root5] = false.
Proof. exact D3_unrepaired_accepts. Qed.
Print Assumptions C03_unrepaired_refuted_zero_proof_hash.

Theorem C03_unrepaired_refuted_wrong_tree :
  exists idx, Verify T false (the_stump c10) [lf 0] [8] [n25] = Ok idx
              /\ claims_true T c10 [8] [lf 0] = false.
Proof. exact D4_unrepaired_accepts. Qed.
Print Assumptions C03_unrepaired_refuted_wrong_tree.

Theorem C03_repaired_rejects_witnesses :
  Verify T true (the_stump c5b) [lf 4; lf 2] [4; 4] [] = Err /\
  Verify T true (the_stump c5) [root5] [0] [Zero; Zero] = Err /\
  Verify T true (the_stump c10) [lf 0] [8] [n25] = Err.
Proof. exact (conj D2_repaired_rejects (conj D3_repaired_rejects D4_repaired_rejects)). Qed.
Print Assumptions C03_repaired_rejects_witnesses.
