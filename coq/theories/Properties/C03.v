(** C03 - Verification is sound: an accepted proof only states true facts.
    Status of this file: the witnesses below show that the verifier at the pinned commit
    (mirror with strict = false) accepted false claims (defects D2, D3, D4) and that the repaired
    verifier (strict = true, the code in /repo now) rejects exactly those inputs.
    The unbounded soundness theorem for the repaired mirror ([C03_sound], free hash algebra, leaves
    are atoms, up to 2^63 leaves) is proved in Proofs/Soundness.v from the parametric soundness of the
    hashing loop (Proofs/CalcSound.v), the structure of the reference layout (Proofs/LayoutStruct.v)
    and the geometry of the position functions (Proofs/UtilsGeom2.v). *)
From Utreexo Require Import Model.Verify Spec.Term Spec.Forest Spec.Oracle Proofs.VerifyBasics Proofs.LayoutStruct Proofs.Soundness.

Open Scope N_scope.

(** Full statement (free algebra, leaves are atoms): what is to be proved about the repaired
    mirror.  Kept visible; see the [_partial]/witness theorems below for what is proved. *)
Definition atoms_only (s : slots term) : Prop :=
  forall h, In (Some h) s -> exists i, h = Atom i.
Definition C03_statement : Prop :=
  forall (s : slots term) hs ts pf idx, atoms_only s ->
    Verify term_ops true (the_stump (mk_ctx term_ops s)) hs ts pf = Ok idx ->
    claims_true term_ops (mk_ctx term_ops s) ts hs = true.

Theorem C03_unrepaired_refuted_duplicate_targets :
  exists idx, Verify T false (the_stump c5b) [lf 4; lf 2] [4; 4] [] = Ok idx
              /\ claims_true T c5b [4; 4] [lf 4; lf 2] = false.
Proof. exact D2_unrepaired_accepts. Qed.
Print Assumptions C03_unrepaired_refuted_duplicate_targets.

Theorem C03_unrepaired_refuted_zero_proof_hash :
  exists idx, Verify T false (the_stump c5) [root5] [0] [Zero; Zero] = Ok idx
              /\ claims_true T c5 [0] [root5] = false.
Proof. exact D3_unrepaired_accepts. Qed.
Print Assumptions C03_unrepaired_refuted_zero_proof_hash.

Theorem C03_unrepaired_refuted_wrong_tree :
  exists idx, Verify T false (the_stump c10) [lf 0] [8] [n25] = Ok idx
              /\ claims_true T c10 [8] [lf 0] = false.
Proof. exact D4_unrepaired_accepts. Qed.
Print Assumptions C03_unrepaired_refuted_wrong_tree.

Theorem C03_repaired_rejects_witnesses :
  Verify T true (the_stump c5b) [lf 4; lf 2] [4; 4] [] = Err /\
  Verify T true (the_stump c5) [root5] [0] [Zero; Zero] = Err /\
  Verify T true (the_stump c10) [lf 0] [8] [n25] = Err.
Proof. exact (conj D2_repaired_rejects (conj D3_repaired_rejects D4_repaired_rejects)). Qed.
Print Assumptions C03_repaired_rejects_witnesses.

(** ** The unbounded soundness theorem and its corollaries (merged from C03b.v) *)

(** the full statement of C03.v, with the leaf-count bound *)
Theorem C03_sound : forall (s : slots term) hs ts pf idx,
    atoms_only s ->
    N.of_nat (length s) <= 2 ^ 63 ->
    Verify term_ops true (the_stump (mk_ctx term_ops s)) hs ts pf = Ok idx ->
    claims_true term_ops (mk_ctx term_ops s) ts hs = true.
Proof. exact C03_sound_holds. Qed.
Print Assumptions C03_sound.

(** (a) the same for [Pollard.Verify] (which accepts an empty hash list without looking) *)
Theorem C03_sound_pollard : forall (s : slots term) hs ts pf,
    atoms_only s ->
    N.of_nat (length s) <= 2 ^ 63 ->
    hs <> [] ->
    PollardVerify term_ops true (the_stump (mk_ctx term_ops s)) hs ts pf = Ok tt ->
    claims_true term_ops (mk_ctx term_ops s) ts hs = true.
Proof. exact C03_pollard_sound_holds. Qed.
Print Assumptions C03_sound_pollard.

(** (b) what [claims_true] says: claim by claim, a node of the forest at that position with
    that hash (any hash type with a correct equality test) *)
Theorem C03_claims_true_nodes : forall (H : Type) (HO : ops H) (c : ctx H) ts hs, ops_ok HO ->
    claims_true HO c ts hs = true ->
    length hs = length ts /\
    forall j t h, nth_error ts j = Some t -> nth_error hs j = Some h ->
      exists x, find_pos (crows c) (clay c) t = Some x /\ nhash x = h.
Proof. exact @claims_true_nodes. Qed.
Print Assumptions C03_claims_true_nodes.

(** soundness read node by node *)
Theorem C03_sound_nodes : forall (s : slots term) hs ts pf idx,
    atoms_only s ->
    N.of_nat (length s) <= 2 ^ 63 ->
    Verify term_ops true (the_stump (mk_ctx term_ops s)) hs ts pf = Ok idx ->
    forall j t h, nth_error ts j = Some t -> nth_error hs j = Some h ->
      exists x, find_pos (crows (mk_ctx term_ops s)) (clay (mk_ctx term_ops s)) t = Some x /\
                nhash x = h.
Proof. exact C03_sound_nodes_holds. Qed.
Print Assumptions C03_sound_nodes.

(** ... the node being the node of the layout at its (row, offset) coordinate *)
Theorem C03_sound_coordinates : forall (s : slots term) hs ts pf idx,
    atoms_only s ->
    N.of_nat (length s) <= 2 ^ 63 ->
    Verify term_ops true (the_stump (mk_ctx term_ops s)) hs ts pf = Ok idx ->
    forall j t h, nth_error ts j = Some t -> nth_error hs j = Some h ->
      exists x, tnode term_ops s (nrow x) (noff x) = Some x /\
                t = pos (rows_of (num_leaves s)) (nrow x) (noff x) /\ nhash x = h.
Proof. exact C03_sound_coords. Qed.
Print Assumptions C03_sound_coordinates.

(** (c) rejection: a false claim is never accepted, whatever the proof hashes *)
Theorem C03_false_claim_rejected : forall (s : slots term) hs ts pf idx,
    atoms_only s ->
    N.of_nat (length s) <= 2 ^ 63 ->
    claims_true term_ops (mk_ctx term_ops s) ts hs = false ->
    Verify term_ops true (the_stump (mk_ctx term_ops s)) hs ts pf <> Ok idx.
Proof. exact C03_reject_holds. Qed.
Print Assumptions C03_false_claim_rejected.

Theorem C03_false_claim_rejected_named : forall (s : slots term) hs ts pf idx j t h,
    atoms_only s ->
    N.of_nat (length s) <= 2 ^ 63 ->
    nth_error ts j = Some t -> nth_error hs j = Some h ->
    (forall x, find_pos (crows (mk_ctx term_ops s)) (clay (mk_ctx term_ops s)) t = Some x ->
               nhash x <> h) ->
    Verify term_ops true (the_stump (mk_ctx term_ops s)) hs ts pf <> Ok idx.
Proof. exact C03_reject_claim. Qed.
Print Assumptions C03_false_claim_rejected_named.

Theorem C03_false_claim_rejected_pollard : forall (s : slots term) hs ts pf,
    atoms_only s ->
    N.of_nat (length s) <= 2 ^ 63 ->
    hs <> [] ->
    claims_true term_ops (mk_ctx term_ops s) ts hs = false ->
    PollardVerify term_ops true (the_stump (mk_ctx term_ops s)) hs ts pf <> Ok tt.
Proof. exact C03_pollard_reject. Qed.
Print Assumptions C03_false_claim_rejected_pollard.

(** non-vacuity: a forest with dead slots and an empty root; an honest proof is accepted, the
    theorem's hypotheses hold and its conclusion is the computed value *)
Theorem C03_sound_nonvacuous :
    atoms_only ls_ex /\ N.of_nat (length ls_ex) <= 2 ^ 63 /\
    Verify term_ops true (the_stump (mk_ctx term_ops ls_ex))
           [Atom 7; Atom 3] [6; 2] [Atom 4; Atom 1] = Ok [2%nat; 0%nat] /\
    claims_true term_ops (mk_ctx term_ops ls_ex) [6; 2] [Atom 7; Atom 3] = true.
Proof. exact (conj ls_ex_atoms (conj ls_ex_bound (conj ex_honest_accepted ex_honest_by_theorem))). Qed.
Print Assumptions C03_sound_nonvacuous.

(** ** The map forest: [MapPollard.Verify] and [VerifyPartialProof] (mirror Model/MapRead.v) on any
    state consistent with the reference forest.  Positions are read in either coordinate system
    ([claims_true_dual], see Spec/Oracle.v); targets are [uint64] values ([targets64]: the mirror's
    positions are unbounded [N], the witness [mvs_unbounded_target_accepted] shows the hypothesis is
    needed for the mirror and vacuous for the Go type). *)
From Utreexo Require Import Model.MapRead Proofs.MapReadSpec Proofs.MapVerifySound.

Theorem C03_sound_map : forall (s : slots term) R (m : mstate term) hs ts pf idx,
  leaves_atoms s -> consistent term_ops s R m -> targets64 ts ->
  map_verify term_ops m hs ts pf = Ok idx ->
  claims_true_dual term_ops (mk_ctx term_ops s) (N.to_nat (ms_total m)) ts hs = true.
Proof. exact map_verify_sound. Qed.
Print Assumptions C03_sound_map.

Theorem C03_sound_map_partial : forall (s : slots term) R (m : mstate term) hs ts pf idx,
  leaves_atoms s -> consistent term_ops s R m -> targets64 ts ->
  VerifyPartialProof term_ops m ts hs pf = Ok idx ->
  claims_true_dual term_ops (mk_ctx term_ops s) (N.to_nat (ms_total m)) ts hs = true.
Proof. exact map_verify_partial_sound. Qed.
Print Assumptions C03_sound_map_partial.

Theorem C03_map_false_claim_rejected : forall (s : slots term) R (m : mstate term) hs ts pf idx,
  leaves_atoms s -> consistent term_ops s R m -> targets64 ts ->
  claims_true_dual term_ops (mk_ctx term_ops s) (N.to_nat (ms_total m)) ts hs = false ->
  map_verify term_ops m hs ts pf <> Ok idx.
Proof. exact map_verify_rejects_false. Qed.
Print Assumptions C03_map_false_claim_rejected.

Theorem C03_map_partial_false_claim_rejected : forall (s : slots term) R (m : mstate term) hs ts pf idx,
  leaves_atoms s -> consistent term_ops s R m -> targets64 ts ->
  claims_true_dual term_ops (mk_ctx term_ops s) (N.to_nat (ms_total m)) ts hs = false ->
  VerifyPartialProof term_ops m ts hs pf <> Ok idx.
Proof. exact map_verify_partial_rejects_false. Qed.
Print Assumptions C03_map_partial_false_claim_rejected.

Theorem C03_sound_map_minimal : forall (s : slots term) R (m : mstate term) hs ts pf idx,
  leaves_atoms s -> consistent term_ops s R m -> ms_total m = TreeRows (ms_n m) ->
  map_verify term_ops m hs ts pf = Ok idx ->
  claims_true term_ops (mk_ctx term_ops s) ts hs = true.
Proof. exact map_verify_sound_minimal. Qed.
Print Assumptions C03_sound_map_minimal.
