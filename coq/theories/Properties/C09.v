(** C09 - A partial forest stores only true, needed hashes and can always prove its cache. *)
From Utreexo Require Import Spec.Forest Proofs.SpecBasics.
From Utreexo Require Import Spec.Forest Proofs.RefTheory.
From Coq Require Import List.
Open Scope N_scope.

(** canonical proof positions of the remembered leaves come out ascending (what Prove must return) *)
Theorem C09_needed_order : forall (H : Type) rows (lay targets : list (node H)),
  ascK (sort_coords rows (proof_coords lay targets)).
Proof. intros. apply sortK_asc. Qed.
Print Assumptions C09_needed_order.

(** ** merged from C09b.v *)

Theorem C09_needed_sub_allowed : forall (H : Type) (HO : ops H) (s : slots H) (R : list H) nd al,
  needed_pos HO s R = Some nd -> allowed_pos HO s R = Some al -> forall p, In p nd -> In p al.
Proof. exact needed_sub_allowed. Qed.
Print Assumptions C09_needed_sub_allowed.

Theorem C09_needed_mono : forall (H : Type) (HO : ops H) (s : slots H) (R R' : list H) nd nd',
  (forall h, In h R -> In h R') ->
  needed_pos HO s R = Some nd -> needed_pos HO s R' = Some nd' -> forall p, In p nd -> In p nd'.
Proof. exact needed_mono. Qed.
Print Assumptions C09_needed_mono.

Theorem C09_equiv_needed : forall (H : Type) (HO : ops H) (s s' : slots H) (R : list H),
  equiv HO s s' -> needed_pos HO s R = needed_pos HO s' R.
Proof. exact equiv_needed. Qed.
Print Assumptions C09_equiv_needed.

Theorem C09_equiv_allowed : forall (H : Type) (HO : ops H) (s s' : slots H) (R : list H),
  equiv HO s s' -> allowed_pos HO s R = allowed_pos HO s' R.
Proof. exact equiv_allowed. Qed.
Print Assumptions C09_equiv_allowed.
