(** C09 - A partial forest stores only true, needed hashes and can always prove its cache. *)
From Utreexo Require Import Spec.Forest Proofs.SpecBasics.
From Utreexo Require Import Base.Hash Model.MapRead Spec.Forest Spec.Oracle Proofs.MapReadSpec.
From Coq Require Import List NArith.
From Utreexo Require Import Spec.Forest Proofs.RefTheory.
From Coq Require Import List.
Open Scope N_scope.

(** canonical proof positions of the remembered leaves come out ascending (what Prove must return) *)
Theorem C09_needed_order : forall (H : Type) rows (lay targets : list (node H)),
  ascK (sort_coords rows (proof_coords lay targets)).
Proof. intros. apply sortK_asc. Qed.
Print Assumptions C09_needed_order.

(** ** merged from C09b.v *)

Theorem C09_needed_sub_allowed : forall (H : Type) (HO : ops H) (s : slots H) (R : list H) nd al,
  needed_pos HO s R = Some nd -> allowed_pos HO s R = Some al -> forall p, In p nd -> In p al.
Proof. exact needed_sub_allowed. Qed.
Print Assumptions C09_needed_sub_allowed.

Theorem C09_needed_mono : forall (H : Type) (HO : ops H) (s : slots H) (R R' : list H) nd nd',
  (forall h, In h R -> In h R') ->
  needed_pos HO s R = Some nd -> needed_pos HO s R' = Some nd' -> forall p, In p nd -> In p nd'.
Proof. exact needed_mono. Qed.
Print Assumptions C09_needed_mono.

Theorem C09_equiv_needed : forall (H : Type) (HO : ops H) (s s' : slots H) (R : list H),
  equiv HO s s' -> needed_pos HO s R = needed_pos HO s' R.
Proof. exact equiv_needed. Qed.
Print Assumptions C09_equiv_needed.

Theorem C09_equiv_allowed : forall (H : Type) (HO : ops H) (s s' : slots H) (R : list H),
  equiv HO s s' -> allowed_pos HO s R = allowed_pos HO s' R.
Proof. exact equiv_allowed. Qed.
Print Assumptions C09_equiv_allowed.

(** ** merged from C09c.v: the mirror of the MapPollard read side (Model/MapRead.v) on states consistent with the reference *)

Theorem C09c_prove_canonical : forall (H : Type) (HO : ops H), ops_ok HO ->
  forall (s : slots H) (R : list H) (m : mstate H), consistent HO s R m ->
  forall hs : list H, (forall h, In h hs -> In h R) -> NoDup hs ->
  Prove HO m hs = exp_prove HO (mk_ctx HO s) hs.
Proof. exact map_prove_canonical. Qed.
Print Assumptions C09c_prove_canonical.

Theorem C09c_prove_untracked : forall (H : Type) (HO : ops H), ops_ok HO ->
  forall (s : slots H) (R : list H) (m : mstate H), consistent HO s R m ->
  forall hs : list H, (exists h, In h hs /\ ~ In h R) -> Prove HO m hs = None.
Proof. exact map_prove_untracked. Qed.
Print Assumptions C09c_prove_untracked.

Theorem C09c_roots : forall (H : Type) (HO : ops H)
  (s : slots H) (R : list H) (m : mstate H), consistent HO s R m ->
  getRoots HO m = roots HO s.
Proof. exact map_getroots. Qed.
Print Assumptions C09c_roots.

Theorem C09c_missing : forall (H : Type) (HO : ops H), ops_ok HO ->
  forall (s : slots H) (R : list H) (m : mstate H), consistent HO s R m ->
  forall (hs : list H) (ts : list (node H)), NoDup hs ->
  find_leaves HO (layout HO s) hs = Some ts ->
  GetMissingPositions m (map (npos (rows_of (num_leaves s))) ts) =
  map fst (filter (fun e : N * (nat * N) => unstored m (gp (ms_total m) (fst (snd e)) (snd (snd e))))
                  (sort_coords (rows_of (num_leaves s)) (proof_coords (layout HO s) ts))).
Proof. exact map_missing_spec. Qed.
Print Assumptions C09c_missing.

Theorem C09c_missing_oracle : forall (H : Type) (HO : ops H), ops_ok HO ->
  forall (s : slots H) (R : list H) (m : mstate H), consistent HO s R m ->
  forall (hs : list H) (ts : list (node H)), NoDup hs ->
  find_leaves HO (layout HO s) hs = Some ts ->
  exp_missing_stored HO (mk_ctx HO s) hs (stored_min m) =
  Some (GetMissingPositions m (map (npos (rows_of (num_leaves s))) ts)).
Proof. exact map_missing_oracle. Qed.
Print Assumptions C09c_missing_oracle.

Theorem C09c_consistentb_sound : forall (H : Type) (HO : ops H), ops_ok HO ->
  forall (s : slots H) (R : list H) (m : mstate H),
  consistentb HO s R m = true -> consistent HO s R m.
Proof. exact consistentb_sound. Qed.
Print Assumptions C09c_consistentb_sound.

Theorem C09c_needed_stored : forall (H : Type) (HO : ops H), ops_ok HO ->
  forall (s : slots H) (R : list H) (m : mstate H), consistent HO s R m ->
  forall nd : list N, needed_pos HO s R = Some nd ->
  forall p : N, In p nd -> In p (stored_min m).
Proof. exact consistent_needed_stored. Qed.
Print Assumptions C09c_needed_stored.

Theorem C09c_consistent_intro_needed : forall (H : Type) (HO : ops H), ops_ok HO ->
  forall (s : slots H) (R : list H) (m : mstate H),
  ms_n m = num_leaves s -> ms_n m <= 2 ^ 63 ->
  Utils.TreeRows (ms_n m) <= ms_total m -> ms_total m <= 63 ->
  (forall p h b, In (p, (h, b)) (ms_nodes m) ->
     exists r o, p = gp (ms_total m) r o /\ LayoutStruct.thash HO s r o = Some h) ->
  (forall h, In h R -> In (Some h) s) ->
  (forall h, In h R <-> In h (map fst (ms_cached m))) ->
  (forall h p, In (h, p) (ms_cached m) ->
     exists x, find_leaf HO (layout HO s) h = Some x /\ p = gp (ms_total m) (nrow x) (noff x)) ->
  (forall x, In x (layout HO s) -> nroot x = true -> stored m (gp (ms_total m) (nrow x) (noff x))) ->
  (forall nd, needed_pos HO s R = Some nd -> forall p, In p nd -> In p (stored_min m)) ->
  consistent HO s R m.
Proof. exact consistent_intro_needed. Qed.
Print Assumptions C09c_consistent_intro_needed.

(** ** The mutators preserve the invariant (mirror Model/MapMut.v, compared with the code state for
    state on every run).  [Inv] = [consistent] + "every remembered leaf carries the remember flag";
    [tidy] = "stores nothing beyond the roots, the remembered leaves and the positions on their proof
    paths; only remembered leaves carry the flag" (Proofs/MapMutPrune.v). *)
From Utreexo Require Import Model.MapMut Proofs.CalcSound Proofs.MapMutPrune.

Theorem C09_inv_gives_read_side : forall (H : Type) (HO : ops H) (s : slots H) (R : list H) (m : mstate H),
  Inv H HO s R m -> consistent HO s R m.
Proof. exact Inv_consistent. Qed.
Print Assumptions C09_inv_gives_read_side.

Theorem C09_inv_initial : forall (H : Type) (HO : ops H) (T : N) (full : bool), T <= 63 ->
  Inv H HO [] [] (mkM [] [] 0 T full).
Proof. exact Inv_empty. Qed.
Print Assumptions C09_inv_initial.

(** Prune: always succeeds on a partial forest in the invariant, keeps the invariant for the smaller
    remembered set (every remaining remembered leaf stays provable, every stored hash stays true) *)
Theorem C09_prune_preserves_invariant :
  forall (H : Type) (HO : ops H), ops_ok HO ->
  forall (s : slots H) (R : list H) (m : mstate H) (hs : list H),
    Inv H HO s R m -> ms_full m = false ->
    exists m', mm_prune HO m hs = Some m' /\
      Inv H HO s (filter (fun h => negb (memH HO h hs)) R) m' /\
      ms_n m' = ms_n m /\ ms_total m' = ms_total m /\ ms_full m' = false.
Proof. exact mm_prune_inv. Qed.
Print Assumptions C09_prune_preserves_invariant.

(** "Pruning a leaf removes exactly what no other remembered leaf needs" (upper half: nothing outside
    the allowed set stays; the lower half - everything needed stays - is part of [Inv]) *)
Theorem C09_prune_preserves_tidy :
  forall (H : Type) (HO : ops H), ops_ok HO ->
  forall (s : slots H) (R : list H) (m : mstate H) (hs : list H) (m' : mstate H),
    Inv H HO s R m -> tidy H HO s R m -> ms_full m = false ->
    mm_prune HO m hs = Some m' ->
    tidy H HO s (filter (fun h => negb (memH HO h hs)) R) m'.
Proof. exact mm_prune_tidy. Qed.
Print Assumptions C09_prune_preserves_tidy.

Theorem C09_tidy_within_allowed :
  forall (H : Type) (HO : ops H), ops_ok HO ->
  forall (s : slots H) (R : list H) (m : mstate H),
    Inv H HO s R m -> tidy H HO s R m ->
    exists al, allowed_pos HO s R = Some al /\ (forall p, In p (stored_min m) -> In p al).
Proof. exact tidy_allowed. Qed.
Print Assumptions C09_tidy_within_allowed.

(** Ingest and Verify-with-remember of the canonical proof of any distinct live leaves: accepted,
    invariant kept for the larger remembered set, nothing superfluous stored (partial forests) *)
Theorem C09_ingest_preserves_invariant :
  forall (H : Type) (HO : ops H) (s : slots H) (R : list H) (m : mstate H) (hs : list H) (ts : list N)
         (pf : list H),
    ops_ok HO ->
    (forall a b, NZ HO (op_hash2 HO a b)) ->
    (forall h, In (Some h) s -> NZ HO h) ->
    Inv H HO s R m -> NoDup hs ->
    exp_prove HO (mk_ctx HO s) hs = Some (ts, pf) ->
    exists m', mm_ingest HO m hs ts pf = Some m' /\
      Inv H HO s (R ++ hs) m' /\
      ms_n m' = ms_n m /\ ms_total m' = ms_total m /\ ms_full m' = ms_full m /\
      (ms_full m = false -> tidy H HO s R m -> tidy H HO s (R ++ hs) m').
Proof. exact @mm_ingest_inv. Qed.
Print Assumptions C09_ingest_preserves_invariant.

Theorem C09_verify_remember_preserves_invariant :
  forall (H : Type) (HO : ops H) (s : slots H) (R : list H) (m : mstate H) (hs : list H) (ts : list N)
         (pf : list H),
    ops_ok HO ->
    (forall a b, NZ HO (op_hash2 HO a b)) ->
    (forall h, In (Some h) s -> NZ HO h) ->
    Inv H HO s R m -> NoDup hs ->
    exp_prove HO (mk_ctx HO s) hs = Some (ts, pf) ->
    exists m', mm_verify_remember HO m hs ts pf = Some m' /\
      Inv H HO s (R ++ hs) m' /\
      ms_n m' = ms_n m /\ ms_total m' = ms_total m /\ ms_full m' = ms_full m /\
      (ms_full m = false -> tidy H HO s R m -> tidy H HO s (R ++ hs) m').
Proof. exact @mm_verify_remember_inv. Qed.
Print Assumptions C09_verify_remember_preserves_invariant.

(** ** Additions (Proofs/MapMutAdd.v): [mm_modify m adds [] [] []] - any number of added leaves, full
    and partial forests, empty roots written over, [remap] when the forest outgrows its allocated
    height - preserves the (strengthened) invariant [MapMutAdd.Inv], which implies [consistent] and,
    for partial forests, "nothing stored beyond what is allowed".  Side conditions [adds_ok]: added
    hashes fresh and non-empty, and no inner node of the new forest carries the hash of a remembered
    leaf ("barring collisions": the cache is keyed by hash; [mmc_collision] shows it is necessary). *)
From Utreexo Require Proofs.MapMutAdd.

Theorem C09_additions_preserve_invariant :
  forall (H : Type) (HO : ops H), ops_ok HO ->
  (forall x y, op_eqb HO (op_hash2 HO x y) (op_empty HO) = false) ->
  forall (adds : list (H * bool)) (s : slots H) (R : list H) (m : mstate H),
    MapMutAdd.Inv H HO s R m ->
    N.of_nat (length s) + N.of_nat (length adds) <= 2 ^ 63 ->
    MapMutAdd.adds_ok H HO s R (ms_full m) adds ->
    exists m', mm_modify HO m adds [] [] [] = Some m' /\
      MapMutAdd.Inv H HO (s ++ map Some (map fst adds)) (fold_left (MapMutAdd.Rnext H (ms_full m)) adds R) m' /\
      ms_total m <= ms_total m' /\ ms_full m' = ms_full m.
Proof. exact MapMutAdd.modify_adds_gen. Qed.
Print Assumptions C09_additions_preserve_invariant.

Theorem C09_add_invariant_gives_read_side :
  forall (H : Type) (HO : ops H), ops_ok HO ->
  forall (s : slots H) (R : list H) (m : mstate H), MapMutAdd.Inv H HO s R m -> consistent HO s R m.
Proof. exact MapMutAdd.Inv_consistent. Qed.
Print Assumptions C09_add_invariant_gives_read_side.

Theorem C09_add_invariant_initial : forall (H : Type) (HO : ops H) (T : N) (full : bool), T <= 63 ->
  MapMutAdd.Inv H HO [] [] (mkM [] [] 0 T full).
Proof. exact MapMutAdd.Inv_empty. Qed.
Print Assumptions C09_add_invariant_initial.

(** "stores nothing beyond the roots, the remembered leaves and the positions on their proof paths" *)
Theorem C09_add_invariant_stores_only_allowed :
  forall (H : Type) (HO : ops H), ops_ok HO ->
  forall (s : slots H) (R : list H) (m : mstate H),
    MapMutAdd.Inv H HO s R m -> ms_full m = false ->
    forall p, In p (stored_min m) -> exists al, allowed_pos HO s R = Some al /\ In p al.
Proof. exact MapMutAdd.Inv_stores_allowed. Qed.
Print Assumptions C09_add_invariant_stores_only_allowed.

(** ** Every history (Proofs/MapMutUnify.v): from the empty forest - any allocated height, full or
    partial - EVERY valid sequence of deletion-free blocks, prunes, ingests and verifications with
    remembering runs without error on the mirror and ends in a state that is consistent with the
    reference forest (so every read-side theorem above applies: true hashes, remembered leaves provable
    with the canonical proof, ...) and, for a partial forest, stores only allowed positions.
    One invariant ([MapMutAdd.Inv]) is preserved by all these operations; blocks WITH deletions and
    Undo are not covered by this theorem (validated by the correspondence run only). *)
From Utreexo Require Proofs.MapMutUnify.

Theorem C09_every_history_of_adds_prunes_ingests :
  forall (H : Type) (HO : ops H), ops_ok HO ->
  (forall x y, op_eqb HO (op_hash2 HO x y) (op_empty HO) = false) ->
  forall (T : N) (full : bool) (l : list (MapMutUnify.mop H)),
    T <= 63 -> MapMutUnify.hvalid H HO full ([], []) l ->
    exists m,
      MapMutUnify.hrun H HO full ([], []) (mkM [] [] 0 T full) l = Some m /\
      MapMutAdd.Inv H HO (fst (MapMutUnify.hfinal H HO full ([], []) l))
                         (snd (MapMutUnify.hfinal H HO full ([], []) l)) m /\
      consistent HO (fst (MapMutUnify.hfinal H HO full ([], []) l))
                    (snd (MapMutUnify.hfinal H HO full ([], []) l)) m /\
      ms_full m = full /\
      (full = false -> forall p, In p (stored_min m) ->
         exists al, allowed_pos HO (fst (MapMutUnify.hfinal H HO full ([], []) l))
                                   (snd (MapMutUnify.hfinal H HO full ([], []) l)) = Some al /\ In p al).
Proof. exact MapMutUnify.history_ok. Qed.
Print Assumptions C09_every_history_of_adds_prunes_ingests.

(** ** Deletions (Proofs/MapMutRemove.v): a block without additions that deletes ANY set of remembered
    leaves - siblings, whole subtrees, whole trees; targets in any order; full and partial forests, any
    allocated height - runs on the mirror of [MapPollard.Modify] without error and keeps the invariant
    [MapMutRemove.Inv] (which implies [consistent]): every stored hash is the true hash of the node now
    there (moved-up subtrees included), the remaining remembered leaves stay cached at their new true
    positions, flagged, with the siblings on their proof paths stored.  ("stores nothing beyond..." for
    deletions: validated by the correspondence run and by exhaustive computation on small forests; its
    proof is in progress.) *)
From Utreexo Require Proofs.MapMutRemove.
From Coq Require Import Permutation.

Theorem C09_deletions_preserve_invariant :
  forall (H : Type) (HO : ops H), ops_ok HO ->
  forall (s : slots H) (R : list H) (m : mstate H) (xs : list (node H)) (dels : list H)
         (targets : list N) (proof : list H),
    MapMutRemove.Inv HO s R m -> NoDup xs ->
    (forall x, In x xs -> In x (layout HO s) /\ nleaf x = true /\ In (nhash x) R) ->
    (forall h, In h dels <-> (exists x, In x xs /\ nhash x = h)) ->
    Permutation targets (map (npos (rows_of (num_leaves s))) xs) ->
    exists m', mm_modify HO m [] dels targets proof = Some m' /\
      MapMutRemove.Inv HO (kill HO dels s) (filter (fun h => negb (memH HO h dels)) R) m'.
Proof. exact MapMutRemove.mm_modify_delete_leaves. Qed.
Print Assumptions C09_deletions_preserve_invariant.

Theorem C09_deletions_by_hash_preserve_invariant :
  forall (H : Type) (HO : ops H), ops_ok HO ->
  forall (s : slots H) (R : list H) (m : mstate H) (dels proof : list H),
    MapMutRemove.Inv HO s R m -> NoDup dels -> (forall h, In h dels -> In h R) ->
    exists m', mm_modify HO m [] dels (GetLeafHashPositions HO m dels) proof = Some m' /\
      MapMutRemove.Inv HO (kill HO dels s) (filter (fun h => negb (memH HO h dels)) R) m'.
Proof. exact MapMutRemove.mm_modify_delete_hashes. Qed.
Print Assumptions C09_deletions_by_hash_preserve_invariant.

Theorem C09_del_invariant_gives_read_side :
  forall (H : Type) (HO : ops H), ops_ok HO ->
  forall (s : slots H) (R : list H) (m : mstate H), MapMutRemove.Inv HO s R m -> consistent HO s R m.
Proof. exact MapMutRemove.Inv_consistent. Qed.
Print Assumptions C09_del_invariant_gives_read_side.

(** ** EVERY history, deletions included (Proofs/MapMutRemoveTidy.v, MapMutUnify2.v): one invariant
    ([MapMutAdd.Inv], with "stores only what is allowed" built in) is preserved by general blocks
    (deletions of any remembered leaves - siblings, subtrees, whole trees - followed by additions incl.
    remap and empty roots), Prune, Ingest and Verify-with-remember, on full AND partial forests.  So from
    the empty forest every valid sequence of these operations runs on the mirror without error and ends
    consistent with the reference.  (Undo is not part of this theorem: see C06.) *)
From Utreexo Require Proofs.MapMutUnify2.

Theorem C09_every_history :
  forall (H : Type) (HO : ops H), ops_ok HO ->
  (forall x y, op_eqb HO (op_hash2 HO x y) (op_empty HO) = false) ->
  forall (T : N) (full : bool) (l : list (MapMutUnify2.bop H)),
    T <= 63 -> MapMutUnify2.hvalid2 H HO full ([], []) l ->
    exists m,
      MapMutUnify2.hrun2 H HO full ([], []) (mkM [] [] 0 T full) l = Some m /\
      MapMutAdd.Inv H HO (fst (MapMutUnify2.hfinal2 H HO full ([], []) l))
                         (snd (MapMutUnify2.hfinal2 H HO full ([], []) l)) m /\
      ms_full m = full.
Proof. exact MapMutUnify2.history2_ok. Qed.
Print Assumptions C09_every_history.
