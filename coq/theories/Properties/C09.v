(** C09 - A partial forest stores only true, needed hashes and can always prove its cache. *)
From Utreexo Require Import Spec.Forest Proofs.SpecBasics.
Open Scope N_scope.

(** canonical proof positions of the remembered leaves come out ascending (what Prove must return) *)
Theorem C09_needed_order : forall (H : Type) rows (lay targets : list (node H)),
  ascK (sort_coords rows (proof_coords lay targets)).
Proof. intros. apply sortK_asc. Qed.
Print Assumptions C09_needed_order.
