(** C04 - Verifiers are total on untrusted input and reject atomically. *)
From Utreexo Require Import Model.Verify Spec.Term Proofs.VerifyBasics Proofs.CalcTotal.
Open Scope N_scope.

(** "When the verifier-state update rejects its input it leaves the leaf count and every root
    unchanged" - for the mirror of Stump.Update, any hash type, any input. *)
Theorem C04_update_atomic : forall (H : Type) (HO : ops H) strict filler s dels adds ts pf s' o,
  stump_update HO strict filler s dels adds ts pf = (s', o) ->
  (forall u, o <> Ok u) -> s' = s.
Proof. exact stump_update_atomic. Qed.
Print Assumptions C04_update_atomic.

(** the loop of the pinned commit does not terminate on a target that is not below a root ... *)
Theorem C04_unrepaired_refuted :
  calculateHashes T false 4 (Some [lf 0]) [7] [] = OutOfFuel.
Proof. exact D1_unrepaired_hangs. Qed.
Print Assumptions C04_unrepaired_refuted.

(** ... and the repaired loop rejects it *)
Theorem C04_repaired_rejects :
  calculateHashes T true 4 (Some [lf 0]) [7] [] = Err.
Proof. exact D1_repaired_rejects. Qed.
Print Assumptions C04_repaired_rejects.

(** ** Totality of the repaired verifier core (Proofs/CalcTotal.v): for arbitrary untrusted input the
    mirror of calculateHashes needs at most (k+1)*(rows+3) loop iterations (k targets), never runs out
    of its fuel, and no entry point reports an index panic. *)
Theorem C04_calc_no_out_of_fuel :
  forall (H : Type) (HO : ops H) n hashes targets proof,
    n <= 2 ^ 63 -> (forall t, In t targets -> t < 2 ^ 64) ->
    calculateHashes HO true n hashes targets proof <> OutOfFuel.
Proof. exact calc_no_out_of_fuel. Qed.
Print Assumptions C04_calc_no_out_of_fuel.

(** the same without the bound on the targets *)
Theorem C04_calc_no_out_of_fuel_gen :
  forall (H : Type) (HO : ops H) n hashes targets proof,
    n <= 2 ^ 63 -> calculateHashes HO true n hashes targets proof <> OutOfFuel.
Proof. exact calc_no_out_of_fuel_gen. Qed.
Print Assumptions C04_calc_no_out_of_fuel_gen.

(** [calculateHashes_i fuel] is [calculateHashes] with an iteration counter on the main loop,
    run on any fuel ... *)
Theorem C04_calc_instrumented_same :
  forall (H : Type) (HO : ops H) n hashes targets proof,
    fst (calculateHashes_i H HO (calc_fuel (length targets) (TreeRows n)) n hashes targets proof)
    = calculateHashes HO true n hashes targets proof.
Proof. exact calculateHashes_i_fst. Qed.
Print Assumptions C04_calc_instrumented_same.

(** ... and however large the fuel, the loop runs at most [k * (rows + 2) + 1] times, which is
    below the model's fuel [(k + 1) * (rows + 3)] *)
Theorem C04_calc_iterations_bound :
  forall (H : Type) (HO : ops H) fuel n hashes targets proof,
    n <= 2 ^ 63 ->
    (snd (calculateHashes_i H HO fuel n hashes targets proof)
     <= length targets * (N.to_nat (TreeRows n) + 2) + 1)%nat
    /\ (snd (calculateHashes_i H HO fuel n hashes targets proof)
        <= calc_fuel (length targets) (TreeRows n))%nat.
Proof. exact calc_iterations_bound. Qed.
Print Assumptions C04_calc_iterations_bound.

Theorem C04_verify_no_panic :
  forall (H : Type) (HO : ops H) s hashes targets proof,
    Verify HO true s hashes targets proof <> Panic.
Proof. exact Verify_no_panic. Qed.
Print Assumptions C04_verify_no_panic.

Theorem C04_pollard_verify_no_panic :
  forall (H : Type) (HO : ops H) s hashes targets proof,
    PollardVerify HO true s hashes targets proof <> Panic.
Proof. exact PollardVerify_no_panic. Qed.
Print Assumptions C04_pollard_verify_no_panic.

Theorem C04_update_no_panic :
  forall (H : Type) (HO : ops H) filler s dels adds ts pf,
    snd (stump_update HO true filler s dels adds ts pf) <> Panic.
Proof. exact stump_update_no_panic. Qed.
Print Assumptions C04_update_no_panic.

(** ** Whole entry points (Proofs/TotalEntry.v): for ARBITRARY untrusted input against any state of at
    most 2^63 leaves each verifier entry point returns accept or reject - no index panic, and the loop
    ends within its proved iteration bound ([decided o] : [o] is [Ok _] or [Err]) *)
From Utreexo Require Import Model.MapRead Proofs.TotalEntry.

Theorem C04_Verify_total : forall (H : Type) (HO : ops H) (s : stump H) hs ts pf,
  st_n s <= 2 ^ 63 -> decided (Verify HO true s hs ts pf).
Proof. exact Verify_decided. Qed.
Print Assumptions C04_Verify_total.

Theorem C04_PollardVerify_total : forall (H : Type) (HO : ops H) (s : stump H) hs ts pf,
  st_n s <= 2 ^ 63 -> decided (PollardVerify HO true s hs ts pf).
Proof. exact PollardVerify_decided. Qed.
Print Assumptions C04_PollardVerify_total.

Theorem C04_MapVerify_total : forall (H : Type) (HO : ops H) (m : mstate H) hs ts pf,
  ms_n m <= 2 ^ 63 -> decided (map_verify HO m hs ts pf).
Proof. exact map_verify_decided. Qed.
Print Assumptions C04_MapVerify_total.

Theorem C04_VerifyPartialProof_total : forall (H : Type) (HO : ops H) (m : mstate H) ts hs pf,
  ms_n m <= 2 ^ 63 -> decided (VerifyPartialProof HO m ts hs pf).
Proof. exact VerifyPartialProof_decided. Qed.
Print Assumptions C04_VerifyPartialProof_total.

Theorem C04_Update_total : forall (H : Type) (HO : ops H) filler (s : stump H) dels adds ts pf,
  st_n s <= 2 ^ 63 -> decided (snd (stump_update HO true filler s dels adds ts pf)).
Proof. exact stump_update_decided. Qed.
Print Assumptions C04_Update_total.
