(** C04 - Verifiers are total on untrusted input and reject atomically. *)
From Utreexo Require Import Model.Verify Spec.Term Proofs.VerifyBasics.
Open Scope N_scope.

(** "When the verifier-state update rejects its input it leaves the leaf count and every root
    unchanged" - for the mirror of Stump.Update, any hash type, any input. *)
Theorem C04_update_atomic : forall (H : Type) (HO : ops H) strict filler s dels adds ts pf s' o,
  stump_update HO strict filler s dels adds ts pf = (s', o) ->
  (forall u, o <> Ok u) -> s' = s.
Proof. exact stump_update_atomic. Qed.
Print Assumptions C04_update_atomic.

(** the loop of the pinned commit does not terminate on a target that is not below a root ... *)
Theorem C04_unrepaired_refuted :
  calculateHashes T false 4 (Some [lf 0]) [7] [] = OutOfFuel.
Proof. exact D1_unrepaired_hangs. Qed.
Print Assumptions C04_unrepaired_refuted.

(** ... and the repaired loop rejects it *)
Theorem C04_repaired_rejects :
  calculateHashes T true 4 (Some [lf 0]) [7] [] = Err.
Proof. exact D1_repaired_rejects. Qed.
Print Assumptions C04_repaired_rejects.
