(** C10 - Position and hash look-ups tell the truth (reference side). *)
From Utreexo Require Import Spec.Forest Proofs.SpecBasics.
From Utreexo Require Import Base.Hash Model.MapRead Spec.Forest Spec.Oracle Proofs.MapReadSpec.
From Coq Require Import List NArith.
Open Scope N_scope.

Theorem C10_leaf_pos_found : forall (H : Type) (HO : ops H), ops_ok HO -> forall rows lay h p,
  leaf_pos HO rows lay h = Some p ->
  exists x, In x lay /\ nleaf x = true /\ nhash x = h /\ npos rows x = p.
Proof. exact leaf_pos_some. Qed.
Print Assumptions C10_leaf_pos_found.

Theorem C10_leaf_pos_not_found : forall (H : Type) (HO : ops H), ops_ok HO -> forall rows lay h,
  leaf_pos HO rows lay h = None -> forall x, In x lay -> nleaf x = true -> nhash x <> h.
Proof. exact leaf_pos_none. Qed.
Print Assumptions C10_leaf_pos_not_found.

Theorem C10_hash_at_absent : forall (H : Type) (HO : ops H) rows lay p,
  (forall x, In x lay -> npos rows x <> p) -> hash_at HO rows lay p = op_empty HO.
Proof. exact hash_at_absent. Qed.
Print Assumptions C10_hash_at_absent.

(** ** merged from C10c.v: the mirror of the MapPollard read side (Model/MapRead.v) on states consistent with the reference *)

Theorem C10c_leafpos : forall (H : Type) (HO : ops H), ops_ok HO ->
  forall (s : slots H) (R : list H) (m : mstate H), consistent HO s R m ->
  forall h : H,
  GetLeafPosition HO m h = exp_leafpos HO (mk_ctx HO s) (memH HO h R) h.
Proof. exact map_leafpos_iff. Qed.
Print Assumptions C10c_leafpos.

Theorem C10c_leafpos_some : forall (H : Type) (HO : ops H), ops_ok HO ->
  forall (s : slots H) (R : list H) (m : mstate H), consistent HO s R m ->
  forall (h : H) (p : N),
  GetLeafPosition HO m h = Some p <->
  In h R /\ exists x, find_leaf HO (layout HO s) h = Some x /\
                      p = npos (rows_of (num_leaves s)) x.
Proof. exact map_leafpos_some. Qed.
Print Assumptions C10c_leafpos_some.

Theorem C10c_leafpos_none : forall (H : Type) (HO : ops H), ops_ok HO ->
  forall (s : slots H) (R : list H) (m : mstate H), consistent HO s R m ->
  forall h : H, GetLeafPosition HO m h = None <-> ~ In h R.
Proof. exact map_leafpos_none. Qed.
Print Assumptions C10c_leafpos_none.

Theorem C10c_leafhashpositions : forall (H : Type) (HO : ops H), ops_ok HO ->
  forall (s : slots H) (R : list H) (m : mstate H), consistent HO s R m ->
  forall hs : list H,
  GetLeafHashPositions HO m hs =
  map (fun h => match exp_leafpos HO (mk_ctx HO s) (memH HO h R) h with
                | Some p => p | None => 0 end) hs.
Proof. exact map_leafhashpositions. Qed.
Print Assumptions C10c_leafhashpositions.

Theorem C10c_gethash_dual : forall (H : Type) (HO : ops H), ops_ok HO ->
  forall (s : slots H) (R : list H) (m : mstate H), consistent HO s R m ->
  forall p : N,
  chk_gethash_dual HO (mk_ctx HO s) false (N.to_nat (ms_total m)) p (GetHash HO m p) = true.
Proof. exact map_gethash_dual. Qed.
Print Assumptions C10c_gethash_dual.

Theorem C10c_gethash_spec : forall (H : Type) (HO : ops H)
  (s : slots H) (R : list H) (m : mstate H), consistent HO s R m ->
  forall (p : N) (h : H), GetHash HO m p = h ->
  h = op_empty HO \/
  exists x, In x (layout HO s) /\ nhash x = h /\ denotes s m p x /\
            stored m (gp (ms_total m) (nrow x) (noff x)).
Proof. exact map_gethash_spec. Qed.
Print Assumptions C10c_gethash_spec.

Theorem C10c_gethash_stored : forall (H : Type) (HO : ops H)
  (s : slots H) (R : list H) (m : mstate H), consistent HO s R m ->
  forall (p : N) (x : node H), In x (layout HO s) -> denotes s m p x ->
  stored m (gp (ms_total m) (nrow x) (noff x)) -> GetHash HO m p = nhash x.
Proof. exact map_gethash_stored. Qed.
Print Assumptions C10c_gethash_stored.

Theorem C10c_gethash_unstored : forall (H : Type) (HO : ops H)
  (s : slots H) (R : list H) (m : mstate H), consistent HO s R m ->
  forall p : N,
  (forall x, In x (layout HO s) -> denotes s m p x ->
             ~ stored m (gp (ms_total m) (nrow x) (noff x))) ->
  GetHash HO m p = op_empty HO.
Proof. exact map_gethash_unstored. Qed.
Print Assumptions C10c_gethash_unstored.

Theorem C10c_roots : forall (H : Type) (HO : ops H)
  (s : slots H) (R : list H) (m : mstate H), consistent HO s R m ->
  getRoots HO m = roots HO s.
Proof. exact map_getroots. Qed.
Print Assumptions C10c_roots.

From Utreexo Require Import Spec.Oracle.

(** ** The map forest (mirror of the MapPollard mutators, Model/MapMut.v) along EVERY history
    (Proofs/MapMutUnify2.v): after any valid sequence of general blocks, prunes, ingests and
    verifications-with-remember from the empty forest - full or partial, any allocated height - the
    mirror's roots and leaf count are those of the reference forest, it proves its tracked leaves with
    the canonical proof, and it finds a hash exactly when it tracks it (on a full forest: exactly the
    live leaves, at their true positions). *)
From Utreexo Require Import Model.MapRead Model.MapMut Proofs.MapMutUnify2.
Theorem C10_map_forest_every_history :
  forall (H : Type) (HO : ops H), ops_ok HO ->
  (forall x y, op_eqb HO (op_hash2 HO x y) (op_empty HO) = false) ->
  forall (T : N) (full : bool) (l : list (bop H)),
    T <= 63 -> hvalid2 H HO full ([], []) l ->
    exists m,
      hrun2 H HO full ([], []) (mkM [] [] 0 T full) l = Some m /\
      (let sF := fst (hfinal2 H HO full ([], []) l) in
       let RF := snd (hfinal2 H HO full ([], []) l) in
       getRoots HO m = roots HO sF /\
       ms_n m = num_leaves sF /\
       (forall hs, (forall h, In h hs -> In h RF) -> NoDup hs ->
                   Prove HO m hs = exp_prove HO (mk_ctx HO sF) hs) /\
       (forall h, GetLeafPosition HO m h = exp_leafpos HO (mk_ctx HO sF) (memH HO h RF) h) /\
       (full = true ->
        (forall hs, (forall h, In h hs -> In (Some h) sF) -> NoDup hs ->
                    Prove HO m hs = exp_prove HO (mk_ctx HO sF) hs) /\
        (forall h, In (Some h) sF <-> (exists p, GetLeafPosition HO m h = Some p)) /\
        (forall h, GetLeafPosition HO m h = leaf_pos HO (rows_of (num_leaves sF)) (layout HO sF) h))).
Proof. exact history2_observables. Qed.
Print Assumptions C10_map_forest_every_history.
