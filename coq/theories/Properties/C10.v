(** C10 - Position and hash look-ups tell the truth (reference side). *)
From Utreexo Require Import Spec.Forest Proofs.SpecBasics.
Open Scope N_scope.

Theorem C10_leaf_pos_found : forall (H : Type) (HO : ops H), ops_ok HO -> forall rows lay h p,
  leaf_pos HO rows lay h = Some p ->
  exists x, In x lay /\ nleaf x = true /\ nhash x = h /\ npos rows x = p.
Proof. exact leaf_pos_some. Qed.
Print Assumptions C10_leaf_pos_found.

Theorem C10_leaf_pos_not_found : forall (H : Type) (HO : ops H), ops_ok HO -> forall rows lay h,
  leaf_pos HO rows lay h = None -> forall x, In x lay -> nleaf x = true -> nhash x <> h.
Proof. exact leaf_pos_none. Qed.
Print Assumptions C10_leaf_pos_not_found.

Theorem C10_hash_at_absent : forall (H : Type) (HO : ops H) rows lay p,
  (forall x, In x lay -> npos rows x <> p) -> hash_at HO rows lay p = op_empty HO.
Proof. exact hash_at_absent. Qed.
Print Assumptions C10_hash_at_absent.
