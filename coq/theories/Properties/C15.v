(** C15 - The caching schedule produced by the eviction loop of [GenerateCachingSchedule]
    (mirror [Model.Evict.schedule], input = [cs.ttls] as left by [genTTLs]):
    it only schedules entries whose deletion block is recorded, each once, sorted per block
    ([sched_subset]); the scheduled entries never need more than [maxMemory] cache slots at any
    block ([sched_memory], [sched_memory_count]); and with enough memory every entry with a
    recorded deletion is scheduled ([sched_complete]).
    Well-formed input ([ttl_ok], decidable by [ttl_okb]): every ttl >= 1 and all positions
    pairwise distinct.  [block index + ttl < number of blocks] is NOT assumed. *)
From Coq Require Import NArith ZArith List Bool Sorted.
From Utreexo Require Import Model.Evict Proofs.EvictInv.
Import ListNotations.

(** T1. *)
Theorem sched_subset :
  forall (maxMemory : nat) (ttls : list (list (N * Z))),
    ttl_ok ttls ->
    length (schedule maxMemory ttls) = length ttls /\
    (forall i p, In p (nth i (schedule maxMemory ttls) []) ->
       exists t, In (p, t) (nth i ttls []) /\
                 (Z.of_nat i + t < Z.of_nat (length ttls))%Z) /\
    NoDup (concat (schedule maxMemory ttls)) /\
    (forall i, StronglySorted N.lt (nth i (schedule maxMemory ttls) [])).
Proof. exact sched_subset_proof. Qed.
Print Assumptions sched_subset.

(** T2.  [alive_at i t b := i <= b /\ b < i + t].  Any duplicate-free collection of scheduled
    positions that are alive at block [b] has at most [maxMemory] members. *)
Theorem sched_memory :
  forall (maxMemory : nat) (ttls : list (list (N * Z))),
    ttl_ok ttls ->
    forall (b : nat) (l : list N),
      NoDup l ->
      (forall p, In p l -> exists i t,
          In p (nth i (schedule maxMemory ttls) []) /\ In (p, t) (nth i ttls []) /\
          alive_at i t b) ->
      (length l <= maxMemory)%nat.
Proof. exact sched_memory_proof. Qed.
Print Assumptions sched_memory.

(** T2, counting form: [alive_count ttls sch b] is the number of positions [p] in some [sch[i]]
    whose entry [(p, t)] in [ttls[i]] satisfies [alive_at i t b]. *)
Theorem sched_memory_count :
  forall (maxMemory : nat) (ttls : list (list (N * Z))),
    ttl_ok ttls ->
    forall b : nat, (alive_count ttls (schedule maxMemory ttls) b <= maxMemory)%nat.
Proof. exact sched_memory_count_proof. Qed.
Print Assumptions sched_memory_count.

(** [alive_count] misses nothing: every scheduled position alive at [b] is in the counted list. *)
Theorem alive_count_counts_all :
  forall (T : list (list (N * Z))) (Sc : list (list N)) (i0 b j : nat) (p : N) (t : Z),
    NoDup (map fst (nth j T [])) ->
    In p (nth j Sc []) -> In (p, t) (nth j T []) -> alive_at (i0 + j) t b ->
    In p (alive_from i0 b T Sc).
Proof. exact alive_from_complete. Qed.
Print Assumptions alive_count_counts_all.

(** T3. *)
Theorem sched_complete :
  forall (maxMemory : nat) (ttls : list (list (N * Z))),
    ttl_ok ttls ->
    (total_entries ttls <= maxMemory)%nat ->
    forall i p t, In (p, t) (nth i ttls []) ->
                  (Z.of_nat i + t < Z.of_nat (length ttls))%Z ->
                  In p (nth i (schedule maxMemory ttls) []).
Proof. exact sched_complete_proof. Qed.
Print Assumptions sched_complete.

(** The length claim of T1 needs no well-formedness. *)
Theorem sched_length_any_input :
  forall (maxMemory : nat) (ttls : list (list (N * Z))),
    length (schedule maxMemory ttls) = length ttls.
Proof. exact schedule_length. Qed.
Print Assumptions sched_length_any_input.

(** The decision procedures agree with the propositions used above. *)
Theorem ttl_okb_correct :
  forall ttls : list (list (N * Z)), ttl_okb ttls = true <-> ttl_ok ttls.
Proof. exact ttl_okb_spec. Qed.
Print Assumptions ttl_okb_correct.

Theorem check_schedule_correct :
  forall (maxMemory : nat) (ttls : list (list (N * Z))) (impl : list (list N)),
    check_schedule maxMemory ttls impl = true <-> impl = schedule maxMemory ttls.
Proof. exact check_schedule_spec. Qed.
Print Assumptions check_schedule_correct.

(** * Non-vacuity: a 6-block input on which a cache of 2 fills (block 0) and evicts (block 1:
    [(12,1)] replaces [(10,2)]); position 14 outlives the recording. *)
Definition ex_ttls : list (list (N * Z)) :=
  [[ent 10 3; ent 11 5]; [ent 12 1]; [ent 13 2; ent 14 7]; []; []; []].

Example ex_ok : ttl_ok ex_ttls.
Proof. apply ttl_okb_spec. vm_compute. reflexivity. Qed.

(** beside T1: the schedule is non-empty; 10 (evicted in block 1) and 14 (refused in block 2:
    the cache is full and no cached ttl exceeds 7; it would outlive the recording anyway) are
    not scheduled *)
Example ex_schedule : schedule 2 ex_ttls = [[11]; [12]; [13]; []; []; []]%N.
Proof. vm_compute. reflexivity. Qed.

(** beside T2: occupancy per block of the scheduled entries, never above 2 *)
Example ex_memory :
  map (alive_count ex_ttls (schedule 2 ex_ttls)) [0; 1; 2; 3; 4; 5; 6]%nat
  = [1; 2; 2; 2; 1; 0; 0]%nat.
Proof. vm_compute. reflexivity. Qed.

(** beside T3: 5 entries, memory 5: everything whose deletion block is recorded is scheduled *)
Example ex_complete :
  (total_entries ex_ttls <=? 5)%nat = true /\
  schedule 5 ex_ttls = [[10; 11]; [12]; [13]; []; []; []]%N.
Proof. vm_compute. split; reflexivity. Qed.

(** ** The TTL generation (mirror Model/TTL.v of AddBlockSummary / genTTLs with its backward walk
    undoAdd / undoDel on positions, compared with the code on every history of every run) computes
    EXACTLY the reference TTL facts (Proofs/TTLSpec.v, TTLUndoAdd.v, TTLUndoDel.v, TTLTracker.v): for
    every valid history (blocks of distinct live deletions and fresh additions, summaries = the
    deletion targets as a prover emits them + the addition count), up to 2^62 leaves, the tracker never
    fails and [ttl_run] returns, per block, (insertion slot, deleted-block minus added-block) for every
    leaf added in that block and deleted in a later recorded block, ascending by slot - the input for
    which [sched_subset] / [sched_memory] / [sched_complete] above are stated.  Together: the schedule the
    mirrors compute names real leaves, respects the limit, and is complete. *)
From Utreexo Require Import Base.Hash Model.TTL Proofs.StumpUpdate Proofs.TTLSpec Proofs.TTLTracker.

Theorem C15_ttls_are_exactly_the_reference_facts :
  forall (H : Type) (HO : ops H), ops_ok HO ->
  forall blocks : list (list H * list H),
    StumpUpdate.valid_hist H HO [] blocks ->
    N.of_nat (StumpUpdate.total_adds H blocks) <= 2 ^ 62 ->
    exists sm : list (list N * N),
      hist_summaries H HO [] blocks = Some sm /\ ttl_run sm = Some (exp_ttls_z H HO blocks).
Proof. exact ttl_statement_holds. Qed.
Print Assumptions C15_ttls_are_exactly_the_reference_facts.

(** the tracker is total: AddBlockSummary never fails, whatever targets it is given *)
Theorem C15_tracker_total :
  forall (hist : list (list N * N)) (cs : tracker),
    tracker_wf cs ->
    last (cs_numLeaves cs) 0 + sum_adds hist < 2 ^ 64 ->
    exists cs', ttl_summaries cs hist = Some cs' /\ tracker_wf cs' /\
      length (cs_deletions cs') = (length (cs_deletions cs) + length hist)%nat /\
      last (cs_numLeaves cs') 0 = last (cs_numLeaves cs) 0 + sum_adds hist.
Proof. exact ttl_summaries_total. Qed.
Print Assumptions C15_tracker_total.
