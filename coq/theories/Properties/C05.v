(** C05 - An accepted block is applied identically by every implementation. *)
From Utreexo Require Import Model.Verify Spec.Term Spec.Forest Spec.Oracle Proofs.VerifyBasics.
Open Scope N_scope.

(** At the pinned commit an accepted proof could make the roots-only verifier delete another leaf
    than the one sitting at the claimed position (which is the one the forests delete). *)
Theorem C05_unrepaired_refuted :
  exists s' u,
    stump_update T false (Atom 99) (the_stump c10) [lf 0] [] [8] [n25] = (s', Ok u)
    /\ st_roots s' <> roots T (kill T [lf 8] s10).
Proof. exact D4_unrepaired_diverges. Qed.
Print Assumptions C05_unrepaired_refuted.

Theorem C05_repaired_rejects :
  Verify T true (the_stump c10) [lf 0] [8] [n25] = Err.
Proof. exact D4_repaired_rejects. Qed.
Print Assumptions C05_repaired_rejects.

From Utreexo Require Import Base.Hash Proofs.CalcSound Proofs.CalcComplete Proofs.StumpUpdate.

(** The repaired roots-only verifier applies a block exactly as the reference forest does: given the
    canonical proof of the deleted (distinct, live) leaves it accepts, and its new roots and leaf
    count are those of the reference after the block — for every forest up to 2^63 leaves, every
    block.  (The forests are tied to the same reference by the correspondence check and, for their
    read side, by the C09/C10 theorems.) *)
Theorem C05_stump_applies_block_like_reference :
  forall (H : Type) (HO : ops H), ops_ok HO ->
  (forall a b, NZ HO (op_hash2 HO a b)) ->
  forall filler (s : slots H) (hs adds : list H) (ts : list N) (pf : list H),
  (forall h, In (Some h) s -> NZ HO h) ->
  (forall h, In h adds -> NZ HO h) ->
  NoDup (live s) ->
  N.of_nat (length s + length adds) <= 2 ^ 63 ->
  NoDup hs ->
  exp_prove HO (mk_ctx HO s) hs = Some (ts, pf) ->
  exists st' ud,
    stump_update HO true filler (the_stump (mk_ctx HO s)) hs adds ts pf = (st', Ok ud) /\
    st_roots st' = roots HO (apply_block HO s hs adds) /\
    st_n st' = num_leaves (apply_block HO s hs adds) /\
    u_prev ud = num_leaves s.
Proof. exact stump_update_refines. Qed.
Print Assumptions C05_stump_applies_block_like_reference.

(** ... and so over whole histories of valid blocks, from the empty accumulator *)
Theorem C05_stump_follows_reference_history :
  forall (H : Type) (HO : ops H), ops_ok HO ->
  (forall a b, NZ HO (op_hash2 HO a b)) ->
  forall filler (bs : list (list H * list H)),
  N.of_nat (total_adds H bs) <= 2 ^ 63 -> valid_hist H HO [] bs ->
  run_stump H HO filler (mkStump [] 0) [] bs
  = Some (stump_of H HO (apply_hist H HO [] bs), apply_hist H HO [] bs).
Proof. exact stump_history_refines_empty. Qed.
Print Assumptions C05_stump_follows_reference_history.

Theorem C05_stump_follows_reference_history_term :
  forall filler (bs : list (list term * list term)),
  N.of_nat (total_adds term bs) <= 2 ^ 63 -> valid_hist term term_ops [] bs ->
  run_stump term term_ops filler (mkStump [] 0) [] bs
  = Some (stump_of term term_ops (apply_hist term term_ops [] bs), apply_hist term term_ops [] bs).
Proof. exact stump_history_refines_term. Qed.
Print Assumptions C05_stump_follows_reference_history_term.
