(** C05 - An accepted block is applied identically by every implementation. *)
From Utreexo Require Import Model.Verify Spec.Term Spec.Forest Spec.Oracle Proofs.VerifyBasics.
Open Scope N_scope.

(** At the pinned commit an accepted proof could make the roots-only verifier delete another leaf
    than the one sitting at the claimed position (which is the one the forests delete). *)
Theorem C05_unrepaired_refuted :
  exists s' u,
    stump_update T false (Atom 99) (the_stump c10) [lf 0] [] [8] [n25] = (s', Ok u)
    /\ st_roots s' <> roots T (kill T [lf 8] s10).
Proof. exact D4_unrepaired_diverges. Qed.
Print Assumptions C05_unrepaired_refuted.

Theorem C05_repaired_rejects :
  Verify T true (the_stump c10) [lf 0] [8] [n25] = Err.
Proof. exact D4_repaired_rejects. Qed.
Print Assumptions C05_repaired_rejects.
