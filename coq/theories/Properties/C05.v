(** C05 - An accepted block is applied identically by every implementation. *)
From Utreexo Require Import Model.Verify Spec.Term Spec.Forest Spec.Oracle Proofs.VerifyBasics.
Open Scope N_scope.

(** At the pinned commit an accepted proof could make the roots-only verifier delete another leaf
    than the one sitting at the claimed position (which is the one the forests delete). *)
Theorem C05_unrepaired_refuted :
  exists s' u,
    stump_update T false (Atom 99) (the_stump c10) [lf 0] [] [8] [n25] = (s', Ok u)
    /\ st_roots s' <> roots T (kill T [lf 8] s10).
Proof. exact D4_unrepaired_diverges. Qed.
Print Assumptions C05_unrepaired_refuted.

Theorem C05_repaired_rejects :
  Verify T true (the_stump c10) [lf 0] [8] [n25] = Err.
Proof. exact D4_repaired_rejects. Qed.
Print Assumptions C05_repaired_rejects.

From Utreexo Require Import Base.Hash Proofs.CalcSound Proofs.CalcComplete Proofs.StumpUpdate.

(** The repaired roots-only verifier applies a block exactly as the reference forest does: given the
    canonical proof of the deleted (distinct, live) leaves it accepts, and its new roots and leaf
    count are those of the reference after the block — for every forest up to 2^63 leaves, every
    block.  (The forests are tied to the same reference by the correspondence check and, for their
    read side, by the C09/C10 theorems.) *)
Theorem C05_stump_applies_block_like_reference :
  forall (H : Type) (HO : ops H), ops_ok HO ->
  (forall a b, NZ HO (op_hash2 HO a b)) ->
  forall filler (s : slots H) (hs adds : list H) (ts : list N) (pf : list H),
  (forall h, In (Some h) s -> NZ HO h) ->
  (forall h, In h adds -> NZ HO h) ->
  NoDup (live s) ->
  N.of_nat (length s + length adds) <= 2 ^ 63 ->
  NoDup hs ->
  exp_prove HO (mk_ctx HO s) hs = Some (ts, pf) ->
  exists st' ud,
    stump_update HO true filler (the_stump (mk_ctx HO s)) hs adds ts pf = (st', Ok ud) /\
    st_roots st' = roots HO (apply_block HO s hs adds) /\
    st_n st' = num_leaves (apply_block HO s hs adds) /\
    u_prev ud = num_leaves s.
Proof. exact stump_update_refines. Qed.
Print Assumptions C05_stump_applies_block_like_reference.

(** ... and so over whole histories of valid blocks, from the empty accumulator *)
Theorem C05_stump_follows_reference_history :
  forall (H : Type) (HO : ops H), ops_ok HO ->
  (forall a b, NZ HO (op_hash2 HO a b)) ->
  forall filler (bs : list (list H * list H)),
  N.of_nat (total_adds H bs) <= 2 ^ 63 -> valid_hist H HO [] bs ->
  run_stump H HO filler (mkStump [] 0) [] bs
  = Some (stump_of H HO (apply_hist H HO [] bs), apply_hist H HO [] bs).
Proof. exact stump_history_refines_empty. Qed.
Print Assumptions C05_stump_follows_reference_history.

Theorem C05_stump_follows_reference_history_term :
  forall filler (bs : list (list term * list term)),
  N.of_nat (total_adds term bs) <= 2 ^ 63 -> valid_hist term term_ops [] bs ->
  run_stump term term_ops filler (mkStump [] 0) [] bs
  = Some (stump_of term term_ops (apply_hist term term_ops [] bs), apply_hist term term_ops [] bs).
Proof. exact stump_history_refines_term. Qed.
Print Assumptions C05_stump_follows_reference_history_term.

(** ** ANY accepted encoding (the property's full quantifier), free hash algebra, leaves are atoms *)
From Utreexo Require Import Proofs.Soundness Proofs.AcceptedBlock Proofs.AcceptedHistory.

(** Whatever (hashes, targets, proof) the repaired roots-only verifier accepts - targets in any order,
    unused trailing proof hashes - if the claimed positions are leaf positions, the deletion leaves
    exactly the reference roots with the named leaves removed. *)
Theorem C05_any_accepted_deletion :
  forall (s : slots term) (hs : list term) (ts : list N) (pf : list term) st' inter,
    leaves_atoms s -> NoDup (live s) -> N.of_nat (length s) <= 2 ^ 63 ->
    (forall t, In t ts -> exists x, find_pos (crows (mk_ctx term_ops s)) (clay (mk_ctx term_ops s)) t = Some x /\ nleaf x = true) ->
    stump_del term_ops true (the_stump (mk_ctx term_ops s)) hs ts pf = (st', Ok inter) ->
    st_roots st' = roots term_ops (kill term_ops hs s) /\ st_n st' = num_leaves s.
Proof. exact stump_del_accepted_refines. Qed.
Print Assumptions C05_any_accepted_deletion.

(** ... followed by arbitrary additions *)
Theorem C05_any_accepted_block :
  forall filler (s : slots term) (hs adds : list term) (ts : list N) (pf : list term) st' ud,
    leaves_atoms s -> NoDup (live s) ->
    N.of_nat (length s + length adds) <= 2 ^ 63 ->
    (forall h, In h adds -> NZ term_ops h) ->
    (forall t, In t ts ->
       exists x, find_pos (crows (mk_ctx term_ops s)) (clay (mk_ctx term_ops s)) t = Some x /\
                 nleaf x = true) ->
    stump_update term_ops true filler (the_stump (mk_ctx term_ops s)) hs adds ts pf = (st', Ok ud) ->
    st_roots st' = roots term_ops (apply_block term_ops s hs adds) /\
    st_n st' = num_leaves (apply_block term_ops s hs adds) /\
    u_prev ud = num_leaves s.
Proof. exact stump_update_accepted_refines. Qed.
Print Assumptions C05_any_accepted_block.

(** ... and along every history: if every block of a history is accepted ([run_any] returns a value)
    and names leaf positions, the final stump is the stump of the reference forest *)
Theorem C05_any_accepted_history :
  forall filler (bs : list ablock) stf sf,
    N.of_nat (atotal_adds bs) <= 2 ^ 63 -> ahist_ok [] bs ->
    run_any filler (mkStump [] 0) [] bs = Some (stf, sf) ->
    st_roots stf = roots term_ops sf /\ st_n stf = num_leaves sf.
Proof. exact accepted_history_refines_empty. Qed.
Print Assumptions C05_any_accepted_history.

(** the outcome of an accepted deletion does not depend on the proof encoding at all (any hash type
    with an injective, never-empty [hash2]; any stump) *)
Theorem C05_accepted_outcome_independent_of_encoding :
  forall (H : Type) (HO : ops H), ops_ok HO ->
    (forall a b, NZ HO (op_hash2 HO a b)) ->
    (forall a b c d, op_hash2 HO a b = op_hash2 HO c d -> a = c /\ b = d) ->
    forall (st : stump H) hs ts pf1 pf2 st1 i1 st2 i2,
      stump_del HO true st hs ts pf1 = (st1, Ok i1) ->
      stump_del HO true st hs ts pf2 = (st2, Ok i2) -> st1 = st2 /\ i1 = i2.
Proof. exact stump_del_proof_irrelevant. Qed.
Print Assumptions C05_accepted_outcome_independent_of_encoding.

(** why the property says "whose targets are live leaves": the verifier also accepts the true hash of
    an INNER node as a target and then removes the whole subtree, which is not [kill] of a leaf *)
Theorem C05_scope_nonleaf_target :
  let s := ab_s4 in
  let hs := [Node (Atom 0) (Atom 1)] in
  leaves_atoms s /\ NoDup (live s) /\ N.of_nat (length s) <= 2 ^ 63 /\
  exists st' inter,
    stump_del term_ops true (the_stump (mk_ctx term_ops s)) hs [4] [Node (Atom 2) (Atom 3)]
    = (st', Ok inter) /\
    st_roots st' = [Node (Atom 2) (Atom 3)] /\
    roots term_ops (kill term_ops hs s) = [Node (Node (Atom 0) (Atom 1)) (Node (Atom 2) (Atom 3))] /\
    st_roots st' <> roots term_ops (kill term_ops hs s).
Proof. exact stump_del_accepted_nonleaf_refuted. Qed.
Print Assumptions C05_scope_nonleaf_target.

(** ** The map forest applies the same block identically, whatever the encoding (Proofs/MapMutUnify2.v):
    the mirror of [MapPollard.Modify] on any state in the invariant, given the block's targets in ANY
    order and ANY proof hashes (it never reads them), ends in the invariant for the reference forest
    after the block - so (C01_map_forest_every_history) it reports the reference roots and leaf count,
    the same value the roots-only verifier reaches ([C05_any_accepted_block]). *)
From Utreexo Require Import Model.MapRead Model.MapMut Proofs.MapMutAdd Proofs.MapMutUnify2.
From Coq Require Import Permutation.

Theorem C05_map_forest_any_encoding :
  forall (H : Type) (HO : ops H), ops_ok HO ->
  (forall x y, op_eqb HO (op_hash2 HO x y) (op_empty HO) = false) ->
  forall (s : slots H) (R : list H) (m : mstate H) (adds : list (H * bool)) (dels : list H)
         (ts : list N) (pf : list H) (targets : list N) (proof : list H),
    MapMutAdd.Inv H HO s R m -> nimage HO s -> dels_ok s R dels ->
    exp_prove HO (mk_ctx HO s) dels = Some (ts, pf) ->
    Permutation targets ts ->
    N.of_nat (length s) + N.of_nat (length adds) <= 2 ^ 63 ->
    MapMutAdd.adds_ok H HO (kill HO dels s) (filter (fun h => negb (memH HO h dels)) R) (ms_full m) adds ->
    exists m', mm_modify HO m adds dels targets proof = Some m' /\
      MapMutAdd.Inv H HO (apply_block HO s dels (map fst adds))
        (fold_left (MapMutAdd.Rnext H (ms_full m)) adds (filter (fun h => negb (memH HO h dels)) R)) m' /\
      ms_total m <= ms_total m' /\ ms_full m' = ms_full m.
Proof. exact block_Inv. Qed.
Print Assumptions C05_map_forest_any_encoding.
