(** C12 - the map forest is race-free and every query sees a whole-block state.

    What is proved: the locking discipline of [MapPollard], extracted from the Go source by
    [tools/lockscan] into [Gen/LockTable.v], is well-formed ([table_ok], by computation), and every
    well-formed table is free of races, makes every writer section atomic with respect to all
    guarded accesses, keeps the guarded state unwritten during every reader section, and cannot
    deadlock - for every number of threads, every interleaving, every order and multiplicity of
    the accesses inside a section (Spec/LockProto.v).
    What is trusted: that [sync.RWMutex] implements the modelled lock, the Go memory model, the
    extraction of the table (syntactic; tools/lockscan/README.md), absence of panics (not
    modelled), writer preference/starvation (not modelled).  That a query's *result* is correct
    for the state it reads is C01-C10.  [String]/[AllSubTreesToString] are excluded (they take the
    lock several times).
    This file contains statements and [exact] only. *)
From Coq Require Import List String.
From Utreexo Require Import Spec.LockProto Proofs.LockSafe Gen.LockTable Gen.LockTableOk.
Import ListNotations.

(** ** The generated obligation *)

Theorem C12_table_ok : wf_table lock_table = true.
Proof. exact table_ok. Qed.
Print Assumptions C12_table_ok.

(** ** General theorems: every well-formed table *)

Theorem C12_race_free : forall t n c,
  wf_table t = true -> reachable t n c -> ~ racy c.
Proof. exact race_free. Qed.
Print Assumptions C12_race_free.

Theorem C12_whole_block_atomic : forall t n tr1 c1 i c2 tr2 c3,
  wf_table t = true ->
  exec t (init n) tr1 c1 -> step t c1 (LAcquire i) c2 -> in_section c2 i MW ->
  exec t c2 tr2 c3 -> ~ In (LRelease i) tr2 ->
  forall j a, In (LAccess j a) tr2 -> guarded a -> j = i.
Proof. exact whole_block_atomic. Qed.
Print Assumptions C12_whole_block_atomic.

Theorem C12_reader_sees_stable_state : forall t n tr1 c1 i c2 tr2 c3,
  wf_table t = true ->
  exec t (init n) tr1 c1 -> step t c1 (LAcquire i) c2 -> in_section c2 i MR ->
  exec t c2 tr2 c3 -> ~ In (LRelease i) tr2 ->
  forall j a, In (LAccess j a) tr2 -> ~ is_write a.
Proof. exact reader_sees_stable_state. Qed.
Print Assumptions C12_reader_sees_stable_state.

Theorem C12_writer_excludes_enabled : forall t n c i,
  wf_table t = true -> reachable t n c -> in_section c i MW ->
  forall j st a, nth_error (snd c) j = Some st -> enabled st a -> guarded a -> j = i.
Proof. exact writer_excludes_enabled. Qed.
Print Assumptions C12_writer_excludes_enabled.

Theorem C12_reader_excludes_enabled_write : forall t n c i,
  wf_table t = true -> reachable t n c -> in_section c i MR ->
  forall j st a, nth_error (snd c) j = Some st -> enabled st a -> ~ is_write a.
Proof. exact reader_excludes_enabled_write. Qed.
Print Assumptions C12_reader_excludes_enabled_write.

Theorem C12_no_deadlock : forall t n c,
  wf_table t = true -> reachable t n c -> some_thread_unfinished c -> can_step t c.
Proof. exact no_deadlock. Qed.
Print Assumptions C12_no_deadlock.

(** ** The same for the table of the source *)

Theorem C12_MapPollard_race_free : forall n c,
  reachable lock_table n c -> ~ racy c.
Proof. exact lock_table_race_free. Qed.
Print Assumptions C12_MapPollard_race_free.

Theorem C12_MapPollard_whole_block_atomic : forall n tr1 c1 i c2 tr2 c3,
  exec lock_table (init n) tr1 c1 -> step lock_table c1 (LAcquire i) c2 -> in_section c2 i MW ->
  exec lock_table c2 tr2 c3 -> ~ In (LRelease i) tr2 ->
  forall j a, In (LAccess j a) tr2 -> guarded a -> j = i.
Proof. exact lock_table_whole_block_atomic. Qed.
Print Assumptions C12_MapPollard_whole_block_atomic.

Theorem C12_MapPollard_reader_sees_stable_state : forall n tr1 c1 i c2 tr2 c3,
  exec lock_table (init n) tr1 c1 -> step lock_table c1 (LAcquire i) c2 -> in_section c2 i MR ->
  exec lock_table c2 tr2 c3 -> ~ In (LRelease i) tr2 ->
  forall j a, In (LAccess j a) tr2 -> ~ is_write a.
Proof. exact lock_table_reader_sees_stable_state. Qed.
Print Assumptions C12_MapPollard_reader_sees_stable_state.

Theorem C12_MapPollard_no_deadlock : forall n c,
  reachable lock_table n c -> some_thread_unfinished c -> can_step lock_table c.
Proof. exact lock_table_no_deadlock. Qed.
Print Assumptions C12_MapPollard_no_deadlock.

Theorem C12_table_covers_property :
  forallb is_entry_name
    [ "Modify"; "Undo"; "Verify"; "VerifyPartialProof"; "Ingest"; "Prune"; "Read";
      "Prove"; "GetRoots"; "GetHash"; "GetLeafPosition"; "GetStump"; "GetMissingPositions";
      "GetLeafHashPositions"; "GetNumLeaves"; "GetTreeRows"; "Write" ]%string = true.
Proof. exact table_covers_property. Qed.
Print Assumptions C12_table_covers_property.

(** ** Non-vacuity and refutations *)

Theorem C12_model_not_vacuous :
  wf_table ex_table = true /\
  exec ex_table (init 2)
    [LStart 0 ex_writer; LAcquire 0; LAccess 0 (Wr FNodes)]
    (mkLock 0 true, [Running ex_writer []; Idle]).
Proof. exact (conj ex_table_wf ex_execution). Qed.
Print Assumptions C12_model_not_vacuous.

(** The shape of [GetNumLeaves]/[GetTreeRows] before their repair (a getter that reads a guarded
    field without the lock) is rejected by [wf_table] and does race in the model. *)
Theorem C12_unlocked_getter_refuted :
  (wf_table bad_table = false /\ violations bad_table = ["GetNumLeaves"%string]) /\
  exists c, reachable bad_table 2 c /\ racy c.
Proof. exact (conj bad_table_not_wf bad_table_races). Qed.
Print Assumptions C12_unlocked_getter_refuted.

(** A method that calls a lock-taking method while holding the W lock is rejected by [wf_table]
    and does deadlock in the model. *)
Theorem C12_nested_acquisition_refuted :
  wf_table nest_table = false /\
  exists c, reachable nest_table 1 c /\ some_thread_unfinished c /\ ~ can_step nest_table c.
Proof. exact (conj nest_table_not_wf nest_table_deadlocks). Qed.
Print Assumptions C12_nested_acquisition_refuted.
