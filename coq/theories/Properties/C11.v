(** C11 - Update data describes exactly what the block changed. *)
From Utreexo Require Import Spec.Forest Proofs.SpecBasics.
Open Scope N_scope.

Theorem C11_prev_num_leaves : forall (H : Type) (HO : ops H) s dels adds,
  ud_prev_num_leaves (spec_update_data HO s dels adds) = num_leaves s.
Proof. reflexivity. Qed.
Print Assumptions C11_prev_num_leaves.

Theorem C11_lists_sorted : forall (H : Type) (HO : ops H) s dels adds,
  ascK (ud_new_del (spec_update_data HO s dels adds)) /\
  ascK (ud_new_add (spec_update_data HO s dels adds)).
Proof. intros; split; apply sortK_asc. Qed.
Print Assumptions C11_lists_sorted.
