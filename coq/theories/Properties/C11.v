(** C11 - Update data describes exactly what the block changed. *)
From Utreexo Require Import Spec.Forest Proofs.SpecBasics.
From Utreexo Require Import Spec.Forest Spec.Term Model.Verify Proofs.StumpAddData.
From Coq Require Import List.
Open Scope N_scope.

Theorem C11_prev_num_leaves : forall (H : Type) (HO : ops H) s dels adds,
  ud_prev_num_leaves (spec_update_data HO s dels adds) = num_leaves s.
Proof. reflexivity. Qed.
Print Assumptions C11_prev_num_leaves.

Theorem C11_lists_sorted : forall (H : Type) (HO : ops H) s dels adds,
  ascK (ud_new_del (spec_update_data HO s dels adds)) /\
  ascK (ud_new_add (spec_update_data HO s dels adds)).
Proof. intros; split; apply sortK_asc. Qed.
Print Assumptions C11_lists_sorted.

(** ** merged from C11b.v: the update data computed by the mirror of Stump.add equals the specification *)

(** "the positions, in post-block coordinates and in order of destruction, of exactly those empty
    roots that the additions overwrote": [rootsToDestory] of stump.go computes [to_destroy]. *)
Theorem C11b_rootsToDestroy_spec :
  forall (H : Type) (HO : ops H), ops_ok HO ->
    (forall a b, op_eqb HO (op_hash2 HO a b) (op_empty HO) = false) ->
    forall (filler : H) (s : slots H) (adds : list H),
      op_eqb HO filler (op_empty HO) = false ->
      (forall h, In (Some h) s -> op_eqb HO h (op_empty HO) = false) ->
      N.of_nat (length s + length adds) <= 2 ^ 63 ->
      rootsToDestroy HO filler (length adds) (num_leaves s) (roots HO s)
      = to_destroy HO (rows_of (num_leaves (s ++ map Some adds))) s adds.
Proof. exact rootsToDestroy_spec. Qed.
Print Assumptions C11b_rootsToDestroy_spec.

(** the third component of [Stump.add] (before and after the repair of D8) *)
Theorem C11b_stump_add_destroyed :
  forall (H : Type) (HO : ops H), ops_ok HO ->
    (forall a b, op_eqb HO (op_hash2 HO a b) (op_empty HO) = false) ->
    forall strict (filler : H) (s : slots H) (adds : list H),
      op_eqb HO filler (op_empty HO) = false ->
      (forall h, In (Some h) s -> op_eqb HO h (op_empty HO) = false) ->
      N.of_nat (length s + length adds) <= 2 ^ 63 ->
      snd (stump_add HO strict filler (mkStump (roots HO s) (num_leaves s)) adds)
      = to_destroy HO (rows_of (num_leaves (s ++ map Some adds))) s adds.
Proof. exact stump_add_destroyed. Qed.
Print Assumptions C11b_stump_add_destroyed.

(** "For the additions it lists, sorted by position and without duplicates, every added leaf and
    every node that became a child of a parent created by the additions, each with its true final
    position and hash": the second component of [Stump.add] (the code as it is now) is [new_add].
    [Stump.add] keys its map by hash, hence the two distinctness hypotheses: no added hash is a
    live leaf, and the hashes that the specification lists are pairwise distinct. *)
Theorem C11b_stump_add_collects :
  forall (H : Type) (HO : ops H), ops_ok HO ->
    (forall a b, op_eqb HO (op_hash2 HO a b) (op_empty HO) = false) ->
    forall (filler : H) (s : slots H) (adds : list H),
      op_eqb HO filler (op_empty HO) = false ->
      (forall h, In (Some h) s -> op_eqb HO h (op_empty HO) = false) ->
      (forall h, In h adds -> op_eqb HO h (op_empty HO) = false) ->
      N.of_nat (length s + length adds) <= 2 ^ 63 ->
      (forall a, In a adds -> ~ In (Some a) s) ->
      NoDup (map snd (new_add HO (s ++ map Some adds) adds)) ->
      snd (fst (stump_add HO true filler (mkStump (roots HO s) (num_leaves s)) adds))
      = new_add HO (s ++ map Some adds) adds.
Proof. exact stump_add_collects. Qed.
Print Assumptions C11b_stump_add_collects.

(** the same from one primitive hypothesis: no two nodes of the post-block forest carry the same
    non-empty hash (no collision, no repeated leaf) *)
Theorem C11b_stump_add_collects_layout :
  forall (H : Type) (HO : ops H), ops_ok HO ->
    (forall a b, op_eqb HO (op_hash2 HO a b) (op_empty HO) = false) ->
    forall (filler : H) (s : slots H) (adds : list H),
      op_eqb HO filler (op_empty HO) = false ->
      (forall h, In (Some h) s -> op_eqb HO h (op_empty HO) = false) ->
      (forall h, In h adds -> op_eqb HO h (op_empty HO) = false) ->
      N.of_nat (length s + length adds) <= 2 ^ 63 ->
      (forall x y, In x (layout HO (s ++ map Some adds)) -> In y (layout HO (s ++ map Some adds)) ->
                   op_eqb HO (nhash x) (op_empty HO) = false -> nhash x = nhash y -> x = y) ->
      snd (fst (stump_add HO true filler (mkStump (roots HO s) (num_leaves s)) adds))
      = new_add HO (s ++ map Some adds) adds.
Proof. exact stump_add_collects_layout. Qed.
Print Assumptions C11b_stump_add_collects_layout.

(** all three results of [Stump.add] at once, against [spec_update_data] *)
Theorem C11b_stump_add_update_data :
  forall (H : Type) (HO : ops H), ops_ok HO ->
    (forall a b, op_eqb HO (op_hash2 HO a b) (op_empty HO) = false) ->
    forall (filler : H) (s : slots H) (dels adds : list H),
      let s1 := kill HO dels s in
      let s2 := apply_block HO s dels adds in
      op_eqb HO filler (op_empty HO) = false ->
      (forall h, In (Some h) s1 -> op_eqb HO h (op_empty HO) = false) ->
      (forall h, In h adds -> op_eqb HO h (op_empty HO) = false) ->
      N.of_nat (length s + length adds) <= 2 ^ 63 ->
      (forall a, In a adds -> ~ In (Some a) s1) ->
      NoDup (map snd (ud_new_add (spec_update_data HO s dels adds))) ->
      stump_add HO true filler (mkStump (roots HO s1) (num_leaves s1)) adds
      = (mkStump (roots HO s2) (num_leaves s2),
         ud_new_add (spec_update_data HO s dels adds),
         ud_to_destroy (spec_update_data HO s dels adds)).
Proof. exact stump_add_update_data. Qed.
Print Assumptions C11b_stump_add_update_data.

(** "without duplicates": no two listed additions share a position (no hypothesis) *)
Theorem C11b_new_add_pos_nodup :
  forall (H : Type) (HO : ops H) (s : slots H) (adds : list H),
    NoDup (map fst (new_add HO s adds)).
Proof. exact new_add_pos_nodup. Qed.
Print Assumptions C11b_new_add_pos_nodup.

(** in the free hash algebra the idealisation on [hash2] is a theorem *)
Theorem C11b_stump_add_update_data_term :
  forall (filler : term) (s : slots term) (dels adds : list term),
    let s1 := kill term_ops dels s in
    let s2 := apply_block term_ops s dels adds in
    filler <> Zero ->
    (forall h, In (Some h) s1 -> h <> Zero) ->
    (forall h, In h adds -> h <> Zero) ->
    N.of_nat (length s + length adds) <= 2 ^ 63 ->
    (forall a, In a adds -> ~ In (Some a) s1) ->
    NoDup (map snd (ud_new_add (spec_update_data term_ops s dels adds))) ->
    stump_add term_ops true filler (mkStump (roots term_ops s1) (num_leaves s1)) adds
    = (mkStump (roots term_ops s2) (num_leaves s2),
       ud_new_add (spec_update_data term_ops s dels adds),
       ud_to_destroy (spec_update_data term_ops s dels adds)).
Proof. exact stump_add_update_data_term. Qed.
Print Assumptions C11b_stump_add_update_data_term.

(** ** The deletion side and the whole record (Proofs/StumpDelData.v) *)
From Utreexo Require Import Spec.Oracle Proofs.CalcSound Proofs.StumpDelData.

(** "sorted by position, every pre-block node on a path from a deleted target to its root (targets
    and roots included) with its pre-block position and the hash its subtree has once the deletions
    are applied": the intermediate list of the mirror of [Stump.del] IS [new_del] *)
Theorem C11_del_data :
  forall (H : Type) (HO : ops H) (s : slots H) (hs : list H) (ts : list N) (pf : list H),
    ops_ok HO ->
    (forall a b, NZ HO (op_hash2 HO a b)) ->
    (forall h, In (Some h) s -> NZ HO h) ->
    NoDup (live s) ->
    N.of_nat (length s) <= 2 ^ 63 ->
    NoDup hs ->
    exp_prove HO (mk_ctx HO s) hs = Some (ts, pf) ->
    stump_del HO true (the_stump (mk_ctx HO s)) hs ts pf =
    (mkStump (roots HO (kill HO hs s)) (num_leaves s), Ok (new_del HO s hs)).
Proof. exact @stump_del_data. Qed.
Print Assumptions C11_del_data.

(** the full statement of C11 for the mirror of [Stump.Update]: every field of the update data of a
    valid block equals the specification, and the new state is the reference state *)
Theorem C11_update_data :
  forall (H : Type) (HO : ops H) (filler : H) (s : slots H) (hs adds : list H) (ts : list N)
         (pf : list H) (st' : stump H) (ud : UpdateData H),
    ops_ok HO ->
    (forall a b, NZ HO (op_hash2 HO a b)) ->
    NZ HO filler ->
    (forall h, In (Some h) s -> NZ HO h) ->
    (forall h, In h adds -> NZ HO h) ->
    NoDup (live s) ->
    N.of_nat (length s + length adds) <= 2 ^ 63 ->
    NoDup hs ->
    exp_prove HO (mk_ctx HO s) hs = Some (ts, pf) ->
    (forall a, In a adds -> ~ In (Some a) (kill HO hs s)) ->
    NoDup (map snd (ud_new_add (spec_update_data HO s hs adds))) ->
    stump_update HO true filler (the_stump (mk_ctx HO s)) hs adds ts pf = (st', Ok ud) ->
    let D := spec_update_data HO s hs adds in
    u_to_destroy ud = ud_to_destroy D /\
    u_prev ud = ud_prev_num_leaves D /\
    u_del ud = ud_new_del D /\
    u_add ud = ud_new_add D /\
    st_roots st' = roots HO (apply_block HO s hs adds) /\
    st_n st' = num_leaves (apply_block HO s hs adds).
Proof. exact @stump_update_data_fields. Qed.
Print Assumptions C11_update_data.

(** existence: the valid block is accepted and returns exactly that record *)
Theorem C11_update_data_accepted :
  forall (H : Type) (HO : ops H) (filler : H) (s : slots H) (hs adds : list H) (ts : list N)
         (pf : list H),
    ops_ok HO ->
    (forall a b, NZ HO (op_hash2 HO a b)) ->
    NZ HO filler ->
    (forall h, In (Some h) s -> NZ HO h) ->
    (forall h, In h adds -> NZ HO h) ->
    NoDup (live s) ->
    N.of_nat (length s + length adds) <= 2 ^ 63 ->
    NoDup hs ->
    exp_prove HO (mk_ctx HO s) hs = Some (ts, pf) ->
    (forall a, In a adds -> ~ In (Some a) (kill HO hs s)) ->
    NoDup (map snd (ud_new_add (spec_update_data HO s hs adds))) ->
    stump_update HO true filler (the_stump (mk_ctx HO s)) hs adds ts pf =
    (mkStump (roots HO (apply_block HO s hs adds)) (num_leaves (apply_block HO s hs adds)),
     Ok (ud_of_spec (spec_update_data HO s hs adds))).
Proof. exact @stump_update_data. Qed.
Print Assumptions C11_update_data_accepted.
