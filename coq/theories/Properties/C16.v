(** C16 - Exported position arithmetic matches the forest geometry.
    This file contains only the property theorems; proofs live in Proofs/UtilsGeom.v and Proofs/UtilsGeom2.v. *)
From Utreexo Require Import Model.Utils Proofs.UtilsGeom.
From Utreexo Require Import Model.Utils Spec.Geometry Proofs.ProofPosSpec.
From Coq Require Import List Sorted.
From Utreexo Require Import Proofs.UtilsGeom2.
Open Scope N_scope.

Theorem C16_mask : forall h, h <= 63 -> mask h = 2 ^ (h + 1) - 1.
Proof. exact mask_spec. Qed.
Print Assumptions C16_mask.

Theorem C16_parent : forall h r o, h <= 63 -> r < h -> o < 2 ^ (h - r) ->
  Parent (gpos h r o) h = gpos h (r + 1) (o / 2).
Proof. exact Parent_gpos. Qed.
Print Assumptions C16_parent.

Theorem C16_gpos_range : forall h r o, r <= h -> o < 2 ^ (h - r) -> gpos h r o <= 2 ^ (h + 1) - 2.
Proof. exact gpos_range. Qed.
Print Assumptions C16_gpos_range.

Theorem C16_gpos_row_mono : forall h r o r' o', r < r' -> r' <= h -> o < 2 ^ (h - r) -> gpos h r o < gpos h r' o'.
Proof. exact gpos_row_mono. Qed.
Print Assumptions C16_gpos_row_mono.

Theorem C16_gpos_inj : forall h r o r' o', r <= h -> o < 2 ^ (h - r) -> r' <= h -> o' < 2 ^ (h - r') ->
  gpos h r o = gpos h r' o' -> r = r' /\ o = o'.
Proof. exact gpos_inj. Qed.
Print Assumptions C16_gpos_inj.

Theorem C16_left_child : forall h r o, h <= 63 -> r < h -> o < 2 ^ (h - r - 1) ->
  LeftChild (gpos h (r + 1) o) h = gpos h r (2 * o).
Proof. exact LeftChild_gpos. Qed.
Print Assumptions C16_left_child.

Theorem C16_right_child : forall h r o, h <= 63 -> r < h -> o < 2 ^ (h - r - 1) ->
  RightChild (gpos h (r + 1) o) h = gpos h r (2 * o + 1).
Proof. exact RightChild_gpos. Qed.
Print Assumptions C16_right_child.

Theorem C16_detect_row : forall h r o, h <= 63 -> r <= h -> o < 2 ^ (h - r) -> DetectRow (gpos h r o) h = r.
Proof. exact DetectRow_gpos. Qed.
Print Assumptions C16_detect_row.

Theorem C16_sibling : forall h r o, r <= h -> sibling (gpos h r o) = gpos h r (N.lxor o 1).
Proof. exact sibling_gpos. Qed.
Print Assumptions C16_sibling.

Theorem C16_right_sib : forall h r o, r <= h -> rightSib (gpos h r o) = gpos h r (N.lor o 1).
Proof. exact rightSib_gpos. Qed.
Print Assumptions C16_right_sib.

Theorem C16_left_sib : forall h r o, r <= h -> leftSib (gpos h r o) = gpos h r (o - o mod 2).
Proof. exact leftSib_gpos. Qed.
Print Assumptions C16_left_sib.

Theorem C16_is_left_niece : forall h r o, r <= h -> isLeftNiece (gpos h r o) = N.even o.
Proof. exact isLeftNiece_gpos. Qed.
Print Assumptions C16_is_left_niece.

Theorem C16_sib_offsets : forall h r o, r < h -> o < 2 ^ (h - r) ->
  N.lxor o 1 < 2 ^ (h - r) /\ N.lor o 1 < 2 ^ (h - r) /\ o - o mod 2 < 2 ^ (h - r).
Proof. exact sib_offsets_lt. Qed.
Print Assumptions C16_sib_offsets.

Theorem C16_parent_many : forall h r o k, h <= 63 -> 1 <= k -> r + k <= h -> o < 2 ^ (h - r) ->
  ParentMany (gpos h r o) k h = Some (gpos h (r + k) (o / 2 ^ k)).
Proof. exact ParentMany_gpos. Qed.
Print Assumptions C16_parent_many.

Theorem C16_parent_many_0 : forall p h, ParentMany p 0 h = Some p.
Proof. exact ParentMany_0. Qed.
Print Assumptions C16_parent_many_0.

Theorem C16_parent_many_err : forall p k h, k <> 0 -> (ParentMany p k h = None <-> h < k).
Proof. exact ParentMany_err. Qed.
Print Assumptions C16_parent_many_err.

Theorem C16_child_many : forall h r o k, h <= 63 -> r <= h -> k <= r -> o < 2 ^ (h - r) ->
  ChildMany (gpos h r o) k h = Some (gpos h (r - k) (o * 2 ^ k)).
Proof. exact ChildMany_gpos. Qed.
Print Assumptions C16_child_many.

Theorem C16_child_many_err : forall p k h, k <> 0 -> (ChildMany p k h = None <-> h < k).
Proof. exact ChildMany_err. Qed.
Print Assumptions C16_child_many_err.

Theorem C16_parent_left_child : forall h r o, h <= 63 -> r < h -> o < 2 ^ (h - r - 1) ->
  Parent (LeftChild (gpos h (r + 1) o) h) h = gpos h (r + 1) o.
Proof. exact Parent_LeftChild. Qed.
Print Assumptions C16_parent_left_child.

Theorem C16_parent_right_child : forall h r o, h <= 63 -> r < h -> o < 2 ^ (h - r - 1) ->
  Parent (RightChild (gpos h (r + 1) o) h) h = gpos h (r + 1) o.
Proof. exact Parent_RightChild. Qed.
Print Assumptions C16_parent_right_child.

Theorem C16_left_child_parent : forall h r o, h <= 63 -> r < h -> o < 2 ^ (h - r) ->
  LeftChild (Parent (gpos h r o) h) h = leftSib (gpos h r o).
Proof. exact LeftChild_Parent. Qed.
Print Assumptions C16_left_child_parent.

Theorem C16_detect_row_parent : forall h r o, h <= 63 -> r < h -> o < 2 ^ (h - r) ->
  DetectRow (Parent (gpos h r o) h) h = DetectRow (gpos h r o) h + 1.
Proof. exact DetectRow_Parent. Qed.
Print Assumptions C16_detect_row_parent.

Theorem C16_tree_rows_0 : TreeRows 0 = 0.
Proof. exact TreeRows_0. Qed.
Print Assumptions C16_tree_rows_0.

Theorem C16_tree_rows : forall n, 0 < n -> n <= 2 ^ TreeRows n /\ (TreeRows n = 0 \/ 2 ^ (TreeRows n - 1) < n).
Proof. exact TreeRows_spec. Qed.
Print Assumptions C16_tree_rows.

Theorem C16_tree_rows_le : forall n h, TreeRows n <= h <-> n <= 2 ^ h.
Proof. exact TreeRows_le_iff. Qed.
Print Assumptions C16_tree_rows_le.

Theorem C16_num_roots : forall n, n < 2 ^ 64 ->
  numRoots n = N.of_nat (length (filter (N.testbit n) (map N.of_nat (seq 0 64)))).
Proof. exact numRoots_spec. Qed.
Print Assumptions C16_num_roots.

Theorem C16_root_position : forall n k h, h <= 63 -> k <= h -> n <= 2 ^ h ->
  rootPosition n k h = gpos h k (2 * (n / 2 ^ (k + 1))).
Proof. exact rootPosition_gpos. Qed.
Print Assumptions C16_root_position.

Theorem C16_root_coord_valid : forall n k h, n <= 2 ^ h -> N.testbit n k = true ->
  k <= h /\ 2 * (n / 2 ^ (k + 1)) < 2 ^ (h - k).
Proof. exact root_coord_valid. Qed.
Print Assumptions C16_root_coord_valid.

Theorem C16_translate_pos : forall h r o h', h <= 63 -> r <= h -> o < 2 ^ (h - r) ->
  h' <= 63 -> r <= h' -> o < 2 ^ (h' - r) -> translatePos (gpos h r o) h h' = gpos h' r o.
Proof. exact translatePos_gpos. Qed.
Print Assumptions C16_translate_pos.

Theorem C16_is_root_position_on_row : forall p n r, n <= 2 ^ 63 ->
  (isRootPositionOnRow p n r = true <->
   N.testbit n r = true /\ p = gpos (TreeRows n) r (2 * (n / 2 ^ (r + 1)))).
Proof. exact isRootPositionOnRow_spec. Qed.
Print Assumptions C16_is_root_position_on_row.

Theorem C16_in_forest : forall h r o n, h <= 63 -> r <= h -> o < 2 ^ (h - r) ->
  (inForest (gpos h r o) n h = true <-> (o + 1) * 2 ^ r <= n).
Proof. exact inForest_spec. Qed.
Print Assumptions C16_in_forest.

Theorem C16_root_positions : forall n h, h <= 63 -> n <= 2 ^ h ->
  RootPositions n h =
  map (fun k => gpos h k (2 * (n / 2 ^ (k + 1))))
      (filter (N.testbit n) (map N.of_nat (rev (seq 0 (S (N.to_nat h)))))).
Proof. exact RootPositions_spec. Qed.
Print Assumptions C16_root_positions.

Theorem C16_remove_bit : forall v b, v < 2 ^ 64 -> b <= 63 -> removeBit v b = v / 2 ^ (b + 1) * 2 ^ b + v mod 2 ^ b.
Proof. exact removeBit_spec. Qed.
Print Assumptions C16_remove_bit.

Theorem C16_add_bit : forall v b c, v < 2 ^ 63 -> b <= 63 ->
  addBit v b c = v / 2 ^ b * 2 ^ (b + 1) + N.b2n c * 2 ^ b + v mod 2 ^ b.
Proof. exact addBit_spec. Qed.
Print Assumptions C16_add_bit.

Theorem C16_insbit_rmbit : forall o b, insbit (rmbit o b) b (N.testbit o b) = o.
Proof. exact insbit_rmbit. Qed.
Print Assumptions C16_insbit_rmbit.

Theorem C16_calc_next_position : forall h r o del rd, h <= 63 -> r <= rd -> rd < h -> o < 2 ^ (h - r) ->
  DetectRow del h = rd ->
  calcNextPosition (gpos h r o) del h = Some (gpos h (r + 1) (rmbit o (rd - r))).
Proof. exact calcNextPosition_gpos. Qed.
Print Assumptions C16_calc_next_position.

Theorem C16_calc_prev_position : forall h r o del rd, h <= 63 -> r <= rd -> rd < h -> o < 2 ^ (h - r - 1) ->
  DetectRow del h = rd ->
  calcPrevPosition (gpos h (r + 1) o) del h = gpos h r (insbit o (rd - r) (isLeftNiece del)).
Proof. exact calcPrevPosition_gpos. Qed.
Print Assumptions C16_calc_prev_position.

Theorem C16_calc_prev_calc_next : forall h r o del rd q, h <= 63 -> r <= rd -> rd < h -> o < 2 ^ (h - r) ->
  DetectRow del h = rd -> N.testbit o (rd - r) = isLeftNiece del ->
  calcNextPosition (gpos h r o) del h = Some q ->
  calcPrevPosition q del h = gpos h r o.
Proof. exact calcPrev_calcNext. Qed.
Print Assumptions C16_calc_prev_calc_next.

(** ** merged from C16b.v *)

(** On ascending targets that the geometry accepts (distinct, non-nested, existing in the forest of [n]
    leaves, coordinates of height [h], [tree_rows n <= h <= 63]) the mirror of [ProofPositions] returns
    exactly the lists the geometry demands. *)
Theorem C16_proof_positions : forall n h ts pp comp,
  pp_expect n h ts = Some (pp, comp) -> StronglySorted N.lt ts ->
  ProofPositions ts n h = (pp, comp).
Proof. exact proof_positions_spec. Qed.
Print Assumptions C16_proof_positions.

(** weakly ascending suffices: accepted targets are distinct *)
Theorem C16_proof_positions_le : forall n h ts pp comp,
  pp_expect n h ts = Some (pp, comp) -> StronglySorted N.le ts ->
  ProofPositions ts n h = (pp, comp).
Proof. exact proof_positions_spec_le. Qed.
Print Assumptions C16_proof_positions_le.

Theorem C16_pp_expect_distinct : forall n h ts pp comp,
  pp_expect n h ts = Some (pp, comp) -> NoDup ts.
Proof. exact pp_expect_NoDup. Qed.
Print Assumptions C16_pp_expect_distinct.

(** The same without [pp_expect]: [T] the target coordinates, [anc] exactly their proper ancestors.
    The first result are the siblings of the non-root members of [T ++ anc] that are not members,
    the second result is [anc]; both strictly ascending. *)
Theorem C16_proof_positions_members : forall n h (T anc : list (N * N)),
  h <= 63 -> n <= 2 ^ h ->
  (forall c, In c (T ++ anc) -> in_forest n (fst c) (snd c) = true) ->
  (forall c, In c (T ++ anc) -> is_root_c n c = false -> In (fst c + 1, snd c / 2) anc) ->
  (forall c, In c anc -> exists c', In c' (T ++ anc) /\ is_root_c n c' = false /\
                                   c = (fst c' + 1, snd c' / 2)) ->
  (forall c, In c T -> ~ In c anc) ->
  StronglySorted N.lt (map (fun c => Geometry.gpos h (fst c) (snd c)) T) ->
  exists bs ds,
    ProofPositions (map (fun c => Geometry.gpos h (fst c) (snd c)) T) n h =
      (map (fun c => Geometry.gpos h (fst c) (snd c)) bs, map (fun c => Geometry.gpos h (fst c) (snd c)) ds) /\
    StronglySorted N.lt (map (fun c => Geometry.gpos h (fst c) (snd c)) bs) /\
    StronglySorted N.lt (map (fun c => Geometry.gpos h (fst c) (snd c)) ds) /\
    (forall x, In x bs <-> exists c, In c (T ++ anc) /\ is_root_c n c = false /\
                                     ~ In (fst c, N.lxor (snd c) 1) (T ++ anc) /\
                                     x = (fst c, N.lxor (snd c) 1)) /\
    (forall x, In x ds <-> In x anc).
Proof. exact proof_positions_members. Qed.
Print Assumptions C16_proof_positions_members.
