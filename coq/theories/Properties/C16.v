(** C16 - Exported position arithmetic matches the forest geometry.
    This file contains only the property theorems; proofs live in Proofs/UtilsGeom.v. *)
From Utreexo Require Import Model.Utils Proofs.UtilsGeom.
Open Scope N_scope.

Theorem C16_mask : forall h, h <= 63 -> mask h = 2 ^ (h + 1) - 1.
Proof. exact mask_spec. Qed.
Print Assumptions C16_mask.

Theorem C16_parent : forall h r o, h <= 63 -> r < h -> o < 2 ^ (h - r) ->
  Parent (gpos h r o) h = gpos h (r + 1) (o / 2).
Proof. exact Parent_gpos. Qed.
Print Assumptions C16_parent.
