(** C08 - Undoing a cached proof yields a canonical proof for the previous state
    (abstract model: which leaves remain). *)
From Utreexo Require Import Spec.Forest Proofs.AbstractModels.

(** never a leaf the undone block added, never an invented leaf, never a loss of a leaf that was
    cached before the block and not deleted by it *)
Theorem C08_undo_set : forall (H : Type) (HO : ops H), ops_ok HO -> forall C dels adds rem h,
  (forall a, In a adds -> ~ In a C) -> (forall r, In r rem -> In r adds) ->
  (In h (cached_after_undo HO (cached_after HO C dels rem) adds) <-> In h C /\ ~ In h dels).
Proof. exact cached_undo_spec. Qed.
Print Assumptions C08_undo_set.
