(** C08 - Undoing a cached proof yields a canonical proof for the previous state
    (abstract model: which leaves remain). *)
From Utreexo Require Import Spec.Forest Proofs.AbstractModels.

(** never a leaf the undone block added, never an invented leaf, never a loss of a leaf that was
    cached before the block and not deleted by it *)
Theorem C08_undo_set : forall (H : Type) (HO : ops H), ops_ok HO -> forall C dels adds rem h,
  (forall a, In a adds -> ~ In a C) -> (forall r, In r rem -> In r adds) ->
  (In h (cached_after_undo HO (cached_after HO C dels rem) adds) <-> In h C /\ ~ In h dels).
Proof. exact cached_undo_spec. Qed.
Print Assumptions C08_undo_set.

From Utreexo Require Import Base.Hash Spec.Oracle Model.Verify Proofs.CalcSound Proofs.CachedVerifies.
From Coq Require Import Permutation.
Open Scope N_scope.

(** "canonical": what the correspondence check expects of [Proof.Undo] in the previous state ([exp_cached]: the cached
    leaves ordered by position, their positions, the canonical hashes) IS the canonical proof of
    those leaves ... *)
Theorem C08_expected_cached_is_canonical :
  forall (H : Type) (HO : ops H), ops_ok HO ->
  forall (s : slots H) set hs ts pf,
    NoDup (live s) -> NoDup set ->
    exp_cached HO (mk_ctx HO s) set = Some (hs, ts, pf) ->
    exp_prove HO (mk_ctx HO s) hs = Some (ts, pf) /\ Permutation hs set.
Proof. exact cached_is_canonical. Qed.
Print Assumptions C08_expected_cached_is_canonical.

(** ... "complete": it exists for every set of live leaves and the (repaired) roots-only verifier
    accepts it, for every forest of up to 2^63 leaves *)
Theorem C08_expected_cached_exists :
  forall (H : Type) (HO : ops H), ops_ok HO ->
  forall (s : slots H) set, (forall h, In h set -> In (Some h) s) ->
    exp_cached HO (mk_ctx HO s) set <> None.
Proof. exact cached_exists. Qed.
Print Assumptions C08_expected_cached_exists.

Theorem C08_expected_cached_verifies :
  forall (H : Type) (HO : ops H), ops_ok HO ->
  forall (s : slots H) set hs ts pf,
    (forall a b, NZ HO (op_hash2 HO a b)) ->
    (forall h, In (Some h) s -> NZ HO h) ->
    N.of_nat (length s) <= 2 ^ 63 ->
    NoDup (live s) -> NoDup set ->
    exp_cached HO (mk_ctx HO s) set = Some (hs, ts, pf) ->
    exists idx, Verify HO true (the_stump (mk_ctx HO s)) hs ts pf = Ok idx /\
                exp_root_indexes HO (mk_ctx HO s) hs = Some idx.
Proof. exact cached_verifies. Qed.
Print Assumptions C08_expected_cached_verifies.

(** ** The Go algorithm (mirror Model/ProofUpdate.v of the Go method Proof.Undo, compared with the code
    on every call) computes the expected cached proof of the PREVIOUS state (Proofs/ProofUndoSpec.v):
    proved for every ADDITION-ONLY block on any forest (re-created empty roots, a row lost); for blocks
    with deletions the statement is reduced to [undoDel] alone ([C08_undo_reduces_to_undoDel]) and
    decided by kernel computation on all 19,375 cases of 4 slots; its general proof is open. *)
From Utreexo Require Import Model.ProofUpdate Proofs.AbstractModels Proofs.StumpDelData
     Proofs.ProofUpdateSpec Proofs.ProofUndoSpec.

Theorem C08_undo_addition_blocks :
  forall (H : Type) (HO : ops H), ops_ok HO ->
  (forall a b, NZ HO (op_hash2 HO a b)) ->
  forall (s : slots H) (adds : list H),
  N.of_nat (length s + length adds) <= 2 ^ 63 ->
  NoDup (live (s ++ map Some adds)) ->
  forall (C : list H) (rem : list N),
  NoDup C -> (forall h, In h C -> In (Some h) s) ->
  forall hC' tC' pC' bt bp,
    exp_cached HO (mk_ctx HO (apply_block HO s [] adds)) (cached_after HO C [] (pick adds rem))
      = Some (hC', tC', pC') ->
    proof_undo HO tC' pC' (N.of_nat (length adds)) (num_leaves (apply_block HO s [] adds)) [] [] hC'
               (ud_to_destroy (spec_update_data HO s [] adds)) bt bp
    = exp_cached HO (mk_ctx HO s) (cached_after_undo HO (cached_after HO C [] (pick adds rem)) adds) /\
    cached_after_undo HO (cached_after HO C [] (pick adds rem)) adds = C /\
    exp_cached HO (mk_ctx HO s) C <> None.
Proof. exact proof_undo_add_only. Qed.
Print Assumptions C08_undo_addition_blocks.

Theorem C08_undo_reduces_to_undoDel :
  forall (H : Type) (HO : ops H), ops_ok HO ->
  (forall a b, NZ HO (op_hash2 HO a b)) ->
  forall (s : slots H) (dels adds : list H),
  N.of_nat (length s + length adds) <= 2 ^ 63 ->
  NoDup (live (kill HO dels s ++ map Some adds)) ->
  forall (C : list H) (rem : list N),
  NoDup C -> (forall h, In h C -> In (Some h) s) ->
  forall hC' tC' pC' dp bt bp,
    exp_cached HO (mk_ctx HO (apply_block HO s dels adds)) (cached_after HO C dels (pick adds rem))
      = Some (hC', tC', pC') ->
    exists h1 t1 p1,
      exp_cached HO (mk_ctx HO (kill HO dels s)) (removeH HO C dels) = Some (h1, t1, p1) /\
      proof_undo HO tC' pC' (N.of_nat (length adds)) (num_leaves (apply_block HO s dels adds)) dp dels hC'
                 (ud_to_destroy (spec_update_data HO s dels adds)) bt bp
      = undoDel HO t1 p1 dp dels h1 bt bp (num_leaves s).
Proof. exact proof_undo_reduction. Qed.
Print Assumptions C08_undo_reduces_to_undoDel.

(** the full statement (blocks with deletions), decided by computation on every state of 4 slots *)
Theorem C08_undo_all_blocks_4_slots : un_failures 4 4 = [].
Proof. exact un_g0_exhaustive_4. Qed.
Print Assumptions C08_undo_all_blocks_4_slots.

(** ... and for blocks WITH deletions followed by any additions, when the deletions are "regular" (no
    inner node loses all its leaves: no two sibling leaves / no whole subtree or tree deleted together):
    Proofs/ProofUndoDel.v.  Whole-subtree deletions: computation above + correspondence run; proof open. *)
From Utreexo Require Import Proofs.RefTheory Proofs.StumpAdd Proofs.ProofUpdateDel Proofs.ProofUndoDel.

Theorem C08_undo_regular_deletion_blocks :
  forall (H : Type) (HO : ops H), ops_ok HO ->
  (forall a b, NZ HO (op_hash2 HO a b)) ->
  forall (s : slots H) (hs adds C : list H) (rem : list N),
  (forall h, In (Some h) s -> NZ HO h) ->
  N.of_nat (length s + length adds) <= 2 ^ 63 ->
  NoDup (live s) -> NoDup hs ->
  (forall (e : StumpAdd.entry H) (ce : ctree H), In e (forest HO s) -> snd e = Some ce ->
     regular H HO hs ce /\ RefTheory.prune HO hs ce <> None) ->
  NoDup (live (kill HO hs s ++ map Some adds)) ->
  NoDup C -> (forall h, In h C -> In (Some h) s) ->
  forall hC' tC' pC' bt bp,
    exp_cached HO (mk_ctx HO (apply_block HO s hs adds)) (cached_after HO C hs (pick adds rem))
      = Some (hC', tC', pC') ->
    exp_prove HO (mk_ctx HO s) hs = Some (bt, bp) ->
    proof_undo HO tC' pC' (N.of_nat (length adds)) (num_leaves (apply_block HO s hs adds)) bt hs hC'
               (ud_to_destroy (spec_update_data HO s hs adds)) bt bp
    = exp_cached HO (mk_ctx HO s) (cached_after_undo HO (cached_after HO C hs (pick adds rem)) adds).
Proof. exact @proof_undo_regular_deletions. Qed.
Print Assumptions C08_undo_regular_deletion_blocks.

(** ** EVERY valid block (Proofs/ProofUndoDel2.v): the regularity hypothesis removed - sibling leaves,
    whole subtrees and whole trees deleted together.  This is the full statement of C08 for the mirror
    of Proof.Undo: after Undo with the block's data the client holds exactly the expected (canonical)
    cached proof, in the previous state, of the leaves it held before the block that the block did not
    delete - never a leaf the block added, nothing invented, nothing else lost. *)
From Utreexo Require Import Model.Verify Proofs.StumpUpdate Proofs.LightClient Proofs.ProofUndoDel2.

Theorem C08_undo_every_block :
  forall (H : Type) (HO : ops H), ops_ok HO ->
  (forall a b, NZ HO (op_hash2 HO a b)) ->
  forall (s : slots H) (hs adds C : list H) (rem : list N),
  (forall h, In (Some h) s -> NZ HO h) ->
  N.of_nat (length s + length adds) <= 2 ^ 63 ->
  NoDup (live s) -> NoDup hs ->
  NoDup (live (kill HO hs s ++ map Some adds)) ->
  NoDup C -> (forall h, In h C -> In (Some h) s) ->
  forall hC' tC' pC' bt bp,
    exp_cached HO (mk_ctx HO (apply_block HO s hs adds)) (cached_after HO C hs (pick adds rem))
      = Some (hC', tC', pC') ->
    exp_prove HO (mk_ctx HO s) hs = Some (bt, bp) ->
    proof_undo HO tC' pC' (N.of_nat (length adds)) (num_leaves (apply_block HO s hs adds)) bt hs hC'
               (ud_to_destroy (spec_update_data HO s hs adds)) bt bp
    = exp_cached HO (mk_ctx HO s) (cached_after_undo HO (cached_after HO C hs (pick adds rem)) adds).
Proof. exact @proof_undo_every_block. Qed.
Print Assumptions C08_undo_every_block.

(** a light client (mirror of Stump.Update + Proof.Update/Undo) that processes a block and then undoes
    it is in step with the state before the block, holding what it held minus the block's deletions *)
Theorem C08_light_client_block_then_undo :
  forall (H : Type) (HO : ops H), ops_ok HO ->
  (forall a b, NZ HO (op_hash2 HO a b)) ->
  forall filler : H, NZ HO filler ->
  forall (s : slots H) (C : list H) (cl : client H) (b : cblock H),
    (forall h, In (Some h) s -> NZ HO h) -> NoDup (live s) -> NoDup C ->
    N.of_nat (length s + length (snd (fst b))) <= 2 ^ 63 ->
    in_step H HO s C cl -> cblock_ok H HO s b ->
    exists cl' cl0,
      client_step H HO filler s cl b = Some cl' /\
      client_undo H HO filler s cl' b = Some cl0 /\
      in_step H HO s (removeH HO C (fst (fst b))) cl0.
Proof. exact client_step_undo. Qed.
Print Assumptions C08_light_client_block_then_undo.

(** "This composes": undoing the last k blocks newest first leaves the client in step with the state
    k blocks ago ([undo_ok]: the k blocks with their pre-states; [in_step]: stump = stump of the
    reference, cached proof = expected cached proof) *)
Theorem C08_light_client_undo_to_any_depth :
  forall (H : Type) (HO : ops H), ops_ok HO ->
  (forall a b, NZ HO (op_hash2 HO a b)) ->
  forall filler : H, NZ HO filler ->
  forall (hist : list (slots H * cblock H)) (sTop : slots H) (C' : list H) (cl : client H),
    NoDup C' -> undo_ok H HO sTop hist -> in_step H HO sTop C' cl ->
    exists C0 cl0,
      undo_run H HO filler hist C' cl = Some (C0, cl0) /\
      in_step H HO (undo_bottom H sTop hist) C0 cl0 /\ NoDup C0.
Proof. exact light_client_undo_depth. Qed.
Print Assumptions C08_light_client_undo_to_any_depth.
