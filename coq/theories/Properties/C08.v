(** C08 - Undoing a cached proof yields a canonical proof for the previous state
    (abstract model: which leaves remain). *)
From Utreexo Require Import Spec.Forest Proofs.AbstractModels.

(** never a leaf the undone block added, never an invented leaf, never a loss of a leaf that was
    cached before the block and not deleted by it *)
Theorem C08_undo_set : forall (H : Type) (HO : ops H), ops_ok HO -> forall C dels adds rem h,
  (forall a, In a adds -> ~ In a C) -> (forall r, In r rem -> In r adds) ->
  (In h (cached_after_undo HO (cached_after HO C dels rem) adds) <-> In h C /\ ~ In h dels).
Proof. exact cached_undo_spec. Qed.
Print Assumptions C08_undo_set.

From Utreexo Require Import Base.Hash Spec.Oracle Model.Verify Proofs.CalcSound Proofs.CachedVerifies.
From Coq Require Import Permutation.
Open Scope N_scope.

(** "canonical": what the correspondence check expects of [Proof.Undo] in the previous state ([exp_cached]: the cached
    leaves ordered by position, their positions, the canonical hashes) IS the canonical proof of
    those leaves ... *)
Theorem C08_expected_cached_is_canonical :
  forall (H : Type) (HO : ops H), ops_ok HO ->
  forall (s : slots H) set hs ts pf,
    NoDup (live s) -> NoDup set ->
    exp_cached HO (mk_ctx HO s) set = Some (hs, ts, pf) ->
    exp_prove HO (mk_ctx HO s) hs = Some (ts, pf) /\ Permutation hs set.
Proof. exact cached_is_canonical. Qed.
Print Assumptions C08_expected_cached_is_canonical.

(** ... "complete": it exists for every set of live leaves and the (repaired) roots-only verifier
    accepts it, for every forest of up to 2^63 leaves *)
Theorem C08_expected_cached_exists :
  forall (H : Type) (HO : ops H), ops_ok HO ->
  forall (s : slots H) set, (forall h, In h set -> In (Some h) s) ->
    exp_cached HO (mk_ctx HO s) set <> None.
Proof. exact cached_exists. Qed.
Print Assumptions C08_expected_cached_exists.

Theorem C08_expected_cached_verifies :
  forall (H : Type) (HO : ops H), ops_ok HO ->
  forall (s : slots H) set hs ts pf,
    (forall a b, NZ HO (op_hash2 HO a b)) ->
    (forall h, In (Some h) s -> NZ HO h) ->
    N.of_nat (length s) <= 2 ^ 63 ->
    NoDup (live s) -> NoDup set ->
    exp_cached HO (mk_ctx HO s) set = Some (hs, ts, pf) ->
    exists idx, Verify HO true (the_stump (mk_ctx HO s)) hs ts pf = Ok idx /\
                exp_root_indexes HO (mk_ctx HO s) hs = Some idx.
Proof. exact cached_verifies. Qed.
Print Assumptions C08_expected_cached_verifies.
