(** C14 - Proof combination, restriction and completion are exact (leaf-set level). *)
From Utreexo Require Import Spec.Forest Proofs.AbstractModels.

Theorem C14_union : forall (H : Type) (HO : ops H), ops_ok HO -> forall a b h,
  In h (unionH HO a b) <-> In h a \/ In h b.
Proof. exact unionH_spec. Qed.
Print Assumptions C14_union.

Theorem C14_restriction_error_iff_uncovered : forall (H : Type) (HO : ops H), ops_ok HO ->
  forall have want, covered HO have want = true <-> (forall w, In w want -> In w have).
Proof. exact covered_spec. Qed.
Print Assumptions C14_restriction_error_iff_uncovered.
