(** C14 - Proof combination, restriction and completion are exact (leaf-set level). *)
From Utreexo Require Import Spec.Forest Proofs.AbstractModels.
From Utreexo Require Import Spec.Forest Spec.Oracle Proofs.RefTheory.
From Coq Require Import List Permutation.

Theorem C14_union : forall (H : Type) (HO : ops H), ops_ok HO -> forall a b h,
  In h (unionH HO a b) <-> In h a \/ In h b.
Proof. exact unionH_spec. Qed.
Print Assumptions C14_union.

Theorem C14_restriction_error_iff_uncovered : forall (H : Type) (HO : ops H), ops_ok HO ->
  forall have want, covered HO have want = true <-> (forall w, In w want -> In w have).
Proof. exact covered_spec. Qed.
Print Assumptions C14_restriction_error_iff_uncovered.

(** ** merged from C14b.v *)

Theorem C14_proof_coords_perm : forall (H : Type) (lay ts ts' : list (node H)),
  Permutation ts ts' -> forall c, In c (proof_coords lay ts) <-> In c (proof_coords lay ts').
Proof. exact proof_coords_perm. Qed.
Print Assumptions C14_proof_coords_perm.

Theorem C14_sortK_set_unique : forall (A : Type) (l1 l2 : list (N * A)),
  NoDup (map fst l1) -> NoDup (map fst l2) -> (forall x, In x l1 <-> In x l2) ->
  sortK l1 = sortK l2.
Proof. exact @sortK_set_unique. Qed.
Print Assumptions C14_sortK_set_unique.

Theorem C14_canon_unique : forall (H : Type) (HO : ops H) (rows : nat) (lay ts ts' : list (node H)),
  Permutation ts ts' -> pos_inj_on rows (proof_coords lay ts) ->
  canon_proof_pos rows lay ts = canon_proof_pos rows lay ts' /\
  canon_proof_hashes HO rows lay ts = canon_proof_hashes HO rows lay ts'.
Proof. exact canon_unique. Qed.
Print Assumptions C14_canon_unique.

Theorem C14_exp_cached_perm : forall (H : Type) (HO : ops H), ops_ok HO ->
  forall (c : ctx H) (set set' : list H),
  Permutation set set' -> NoDup set ->
  (forall x y, In x (clay c) -> In y (clay c) -> nleaf x = true -> nleaf y = true ->
               npos (crows c) x = npos (crows c) y -> x = y) ->
  exp_cached HO c set = exp_cached HO c set'.
Proof. exact exp_cached_perm. Qed.
Print Assumptions C14_exp_cached_perm.

(** for the layout of an actual state the distinctness hypotheses are theorems *)
Theorem C14_layout_npos_inj : forall (H : Type) (HO : ops H) (s : slots H) (x y : node H),
  In x (layout HO s) -> In y (layout HO s) ->
  npos (rows_of (num_leaves s)) x = npos (rows_of (num_leaves s)) y -> x = y.
Proof. exact layout_npos_inj. Qed.
Print Assumptions C14_layout_npos_inj.

Theorem C14_proof_coords_pos_inj : forall (H : Type) (HO : ops H) (s : slots H) (ts : list (node H)),
  (forall x, In x ts -> In x (layout HO s)) ->
  pos_inj_on (rows_of (num_leaves s)) (proof_coords (layout HO s) ts).
Proof. exact proof_coords_pos_inj. Qed.
Print Assumptions C14_proof_coords_pos_inj.

Theorem C14_canon_unique_state : forall (H : Type) (HO : ops H) (s : slots H) (ts ts' : list (node H)),
  Permutation ts ts' -> (forall x, In x ts -> In x (layout HO s)) ->
  canon_proof_pos (rows_of (num_leaves s)) (layout HO s) ts =
    canon_proof_pos (rows_of (num_leaves s)) (layout HO s) ts' /\
  canon_proof_hashes HO (rows_of (num_leaves s)) (layout HO s) ts =
    canon_proof_hashes HO (rows_of (num_leaves s)) (layout HO s) ts'.
Proof. exact canon_unique_state. Qed.
Print Assumptions C14_canon_unique_state.

Theorem C14_exp_cached_perm_state : forall (H : Type) (HO : ops H), ops_ok HO ->
  forall (s : slots H) (set set' : list H),
  Permutation set set' -> NoDup set ->
  exp_cached HO (mk_ctx HO s) set = exp_cached HO (mk_ctx HO s) set'.
Proof. exact exp_cached_perm_state. Qed.
Print Assumptions C14_exp_cached_perm_state.

Theorem C14_prove_perm : forall (H : Type) (HO : ops H), ops_ok HO ->
  forall (s : slots H) (hs hs' : list H) (t : list N) (p : list H),
  Permutation hs hs' -> prove HO s hs = Some (t, p) ->
  exists t', prove HO s hs' = Some (t', p) /\ Permutation t t'.
Proof. exact prove_perm. Qed.
Print Assumptions C14_prove_perm.
