(** C14 - Proof combination, restriction and completion are exact (leaf-set level). *)
From Utreexo Require Import Spec.Forest Proofs.AbstractModels.
From Utreexo Require Import Spec.Forest Spec.Oracle Proofs.RefTheory.
From Coq Require Import List Permutation.

Theorem C14_union : forall (H : Type) (HO : ops H), ops_ok HO -> forall a b h,
  In h (unionH HO a b) <-> In h a \/ In h b.
Proof. exact unionH_spec. Qed.
Print Assumptions C14_union.

Theorem C14_restriction_error_iff_uncovered : forall (H : Type) (HO : ops H), ops_ok HO ->
  forall have want, covered HO have want = true <-> (forall w, In w want -> In w have).
Proof. exact covered_spec. Qed.
Print Assumptions C14_restriction_error_iff_uncovered.

(** ** merged from C14b.v *)

Theorem C14_proof_coords_perm : forall (H : Type) (lay ts ts' : list (node H)),
  Permutation ts ts' -> forall c, In c (proof_coords lay ts) <-> In c (proof_coords lay ts').
Proof. exact proof_coords_perm. Qed.
Print Assumptions C14_proof_coords_perm.

Theorem C14_sortK_set_unique : forall (A : Type) (l1 l2 : list (N * A)),
  NoDup (map fst l1) -> NoDup (map fst l2) -> (forall x, In x l1 <-> In x l2) ->
  sortK l1 = sortK l2.
Proof. exact @sortK_set_unique. Qed.
Print Assumptions C14_sortK_set_unique.

Theorem C14_canon_unique : forall (H : Type) (HO : ops H) (rows : nat) (lay ts ts' : list (node H)),
  Permutation ts ts' -> pos_inj_on rows (proof_coords lay ts) ->
  canon_proof_pos rows lay ts = canon_proof_pos rows lay ts' /\
  canon_proof_hashes HO rows lay ts = canon_proof_hashes HO rows lay ts'.
Proof. exact canon_unique. Qed.
Print Assumptions C14_canon_unique.

Theorem C14_exp_cached_perm : forall (H : Type) (HO : ops H), ops_ok HO ->
  forall (c : ctx H) (set set' : list H),
  Permutation set set' -> NoDup set ->
  (forall x y, In x (clay c) -> In y (clay c) -> nleaf x = true -> nleaf y = true ->
               npos (crows c) x = npos (crows c) y -> x = y) ->
  exp_cached HO c set = exp_cached HO c set'.
Proof. exact exp_cached_perm. Qed.
Print Assumptions C14_exp_cached_perm.

(** for the layout of an actual state the distinctness hypotheses are theorems *)
Theorem C14_layout_npos_inj : forall (H : Type) (HO : ops H) (s : slots H) (x y : node H),
  In x (layout HO s) -> In y (layout HO s) ->
  npos (rows_of (num_leaves s)) x = npos (rows_of (num_leaves s)) y -> x = y.
Proof. exact layout_npos_inj. Qed.
Print Assumptions C14_layout_npos_inj.

Theorem C14_proof_coords_pos_inj : forall (H : Type) (HO : ops H) (s : slots H) (ts : list (node H)),
  (forall x, In x ts -> In x (layout HO s)) ->
  pos_inj_on (rows_of (num_leaves s)) (proof_coords (layout HO s) ts).
Proof. exact proof_coords_pos_inj. Qed.
Print Assumptions C14_proof_coords_pos_inj.

Theorem C14_canon_unique_state : forall (H : Type) (HO : ops H) (s : slots H) (ts ts' : list (node H)),
  Permutation ts ts' -> (forall x, In x ts -> In x (layout HO s)) ->
  canon_proof_pos (rows_of (num_leaves s)) (layout HO s) ts =
    canon_proof_pos (rows_of (num_leaves s)) (layout HO s) ts' /\
  canon_proof_hashes HO (rows_of (num_leaves s)) (layout HO s) ts =
    canon_proof_hashes HO (rows_of (num_leaves s)) (layout HO s) ts'.
Proof. exact canon_unique_state. Qed.
Print Assumptions C14_canon_unique_state.

Theorem C14_exp_cached_perm_state : forall (H : Type) (HO : ops H), ops_ok HO ->
  forall (s : slots H) (set set' : list H),
  Permutation set set' -> NoDup set ->
  exp_cached HO (mk_ctx HO s) set = exp_cached HO (mk_ctx HO s) set'.
Proof. exact exp_cached_perm_state. Qed.
Print Assumptions C14_exp_cached_perm_state.

Theorem C14_prove_perm : forall (H : Type) (HO : ops H), ops_ok HO ->
  forall (s : slots H) (hs hs' : list H) (t : list N) (p : list H),
  Permutation hs hs' -> prove HO s hs = Some (t, p) ->
  exists t', prove HO s hs' = Some (t', p) /\ Permutation t t'.
Proof. exact prove_perm. Qed.
Print Assumptions C14_prove_perm.

(** ** The Go algorithms (Gallina mirrors Model/ProofOps.v, compared with the code on every run)
    compute exactly the reference values (Proofs/ProofOpsSpec.v) *)
From Utreexo Require Import Spec.Oracle Model.Verify Model.ProofOps Proofs.CalcSound Proofs.ProofOpsSpec.
From Coq Require Import Permutation.
Open Scope N_scope.

(** "The positions reported as missing for proving extra targets are exactly the canonical proof
    positions that cannot be taken or computed from what is already held": targets in any order *)
Theorem C14_missing_positions_exact :
  forall (H : Type) (HO : ops H), ops_ok HO ->
  forall s : slots H, N.of_nat (length s) <= 2 ^ 63 ->
  forall (have want : list H) (th tw : list (node H)) (tH tW : list N),
    NoDup have -> NoDup want ->
    find_leaves HO (layout HO s) have = Some th ->
    find_leaves HO (layout HO s) want = Some tw ->
    Permutation tH (map (npos (rows_of (num_leaves s))) th) ->
    Permutation tW (map (npos (rows_of (num_leaves s))) tw) ->
    exp_missing HO (mk_ctx HO s) have want = Some (GetMissingPositionsFn (N.of_nat (length s)) tH tW).
Proof. exact missing_spec. Qed.
Print Assumptions C14_missing_positions_exact.

(** "Combining two valid proofs of the same state gives the canonical proof of the union of their
    targets": inputs in any parallel order, [U] any duplicate-free listing of the union *)
Theorem C14_addproof_is_canonical_union :
  forall (H : Type) (HO : ops H), ops_ok HO ->
  forall s : slots H, N.of_nat (length s) <= 2 ^ 63 ->
  forall (A B U : list H) (tA tB : list N) (pA pB : list H),
    NoDup A -> NoDup B -> NoDup U ->
    (forall h, In h U <-> In h A \/ In h B) ->
    exp_prove HO (mk_ctx HO s) A = Some (tA, pA) ->
    exp_prove HO (mk_ctx HO s) B = Some (tB, pB) ->
    AddProof tA pA tB pB A B (N.of_nat (length s)) = exp_cached HO (mk_ctx HO s) U /\
    exp_cached HO (mk_ctx HO s) U <> None.
Proof. exact addproof_spec. Qed.
Print Assumptions C14_addproof_is_canonical_union.

(** the same for two cached proofs as a light client holds them *)
Theorem C14_addproof_cached :
  forall (H : Type) (HO : ops H) (s : slots H) (A B U hA hB : list H) (tA tB : list N) (pA pB : list H),
    ops_ok HO -> N.of_nat (length s) <= 2 ^ 63 -> NoDup (live s) ->
    NoDup A -> NoDup B -> NoDup U ->
    (forall h, In h U <-> In h A \/ In h B) ->
    exp_cached HO (mk_ctx HO s) A = Some (hA, tA, pA) ->
    exp_cached HO (mk_ctx HO s) B = Some (hB, tB, pB) ->
    AddProof tA pA tB pB hA hB (N.of_nat (length s)) = exp_cached HO (mk_ctx HO s) U /\
    exp_cached HO (mk_ctx HO s) U <> None.
Proof. exact @addproof_cached. Qed.
Print Assumptions C14_addproof_cached.

(** "restricting a valid proof to a subset of its targets gives the canonical proof of that subset
    with hashes and targets in the requested order ..." *)
Theorem C14_subset_is_canonical :
  forall (H : Type) (HO : ops H), ops_ok HO ->
  (forall a b, NZ HO (op_hash2 HO a b)) ->
  forall s : slots H, (forall h, In (Some h) s -> NZ HO h) ->
  N.of_nat (length s) <= 2 ^ 63 ->
  forall (hs : list H) (ts : list N) (pf : list H) (wants : list N),
    NoDup hs -> exp_prove HO (mk_ctx HO s) hs = Some (ts, pf) ->
    NoDup wants -> (forall w, In w wants -> In w ts) ->
    exists hw pw,
      exp_prove HO (mk_ctx HO s) hw = Some (wants, pw) /\
      hw = map (Fv H HO s) wants /\
      (forall h, In h hw -> In h hs) /\
      GetProofSubset HO ts pf hs wants (N.of_nat (length s)) = Some (hw, wants, pw).
Proof. exact subset_spec. Qed.
Print Assumptions C14_subset_is_canonical.

(** "... and fails with an error exactly when a requested target is not covered" *)
Theorem C14_subset_error_iff_uncovered :
  forall (H : Type) (HO : ops H) (s : slots H) (hs : list H) (ts : list N) (pf : list H) (wants : list N),
    ops_ok HO ->
    (forall a b, NZ HO (op_hash2 HO a b)) ->
    (forall h, In (Some h) s -> NZ HO h) ->
    N.of_nat (length s) <= 2 ^ 63 ->
    NoDup hs -> exp_prove HO (mk_ctx HO s) hs = Some (ts, pf) -> NoDup wants ->
    GetProofSubset HO ts pf hs wants (N.of_nat (length s)) = None <->
    (exists w, In w wants /\ ~ In w ts).
Proof. exact @subset_error_iff. Qed.
Print Assumptions C14_subset_error_iff_uncovered.

(** "... and supplying the true hashes at those positions makes verification succeed"
    (Proofs/PartialProofComplete.v): on every state consistent with the reference forest (any allocated
    height, full or partial), for any distinct live leaves (remembered or not) given by their
    positions, the mirror of [MapPollard.GetMissingPositions] reports exactly the canonical proof
    positions that are not stored, and [VerifyPartialProof] given the true hashes at exactly those
    positions ACCEPTS, returning the expected root indexes. *)
From Utreexo Require Import Model.MapRead Proofs.MapReadSpec Proofs.PartialProofComplete.

Theorem C14_partial_proof_protocol_complete :
  forall (H : Type) (HO : ops H) (s : slots H) (R : list H) (m : mstate H) (hs : list H) (ts : list N)
         (pf : list H),
    ops_ok HO -> (forall a b, NZ HO (op_hash2 HO a b)) -> (forall h, In (Some h) s -> NZ HO h) ->
    consistent HO s R m -> NoDup hs -> exp_prove HO (mk_ctx HO s) hs = Some (ts, pf) ->
    let missing := GetMissingPositions m ts in
    let supplied := map (hash_at HO (rows_of (num_leaves s)) (layout HO s)) missing in
    exp_missing_stored HO (mk_ctx HO s) hs (stored_min m) = Some missing /\
    exists idx, VerifyPartialProof HO m ts hs supplied = Ok idx /\
                exp_root_indexes HO (mk_ctx HO s) hs = Some idx.
Proof. exact @partial_proof_complete. Qed.
Print Assumptions C14_partial_proof_protocol_complete.
