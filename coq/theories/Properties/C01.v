(** C01 - All implementations agree on the roots, for every history.
    Only property theorems here; see Proofs/SpecBasics.v (and, as they land, Proofs/StumpAdd.v). *)
From Utreexo Require Import Spec.Forest Proofs.SpecBasics.
Open Scope N_scope.

(** "The result does not depend on how deletions and additions were batched into blocks." *)
Theorem C01_batching : forall (H : Type) (HO : ops H), ops_ok HO ->
  forall s d1 a1 d2 a2, (forall a, In a a1 -> ~ In a d2) ->
  apply_block HO (apply_block HO s d1 a1) d2 a2 = apply_block HO s (d1 ++ d2) (a1 ++ a2).
Proof. exact apply_block_batch. Qed.
Print Assumptions C01_batching.

Theorem C01_leaf_count : forall (H : Type) (HO : ops H) s dels adds,
  num_leaves (apply_block HO s dels adds) = num_leaves s + N.of_nat (length adds).
Proof. exact num_leaves_apply_block. Qed.
Print Assumptions C01_leaf_count.
