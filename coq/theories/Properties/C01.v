(** C01 - All implementations agree on the roots, for every history.
    Only property theorems here; see Proofs/SpecBasics.v (and, as they land, Proofs/StumpAdd.v). *)
From Utreexo Require Import Spec.Forest Spec.Term Model.Verify Proofs.SpecBasics Proofs.StumpAdd.
Open Scope N_scope.

(** "The result does not depend on how deletions and additions were batched into blocks." *)
Theorem C01_batching : forall (H : Type) (HO : ops H), ops_ok HO ->
  forall s d1 a1 d2 a2, (forall a, In a a1 -> ~ In a d2) ->
  apply_block HO (apply_block HO s d1 a1) d2 a2 = apply_block HO s (d1 ++ d2) (a1 ++ a2).
Proof. exact apply_block_batch. Qed.
Print Assumptions C01_batching.

Theorem C01_leaf_count : forall (H : Type) (HO : ops H) s dels adds,
  num_leaves (apply_block HO s dels adds) = num_leaves s + N.of_nat (length adds).
Proof. exact num_leaves_apply_block. Qed.
Print Assumptions C01_leaf_count.

(** ** The roots-only verifier's addition refines the reference (mirror of Stump.add, Proofs/StumpAdd.v) *)
(** "Adding leaves to a stump whose roots are the reference roots of [s] yields the reference
    roots (and the leaf count) of [s ++ map Some adds]", for every hash function that never returns
    the all-zero hash, when no live or added leaf is the all-zero hash. *)
Theorem C01_stump_add_refines :
  forall (H : Type) (HO : ops H), ops_ok HO ->
    (forall a b, op_eqb HO (op_hash2 HO a b) (op_empty HO) = false) ->
    forall strict filler (s : slots H) (adds : list H),
      (forall h, In (Some h) s -> op_eqb HO h (op_empty HO) = false) ->
      (forall h, In h adds -> op_eqb HO h (op_empty HO) = false) ->
      N.of_nat (length s + length adds) <= 2 ^ 63 ->
      let '(st', _, _) :=
        stump_add HO strict filler (mkStump (roots HO s) (num_leaves s)) adds in
      st_roots st' = roots HO (s ++ map Some adds) /\
      st_n st' = num_leaves (s ++ map Some adds).
Proof. exact stump_add_refines. Qed.
Print Assumptions C01_stump_add_refines.

(** the same up to the [uint64] limit of the leaf count *)
Theorem C01_stump_add_refines_64 :
  forall (H : Type) (HO : ops H), ops_ok HO ->
    (forall a b, op_eqb HO (op_hash2 HO a b) (op_empty HO) = false) ->
    forall strict filler (s : slots H) (adds : list H),
      (forall h, In (Some h) s -> op_eqb HO h (op_empty HO) = false) ->
      (forall h, In h adds -> op_eqb HO h (op_empty HO) = false) ->
      N.of_nat (length s + length adds) < 2 ^ 64 ->
      let '(st', _, _) :=
        stump_add HO strict filler (mkStump (roots HO s) (num_leaves s)) adds in
      st_roots st' = roots HO (s ++ map Some adds) /\
      st_n st' = num_leaves (s ++ map Some adds).
Proof. exact stump_add_refines_64. Qed.
Print Assumptions C01_stump_add_refines_64.

(** in the free hash algebra ("barring a hash collision") the idealisation is a theorem *)
Theorem C01_stump_add_refines_term :
  forall strict filler (s : slots term) (adds : list term),
    (forall h, In (Some h) s -> h <> Zero) ->
    (forall h, In h adds -> h <> Zero) ->
    N.of_nat (length s + length adds) < 2 ^ 64 ->
    let '(st', _, _) :=
      stump_add term_ops strict filler (mkStump (roots term_ops s) (num_leaves s)) adds in
    st_roots st' = roots term_ops (s ++ map Some adds) /\
    st_n st' = num_leaves (s ++ map Some adds).
Proof. exact stump_add_refines_term. Qed.
Print Assumptions C01_stump_add_refines_term.

From Utreexo Require Import Proofs.CalcSound Proofs.StumpUpdate.
(** "All implementations agree on the roots, for every history" - the roots-only verifier (mirror of
    [Stump.Update], as repaired) against the reference, for every history of valid blocks *)
Theorem C01_stump_history :
  forall (H : Type) (HO : ops H), ops_ok HO ->
  (forall a b, NZ HO (op_hash2 HO a b)) ->
  forall filler (bs : list (list H * list H)),
  N.of_nat (total_adds H bs) <= 2 ^ 63 -> valid_hist H HO [] bs ->
  run_stump H HO filler (mkStump [] 0) [] bs
  = Some (stump_of H HO (apply_hist H HO [] bs), apply_hist H HO [] bs).
Proof. exact stump_history_refines_empty. Qed.
Print Assumptions C01_stump_history.

From Utreexo Require Import Spec.Oracle.

(** ** The map forest (mirror of the MapPollard mutators, Model/MapMut.v) along EVERY history
    (Proofs/MapMutUnify2.v): after any valid sequence of general blocks, prunes, ingests and
    verifications-with-remember from the empty forest - full or partial, any allocated height - the
    mirror's roots and leaf count are those of the reference forest, it proves its tracked leaves with
    the canonical proof, and it finds a hash exactly when it tracks it (on a full forest: exactly the
    live leaves, at their true positions). *)
From Utreexo Require Import Model.MapRead Model.MapMut Proofs.MapMutUnify2.
Theorem C01_map_forest_every_history :
  forall (H : Type) (HO : ops H), ops_ok HO ->
  (forall x y, op_eqb HO (op_hash2 HO x y) (op_empty HO) = false) ->
  forall (T : N) (full : bool) (l : list (bop H)),
    T <= 63 -> hvalid2 H HO full ([], []) l ->
    exists m,
      hrun2 H HO full ([], []) (mkM [] [] 0 T full) l = Some m /\
      (let sF := fst (hfinal2 H HO full ([], []) l) in
       let RF := snd (hfinal2 H HO full ([], []) l) in
       getRoots HO m = roots HO sF /\
       ms_n m = num_leaves sF /\
       (forall hs, (forall h, In h hs -> In h RF) -> NoDup hs ->
                   Prove HO m hs = exp_prove HO (mk_ctx HO sF) hs) /\
       (forall h, GetLeafPosition HO m h = exp_leafpos HO (mk_ctx HO sF) (memH HO h RF) h) /\
       (full = true ->
        (forall hs, (forall h, In h hs -> In (Some h) sF) -> NoDup hs ->
                    Prove HO m hs = exp_prove HO (mk_ctx HO sF) hs) /\
        (forall h, In (Some h) sF <-> (exists p, GetLeafPosition HO m h = Some p)) /\
        (forall h, GetLeafPosition HO m h = leaf_pos HO (rows_of (num_leaves sF)) (layout HO sF) h))).
Proof. exact history2_observables. Qed.
Print Assumptions C01_map_forest_every_history.
