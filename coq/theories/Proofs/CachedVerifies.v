(** The cached proof a light client is expected to hold ([exp_cached]: its leaves ordered by
    position, their positions, the canonical proof hashes) is the canonical proof of those leaves,
    and is therefore ACCEPTED by the mirror of [Stump.Verify] ([verify_complete]). *)
From Utreexo Require Import Spec.Forest Spec.Oracle Model.Verify Proofs.SpecBasics
     Proofs.CalcSound Proofs.LayoutStruct Proofs.RefTheory Proofs.CalcComplete.
From Coq Require Import Lia Permutation.
Open Scope N_scope.

Section Cached.
  Variable H : Type.
  Variable HO : ops H.
  Hypothesis HOK : ops_ok HO.

  Lemma find_leaf_of_node (s : slots H) x : NoDup (live s) ->
    In x (layout HO s) -> nleaf x = true -> find_leaf HO (layout HO s) (nhash x) = Some x.
  Proof.
    intros Hnd Hin Hl.
    destruct (find_leaf_ex H HO (layout HO s) (nhash x) HOK) as [y Ey]; [exists x; auto|].
    destruct (find_leaf_some H HO _ _ _ HOK Ey) as (Hy & Ly & Ehy).
    rewrite Ey. f_equal. exact (live_leaf_unique H HO s y x Hnd Hy Hin Ly Hl Ehy).
  Qed.

  Lemma find_leaves_of_nodes (s : slots H) xs : NoDup (live s) ->
    (forall x, In x xs -> In x (layout HO s) /\ nleaf x = true) ->
    find_leaves HO (layout HO s) (map (@nhash H) xs) = Some xs.
  Proof.
    intros Hnd. induction xs as [|x xs IH]; intros Hxs; [reflexivity|].
    cbn [map find_leaves].
    destruct (Hxs x (or_introl eq_refl)) as [Hin Hl].
    rewrite (find_leaf_of_node s x Hnd Hin Hl), IH; [reflexivity|].
    intros y Hy. apply Hxs. right. exact Hy.
  Qed.

  Theorem cached_is_canonical (s : slots H) set hs ts pf :
    NoDup (live s) -> NoDup set ->
    exp_cached HO (mk_ctx HO s) set = Some (hs, ts, pf) ->
    exp_prove HO (mk_ctx HO s) hs = Some (ts, pf) /\ Permutation hs set.
  Proof.
    intros Hnd Hset E. unfold exp_cached in E. unfold exp_prove.
    change (clay (mk_ctx HO s)) with (layout HO s) in *.
    destruct (find_leaves HO (layout HO s) set) as [tsn|] eqn:Efl; [|discriminate].
    destruct (cc_find_leaves_facts HO s set tsn HOK Hset Efl) as (Hlay & Hleaf & _ & Ehs & _).
    set (sorted := map snd (sortK (map (fun x => (npos (crows (mk_ctx HO s)) x, x)) tsn))) in *.
    injection E as <- <- <-.
    assert (Hperm : Permutation sorted tsn).
    { unfold sorted. eapply Permutation_trans; [apply Permutation_map, sortK_perm|].
      rewrite map_map. cbn [snd]. rewrite map_id. apply Permutation_refl. }
    rewrite find_leaves_of_nodes; [split; [reflexivity|]|exact Hnd|].
    - rewrite <- Ehs. apply Permutation_map. exact Hperm.
    - intros x Hx. apply (Permutation_in _ Hperm) in Hx. split; [apply Hlay|apply Hleaf]; exact Hx.
  Qed.

  Theorem cached_verifies (s : slots H) set hs ts pf :
    (forall a b, NZ HO (op_hash2 HO a b)) ->
    (forall h, In (Some h) s -> NZ HO h) ->
    N.of_nat (length s) <= 2 ^ 63 ->
    NoDup (live s) -> NoDup set ->
    exp_cached HO (mk_ctx HO s) set = Some (hs, ts, pf) ->
    exists idx, Verify HO true (the_stump (mk_ctx HO s)) hs ts pf = Ok idx /\
                exp_root_indexes HO (mk_ctx HO s) hs = Some idx.
  Proof.
    intros Hnz Hlive Hb Hnd Hset E.
    destruct (cached_is_canonical s set hs ts pf Hnd Hset E) as [Ep Hperm].
    apply (verify_complete_indexes HO s hs ts pf HOK Hnz Hlive Hb); [|exact Ep].
    eapply Permutation_NoDup; [apply Permutation_sym; exact Hperm|exact Hset].
  Qed.

  (** a client that remembers live leaves always has an expected cached proof *)
  Theorem cached_exists (s : slots H) set : (forall h, In h set -> In (Some h) s) ->
    exp_cached HO (mk_ctx HO s) set <> None.
  Proof.
    intros Hl. unfold exp_cached. change (clay (mk_ctx HO s)) with (layout HO s).
    assert (E : exists ts, find_leaves HO (layout HO s) set = Some ts).
    { induction set as [|h set IH]; [eexists; reflexivity|]. cbn [find_leaves].
      destruct (proj1 (find_leaf_live H HO s h HOK) (Hl h (or_introl eq_refl))) as (x & Ex & _).
      rewrite Ex. destruct IH as [ts Ets]; [intros k Hk; apply Hl; right; exact Hk|].
      rewrite Ets. eexists; reflexivity. }
    destruct E as [ts ->]. discriminate.
  Qed.
End Cached.
