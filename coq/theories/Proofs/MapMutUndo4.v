(** C06, fourth part: [Undo] on a PARTIAL forest leaves a tidy node map ([MapMutUndo3.undo_tidy]).

    Tidiness ([MapMutAdd.Tidy]: a set flag marks remembered leaves only; every stored node is a
    root, a known coordinate or the sibling of a known node that is no root) is carried through
    [mm_undo] in the form [TD]: tidiness outside an exception set, where the flag of a node with the
    empty hash and the neededness of the roots are left open - the last loop of [Undo] writes the
    roots and their flags.

    - Part 1: [TD] and its general lemmas ([TD_del], [TD_shrink], [TD_put], [TD_mono], [TD_Tidy], ...).
    - Part 2: [pulldown_TD]: a subtree is pulled down one row (the abstract step of Part 5 of
      MapMutUndo.v), with [known_down]: the known coordinates of the view above are known below.
    - Part 3: one [undoSingleAdd]: [leaf_step_TD], [stepA_down_TD], [stepB_down_TD], [usa_loop_TD].
    - Part 4: [undoSingleAdd_TD], [undoAdd_loop_TD]: all the additions of a block.
    - Part 5: [put_roots_TD], [TD_roots_Tidy]: the last loop, and tidiness at the end.
    - Part 6: the steps of [undoDeletion]: [pmove_F_back], [stepD_TD], [stepR_TD], [movedown_TD].
    - Part 7: [undoDeletion_end_TD] ([ud_fill], [calculateHashes], [put_calculated]), [undoDeletion_TD],
      [undo_block_tidy] (the whole of [mm_undo]: from [UInv] and tidiness after a block to tidiness
      before it), [undo_tidy_holds : undo_tidy H HO].
    - Part 8: [partial_history_ok_closed], [partial_history_observables], [partial_history_as_if]: the
      theorems of MapMutUndo3.v for partial forests without the premise; the example of that file by
      theorem.

    No axioms; [Print Assumptions] at the end. *)
From Utreexo Require Import Base.Hash Model.Utils Model.UtilsFast Model.Verify Model.MapRead
  Model.MapMut Spec.Forest Spec.Oracle Proofs.UtilsGeom Proofs.UtilsGeom2 Proofs.SpecBasics Proofs.StumpAdd
  Proofs.LayoutStruct Proofs.ProofPosSpec Proofs.MapReadSpec Proofs.CalcSound Proofs.CalcComplete
  Proofs.MapMutAdd Proofs.MapMutPrune Proofs.MapMutUnify Proofs.MapMutUnify2 Proofs.MapMutUndo Proofs.MapMutUndo2
  Proofs.MapMutUndo3.
From Utreexo Require Proofs.RefTheory Proofs.StumpAddData Proofs.MapMutRemove.
From Coq Require Import List Arith PeanoNat NArith Lia ZifyNat ZifyN ZifyBool Bool Sorted Permutation.
Import ListNotations.
Open Scope N_scope.

Local Notation gpos := UtilsGeom.gpos.

(** * Part 1: tidiness with exceptions, in the form that [Undo] keeps *)
Section TDdef.
  Variable H : Type.
  Variable HO : ops H.
  Hypothesis HOK : ops_ok HO.
  Notation nodemap := (list (N * (H * bool))).
  Notation empty := (op_empty HO).
  Notation Heqb := (op_eqb HO).
  Implicit Types (V : nat -> N -> H -> bool -> Prop) (RT : nat -> N -> Prop) (R : list H) (T : N)
           (E : nat -> N -> Prop) (nd : list (N * (H * bool))).

  (** outside [E]: a set flag on a node that is not the empty hash marks a remembered leaf; a stored
      node that is no root is known or the sibling of a known node that is no root.  (The flags of
      the empty roots and the roots themselves are put right by the last loop of [Undo].) *)
  Definition TD (V : nat -> N -> H -> bool -> Prop) (RT : nat -> N -> Prop) (R : list H) (T : N)
             (E : nat -> N -> Prop) (nd : nodemap) : Prop :=
    forall r o h l, V r o h l -> ~ E r o ->
      (Heqb h empty = false -> nodes_get nd (gp T r o) = Some (h, true) -> l = true /\ In h R) /\
      (~ RT r o -> nodes_get nd (gp T r o) <> None ->
         known V RT R r o \/ (known V RT R r (N.lxor o 1) /\ ~ RT r (N.lxor o 1))).

  Lemma Tidy_TD V RT R T nd : Tidy V RT R T nd -> TD V RT R T noX nd.
  Proof.
    intros [T1 T2] r o h l Hv _. split.
    - intros _ E. exact (T1 _ _ _ _ Hv E).
    - intros Hn Hs. destruct (T2 _ _ _ _ Hv (fun C => C) Hs) as [A|[A|A]]; [contradiction|left; exact A|right; exact A].
  Qed.

  Lemma TD_weaken V RT R T (E E' : nat -> N -> Prop) nd :
    (forall r o, E r o -> E' r o) -> TD V RT R T E nd -> TD V RT R T E' nd.
  Proof. intros HE D r o h l Hv Hn. apply (D r o h l Hv). intros C. exact (Hn (HE _ _ C)). Qed.

  (** coordinates without a node need no exemption *)
  Lemma TD_unexempt V RT R T (E E' : nat -> N -> Prop) nd :
    (forall r o, E r o -> E' r o \/ forall h l, ~ V r o h l) -> TD V RT R T E nd -> TD V RT R T E' nd.
  Proof.
    intros HE D r o h l Hv Hn. apply (D r o h l Hv). intros C. destruct (HE _ _ C) as [C'|C']; [exact (Hn C')|exact (C' _ _ Hv)].
  Qed.

  (** the stored set shrinks or stays *)
  Lemma TD_sub V RT R T E nd nd' :
    (forall r o h l, V r o h l -> ~ E r o ->
       nodes_get nd' (gp T r o) = nodes_get nd (gp T r o) \/ nodes_get nd' (gp T r o) = None) ->
    TD V RT R T E nd -> TD V RT R T E nd'.
  Proof.
    intros Hg D r o h l Hv Hn. destruct (D r o h l Hv Hn) as [D1 D2].
    destruct (Hg r o h l Hv Hn) as [Eg|Eg]; rewrite Eg; [exact (conj D1 D2)|].
    split; [intros _ C; discriminate|intros _ C; congruence].
  Qed.

  Lemma TD_del V RT R T E nd p : TD V RT R T E nd -> TD V RT R T E (nodes_del p nd).
  Proof.
    apply TD_sub. intros r o h l _ _. rewrite nodes_get_del. destruct (gp T r o =? p); [right|left]; reflexivity.
  Qed.

  (** the view, the remembered set and the exceptions, extensionally *)
  Lemma TD_ext V V' RT RT' R R' T (E E' : nat -> N -> Prop) nd :
    (forall r o h l, V r o h l <-> V' r o h l) -> (forall r o, RT r o <-> RT' r o) ->
    (forall h, In h R <-> In h R') -> (forall r o, E r o <-> E' r o) ->
    TD V RT R T E nd -> TD V' RT' R' T E' nd.
  Proof.
    intros HVV HRT HR HE D r o h l Hv Hn. apply HVV in Hv.
    assert (Hk : forall r o, known V RT R r o -> known V' RT' R' r o).
    { apply known_mono; [|intros ? ? A; apply HRT, A]. intros r1 o1 h1 A B. split; [apply HVV, A|apply HR, B]. }
    destruct (D r o h l Hv ltac:(intros C; apply Hn, HE, C)) as [D1 D2]. split.
    - intros Hne Eg. destruct (D1 Hne Eg) as [A B]. split; [exact A|apply HR, B].
    - intros Hnr Hs. destruct (D2 ltac:(intros C; apply Hnr, HRT, C) Hs) as [A|[A B]].
      + left. exact (Hk _ _ A).
      + right. split; [exact (Hk _ _ A)|]. intros C. apply B, HRT, C.
  Qed.

  (** a larger remembered set *)
  Lemma TD_mono V RT R R' T E nd : (forall h, In h R -> In h R') -> TD V RT R T E nd -> TD V RT R' T E nd.
  Proof.
    intros HR D r o h l Hv Hn.
    assert (Hk : forall r o, known V RT R r o -> known V RT R' r o).
    { apply known_mono; [|auto]. intros r1 o1 h1 A B. split; [exact A|exact (HR _ B)]. }
    destruct (D r o h l Hv Hn) as [D1 D2]. split.
    - intros Hne Eg. destruct (D1 Hne Eg) as [A B]. split; [exact A|exact (HR _ B)].
    - intros Hnr Hs. destruct (D2 Hnr Hs) as [A|[A B]]; [left; exact (Hk _ _ A)|right; split; [exact (Hk _ _ A)|exact B]].
  Qed.

  (** the remembered set matters at the hashes of the leaves of the view only *)
  Lemma TD_leaves V RT R R' T E nd : (forall r o h, V r o h true -> In h R -> In h R') ->
    TD V RT R T E nd -> TD V RT R' T E nd.
  Proof.
    intros HR D r o h l Hv Hn.
    assert (Hk : forall r o, known V RT R r o -> known V RT R' r o).
    { apply known_mono; [|auto]. intros r1 o1 h1 A B. split; [exact A|exact (HR _ _ _ A B)]. }
    destruct (D r o h l Hv Hn) as [D1 D2]. split.
    - intros Hne Eg. destruct (D1 Hne Eg) as [A B]. split; [exact A|]. subst l. exact (HR _ _ _ Hv B).
    - intros Hnr Hs. destruct (D2 Hnr Hs) as [A|[A B]]; [left; exact (Hk _ _ A)|right; split; [exact (Hk _ _ A)|exact B]].
  Qed.

  (** the node of a root is dropped from the view; its children become roots *)
  Lemma TD_shrink (V' V : nat -> N -> H -> bool -> Prop) (RT' RT : nat -> N -> Prop) R T E nd r0 o0 hP lP :
    (forall r o h l, V' r o h l <-> V r o h l \/ (r = r0 /\ o = o0 /\ h = hP /\ l = lP)) ->
    (forall h l, ~ V r0 o0 h l) ->
    RT' r0 o0 ->
    (forall r o, RT' r o -> RT r o \/ (r = r0 /\ o = o0)) ->
    (forall r o, RT r o -> RT' r o \/ (S r = r0 /\ o / 2 = o0 /\ RT r (N.lxor o 1))) ->
    TD V' RT' R T E nd -> TD V RT R T E nd.
  Proof.
    intros HVd HnP HrP HRT1 HRT2 D.
    assert (Hk : forall r o, known V' RT' R r o -> (r = r0 /\ o = o0) \/ known V RT R r o).
    { intros r o Hk. induction Hk as [r o h Hv Hh|r o Hk0 IH Hn].
      - apply HVd in Hv as [Hv|(-> & -> & _)]; [right; exact (kn_leaf _ _ _ _ _ h Hv Hh)|left; auto].
      - destruct IH as [[-> ->]|IH]; [contradiction|].
        destruct (Nat.eq_dec (S r) r0) as [E1|E1]; [destruct (N.eq_dec (o / 2) o0) as [E2|E2]; [left; auto|]|];
          right; (apply kn_up; [exact IH|]); intros C; destruct (HRT2 _ _ C) as [C'|(C1 & C2 & _)];
          try exact (Hn C'); congruence. }
    intros r o h l Hv Hn. assert (Hv' : V' r o h l) by (apply HVd; left; exact Hv).
    destruct (D r o h l Hv' Hn) as [D1 D2]. split; [exact D1|].
    intros Hnr Hs.
    assert (Hnr' : ~ RT' r o).
    { intros C. destruct (HRT1 _ _ C) as [C'|[-> ->]]; [exact (Hnr C')|exact (HnP _ _ Hv)]. }
    destruct (D2 Hnr' Hs) as [A|[A B]].
    - destruct (Hk _ _ A) as [[-> ->]|A']; [destruct (HnP _ _ Hv)|left; exact A'].
    - destruct (Hk _ _ A) as [[-> Eo]|A']; [rewrite Eo in B; contradiction|].
      right. split; [exact A'|]. intros C. destruct (HRT2 _ _ C) as [C'|(_ & _ & C3)]; [exact (B C')|].
      rewrite pps_lxor_invol in C3. exact (Hnr C3).
  Qed.

  (** a node is stored *)
  Lemma TD_put V RT R T E nd r0 o0 hh l0 b0 :
    Vok V RT T -> V r0 o0 hh l0 ->
    (Heqb hh empty = false -> b0 = true -> l0 = true /\ In hh R) ->
    (~ RT r0 o0 -> known V RT R r0 o0 \/ (known V RT R r0 (N.lxor o0 1) /\ ~ RT r0 (N.lxor o0 1))) ->
    TD V RT R T E nd -> TD V RT R T (fun r o => E r o /\ ~ (r = r0 /\ o = o0)) (nodes_put (gp T r0 o0) (hh, b0) nd).
  Proof.
    intros K Hv0 H1 H2 D r o h l Hv Hn. destruct (v_valid K Hv0) as [A0 B0]. destruct (v_valid K Hv) as [A B].
    rewrite nodes_get_put. destruct (N.eqb_spec (gp T r o) (gp T r0 o0)) as [Ep|Hne].
    - destruct (gp_inj T r o r0 o0 A B A0 B0 Ep) as [-> ->]. destruct (v_fun K Hv Hv0) as [-> ->]. split.
      + intros Hne Eg. injection Eg as Eb. exact (H1 Hne Eb).
      + intros Hnr _. exact (H2 Hnr).
    - apply (D r o h l Hv). intros C. apply Hn. split; [exact C|]. intros [-> ->]. congruence.
  Qed.

  (** from [TD] without exceptions to tidiness, when the flags of the roots are right *)
  Lemma TD_Tidy V RT R T nd :
    (forall r o h l, V r o h l -> RT r o \/ ~ RT r o) ->
    (forall r o h l, V r o h l -> Heqb h empty = true -> RT r o) ->
    (forall r o h l, V r o h l -> RT r o -> nodes_get nd (gp T r o) = Some (h, true) -> l = true /\ In h R) ->
    TD V RT R T noX nd -> Tidy V RT R T nd.
  Proof.
    intros Hdec Hemp Hroots D. split.
    - intros r o h l Hv Eg. destruct (Heqb h empty) eqn:Ee.
      + exact (Hroots _ _ _ _ Hv (Hemp _ _ _ _ Hv Ee) Eg).
      + exact (proj1 (D r o h l Hv (fun C => C)) Ee Eg).
    - intros r o h l Hv _ Hs. unfold needed. destruct (Hdec _ _ _ _ Hv) as [C|C]; [left; exact C|].
      right. exact (proj2 (D r o h l Hv (fun C => C)) C Hs).
  Qed.
End TDdef.
Arguments TD {H} HO V RT R T E nd.

(** * Part 2: a subtree is pulled down one row (abstractly, as in Part 5 of MapMutUndo.v) *)
Section PullDownT.
  Variable H : Type.
  Variable HO : ops H.
  Hypothesis HOK : ops_ok HO.
  Variable T : N.
  Variable rd : nat.
  Variable od : N.
  Hypothesis HT : T <= 63.
  Hypothesis Hrd : N.of_nat rd < T.
  Hypothesis Hod : od < 2 ^ (T - N.of_nat rd).
  Notation nodemap := (list (N * (H * bool))).
  Notation cachemap := (list (H * N)).
  Notation q := (od / 2).
  Notation sbo := (N.lxor od 1).
  Notation inSub := (inSubG rd od).
  Notation inDel := (inDelG rd od).
  Notation inReg := (inRegG rd od).
  Notation upo := (upoG rd).
  Variables (V' V Vsub : nat -> N -> H -> bool -> Prop) (RT' RT : nat -> N -> Prop).
  Variables (Rw R : list H).
  Variables (E' E Xn : nat -> N -> Prop).
  Hypothesis HV : Vok V RT T.
  Hypothesis HS_in : forall r o h l, Vsub r o h l -> inSub r o.
  Hypothesis HS_up : forall r o h l, Vsub r o h l -> V' (S r) (upo r o) h l.
  Hypothesis HS_low : forall r o h l, Vsub r o h l -> V r o h l.
  Hypothesis HU_reg : forall r' o' h l, V' r' o' h l -> inReg r' o' ->
    exists r o, Vsub r o h l /\ r' = S r /\ o' = upo r o.
  Hypothesis HL_reg : forall r o h l, V r o h l -> inReg r o -> Vsub r o h l \/ inDel r o \/ Xn r o.
  Hypothesis HO_ul : forall r o h l, V' r o h l -> ~ inReg r o -> V r o h l \/ Xn r o.
  Hypothesis HO_lu : forall r o h l, V r o h l -> ~ inReg r o -> ~ Xn r o -> V' r o h l.
  Hypothesis HXn_inner' : forall r o h, Xn r o -> ~ inReg r o -> V' r o h true -> False.
  Hypothesis HRT_out : forall r o, ~ inReg r o -> RT' r o -> RT r o.
  Hypothesis HRT_out2 : forall r o, ~ inReg r o -> RT r o -> RT' r o.
  Hypothesis HRT_sub : forall r o, (r < rd)%nat -> inSub r o -> ~ RT' (S r) (upo r o).
  Hypothesis HRTl_sub : forall r o, (r < rd)%nat -> inSub r o -> ~ RT r o.
  Hypothesis HP_A : RT rd sbo -> RT' (S rd) q.
  Hypothesis HRT_P2 : RT (S rd) q -> RT' (S rd) q.
  Hypothesis Hsbo : ~ RT rd sbo -> known V RT R rd od /\ ~ RT rd od.
  Hypothesis Hsep : forall r o h, V' r o h false -> ~ In h Rw.
  Hypothesis HRsub : forall x, In x Rw -> In x R.
  Hypothesis HE_sub : forall r o, inSub r o -> ~ E r o -> ~ E' (S r) (upo r o).
  Hypothesis HE_out : forall r o, ~ inReg r o -> ~ E r o -> ~ E' r o.
  Hypothesis HE_Xn : forall r o, Xn r o -> E r o.
  Hypothesis HE_del : forall r o, inDel r o -> E r o.

  Variables (nd0 : nodemap) (ca0 : cachemap).
  Hypothesis HcR : forall h, cached_has HO ca0 h = true -> In h Rw.
  Hypothesis D' : TD HO V' RT' R T E' nd0.
  Notation adj0 := (adj0 H HO false ca0).

  Variable nd2 : nodemap.
  Hypothesis F_back : forall p v, nodes_get nd2 p = Some v ->
    (exists r o, (r <= rd)%nat /\ inSub r o /\ p = gp T r o /\
                 adj0 (nodes_get nd0 (gp T (S r) (upo r o))) = Some v) \/
    (nodes_get nd0 p = Some v /\ forall r o, inReg r o -> p <> gp T r o).

  Lemma reg_parent r o : inReg r o -> (r <= rd)%nat -> inReg (S r) (o / 2).
  Proof.
    intros [Hr Ho] Hle. split; [lia|]. replace (S rd - r)%nat with (S (S rd - S r)) in Ho by lia. rewrite p2_S in Ho.
    pose proof (N.div_mod' o 2). pose proof (N.mod_lt o 2 ltac:(lia)). pose proof (p2_pos (S rd - S r)). nia.
  Qed.

  Lemma reg_top r o : inReg r o -> ~ inReg (S r) (o / 2) -> r = S rd /\ o = q.
  Proof.
    intros Hreg Hn. destruct (Nat.eq_dec r (S rd)) as [->|Hne].
    - apply (regG_cases T rd od HT Hrd Hod) in Hreg as [[_ ->]|[[A _]|[A _]]]; [auto|lia|lia].
    - exfalso. apply Hn. apply (reg_parent r o Hreg). destruct Hreg. lia.
  Qed.

  (** the known coordinates, from the view above to the view below *)
  Lemma known_down r o : known V' RT' R r o ->
    (~ inReg r o -> known V RT R r o) /\
    (inReg r o -> exists r2 o2, r = S r2 /\ o = upo r2 o2 /\ inSub r2 o2 /\ known V RT R r2 o2).
  Proof.
    intros Hk. induction Hk as [r o h Hv Hh|r o Hk0 [IHo IHi] Hn].
    - split.
      + intros Hout. destruct (HO_ul _ _ _ _ Hv Hout) as [Hv'|Hx]; [exact (kn_leaf _ _ _ _ _ h Hv' Hh)|].
        destruct (HXn_inner' _ _ _ Hx Hout Hv).
      + intros Hin. destruct (HU_reg _ _ _ _ Hv Hin) as (r2 & o2 & Hs & -> & ->).
        exists r2, o2. split; [reflexivity|]. split; [reflexivity|]. split; [exact (HS_in _ _ _ _ Hs)|].
        exact (kn_leaf _ _ _ _ _ h (HS_low _ _ _ _ Hs) Hh).
    - assert (Hdec : inReg r o \/ ~ inReg r o).
      { unfold inRegG. destruct (le_dec r (S rd)) as [A|A]; [|right; tauto].
        destruct (N.le_gt_cases (q * p2 (S rd - r)) o) as [B|B]; [|right; lia].
        destruct (N.lt_ge_cases o ((q + 1) * p2 (S rd - r))) as [C|C]; [left; auto|right; lia]. }
      split.
      + intros Hout. destruct Hdec as [Hin|Hco].
        * (* the child is the top of the region *)
          destruct (reg_top r o Hin Hout) as [-> ->].
          destruct (IHi Hin) as (r2 & o2 & Er & Eo & Hs & Hk2). assert (r2 = rd) by lia. subst r2.
          apply (sub_root T rd od HT Hrd Hod) in Hs. subst o2.
          assert (HnS : ~ RT rd sbo) by (intros C; exact (Hn (HP_A C))).
          assert (HkP : known V RT R (S rd) q).
          { rewrite <- (sbo_div2 od). apply kn_up; [exact Hk2|exact HnS]. }
          apply kn_up; [exact HkP|]. intros C. exact (Hn (HRT_P2 C)).
        * apply kn_up; [exact (IHo Hco)|]. intros C. exact (Hn (HRT_out2 _ _ Hco C)).
      + intros Hin. pose proof (reg_child T rd od HT Hrd Hod r o Hin) as Hc.
        destruct (IHi Hc) as (r2 & o2 & -> & -> & Hs & Hk2).
        assert (Hlt : (r2 < rd)%nat) by (destruct Hin; lia).
        destruct (sub_parent T rd od HT Hrd Hod r2 o2 Hs Hlt) as [A B].
        exists (S r2), (o2 / 2). split; [reflexivity|]. split; [symmetry; exact B|]. split; [exact A|].
        apply kn_up; [exact Hk2|exact (HRTl_sub _ _ Hlt Hs)].
  Qed.

  Lemma known_down_sub r o : inSub r o -> known V' RT' R (S r) (upo r o) -> known V RT R r o.
  Proof.
    intros Hs Hk. destruct (proj2 (known_down _ _ Hk) (upo_reg T rd od HT Hrd Hod r o Hs)) as (r2 & o2 & Er & Eo & Hs2 & Hk2).
    assert (r2 = r) by lia. subst r2.
    rewrite (upo_inj T rd od HT Hrd Hod r o o2 Hs Hs2 Eo). exact Hk2.
  Qed.

  Theorem pulldown_TD : TD HO V RT R T E nd2.
  Proof.
    intros r o h l Hv HnE. destruct (v_valid HV Hv) as [A B].
    assert (Hcase : forall v, nodes_get nd2 (gp T r o) = Some v ->
              (inSub r o /\ Vsub r o h l /\ adj0 (nodes_get nd0 (gp T (S r) (upo r o))) = Some v) \/
              (~ inReg r o /\ V' r o h l /\ nodes_get nd0 (gp T r o) = Some v)).
    { intros v Ev. destruct (F_back _ _ Ev) as [(r1 & o1 & Hr1 & Hs1 & Ep & Ea)|[E0 Hout]].
      - destruct (regG_valid T rd od HT Hrd Hod _ _ (sub_reg T rd od HT Hrd Hod _ _ Hs1)) as [A1 B1].
        destruct (gp_inj T r o r1 o1 A B A1 B1 Ep) as [<- <-]. left. split; [exact Hs1|]. split; [|exact Ea].
        destruct (HL_reg _ _ _ _ Hv (sub_reg T rd od HT Hrd Hod _ _ Hs1)) as [Hs|[Hd|Hx]]; [exact Hs| |].
        + destruct (sub_del_excl T rd od HT Hrd Hod _ _ Hs1 Hd).
        + destruct (HnE (HE_Xn _ _ Hx)).
      - right. assert (Hnr : ~ inReg r o) by (intros C; exact (Hout r o C eq_refl)).
        split; [exact Hnr|]. split; [|exact E0]. apply (HO_lu _ _ _ _ Hv Hnr). intros C. exact (HnE (HE_Xn _ _ C)). }
    split.
    - (* the flags *)
      intros Hne Eg. destruct (Hcase _ Eg) as [(Hs & Hvs & Ea)|(Hout & Hv' & E0)].
      + pose proof (HS_up _ _ _ _ Hvs) as Hvu.
        destruct (nodes_get nd0 (gp T (S r) (upo r o))) as [[h0 fl]|] eqn:E0; [|discriminate].
        cbn [MapMutUndo.adj0 adjv fst snd] in Ea. injection Ea as Eh Ef. subst h0. rewrite orb_false_r in Ef.
        destruct (cached_has HO ca0 h) eqn:Ec.
        * pose proof (HcR h Ec) as HhR. split; [|exact (HRsub _ HhR)].
          destruct l; [reflexivity|]. destruct (Hsep _ _ _ Hvu HhR).
        * subst fl. exact (proj1 (D' _ _ _ _ Hvu (HE_sub _ _ Hs HnE)) Hne E0).
      + exact (proj1 (D' _ _ _ _ Hv' (HE_out _ _ Hout HnE)) Hne E0).
    - (* the stored nodes are needed *)
      intros Hnr Hst. destruct (nodes_get nd2 (gp T r o)) as [v|] eqn:Ev; [|congruence].
      destruct (Hcase v eq_refl) as [(Hs & Hvs & Ea)|(Hout & Hv' & E0)].
      + pose proof (HS_up _ _ _ _ Hvs) as Hvu.
        assert (Hsu : nodes_get nd0 (gp T (S r) (upo r o)) <> None).
        { destruct (nodes_get nd0 (gp T (S r) (upo r o))); [discriminate|discriminate]. }
        destruct (Nat.eq_dec r rd) as [->|Hne].
        * apply (sub_root T rd od HT Hrd Hod) in Hs. subst o. right. rewrite pps_lxor_invol. exact (Hsbo Hnr).
        * assert (Hlt : (r < rd)%nat) by (destruct Hs; lia).
          destruct (proj2 (D' _ _ _ _ Hvu (HE_sub _ _ Hs HnE)) (HRT_sub _ _ Hlt Hs) Hsu) as [Hk|[Hk Hnk]].
          -- left. exact (known_down_sub _ _ Hs Hk).
          -- destruct (sub_sib T rd od HT Hrd Hod r o Hs Hlt) as [Hs2 Eu]. rewrite <- Eu in Hk.
             right. split; [exact (known_down_sub _ _ Hs2 Hk)|exact (HRTl_sub _ _ Hlt Hs2)].
      + assert (Hnr' : ~ RT' r o) by (intros C; exact (Hnr (HRT_out _ _ Hout C))).
        assert (Hs0 : nodes_get nd0 (gp T r o) <> None) by congruence.
        destruct (proj2 (D' _ _ _ _ Hv' (HE_out _ _ Hout HnE)) Hnr' Hs0) as [Hk|[Hk Hnk]].
        * left. exact (proj1 (known_down _ _ Hk) Hout).
        * right. destruct (known_down _ _ Hk) as [Ko Ki].
          assert (Hdec : inReg r (N.lxor o 1) \/ ~ inReg r (N.lxor o 1)).
          { unfold inRegG. destruct (le_dec r (S rd)) as [A'|A']; [|right; tauto].
            destruct (N.le_gt_cases (q * p2 (S rd - r)) (N.lxor o 1)) as [B'|B']; [|right; lia].
            destruct (N.lt_ge_cases (N.lxor o 1) ((q + 1) * p2 (S rd - r))) as [C|C]; [left; auto|right; lia]. }
          destruct Hdec as [Hin|Hco].
          -- destruct (reg_sib T rd od HT Hrd Hod r o Hin) as [C|[-> Eq]]; [contradiction|].
             rewrite Eq in *. destruct (Ki Hin) as (r2 & o2 & Er & Eo & Hs & Hk2). assert (r2 = rd) by lia. subst r2.
             apply (sub_root T rd od HT Hrd Hod) in Hs. subst o2.
             assert (HnS : ~ RT rd sbo) by (intros C; exact (Hnk (HP_A C))).
             split; [|intros C; exact (Hnk (HRT_P2 C))].
             rewrite <- (sbo_div2 od). apply kn_up; [exact Hk2|exact HnS].
          -- split; [exact (Ko Hco)|]. intros C. exact (Hnk (HRT_out2 _ _ Hco C)).
  Qed.
End PullDownT.

(** * Part 3: one [undoSingleAdd] (partial forest) *)
Section UndoOneT.
  Variable H : Type.
  Variable HO : ops H.
  Hypothesis HOK : ops_ok HO.
  Notation hash2 := (op_hash2 HO).
  Notation empty := (op_empty HO).
  Notation Heqb := (op_eqb HO).
  Hypothesis Hh2 : forall x y, Heqb (hash2 x y) empty = false.
  Variable T : N.
  Hypothesis HT : T <= 63.
  Variables (s : slots H) (a : H).
  Notation n := (N.of_nat (length s)).
  Notation s' := (s ++ [Some a]).
  Hypothesis HnT : n + 1 <= 2 ^ T.
  Hypothesis Hlv : forall h, In (Some h) s' -> Heqb h empty = false /\ forall x y, h <> hash2 x y.
  Notation nodemap := (list (N * (H * bool))).
  Notation cachemap := (list (H * N)).
  Notation VF h := (Vent HO (Fh HO s a h)).
  Notation RF h := (RTent (Fh HO s a h)).
  Notation oR := (oR H s).
  Notation posR := (posR H T s).
  Variable R : list H.     (* the remembered set for tidiness: the one before the undo *)

  Lemma leaf_step_TD (nd : nodemap) : TD HO (VF 0) (RF 0) R T noX nd -> TD HO (Vlay HO s) (RTlay HO s) R T noX nd.
  Proof.
    intros D.
    assert (HnP : forall hh l, ~ Vent HO (forest HO s) 0 n hh l).
    { intros hh l Hv. apply (Vs_bound H HO Hh2 T HT s a HnT Hlv) in Hv. rewrite p2_0 in Hv. lia. }
    assert (Hsplit : forall e, In e (Fh HO s a 0) <-> In e (forest HO s) \/ In e [(0%nat, Lh s 0, cl HO s a 0)]).
    { intros e. rewrite In_Fh, In_Fold. cbn [In]. split; [intros [[A _]|A]; auto|intros [A|[A|[]]]; auto].
      left. split; [exact A|lia]. }
    apply (TD_ext H HO (Vent HO (forest HO s)) (Vlay HO s) (RTent (forest HO s)) (RTlay HO s) R R T noX noX).
    - intros r o h l. symmetry. apply Vlay_Vent.
    - intros r o. symmetry. apply RTlay_RTent.
    - reflexivity.
    - reflexivity.
    - apply (TD_shrink H HO (VF 0) (Vent HO (forest HO s)) (RF 0) (RTent (forest HO s)) R T noX nd 0%nat n a true).
      + intros r o hh l. apply (VF0_view H HO Hh2 T HT s a HnT Hlv).
      + exact HnP.
      + pose proof (root_is_root H HO s a 0) as Hr0. rewrite (oR_0 H HO Hh2 T HT s a HnT Hlv) in Hr0. exact Hr0.
      + intros r o Hr. apply (RTent_split H (Fh HO s a 0) (forest HO s) [(0%nat, Lh s 0, cl HO s a 0)] Hsplit) in Hr.
        destruct Hr as [Hr|Hr]; [left; exact Hr|right]. apply RTent_single in Hr. fold (oR 0) in Hr. rewrite (oR_0 H HO Hh2 T HT s a HnT Hlv) in Hr. exact Hr.
      + intros r o Hr. left. apply (RTent_split H (Fh HO s a 0) (forest HO s) [(0%nat, Lh s 0, cl HO s a 0)] Hsplit). left. exact Hr.
      + exact D.
  Qed.

  Lemma lxor_2q1 q : N.lxor (2 * q + 1) 1 = 2 * q.
  Proof.
    rewrite lxor_1. assert (Ev : N.even (2 * q + 1) = false) by (rewrite N.add_comm, N.even_add_mul_2; reflexivity).
    rewrite Ev. lia.
  Qed.
  Lemma div2_2q1 q : (2 * q + 1) / 2 = q.
  Proof. rewrite N.mul_comm, N.div_add_l by lia. rewrite (N.div_small 1 2) by lia. lia. Qed.

  (** a step over a root that is not empty *)
  Lemma stepA_down_TD h' c (nd : nodemap) : al s (S h') -> oldt HO s h' = Some c ->
    TD HO (VF (S h')) (RF (S h')) R T noX nd -> TD HO (VF h') (RF h') R T noX nd.
  Proof.
    intros Ha Ec D. destruct (al_S_inv H s h' Ha) as [Ha' _].
    destruct (cl_some H HO s a h' Ha') as [C EC]. set (q := n / p2 (S h')).
    apply (TD_shrink H HO (VF (S h')) (VF h') (RF (S h')) (RF h') R T noX nd (S h') q (hash2 (chash c) (chash C)) false).
    - intros r o hh l. apply (stepA_view H HO s a h' c C r o hh l Ha Ec EC).
    - intros hh l. apply Vh_free, Ha.
    - apply (step_roots_after H HO s a h' _ _ Ha). right. auto.
    - intros r o Hr. apply (step_roots_after H HO s a h' r o Ha) in Hr as [Hr|Hr]; [left|right; exact Hr].
      apply (step_roots_before H HO s a h' r o Ha). left. exact Hr.
    - intros r o Hr. apply (step_roots_before H HO s a h' r o Ha) in Hr as [Hr|[[-> ->]|[-> ->]]].
      + left. apply (step_roots_after H HO s a h' r o Ha). left. exact Hr.
      + right. split; [reflexivity|]. split; [apply div2_2q|]. rewrite lxor_2q.
        apply (step_roots_before H HO s a h' _ _ Ha). right. right. auto.
      + right. split; [reflexivity|]. split; [apply div2_2q1|]. rewrite lxor_2q1.
        apply (step_roots_before H HO s a h' _ _ Ha). right. left. auto.
    - exact D.
  Qed.

  (** a step over an empty root: the climbing tree is pulled down, the empty root is put back *)
  Lemma stepB_down_TD h' (nd : nodemap) (ca : cachemap) (Rc : list H) (nd2 : nodemap) (ca2 : cachemap) :
    al s (S h') -> oldt HO s h' = None ->
    (forall x, In x Rc -> In (Some x) s') -> (forall x, In x Rc -> In x R) ->
    WInvX (VF (S h')) (RF (S h')) Rc T (fun r o => r = S h' /\ o = oR (S h')) nd ca ->
    nodes_get nd (posR (S h')) = None ->
    TD HO (VF (S h')) (RF (S h')) R T noX nd ->
    placeEmptyRoot HO T false (gp T h' (2 * oR (S h'))) (nd, ca) = ((nd2, ca2), true) ->
    TD HO (VF h') (RF h') R T noX (nodes_put (gp T h' (2 * oR (S h'))) (empty, true) nd2).
  Proof.
    intros Ha Ec HR HRsub W Hnone D Eper. destruct (al_S_inv H s h' Ha) as [Ha' _].
    destruct (cl_some H HO s a h' Ha') as [C EC]. pose proof (cl_height H HO s a h' C EC) as Hc.
    destruct (step_coords H s h' Ha) as (E1 & _). fold (oR (S h')) in E1.
    set (q := n / p2 (S h')) in *. unfold MapMutUndo.posR in Hnone. rewrite E1 in *.
    destruct (oR_valid H HO T HT s a HnT (S h') Ha) as [A B]. rewrite E1 in B.
    assert (Hrd : N.of_nat h' < T) by lia.
    assert (Hod : 2 * q < 2 ^ (T - N.of_nat h')).
    { replace (T - N.of_nat h') with (T - N.of_nat (S h') + 1) by lia. rewrite UtilsGeom.pow2_S. lia. }
    pose proof (fun r o hh l => stepB_view_before H HO s a h' C r o hh l Ha Ec EC) as SB.
    pose proof (fun r o hh l => stepB_view_after H HO s a h' C r o hh l Ha Ec EC Hc) as SA.
    fold q in SB, SA.
    assert (Fo : forall r o hh l, Vent HO (Fold HO s (S h')) r o hh l -> ~ inRegG h' (2 * q) r o).
    { intros r o hh l Hv C'. apply (proj1 (inRegG_left h' q r o)) in C'. exact (Fold_out H HO s h' r o hh l Ha Hv C'). }
    assert (Sin : forall r o hh l, Vpt C h' (2 * q + 1) r o hh l -> inSubG h' (2 * q) r o).
    { intros r o hh l Hv. apply (proj2 (inSubG_left h' q r o)). exact (Vpt_in_sub H C h' q r o hh l Hv). }
    assert (Eq2 : 2 * q / 2 = q) by apply div2_2q.
    assert (Esb : N.lxor (2 * q) 1 = 2 * q + 1) by apply lxor_2q.
    destruct (Fh_trees H HO s a h' h' (Lh s h') C ltac:(apply In_Fh; right; rewrite EC; reflexivity)) as [WC LC].
    pose proof (VF_ok H HO T HT s a HnT h' Ha') as K'.
    (* what is stored in the region comes from the climbing tree *)
    assert (Hregst : forall r o v, inRegG h' (2 * q) r o -> (r <= h')%nat -> nodes_get nd (gp T r o) = Some v ->
              exists r0 o0 l, Vpt C h' (2 * q + 1) r0 o0 (fst v) l /\ r = S r0 /\ o = upoG h' r0 o0).
    { intros r o [hh fl] Hreg Hr Ev. destruct (regG_valid T h' (2 * q) HT Hrd Hod r o Hreg) as [A1 B1].
      destruct (w_true W _ _ _ (nodes_get_In H _ _ _ Ev)) as (r1 & o1 & Ep & A2 & B2 & [[-> _]|(l & Hv)]);
        destruct (gp_inj T _ _ _ _ A1 B1 A2 B2 Ep) as [Er Eo]; [lia|]. subst r1 o1.
      apply SA in Hv as [Hv|(r0 & o0 & Hv & -> & ->)]; [destruct (Fo _ _ _ _ Hv Hreg)|].
      exists r0, o0, l. auto. }
    destruct (placeEmptyRoot_coords H HO HOK false T h' (2 * q) HT Hrd Hod nd ca) as ([nd2' ca2'] & E' & Cc).
    { intros r o v Hr1 Hr Hreg Ev. destruct (Hregst r o v Hreg Hr Ev) as (r0 & o0 & l & Hv & _).
      apply (Vpt_nonemp H HO Hh2 C h' (2 * q + 1) r0 o0 (fst v) l WC); [|exact Hv].
      intros x Hx. exact (proj1 (Hlv _ (LC x Hx))). }
    { intros o Hreg. destruct (nodes_get nd (gp T 0 o)) as [v|] eqn:Ev; [exfalso|reflexivity].
      destruct (Hregst 0%nat o v Hreg ltac:(lia) Ev) as (r0 & o0 & l & _ & Er & _). lia. }
    rewrite Eper in E'. injection E' as <- <-. cbn [fst snd] in Cc.
    assert (HP0 : nodes_get nd (gp T (S h') (2 * q / 2)) = None) by (rewrite Eq2; exact Hnone).
    assert (EP : upoG h' h' (N.lxor (2 * q) 1) = 2 * q / 2) by apply upo_root.
    (* the provenance of the bindings *)
    assert (F_back : forall p v, nodes_get nd2 p = Some v ->
              (exists r o, (r <= h')%nat /\ inSubG h' (2 * q) r o /\ p = gp T r o /\
                 adj0 H HO false ca (nodes_get nd (gp T (S r) (upoG h' r o))) = Some v) \/
              (nodes_get nd p = Some v /\ forall r o, inRegG h' (2 * q) r o -> p <> gp T r o)).
    { intros p v Ev. destruct (pc_back Cc p Ev) as [(r & o & Hr & Hs & Ep & Ea)|[E0 Hno]].
      - left. exists r, o. split; [lia|auto].
      - right. split; [exact E0|]. intros r o Hreg Ep. destruct (Nat.eq_dec r (S h')) as [->|Hne].
        + apply (regG_cases T h' (2 * q) HT Hrd Hod) in Hreg as [[_ ->]|[[A' _]|[A' _]]]; [|lia|lia].
          rewrite Ep, HP0 in E0. discriminate.
        + apply (Hno r o); [destruct Hreg; lia|exact Hreg|exact Ep]. }
    assert (Hroot : VF h' h' (2 * q) empty false) by (apply SB; right; left; auto).
    assert (HrtS : RF h' h' (2 * q + 1)) by (apply (step_roots_before H HO s a h' _ _ Ha); right; right; auto).
    assert (HrtD : RF h' h' (2 * q)) by (apply (step_roots_before H HO s a h' _ _ Ha); right; left; auto).
    assert (HrtP : RF (S h') (S h') q) by (apply (step_roots_after H HO s a h' _ _ Ha); right; auto).
    assert (D2 : TD HO (VF h') (RF h') R T (inDelG h' (2 * q)) nd2).
    { apply (pulldown_TD H HO T h' (2 * q) HT Hrd Hod (VF (S h')) (VF h') (Vpt C h' (2 * q + 1)) (RF (S h')) (RF h')
               Rc R noX (inDelG h' (2 * q)) (fun _ _ => False) K') with (nd0 := nd) (ca0 := ca).
      - exact Sin.
      - intros r o hh l Hv. apply SA. right. exists r, o. auto.
      - intros r o hh l Hv. apply SB. right. right. exact Hv.
      - intros r' o' hh l Hv Hreg. apply SA in Hv as [Hv|(r & o & Hv & -> & ->)]; [destruct (Fo _ _ _ _ Hv Hreg)|].
        exists r, o. auto.
      - intros r o hh l Hv Hreg. apply SB in Hv as [Hv|[(-> & -> & _)|Hv]]; [destruct (Fo _ _ _ _ Hv Hreg)| |left; exact Hv].
        right. left. apply (del_root T h' (2 * q) HT Hrd Hod). reflexivity.
      - intros r o hh l Hv Hout. left. apply SA in Hv as [Hv|(r0 & o0 & Hv & -> & ->)]; [apply SB; left; exact Hv|].
        exfalso. apply Hout. exact (upo_reg T h' (2 * q) HT Hrd Hod _ _ (Sin _ _ _ _ Hv)).
      - intros r o hh l Hv Hout _. apply SB in Hv as [Hv|[(-> & -> & _)|Hv]]; [apply SA; left; exact Hv| |]; exfalso; apply Hout.
        + apply (del_reg T h' (2 * q) HT Hrd Hod). apply (del_root T h' (2 * q) HT Hrd Hod). reflexivity.
        + exact (sub_reg T h' (2 * q) HT Hrd Hod _ _ (Sin _ _ _ _ Hv)).
      - intros r o hh [].
      - intros r o Hout Hr. apply (step_roots_after H HO s a h' r o Ha) in Hr as [Hr|[-> ->]].
        + apply (step_roots_before H HO s a h' r o Ha). left. exact Hr.
        + exfalso. apply Hout. fold q. rewrite <- Eq2 at 2. exact (P_reg T h' (2 * q) HT Hrd Hod).
      - intros r o Hout Hr. apply (step_roots_before H HO s a h' r o Ha) in Hr as [Hr|[[-> ->]|[-> ->]]].
        + apply (step_roots_after H HO s a h' r o Ha). left. exact Hr.
        + exfalso. apply Hout. apply (del_reg T h' (2 * q) HT Hrd Hod). apply (del_root T h' (2 * q) HT Hrd Hod). reflexivity.
        + exfalso. apply Hout. apply (sub_reg T h' (2 * q) HT Hrd Hod). apply (sub_root T h' (2 * q) HT Hrd Hod). symmetry. exact Esb.
      - intros r o Hr Hs C'. apply (step_roots_after H HO s a h' _ _ Ha) in C' as [C'|[C' _]]; [|lia].
        apply (Fold_root_out H HO s h' _ _ Ha) in C'. apply C'. apply (proj1 (inRegG_left h' q _ _)). exact (upo_reg T h' (2 * q) HT Hrd Hod _ _ Hs).
      - intros r o Hr Hs C'. apply (step_roots_before H HO s a h' _ _ Ha) in C' as [C'|[[C' _]|[C' _]]]; [|lia|lia].
        apply (Fold_root_out H HO s h' _ _ Ha) in C'. apply C'. apply (proj1 (inRegG_left h' q _ _)). exact (sub_reg T h' (2 * q) HT Hrd Hod _ _ Hs).
      - intros _. rewrite Eq2. exact HrtP.
      - intros _. rewrite Eq2. exact HrtP.
      - intros Hn. exfalso. apply Hn. rewrite Esb. exact HrtS.
      - intros r o hh Hv. exact (VF_sep H HO HOK s a Hlv (S h') Rc r o hh HR Hv).
      - exact HRsub.
      - intros r o _ _ [].
      - intros r o _ _ [].
      - intros r o [].
      - intros r o Hd. exact Hd.
      - intros hh Hc'. apply (w_cR W). exact (proj1 (cached_has_true H HO HOK ca hh) Hc').
      - exact D.
      - exact F_back. }
    apply (TD_unexempt H HO (VF h') (RF h') R T (fun r o => inDelG h' (2 * q) r o /\ ~ (r = h' /\ o = 2 * q)) noX).
    - intros r o [Hd Hnt]. right. intros hh l Hv.
      assert (Hr : (r < h')%nat).
      { destruct Hd as [Hr Ho]. destruct (Nat.eq_dec r h') as [->|Hne]; [|lia]. exfalso. apply Hnt.
        split; [reflexivity|]. apply (del_root T h' (2 * q) HT Hrd Hod). split; assumption. }
      apply SB in Hv as [Hv|[(-> & _)|Hv]]; [|lia|].
      + exact (Fo _ _ _ _ Hv (del_reg T h' (2 * q) HT Hrd Hod _ _ Hd)).
      + exact (sub_del_excl T h' (2 * q) HT Hrd Hod _ _ (Sin _ _ _ _ Hv) Hd).
    - apply (TD_put H HO (VF h') (RF h') R T (inDelG h' (2 * q)) nd2 h' (2 * q) empty false true K' Hroot).
      + intros Hne. rewrite (Heqb_refl H HO HOK) in Hne. discriminate.
      + intros Hn. destruct (Hn HrtD).
      + exact D2.
  Qed.

  Notation erpl := (erpl H HO T s).
  Notation staleE := (staleE H T s).

  (** the loop of [undoSingleAdd] *)
  Theorem usa_loop_TD : forall h, al s h -> forall (nd : nodemap) (ca : cachemap) (Rc : list H) rest st' rest',
    WInvX (VF h) (RF h) Rc T noX nd ca -> (forall x, In x Rc -> In (Some x) s') -> (forall x, In x Rc -> In x R) ->
    Forall staleE rest -> TD HO (VF h) (RF h) R T noX nd ->
    usa_loop HO h T false (posR h) (LeftChild (posR h) T) (erpl h ++ rest) (nd, ca) = Some (st', rest') ->
    TD HO (Vlay HO s) (RTlay HO s) R T noX (fst st').
  Proof.
    induction h as [|h' IH]; intros Ha nd ca Rc rest st' rest' W HR HRsub Hst D E.
    - cbn [usa_loop MapMutUndo.erpl app] in E. injection E as <- _. apply leaf_step_TD.
      destruct (nodes_get nd (posR 0)); cbn [fst]; [apply TD_del; exact D|exact D].
    - destruct (al_S_inv H s h' Ha) as [Ha' _].
      destruct (del_root_step H HO HOK T HT s a HnT Hlv (S h') nd ca Rc Ha HR W) as (Rc1 & W1 & N1 & S1 & S2 & S3).
      destruct (child_coords H HO Hh2 T HT s a HnT Hlv h' Ha) as (C1 & C2 & C3 & C4 & C5 & C6).
      cbn [usa_loop MapMutUndo.erpl] in E. cbn [fst snd] in W1, N1, E.
      assert (D1 : TD HO (VF (S h')) (RF (S h')) R T noX
                     (fst (match nodes_get nd (posR (S h')) with
                           | Some lf => (nodes_del (posR (S h')) nd, cached_del HO (fst lf) ca)
                           | None => (nd, ca) end))).
      { destruct (nodes_get nd (posR (S h'))); cbn [fst]; [apply TD_del; exact D|exact D]. }
      set (st1 := match nodes_get nd (posR (S h')) with
                  | Some lf => (nodes_del (posR (S h')) nd, cached_del HO (fst lf) ca)
                  | None => (nd, ca) end) in *. clearbody st1. destruct st1 as [nd1 ca1]. cbn [fst snd] in *.
      assert (HR1 : forall x, In x Rc1 -> In (Some x) s') by (intros x Hx; exact (HR _ (S1 _ Hx))).
      assert (HRsub1 : forall x, In x Rc1 -> In x R) by (intros x Hx; exact (HRsub _ (S1 _ Hx))).
      rewrite C4, C5 in E.
      destruct (oldt HO s h') as [c|] eqn:Ec.
      + cbn [app] in E.
        assert (Hhead : forall e l, erpl h' ++ rest = e :: l -> (e =? gp T h' (2 * oR (S h'))) = false).
        { intros e l El. assert (Hin : In e (erpl h' ++ rest)) by (rewrite El; left; reflexivity).
          destruct (N.eqb_spec e (gp T h' (2 * oR (S h')))) as [Ee|_]; [exfalso|reflexivity].
          apply in_app_or in Hin as [Hin|Hin].
          - assert (C7 : 2 * oR (S h') < 2 ^ (T - N.of_nat h')).
            { replace (T - N.of_nat h') with (T - N.of_nat h' - 1 + 1) by lia. rewrite UtilsGeom.pow2_S. lia. }
            exact (erpl_not_row H HO Hh2 T HT s a HnT Hlv h' h' _ e (le_n _) Ha' ltac:(lia) C7 Hin Ee).
          - rewrite Forall_forall in Hst. exact (stale_not_root H HO Hh2 T HT s a HnT Hlv h' e Ha (Hst _ Hin) Ee). }
        pose proof (stepA_down H HO T HT s a HnT h' c nd1 ca1 Rc1 Ha Ec W1 N1) as W2.
        pose proof (stepA_down_TD h' c nd1 Ha Ec D1) as D2.
        apply (IH Ha' nd1 ca1 Rc1 rest st' rest' W2 HR1 HRsub1 Hst D2).
        remember (erpl h' ++ rest) as L eqn:EL. destruct L as [|e l].
        * exact E.
        * rewrite (Hhead e l eq_refl) in E. exact E.
      + cbn [app] in E. rewrite N.eqb_refl in E.
        destruct (stepB_down H HO HOK Hh2 false T HT s a HnT Hlv h' nd1 ca1 Rc1 Ha Ec HR1 W1 N1 S3) as (nd2 & ca2 & E2 & W2).
        cbv zeta in E2, W2.
        pose proof (stepB_down_TD h' nd1 ca1 Rc1 nd2 ca2 Ha Ec HR1 HRsub1 W1 N1 D1 E2) as D2.
        match type of E with context [placeEmptyRoot ?x1 ?x2 ?x3 ?x4 ?x5] =>
          replace (placeEmptyRoot x1 x2 x3 x4 x5) with ((nd2, ca2), true) in E by (symmetry; exact E2) end.
        cbn [fst snd] in E.
        exact (IH Ha' _ ca2 Rc1 rest st' rest' W2 HR1 HRsub1 Hst D2 E).
  Qed.
End UndoOneT.

(** * Part 4: [undoAdd]: all the additions of the block *)
Section UndoSingleT.
  Variable H : Type.
  Variable HO : ops H.
  Hypothesis HOK : ops_ok HO.
  Hypothesis Hh2 : forall x y, op_eqb HO (op_hash2 HO x y) (op_empty HO) = false.
  Variable T : N.
  Hypothesis HT : T <= 63.
  Notation nodemap := (list (N * (H * bool))).
  Notation cachemap := (list (H * N)).
  Variable R : list H.

  Theorem undoSingleAdd_TD (s : slots H) (a : H) (nd : nodemap) (ca : cachemap) (Rc : list H) rest st' rest' :
    N.of_nat (length s) + 1 <= 2 ^ T -> leaves_ok H HO (s ++ [Some a]) ->
    WInvX (Vlay HO (s ++ [Some a])) (RTlay HO (s ++ [Some a])) Rc T noX nd ca ->
    (forall x, In x Rc -> In (Some x) (s ++ [Some a])) -> (forall x, In x Rc -> In x R) ->
    Forall (staleE H T s) rest ->
    TD HO (Vlay HO (s ++ [Some a])) (RTlay HO (s ++ [Some a])) R T noX nd ->
    undoSingleAdd HO (N.of_nat (length s) + 1) T false (erpl H HO T s (lowrow H s) ++ rest) (nd, ca) = Some (st', rest') ->
    TD HO (Vlay HO s) (RTlay HO s) R T noX (fst st').
  Proof.
    intros HnT Hlv W HR HRsub Hst D E. destruct (lowrow_spec H T HT s HnT) as (Ha & Hb & HjT & Eg & Eo).
    set (j := lowrow H s) in *. set (n := N.of_nat (length s)) in *.
    destruct (Vent_ext H HO (forest HO (s ++ [Some a])) (Fh HO s a j)) as [EV ER].
    { intros e. apply forest_snoc_Fh; assumption. }
    assert (W0 : WInvX (Vent HO (Fh HO s a j)) (RTent (Fh HO s a j)) Rc T noX nd ca).
    { apply (WInvX_ext H (Vlay HO (s ++ [Some a])) _ (RTlay HO (s ++ [Some a])) _ Rc Rc T noX noX); try reflexivity; [| |exact W].
      - intros r o h l. rewrite Vlay_Vent. apply EV.
      - intros r o. rewrite RTlay_RTent. apply ER. }
    assert (D0 : TD HO (Vent HO (Fh HO s a j)) (RTent (Fh HO s a j)) R T noX nd).
    { apply (TD_ext H HO (Vlay HO (s ++ [Some a])) _ (RTlay HO (s ++ [Some a])) _ R R T noX noX); try reflexivity; [| |exact D].
      - intros r o h l. rewrite Vlay_Vent. apply EV.
      - intros r o. rewrite RTlay_RTent. apply ER. }
    unfold undoSingleAdd in E. rewrite Eg, Nat2N.id in E.
    assert (Es : sub64 (n + 1) 1 = n).
    { rewrite sub64_small; [lia|lia|]. assert (2 ^ T <= 2 ^ 63) by (apply UtilsGeom.pow2_le; exact HT).
      rewrite W_eq. assert (2 ^ 63 < 2 ^ 64) by (apply UtilsGeom.pow2_lt; lia). lia. }
    rewrite Es in E. rewrite (rootPosition_gpos n (N.of_nat j) T HT HjT ltac:(lia)) in E.
    rewrite <- Eo in E.
    exact (usa_loop_TD H HO HOK Hh2 T HT s a HnT Hlv R j Ha nd ca Rc rest st' rest' W0 HR HRsub Hst D0 E).
  Qed.

  Theorem undoAdd_loop_TD : forall (radds : list H) (s0 : slots H) (nd : nodemap) (ca : cachemap) (Rc : list H) n' st',
    let s1 := s0 ++ map Some (rev radds) in
    N.of_nat (length s1) <= 2 ^ T -> leaves_ok H HO s1 ->
    WInvX (Vlay HO s1) (RTlay HO s1) Rc T noX nd ca -> (forall x, In x Rc -> In (Some x) s1) ->
    (forall x, In x Rc -> In x R) ->
    TD HO (Vlay HO s1) (RTlay HO s1) R T noX nd ->
    undoAdd_loop HO (length radds) (N.of_nat (length s1)) T false (erpR H HO T s0 radds) (nd, ca) = Some (n', st') ->
    TD HO (Vlay HO s0) (RTlay HO s0) R T noX (fst st').
  Proof.
    induction radds as [|a r IH]; intros s0 nd ca Rc n' st' s1 Hfit Hlv W HR HRsub D E.
    - unfold s1 in *. cbn [rev map] in *. rewrite app_nil_r in *. cbn [length undoAdd_loop] in E.
      injection E as _ <-. exact D.
    - set (s := s0 ++ map Some (rev r)).
      assert (Es1 : s1 = s ++ [Some a]).
      { unfold s1, s. cbn [rev]. rewrite map_app, app_assoc. reflexivity. }
      assert (El : N.of_nat (length s1) = N.of_nat (length s) + 1).
      { rewrite Es1, app_length. cbn [length]. lia. }
      assert (Els : N.of_nat (length s) = N.of_nat (length s0) + N.of_nat (length r)).
      { unfold s. rewrite app_length, map_length, rev_length. lia. }
      rewrite Es1 in Hlv, W, HR, D.
      assert (Hst : Forall (staleE H T s) (erpR H HO T s0 r)).
      { pose proof (erpR_stale H HO Hh2 T HT s0 r ltac:(lia)) as Hs. rewrite <- Els in Hs. exact Hs. }
      destruct (undoSingleAdd_ok H HO HOK Hh2 false T HT s a nd ca Rc (erpR H HO T s0 r) ltac:(lia) Hlv W HR Hst)
        as (nd1 & ca1 & R1 & E1 & W1 & HR1).
      pose proof (undoSingleAdd_TD s a nd ca Rc (erpR H HO T s0 r) (nd1, ca1) _ ltac:(lia) Hlv W HR HRsub Hst D E1) as D1.
      cbn [fst] in D1.
      assert (Hlv' : leaves_ok H HO s).
      { intros h Hh. apply Hlv. apply in_or_app. left. exact Hh. }
      assert (HRs : forall x, In x R1 -> In (Some x) s).
      { intros x Hx. apply HR1 in Hx as [Hx Hne]. apply HR in Hx. apply in_app_or in Hx as [Hx|[Hx|[]]]; [exact Hx|].
        injection Hx as ->. contradiction. }
      assert (HRsub1 : forall x, In x R1 -> In x R).
      { intros x Hx. apply HR1 in Hx as [Hx _]. exact (HRsub _ Hx). }
      apply (IH s0 nd1 ca1 R1 n' st' ltac:(fold s; lia) Hlv' W1 HRs HRsub1 D1).
      cbn [length undoAdd_loop erpR] in E. fold s in E. rewrite El, E1 in E.
      assert (Esub : sub64 (N.of_nat (length s) + 1) 1 = N.of_nat (length s)).
      { rewrite sub64_small; [lia|lia|]. assert (2 ^ T <= 2 ^ 63) by (apply UtilsGeom.pow2_le; exact HT).
        rewrite W_eq. assert (2 ^ 63 < 2 ^ 64) by (apply UtilsGeom.pow2_lt; lia). lia. }
      rewrite Esub in E. exact E.
  Qed.
End UndoSingleT.

(** * Part 5: the last loop of [Undo] (the roots), and tidiness at the end *)
Section TailT.
  Variable H : Type.
  Variable HO : ops H.
  Hypothesis HOK : ops_ok HO.
  Hypothesis Hh2 : forall x y, op_eqb HO (op_hash2 HO x y) (op_empty HO) = false.
  Variable T : N.
  Hypothesis HT : T <= 63.
  Notation nodemap := (list (N * (H * bool))).
  Notation cachemap := (list (H * N)).
  Variable s : slots H.
  Hypothesis HnT : N.of_nat (length s) <= 2 ^ T.
  Hypothesis Hlv : leaves_ok H HO s.
  Variables (Rw R : list H).
  Hypothesis HRw : forall x, In x Rw -> In (Some x) s.
  Hypothesis HRsub : forall x, In x Rw -> In x R.
  Notation posE := (posE H T).

  Lemma root_entry_node k lo t : In (k, lo, t) (forest HO s) ->
    exists l, Vlay HO s k (lo / p2 k) (root_hash HO t) l /\ RTlay HO s k (lo / p2 k).
  Proof.
    intros He. destruct (root_node H HO s k lo t He) as (_ & _ & _ & x & Hx & Hroot & Hh & _).
    apply tnode_some in Hx as (Hxin & Er & Eo). exists (nleaf x). unfold p2. split; exists x; auto.
  Qed.

  Lemma put_roots_TD : forall F (st : maps H) nd',
    (forall e, In e F -> In e (forest HO s)) ->
    (forall h, cached_has HO (snd st) h = true -> In h Rw) ->
    TD HO (Vlay HO s) (RTlay HO s) R T noX (fst st) ->
    put_roots HO false (map posE F) (map (fun e => root_hash HO (snd e)) F) st = Some (nd', snd st) ->
    TD HO (Vlay HO s) (RTlay HO s) R T noX nd' /\
    (forall p, (forall e, In e F -> p <> posE e) -> nodes_get nd' p = nodes_get (fst st) p) /\
    (forall e, In e F -> nodes_get nd' (posE e) =
       Some (root_hash HO (snd e), cached_has HO (snd st) (root_hash HO (snd e)))).
  Proof.
    pose proof (Vlay_ok H HO s T HnT HT) as K.
    induction F as [|[[k lo] t] F IH]; intros [nd ca] nd' HF Hca D E; cbn [fst snd] in *.
    - cbn [map put_roots] in E. injection E as <-. split; [exact D|]. split; [reflexivity|intros e []].
    - cbn [map put_roots fst snd] in E. rewrite orb_false_r in E.
      destruct (root_entry_node k lo t (HF _ (or_introl eq_refl))) as (l0 & Hv & Hrt).
      set (b0 := cached_has HO ca (root_hash HO t)) in *.
      assert (D1 : TD HO (Vlay HO s) (RTlay HO s) R T noX (nodes_put (gp T k (lo / p2 k)) (root_hash HO t, b0) nd)).
      { apply (TD_weaken H HO (Vlay HO s) (RTlay HO s) R T (fun r o => noX r o /\ ~ (r = k /\ o = lo / p2 k))).
        - intros r o [[] _].
        - apply (TD_put H HO (Vlay HO s) (RTlay HO s) R T noX nd k (lo / p2 k) (root_hash HO t) l0 b0 K Hv).
          + intros _ Eb. pose proof (Hca _ Eb) as Hin. split; [|exact (HRsub _ Hin)].
            destruct l0; [reflexivity|]. destruct (Vlay_sep H HO HOK s Rw _ _ _ Hlv HRw Hv Hin).
          + intros Hn. destruct (Hn Hrt).
          + exact D. }
      destruct (IH (nodes_put (gp T k (lo / p2 k)) (root_hash HO t, b0) nd, ca) nd'
                  (fun e He => HF e (or_intror He)) Hca D1 E) as (D' & Hout & Hin).
      cbn [fst snd] in *. split; [exact D'|]. split.
      + intros p Hp. rewrite Hout by (intros e He; exact (Hp e (or_intror He))).
        rewrite nodes_get_put. destruct (N.eqb_spec p (gp T k (lo / p2 k))) as [Ep|_]; [|reflexivity].
        exfalso. exact (Hp (k, lo, t) (or_introl eq_refl) Ep).
      + intros e [<-|He]; [|exact (Hin e He)]. cbn [snd].
        (* later entries with the same position carry the same value *)
        assert (Hgen : forall G, (forall e, In e G -> In e F) ->
                  (forall e, In e G -> posE e = posE (k, lo, t) ->
                     nodes_get nd' (posE e) = Some (root_hash HO t, b0)) ).
        { intros G HG e He Ep. rewrite (Hin e (HG e He)). destruct e as [[k2 lo2] t2]. cbn [snd].
          destruct (root_entry_node k2 lo2 t2 (HF _ (or_intror (HG _ He)))) as (l2 & Hv2 & _).
          unfold MapMutUndo.posE in Ep. cbn [fst snd] in Ep.
          destruct (v_valid K Hv) as [A B]. destruct (v_valid K Hv2) as [A2 B2].
          destruct (gp_inj T _ _ _ _ A2 B2 A B Ep) as [-> Eo]. rewrite Eo in Hv2.
          destruct (v_fun K Hv2 Hv) as [-> _]. reflexivity. }
        destruct (in_dec N.eq_dec (posE (k, lo, t)) (map posE F)) as [Hd|Hd].
        * apply in_map_iff in Hd as (e & Ep & He). rewrite <- Ep. exact (Hgen F (fun e He => He) e He Ep).
        * rewrite Hout.
          -- unfold MapMutUndo.posE. cbn [fst snd]. rewrite nodes_get_put, N.eqb_refl. reflexivity.
          -- intros e He Ep. apply Hd. rewrite Ep. apply in_map, He.
  Qed.

  (** tidiness, once the roots are written *)
  Theorem TD_roots_Tidy (nd : nodemap) (ca : cachemap) :
    (forall h, cached_has HO ca h = true -> In h Rw) ->
    TD HO (Vlay HO s) (RTlay HO s) R T noX nd ->
    (forall e, In e (forest HO s) -> nodes_get nd (posE e) = Some (root_hash HO (snd e), cached_has HO ca (root_hash HO (snd e)))) ->
    Tidy (Vlay HO s) (RTlay HO s) R T nd.
  Proof.
    intros Hca D Hroots. pose proof (Vlay_ok H HO s T HnT HT) as K.
    apply (TD_Tidy H HO (Vlay HO s) (RTlay HO s) R T nd).
    - intros r o h l (x & Hx & Er & Eo & _). destruct (nroot x) eqn:Ex.
      + left. exists x. auto.
      + right. intros (y & Hy & Ry & Ery & Eoy).
        assert (y = x).
        { apply (MapMutRemove.ng_coord_eq H HO s y x Hy Hx). unfold coord. congruence. }
        congruence.
    - intros r o h l (x & Hx & Er & Eo & Eh & El) Ee. apply HOK in Ee. rewrite Ee in Eh.
      destruct (node_cases H HO s _ _ x (tnode_in H HO s x Hx)) as [r' xl xr _ _ _ _ Ehx|Ly Hlive _|Hr _ _ _ _ _].
      + exfalso. pose proof (Hh2 (nhash xl) (nhash xr)) as C. rewrite <- Ehx, Eh, (Heqb_refl H HO HOK) in C. discriminate.
      + exfalso. rewrite Eh in Hlive. destruct (Hlv _ Hlive) as [C _]. rewrite (Heqb_refl H HO HOK) in C. discriminate.
      + exists x. auto.
    - intros r o h l Hv Hrt Eg. apply RTlay_RTent in Hrt as (k & lo & t & He & -> & ->).
      destruct (root_entry_node k lo t He) as (l2 & Hv2 & _). destruct (v_fun K Hv Hv2) as [-> ->].
      pose proof (Hroots _ He) as Er. unfold MapMutUndo.posE in Er. cbn [fst snd] in Er. rewrite Er in Eg.
      injection Eg as Eb. pose proof (Hca _ Eb) as Hin. split; [|exact (HRsub _ Hin)].
      destruct l2; [reflexivity|]. destruct (Vlay_sep H HO HOK s Rw _ _ _ Hlv HRw Hv2 Hin).
    - exact D.
  Qed.
End TailT.

(** * Part 6: the steps of [undoDeletion] *)
(** ** where the bindings after [placeEmptyRoot] and the move of the parent come from *)
Section PmoveBack.
  Variable H : Type.
  Variable HO : ops H.
  Hypothesis HOK : ops_ok HO.
  Variable T : N.
  Variable rd : nat.
  Variable od : N.
  Hypothesis HT : T <= 63.
  Hypothesis Hrd : N.of_nat rd < T.
  Hypothesis Hod : od < 2 ^ (T - N.of_nat rd).
  Notation q := (od / 2).
  Notation sbo := (N.lxor od 1).
  Notation inSub := (inSubG rd od).
  Notation inReg := (inRegG rd od).
  Notation upo := (upoG rd).
  Variables (nd0 : list (N * (H * bool))) (ca0 : list (H * N)) (st1 : maps H).
  Hypothesis C : perC HO false T rd od nd0 ca0 st1.

  Lemma pmove_F_back p v : nodes_get (fst (pmove H HO false T rd od st1)) p = Some v ->
    (exists r o, (r <= rd)%nat /\ inSub r o /\ p = gp T r o /\
                 adj0 H HO false ca0 (nodes_get nd0 (gp T (S r) (upo r o))) = Some v) \/
    (nodes_get nd0 p = Some v /\ forall r o, inReg r o -> p <> gp T r o).
  Proof.
    destruct st1 as [nd1 ca1]. cbn [fst snd] in C.
    assert (EP : upo rd sbo = q) by apply upo_root.
    destruct (regG_valid T rd od HT Hrd Hod _ _ (P_reg T rd od HT Hrd Hod)) as [VP1 VP2].
    assert (Hsr : inSub rd sbo) by (apply (sub_root T rd od HT Hrd Hod); reflexivity).
    assert (HPne : forall r o, (r <= rd)%nat -> inReg r o -> gp T (S rd) q <> gp T r o).
    { intros r o Hr Hreg Ep. destruct (regG_valid T rd od HT Hrd Hod r o Hreg) as [A B].
      destruct (gp_inj T _ _ _ _ VP1 VP2 A B Ep) as [Er _]. lia. }
    assert (E1P : nodes_get nd1 (gp T (S rd) q) = nodes_get nd0 (gp T (S rd) q)).
    { apply (pc_out C). intros r o Hr Hreg. exact (HPne r o Hr Hreg). }
    assert (Hadj : forall v, adjv H HO false ca1 v = adjv H HO false ca0 v).
    { intros v0. apply (adjv_ext H HO HOK false). exact (pc_keys C). }
    unfold pmove. cbn [fst snd]. rewrite E1P.
    destruct (nodes_get nd0 (gp T (S rd) q)) as [vP|] eqn:EvP; cbn [fst snd].
    - rewrite nodes_get_put, nodes_get_del. destruct (N.eqb_spec p (gp T rd sbo)) as [->|Hn1].
      + intros Ev. left. exists rd, sbo. split; [lia|]. split; [exact Hsr|]. split; [reflexivity|].
        rewrite EP, EvP. cbn [MapMutUndo.adj0]. rewrite <- Hadj. exact Ev.
      + destruct (N.eqb_spec p (gp T (S rd) q)) as [->|Hn2]; [discriminate|]. intros Ev.
        destruct (pc_back C p Ev) as [(r & o & Hr & Hs & Ep & Ea)|[E0 Hno]].
        * left. exists r, o. split; [lia|auto].
        * right. split; [exact E0|]. intros r o Hreg Ep. destruct (Nat.eq_dec r (S rd)) as [->|Hne].
          -- apply (regG_cases T rd od HT Hrd Hod) in Hreg as [[_ ->]|[[A _]|[A _]]]; [|lia|lia]. contradiction.
          -- apply (Hno r o); [destruct Hreg; lia|exact Hreg|exact Ep].
    - intros Ev. destruct (pc_back C p Ev) as [(r & o & Hr & Hs & Ep & Ea)|[E0 Hno]].
      + left. exists r, o. split; [lia|auto].
      + right. split; [exact E0|]. intros r o Hreg Ep. destruct (Nat.eq_dec r (S rd)) as [->|Hne].
        * apply (regG_cases T rd od HT Hrd Hod) in Hreg as [[_ ->]|[[A _]|[A _]]]; [|lia|lia].
          rewrite Ep, EvP in E0. discriminate.
        * apply (Hno r o); [destruct Hreg; lia|exact Hreg|exact Ep].
  Qed.
End PmoveBack.

(** ** the roots of a forest do not move when leaves are deleted *)
Section RootsKill.
  Variable H : Type.
  Variable HO : ops H.

  Lemma RT_kill (s : slots H) (L : list H) r o : RTlay HO s r o <-> RTlay HO (kill HO L s) r o.
  Proof.
    rewrite !RTlay_RTent, RefTheory.forest_kill. unfold RTent. split.
    - intros (k & lo & t & He & -> & ->). exists k, lo, (RefTheory.oprune HO L t). split; [|auto].
      apply in_map_iff. exists (k, lo, t). split; [reflexivity|exact He].
    - intros (k & lo & t & He & -> & ->). apply in_map_iff in He as ([[k0 lo0] t0] & E & He).
      unfold RefTheory.prune_entry in E. cbn [fst snd] in E. injection E as <- <- _. exists k0, lo0, t0. auto.
  Qed.
End RootsKill.

(** ** a node above a remembered leaf is known *)
Section KnownAnc.
  Variable H : Type.
  Variable HO : ops H.
  Variable s : slots H.
  Variable R : list H.
  Notation lay := (layout HO s).
  Notation under := MapMutRemove.under.

  Lemma known_anc z w : In z lay -> In w lay -> nleaf w = true -> In (nhash w) R ->
    under (coord z) (coord w) -> known (Vlay HO s) (RTlay HO s) R (nrow z) (noff z).
  Proof.
    intros Hz Hwl Lw Hh U.
    pose proof (MapMutRemove.ng_same_tree H HO s z w Hz Hwl U) as Et.
    pose proof (node_row_le_tree H HO s z Hz) as Hzt.
    assert (Hj : forall j : nat, (nrow w + j <= nrow z)%nat ->
              known (Vlay HO s) (RTlay HO s) R (nrow w + j)%nat (noff w / 2 ^ N.of_nat j)).
    { induction j as [|j IH]; intros Hle.
      - rewrite Nat.add_0_r. change (N.of_nat 0) with 0. rewrite N.pow_0_r, N.div_1_r.
        apply (kn_leaf _ _ _ _ _ (nhash w)); [|exact Hh]. rewrite <- Lw. exists w. auto.
      - specialize (IH ltac:(lia)).
        replace (nrow w + S j)%nat with (S (nrow w + j)) by lia.
        replace (noff w / 2 ^ N.of_nat (S j)) with (noff w / 2 ^ N.of_nat j / 2).
        2:{ rewrite Nat2N.inj_succ, N.pow_succ_r', N.div_div by (try apply N.pow_nonzero; lia).
            f_equal. lia. }
        apply kn_up; [exact IH|]. intros (y & Hy & Ry & Er & Eo).
        apply (root_iff_row H HO s y Hy) in Ry.
        assert (Uy : under (coord y) (coord w)).
        { unfold coord. rewrite Er, Eo. apply anc_under0. }
        pose proof (MapMutRemove.ng_same_tree H HO s y w Hy Hwl Uy) as Ety. lia. }
    destruct U as [U1 U2]. unfold coord in U1, U2. cbn [fst snd] in U1, U2.
    specialize (Hj (nrow z - nrow w)%nat ltac:(lia)).
    replace (nrow w + (nrow z - nrow w))%nat with (nrow z) in Hj by lia.
    unfold p2 in U2. rewrite U2 in Hj. exact Hj.
  Qed.
End KnownAnc.

(** ** a subtree comes back: its sibling goes down again *)
Section StepDelT.
  Variable H : Type.
  Variable HO : ops H.
  Hypothesis HOK : ops_ok HO.
  Hypothesis Hh2 : forall x y, op_eqb HO (op_hash2 HO x y) (op_empty HO) = false.
  Variable T : N.
  Hypothesis HT : T <= 63.
  Variable s : slots H.
  Hypothesis HnT : N.of_nat (length s) <= 2 ^ T.
  Hypothesis Hnd : NoDup (live s).
  Hypothesis Hlv : leaves_ok H HO s.
  Variable L : list H.
  Variable x : node H.
  Hypothesis Hx : In x (layout HO s).
  Hypothesis Hdel : forall y, In y (layout HO s) -> nleaf y = true ->
    (memH HO (nhash y) L = true <-> MapMutRemove.under (coord x) (coord y)).
  Hypothesis Hroot : nroot x = false.
  Notation under := MapMutRemove.under.
  Notation lay := (layout HO s).
  Notation s' := (kill HO L s).
  Notation rd := (nrow x).
  Notation od := (noff x).

  Let n63 : N.of_nat (length s) <= 2 ^ 63.
  Proof. assert (2 ^ T <= 2 ^ 63) by (apply UtilsGeom.pow2_le; exact HT). lia. Qed.
  Let Tlo : TreeRows (N.of_nat (length s)) <= T.
  Proof. apply TreeRows_le_iff. exact HnT. Qed.

  Theorem stepD_TD (Rw R : list H) (X : nat -> N -> Prop) (nd0 : list (N * (H * bool))) (ca0 : list (H * N)) st1 :
    (forall z, In z Rw -> In (Some z) s') -> (forall z, In z Rw -> In z R) ->
    (forall r o, X r o -> ~ inRegG rd od r o) ->
    WInvX (Vlay HO s') (RTlay HO s') Rw T X nd0 ca0 ->
    (exists z, In z lay /\ nleaf z = true /\ In (nhash z) R /\ under (coord x) (coord z)) ->
    TD HO (Vlay HO s') (RTlay HO s') R T X nd0 ->
    placeEmptyRoot HO T false (gp T rd od) (nd0, ca0) = (st1, true) ->
    TD HO (Vlay HO s) (RTlay HO s) R T (fun r o => X r o \/ XnD H x r o \/ inDelG rd od r o)
       (fst (pmove H HO false T rd od st1)).
  Proof.
    intros HR HRsub HXout W' (z & Hz & Lz & Hzh & Uz) D' Eper.
    destruct (sd_valid H HO T HT s HnT L x Hx Hdel Hroot) as [A B].
    destruct (MapMutRemove.ng_family H HO s x Hx Hroot) as (p & sbn & Hp & Hsbn & Hsr & _ & Es & Ep & _).
    pose proof (Vlay_ok H HO s T HnT HT) as K.
    (* [placeEmptyRoot], in coordinates *)
    assert (Hregst : forall r o v, inRegG rd od r o -> (r <= rd)%nat -> nodes_get nd0 (gp T r o) = Some v ->
              exists r1 o1 l, VsubD H HO s x r1 o1 (fst v) l /\ r = S r1 /\ o = upoG rd r1 o1).
    { intros r o [hh fl] Hreg Hr Ev. destruct (regG_valid T rd od HT A B r o Hreg) as [A1 B1].
      destruct (w_true W' _ _ _ (nodes_get_In H _ _ _ Ev)) as (r1 & o1 & Epp & A2 & B2 & [C|(l & Hv)]);
        destruct (gp_inj T _ _ _ _ A1 B1 A2 B2 Epp) as [<- <-]; [destruct (HXout _ _ C Hreg)|].
      destruct (D_HU_reg H HO T HT s HnT Hnd L x Hx Hdel Hroot _ _ _ _ Hv Hreg) as (r2 & o2 & Hs & Er & Eo).
      exists r2, o2, l. auto. }
    destruct (placeEmptyRoot_coords H HO HOK false T rd od HT A B nd0 ca0) as (st1' & E' & Cc).
    { intros r o v Hr1 Hr Hreg Ev. destruct (Hregst r o v Hreg Hr Ev) as (r1 & o1 & l & Hs & _).
      exact (D_Hne_sub H HO HOK Hh2 T HT s HnT Hlv L x Hx Hdel Hroot _ _ _ _ Hs). }
    { intros o Hreg. destruct (nodes_get nd0 (gp T 0 o)) as [v|] eqn:Ev; [exfalso|reflexivity].
      destruct (Hregst 0%nat o v Hreg ltac:(lia) Ev) as (r1 & o1 & l & _ & Er & _). lia. }
    rewrite Eper in E'. injection E' as <-.
    assert (Hsbr : ~ RTlay HO s rd (N.lxor od 1)).
    { intros (y & Hy & Ry & Er & Eo). injection Es as Esr Eso.
      assert (y = sbn) by (apply (MapMutRemove.ng_coord_eq H HO s y sbn Hy Hsbn); unfold coord; congruence).
      congruence. }
    assert (Hxr : ~ RTlay HO s rd od).
    { intros (y & Hy & Ry & Er & Eo).
      assert (y = x) by (apply (MapMutRemove.ng_coord_eq H HO s y x Hy Hx); unfold coord; congruence).
      congruence. }
    apply (pulldown_TD H HO T rd od HT A B (Vlay HO s') (Vlay HO s) (VsubD H HO s x) (RTlay HO s') (RTlay HO s)
             Rw R X (fun r o => X r o \/ XnD H x r o \/ inDelG rd od r o) (XnD H x) K) with (nd0 := nd0) (ca0 := ca0).
    - intros r o h l [_ Hs]. exact Hs.
    - exact (D_HS_up H HO T HT s HnT Hnd L x Hx Hdel Hroot).
    - intros r o h l [Hv _]. exact Hv.
    - exact (D_HU_reg H HO T HT s HnT Hnd L x Hx Hdel Hroot).
    - exact (D_HL_reg H HO T HT s HnT L x Hx Hdel Hroot).
    - exact (D_HO_ul H HO T HT s HnT Hnd L x Hx Hdel Hroot).
    - exact (D_HO_lu H HO s L x Hx Hdel Hroot).
    - exact (D_HXn_inner' H HO Hh2 T HT s HnT Hnd L x Hx Hdel Hroot).
    - intros r o _. exact (D_HRT H HO s L r o).
    - intros r o _ C. exact (proj1 (RT_kill H HO s L r o) C).
    - exact (D_HRT_sub H HO T HT s HnT Hnd L x Hx Hdel Hroot).
    - intros r o Hr Hs (y & Hy & Ry & Er & Eo). apply inSubG_under in Hs. rewrite <- Es in Hs.
      assert (Uy : under (coord sbn) (coord y)) by (unfold coord at 2; rewrite Er, Eo; exact Hs).
      exact (MapMutRemove.ng_root_top H HO s T n63 Tlo HT sbn y Hsbn Hy Hsr Ry Uy).
    - intros C. destruct (Hsbr C).
    - intros C. exact (proj1 (RT_kill H HO s L _ _) C).
    - intros _. split; [|exact Hxr].
      exact (known_anc H HO s R x z Hx Hz Lz Hzh Uz).
    - intros r o h Hv. exact (Vlay_sep H HO HOK s' Rw r o h (leaves_ok_kill H HO s Hlv L) HR Hv).
    - exact HRsub.
    - intros r o Hs _ C. exact (HXout _ _ C (upo_reg T rd od HT A B r o Hs)).
    - intros r o _ Hn C. apply Hn. left. exact C.
    - intros r o C. right. left. exact C.
    - intros r o C. right. right. exact C.
    - intros h Hc. apply (w_cR W'). exact (proj1 (cached_has_true H HO HOK ca0 h) Hc).
    - exact D'.
    - exact (pmove_F_back H HO HOK T rd od HT A B nd0 ca0 st1 Cc).
  Qed.
End StepDelT.

(** ** a tree comes back *)
Section StepRootT.
  Variable H : Type.
  Variable HO : ops H.
  Hypothesis HOK : ops_ok HO.
  Variable T : N.
  Hypothesis HT : T <= 63.
  Variable s : slots H.
  Hypothesis HnT : N.of_nat (length s) <= 2 ^ T.
  Hypothesis Hnd : NoDup (live s).
  Variable L : list H.
  Variable x : node H.
  Hypothesis Hx : In x (layout HO s).
  Hypothesis Hdel : forall y, In y (layout HO s) -> nleaf y = true ->
    (memH HO (nhash y) L = true <-> MapMutRemove.under (coord x) (coord y)).
  Hypothesis Hroot : nroot x = true.
  Notation under := MapMutRemove.under.
  Notation s' := (kill HO L s).

  Theorem stepR_TD (R : list H) (X : nat -> N -> Prop) (nd : list (N * (H * bool))) :
    TD HO (Vlay HO s') (RTlay HO s') R T X nd ->
    TD HO (Vlay HO s) (RTlay HO s) R T (fun r o => X r o \/ under (coord x) (r, o)) nd.
  Proof.
    intros D'.
    assert (Hfw : forall r o h l, Vlay HO s r o h l -> ~ under (coord x) (r, o) -> Vlay HO s' r o h l).
    { intros r o h l (y & Hy & <- & <- & <- & <-) Hn. exists y.
      split; [exact (proj2 (KR H HO s L x Hx Hdel Hroot) y Hy Hn)|auto]. }
    assert (Hk : forall r o, known (Vlay HO s') (RTlay HO s') R r o -> known (Vlay HO s) (RTlay HO s) R r o).
    { apply known_mono.
      - intros r o h (y' & Hy' & Er & Eo & Eh & El) Hh. split; [|exact Hh].
        destruct (kill_root_conv H HO T HT s HnT Hnd L x Hx Hdel Hroot y' Hy') as [->|[Hy _]]; [discriminate El|].
        exists y'. auto.
      - intros r o C. exact (proj1 (RT_kill H HO s L r o) C). }
    intros r o h l Hv Hn.
    assert (Hv' : Vlay HO s' r o h l) by (apply Hfw; [exact Hv|tauto]).
    destruct (D' r o h l Hv' ltac:(tauto)) as [D1 D2]. split; [exact D1|].
    intros Hnr Hs. destruct (D2 ltac:(intros C; exact (Hnr (R_HRT H HO s L r o C))) Hs) as [A|[A B]].
    - left. exact (Hk _ _ A).
    - right. split; [exact (Hk _ _ A)|]. intros C. exact (B (proj1 (RT_kill H HO s L _ _) C)).
  Qed.
End StepRootT.

(** ** the loop over the detwinned targets *)
Section MoveDownT.
  Variable H : Type.
  Variable HO : ops H.
  Hypothesis HOK : ops_ok HO.
  Hypothesis Hh2 : forall x y, op_eqb HO (op_hash2 HO x y) (op_empty HO) = false.
  Variable T : N.
  Hypothesis HT : T <= 63.
  Notation under := MapMutRemove.under.
  Notation indep := MapMutRemove.indep.

  Theorem movedown_TD : forall (ys : list (node H)) (s : slots H),
    N.of_nat (length s) <= 2 ^ T -> NoDup (live s) -> leaves_ok H HO s ->
    (forall y, In y ys -> In y (layout HO s)) -> ForallOrdPairs indep ys ->
    (forall y, In y ys -> exists z, In z (layout HO s) /\ nleaf z = true /\ under (coord y) (coord z)) ->
    exists Lt,
      (forall w, In w (layout HO s) -> nleaf w = true ->
         (memH HO (nhash w) Lt = true <-> exists y, In y ys /\ under (coord y) (coord w))) /\
      forall (Rw R : list H) (nd : list (N * (H * bool))) (ca : list (H * N)),
        (forall z, In z Rw -> In (Some z) (kill HO Lt s)) ->
        WInvX (Vlay HO (kill HO Lt s)) (RTlay HO (kill HO Lt s)) Rw T noX nd ca ->
        Unode H HO T (kill HO Lt s) nd ->
        (forall z, In z Rw -> In z R) ->
        (forall h, In (Some h) s -> ~ In (Some h) (kill HO Lt s) -> In h R) ->
        TD HO (Vlay HO (kill HO Lt s)) (RTlay HO (kill HO Lt s)) R T noX nd ->
        exists st', ud_movedown HO (N.of_nat (length s)) T false (rev (map (posN H T) ys)) (nd, ca) = (st', true) /\
          WInvX (Vlay HO s) (RTlay HO s) Rw T (EXall H ys) (fst st') (snd st') /\
          Unode H HO T s (fst st') /\
          TD HO (Vlay HO s) (RTlay HO s) R T (EXall H ys) (fst st').
  Proof.
    induction ys as [|y1 rest IH]; intros s HnT Hnd Hlv Hys Hfop Hleafy.
    - exists []. split.
      + intros w _ _. cbn [memH]. split; [discriminate|]. intros (y & [] & _).
      + intros Rw R nd ca HR W HU HRsub HRdead D. rewrite (MapMutRemove.kill_nil H HO) in *. exists (nd, ca).
        split; [reflexivity|]. cbn [fst snd].
        assert (HE : forall r o, noX r o <-> EXall H [] r o) by (intros r o; split; [intros []|intros (y & [] & _)]).
        split; [|split; [exact HU|]].
        * apply (WInvX_ext H (Vlay HO s) (Vlay HO s) (RTlay HO s) (RTlay HO s) Rw Rw T noX (EXall H [])); try reflexivity; [exact HE|exact W].
        * apply (TD_ext H HO (Vlay HO s) (Vlay HO s) (RTlay HO s) (RTlay HO s) R R T noX (EXall H [])); try reflexivity; [exact HE|exact D].
    - pose proof (Hys y1 (or_introl eq_refl)) as Hy1.
      set (L1 := MapMutRemove.leaves_under H HO s y1).
      assert (Hdel1 : forall w, In w (layout HO s) -> nleaf w = true ->
                (memH HO (nhash w) L1 = true <-> under (coord y1) (coord w))).
      { intros w Hw Lw. apply (MapMutRemove.leaves_under_spec H HO HOK); assumption. }
      set (s1 := kill HO L1 s).
      inversion Hfop as [|a l Hhead Htail]; subst a l. rewrite Forall_forall in Hhead.
      assert (Hl1 : length s1 = length s) by apply (len_kill H HO).
      assert (HnT1 : N.of_nat (length s1) <= 2 ^ T) by (rewrite Hl1; exact HnT).
      assert (Hrest1 : forall y, In y rest -> In y (layout HO s1)).
      { intros y Hy. pose proof (Hys y (or_intror Hy)) as Hyl.
        exact (MapMutRemove.kl_keep H HO s L1 y1 Hy1 Hdel1 y Hyl (Hhead y Hy) y Hyl (MapMutRemove.under_refl _)). }
      assert (Hleafy1 : forall y, In y rest -> exists z, In z (layout HO s1) /\ nleaf z = true /\ under (coord y) (coord z)).
      { intros y Hy. pose proof (Hys y (or_intror Hy)) as Hyl.
        destruct (Hleafy y (or_intror Hy)) as (z & Hz & Lz & Uz). exists z. split; [|auto].
        exact (MapMutRemove.kl_keep H HO s L1 y1 Hy1 Hdel1 y Hyl (Hhead y Hy) z Hz Uz). }
      destruct (IH s1 HnT1 (MapMutRemove.kill_nodup H HO L1 s Hnd) (leaves_ok_kill H HO s Hlv L1) Hrest1 Htail Hleafy1)
        as (Ltr & Hspec & Hmove).
      exists (L1 ++ Ltr). split.
      + (* the deleted leaves *)
        intros w Hw Lw. rewrite (memH_app H HO), orb_true_iff. split.
        * intros [E1|Er].
          -- exists y1. split; [left; reflexivity|]. apply (Hdel1 w Hw Lw), E1.
          -- destruct (memH HO (nhash w) L1) eqn:E1.
             { exists y1. split; [left; reflexivity|]. apply (Hdel1 w Hw Lw), E1. }
             assert (Hlw : In (Some (nhash w)) s1).
             { apply MapMutRemove.kill_live. split; [exact (layout_leaf_live H HO s w Hw Lw)|exact E1]. }
             destruct (live_leaf_in_layout H HO _ _ Hlw) as (w1 & Hw1 & Lw1 & Ew1).
             rewrite <- Ew1 in Er. apply (Hspec w1 Hw1 Lw1) in Er as (y & Hy & Uy).
             pose proof (Hys y (or_intror Hy)) as Hyl.
             destruct (MapMutRemove.kl_leaf_below H HO s L1 y1 Hnd Hy1 Hdel1 y w1 Hyl (Hhead y Hy) Hw1 Lw1 Uy) as [Hw1l _].
             rewrite (live_leaf_unique H HO s w1 w Hnd Hw1l Hw Lw1 Lw Ew1) in Uy.
             exists y. split; [right; exact Hy|exact Uy].
        * intros (y & [<-|Hy] & Uy).
          -- left. apply (Hdel1 w Hw Lw), Uy.
          -- right. pose proof (Hys y (or_intror Hy)) as Hyl.
             pose proof (MapMutRemove.kl_keep H HO s L1 y1 Hy1 Hdel1 y Hyl (Hhead y Hy) w Hw Uy) as Hw1.
             apply (Hspec w Hw1 Lw). exists y. auto.
      + intros Rw R nd ca HR W HU HRsub HRdead D.
        assert (HRdead1 : forall h, In (Some h) s1 -> ~ In (Some h) (kill HO Ltr s1) -> In h R).
        { intros h Hh Hn. apply HRdead; [exact (proj1 (proj1 (MapMutRemove.kill_live H HO L1 s h) Hh))|].
          rewrite <- (kill_kill H HO). exact Hn. }
        assert (Hleaf1 : exists z, In z (layout HO s) /\ nleaf z = true /\ In (nhash z) R /\ under (coord y1) (coord z)).
        { destruct (Hleafy y1 (or_introl eq_refl)) as (z & Hz & Lz & Uz). exists z. split; [exact Hz|]. split; [exact Lz|].
          split; [|exact Uz]. apply HRdead; [exact (layout_leaf_live H HO s z Hz Lz)|].
          intros Hin. apply MapMutRemove.kill_live in Hin as [_ Hm]. rewrite (memH_app H HO) in Hm.
          rewrite (proj2 (Hdel1 z Hz Lz) Uz) in Hm. discriminate. }
        rewrite <- (kill_kill H HO) in HR, W, HU, D. fold s1 in HR, W, HU, D.
        destruct (Hmove Rw R nd ca HR W HU HRsub HRdead1 D) as ([nd1 ca1] & E1 & W1 & HU1 & D1). cbn [fst snd] in W1, HU1, D1.
        cbn [map rev]. rewrite (ud_movedown_app H HO false T s).
        rewrite <- Hl1, E1, Hl1.
        (* the remembered leaves are live after the first deletion *)
        assert (HR1 : forall z, In z Rw -> In (Some z) s1).
        { intros z Hz. apply HR, MapMutRemove.kill_live in Hz. exact (proj1 Hz). }
        assert (HXleaf : forall r o h, EXall H rest r o -> Vlay HO s1 r o h true -> ~ In h Rw).
        { intros r o h (y & Hy & Hex) (w & Hw & Er & Eo & Eh & Lw) Hin.
          pose proof (Hrest1 y Hy) as Hyl1. destruct Hex as [Uy|[Hry Ua]].
          - assert (Hm : memH HO (nhash w) Ltr = true).
            { apply (Hspec w Hw Lw). exists y. split; [exact Hy|]. unfold coord at 2. rewrite Er, Eo. exact Uy. }
            apply HR, MapMutRemove.kill_live in Hin. rewrite <- Eh in Hin. destruct Hin as [_ Hm']. congruence.
          - apply (leaf_not_above H HO T HT s1 HnT1 (MapMutRemove.leaves_under H HO s1 y) y Hyl1
                     (fun w0 Hw0 Lw0 => MapMutRemove.leaves_under_spec H HO HOK s1 y w0 (MapMutRemove.kill_nodup H HO L1 s Hnd) Hw0 Lw0)
                     Hry w Hw Lw).
            unfold coord. rewrite Er, Eo. exact Ua. }
        destruct (nroot y1) eqn:Hr1.
        * (* a tree comes back *)
          rewrite (step_root_eq H HO false T HT s HnT y1 (nd1, ca1) Hy1 Hr1).
          2:{ cbn [fst]. exact (root_parent_unstored H HO T HT s HnT L1 y1 Hy1 Hdel1 Hr1 nd1 HU1). }
          exists (nd1, ca1). split; [reflexivity|]. cbn [fst snd].
          assert (HEw : forall r o, EXall H rest r o \/ under (coord y1) (r, o) -> EXall H (y1 :: rest) r o).
          { intros r o [(y & Hy & Hex)|U]; [exists y; split; [right; exact Hy|exact Hex]|].
            exists y1. split; [left; reflexivity|left; exact U]. }
          split; [|split].
          -- apply (WInvX_weaken H (Vlay HO s) (RTlay HO s) Rw T (fun r o => EXall H rest r o \/ under (coord y1) (r, o))); [exact HEw|].
             exact (stepR_WInvX H HO T HT s HnT Hnd L1 y1 Hy1 Hdel1 Hr1 Rw (EXall H rest) nd1 ca1 HR1 W1).
          -- exact (stepR_Unode H HO T HT s HnT Hnd L1 y1 Hy1 Hdel1 Hr1 nd1 HU1).
          -- apply (TD_weaken H HO (Vlay HO s) (RTlay HO s) R T (fun r o => EXall H rest r o \/ under (coord y1) (r, o))); [exact HEw|].
             exact (stepR_TD H HO T HT s HnT Hnd L1 y1 Hy1 Hdel1 Hr1 R (EXall H rest) nd1 D1).
        * (* a subtree comes back: its sibling goes down again *)
          assert (HXout : forall r o, EXall H rest r o -> ~ inRegG (nrow y1) (noff y1) r o).
          { intros r o (y & Hy & Hex) Hreg. apply inRegG_under in Hreg.
            exact (indep_EX_out H y1 y r o (Hhead y Hy) Hex Hreg). }
          destruct (stepD2 H HO HOK Hh2 false T HT s HnT Hnd Hlv L1 y1 Hy1 Hdel1 Hr1 Rw (EXall H rest) nd1 ca1 HR1 HXout HXleaf W1 HU1)
            as (st1 & Ep & W2 & HU2).
          pose proof (stepD_TD H HO HOK Hh2 T HT s HnT Hnd Hlv L1 y1 Hy1 Hdel1 Hr1 Rw R (EXall H rest) nd1 ca1 st1
                        HR1 HRsub HXout W1 Hleaf1 D1 Ep) as D2.
          rewrite (step_nonroot_eq H HO false T HT s HnT y1 (nd1, ca1) st1 Hy1 Hr1 Ep).
          eexists. split; [reflexivity|].
          assert (HEw : forall r o, EXall H rest r o \/ XnD H y1 r o \/ inDelG (nrow y1) (noff y1) r o -> EXall H (y1 :: rest) r o).
          { intros r o [(y & Hy & Hex)|[U|Hd]].
            - exists y. split; [right; exact Hy|exact Hex].
            - exists y1. split; [left; reflexivity|right; split; [exact Hr1|exact U]].
            - exists y1. split; [left; reflexivity|left; apply inDelG_under; exact Hd]. }
          split; [|split; [exact HU2|]].
          -- exact (WInvX_weaken H (Vlay HO s) (RTlay HO s) Rw T _ _ _ _ HEw W2).
          -- exact (TD_weaken H HO (Vlay HO s) (RTlay HO s) R T _ _ _ HEw D2).
  Qed.
End MoveDownT.

(** * Part 7: the end of [undoDeletion] *)
Section UndoDelEndT.
  Variable H : Type.
  Variable HO : ops H.
  Hypothesis HOK : ops_ok HO.
  Hypothesis Hh2 : forall x y, op_eqb HO (op_hash2 HO x y) (op_empty HO) = false.
  Variable T : N.
  Hypothesis HT : T <= 63.
  Variable s : slots H.
  Hypothesis HnT : N.of_nat (length s) <= 2 ^ T.
  Hypothesis Hnd : NoDup (live s).
  Hypothesis Hlv : leaves_ok H HO s.
  Variables (hs : list H) (tsn : list (node H)).
  Hypothesis Hndh : NoDup hs.
  Hypothesis Hts : find_leaves HO (layout HO s) hs = Some tsn.
  Notation lay := (layout HO s).
  Notation n := (N.of_nat (length s)).
  Notation tr := (TreeRows (N.of_nat (length s))).
  Notation Rw := (rows_of (num_leaves s)).
  Notation gpx := (fun x : node H => gp T (nrow x) (noff x)).
  Notation ts := (map (npos Rw) tsn).
  Notation K := (known_set lay tsn).
  Notation PC := (proof_coords lay tsn).
  Notation SC := (sort_coords Rw (proof_coords lay tsn)).
  Notation pf := (canon_proof_hashes HO Rw lay tsn).
  Notation fposT := (fun e : N * (nat * N) => gp T (fst (snd e)) (snd (snd e))).
  Notation ghash := (fun e : N * (nat * N) =>
                       match find_coord lay (fst (snd e)) (snd (snd e)) with
                       | Some x => nhash x | None => op_empty HO end).

  Let n63 : n <= 2 ^ 63.
  Proof. assert (2 ^ T <= 2 ^ 63) by (apply UtilsGeom.pow2_le; exact HT). lia. Qed.
  Let Tlo : tr <= T.
  Proof. apply TreeRows_le_iff. exact HnT. Qed.
  Let tr63 : tr <= 63.
  Proof. apply TreeRows_le_63. exact n63. Qed.
  Let Wit := Inv_witness H HO s T false n63 Tlo HT.
  Let Hlay : forall x, In x tsn -> In x lay := proj1 (cc_find_leaves_facts HO s hs tsn HOK Hndh Hts).
  Let Hleaf : forall x, In x tsn -> nleaf x = true :=
    proj1 (proj2 (cc_find_leaves_facts HO s hs tsn HOK Hndh Hts)).
  Let Hndt : NoDup tsn := proj1 (proj2 (proj2 (cc_find_leaves_facts HO s hs tsn HOK Hndh Hts))).
  Let Ehs : map (@nhash H) tsn = hs :=
    proj1 (proj2 (proj2 (proj2 (cc_find_leaves_facts HO s hs tsn HOK Hndh Hts)))).
  Let Kv := Vlay_ok H HO s T HnT HT.

  Let ude_tts' := ude_tts H HO HOK false T HT s HnT hs tsn Hndh Hts.
  Let ude_pc_node' := ude_pc_node H HO HOK false T HT s HnT hs tsn Hndh Hts.
  Let ude_valid' := ude_valid H HO T HT s HnT.
  Let ude_gpx_inj' := ude_gpx_inj H HO T HT s HnT.

  (** the state after the nodes have been moved down *)
  Variable R' : list H.
  Variable X : nat -> N -> Prop.
  Variables (nd1 : list (N * (H * bool))) (ca1 : list (H * N)).
  Hypothesis HRdis : forall z, In z R' -> ~ In z hs.
  Hypothesis HXK : forall r o h l, X r o -> Vlay HO s r o h l -> In (r, o) K.
  Hypothesis W1 : WInvX (Vlay HO s) (RTlay HO s) R' T X nd1 ca1.
  Hypothesis HU1 : Unode H HO T s nd1.

  Variable R : list H.
  Hypothesis HR'R : forall z, In z R' -> In z R.
  Hypothesis HhsR : forall z, In z hs -> In z R.
  Hypothesis D1 : TD HO (Vlay HO s) (RTlay HO s) R T X nd1.

  Theorem undoDeletion_end_TD (nd3 : nodemap H) (ca3 : cachemap H) :
      (let '(pp0, _) := ProofPositions_fast (sortN ts) n tr in
       let proofPos := if tr =? T then pp0 else translatePositions (trimProofPos n tr pp0) tr T in
       let ogiven := if Nat.eqb (length proofPos) (length pf) then Some pf
                     else if false then Some (map (fun _ => op_empty HO) proofPos) else None in
       match ogiven with
       | None => None
       | Some given =>
           match ud_fill false 0 proofPos given nd1 with
           | None => None
           | Some (nd2, proof') =>
               match calculateHashes HO true n (Some hs) ts proof' with
               | Ok (newhnp, _, _) =>
                   let l := if tr =? T then newhnp
                            else sortK (map (fun e => (translatePos (fst e) tr T, snd e)) newhnp) in
                   let tts := if tr =? T then ts else translatePositions ts tr T in
                   Some (put_calculated HO false tts l (nd2, ca1))
               | _ => None
               end
           end
       end) = Some (nd3, ca3) ->
      TD HO (Vlay HO s) (RTlay HO s) R T noX nd3.
  Proof.
    intros Eend.
    pose proof (ude_proofpos H HO HOK false T HT s HnT hs tsn Hndh Hts) as Epp.
    destruct (ProofPositions_fast (sortN ts) n tr) as [pp0 dd]. cbv zeta in Eend. rewrite Epp in Eend.
    replace (Nat.eqb (length (map fposT SC)) (length pf)) with true in Eend
      by (rewrite (ude_pf H HO s tsn), !map_length; symmetry; apply Nat.eqb_refl).
    assert (Hpcv : forall e, In e SC -> exists sb, In sb lay /\ fposT e = gpx sb /\ ghash e = nhash sb /\
                     In (nrow sb, noff sb) PC).
    { intros e He. apply RefTheory.sort_coords_In in He as (c & Hc & ->). cbn [fst snd].
      destruct (ude_pc_node' c Hc) as (sb & A & B & C & D). exists sb. rewrite D, B, C.
      split; [exact A|]. split; [reflexivity|]. split; [reflexivity|]. destruct c; exact Hc. }
    destruct (ud_fill_spec H fposT ghash false SC [] nd1) as (nd2 & Ef & F1 & F3 & F4 & F5).
    { intros e lf He Ev. destruct (Hpcv e He) as (sb & Hsb & Ep & Eg & Hpc). rewrite Eg.
      rewrite Ep in Ev. destruct lf as [h b].
      destruct (w_true W1 _ _ _ (nodes_get_In H _ _ _ Ev)) as (r & o & Epp' & A & B & [C|(l & Hv)]);
        destruct (ude_valid' sb Hsb) as [A' B']; destruct (gp_inj T _ _ _ _ A' B' A B Epp') as [<- <-].
      - exfalso. exact (ude_K_not_pc H HO s tsn _ Hpc (HXK _ _ _ _ C (node_Vlay H HO s sb Hsb))).
      - cbn [fst]. exact (proj1 (v_fun Kv Hv (node_Vlay H HO s sb Hsb))). }
    { intros a b Ha Hb Ef'. destruct (Hpcv a Ha) as (sa & Hsa & Epa & Ega & _).
      destruct (Hpcv b Hb) as (sb & Hsb & Epb & Egb & _). rewrite Ega, Egb.
      rewrite Epa, Epb in Ef'. rewrite (ude_gpx_inj' sa sb Hsa Hsb Ef'). reflexivity. }
    cbn [length app] in Ef. rewrite (ude_pf H HO s tsn), Ef in Eend.
    destruct (MapMutPrune.ing_calc H HO HOK Hh2 s (fun h Hh => proj1 (Hlv h Hh)) T false [] _ _ Wit hs tsn Hndh Hts)
      as (inter & cands & rows & Ec & I1 & I2).
    fold pf in Ec. rewrite (ude_pf H HO s tsn) in Ec. rewrite Ec in Eend.
    pose proof (MapMutPrune.ing_l H HO s T false [] _ _ Wit tsn inter I1 I2) as [L1 L2].
    rewrite (N.eqb_sym T tr) in L1, L2.
    set (lL := if tr =? T then inter else sortK (map (fun e : hp H => (translatePos (fst e) tr T, snd e)) inter)) in *.
    rewrite ude_tts' in Eend. injection Eend as Epc.
    destruct (MapMutPrune.put_calc_spec H HO HOK false _ lL nd2 ca1 nd3 ca3 Epc) as (Q1 & Q2 & Q3 & Q4 & Q5 & Q6).
    assert (HinL : forall p, In p (map fst lL) <-> exists x, In x lay /\ In (nrow x, noff x) K /\ p = gpx x).
    { intros p. split.
      - intros Hp. apply in_map_iff in Hp as (e & <- & He). destruct (L1 e He) as (x & Hx & Ep & _ & Hk). exists x. auto.
      - intros (x & Hx & Hk & ->). apply in_map_iff. exists (gpx x, nhash x). split; [reflexivity|exact (L2 x Hx Hk)]. }
    assert (HgetL : forall x, In x lay -> In (nrow x, noff x) K ->
              nodes_get nd3 (gpx x) = Some (nhash x, false || memN (gpx x) (map gpx tsn))).
    { intros x Hx Hk. destruct (Q2 (gpx x) (proj2 (HinL _) (ex_intro _ x (conj Hx (conj Hk eq_refl))))) as (h & Hh & Eg).
      rewrite Eg. destruct (L1 _ Hh) as (y & Hy & Ep & Eh & _). cbn [fst snd] in Ep, Eh.
      rewrite (ude_gpx_inj' x y Hx Hy Ep), Eh. reflexivity. }
    assert (HmemT : forall x, In x lay -> (memN (gpx x) (map gpx tsn) = true <-> In x tsn)).
    { intros x Hx. rewrite RefTheory.memN_In, in_map_iff. split.
      - intros (t & Et & Ht). rewrite (ude_gpx_inj' x t Hx (Hlay t Ht) (eq_sym Et)). exact Ht.
      - intros Ht. exists x. auto. }
    assert (Hkeep : forall y, In y lay -> ~ In (nrow y, noff y) K -> nodes_get nd3 (gpx y) = nodes_get nd2 (gpx y)).
    { intros y Hy Hnk. apply Q1. intros Hin. apply HinL in Hin as (x & Hx & Hk & Ep).
      rewrite (ude_gpx_inj' y x Hy Hx Ep) in Hnk. exact (Hnk Hk). }
    assert (HkR : forall c, In c K -> known (Vlay HO s) (RTlay HO s) R (fst c) (snd c)).
    { intros c Hc. apply (known_mono H (Vlay HO s) (Vlay HO s) (RTlay HO s) (RTlay HO s) hs R).
      - intros r1 o1 h1 A B. split; [exact A|exact (HhsR _ B)].
      - auto.
      - exact (set_in_known H HO HOK s n63 hs tsn Hts c Hc). }
    (* tidiness *)
    intros r o h l Hv _. destruct (Vlay_node H HO s _ _ _ _ Hv) as (y & Hy & Ecy & Ehy & Ly). injection Ecy as <- <-.
    assert (Hdec : forall a b : nat * N, {a = b} + {a <> b}) by (decide equality; [apply N.eq_dec|apply Nat.eq_dec]).
    destruct (in_dec Hdec (nrow y, noff y) K) as [HyK|HyK].
    - rewrite (HgetL y Hy HyK). cbn [orb]. split.
      + intros _ Eg. injection Eg as _ Em. apply (HmemT y Hy) in Em. split; [rewrite <- Ly; exact (Hleaf y Em)|].
        apply HhsR. rewrite <- Ehs, <- Ehy. apply in_map, Em.
      + intros _ _. left. exact (HkR _ HyK).
    - rewrite (Hkeep y Hy HyK).
      assert (HnX : ~ X (nrow y) (noff y)) by (intros C; exact (HyK (HXK _ _ _ _ C Hv))).
      destruct (D1 _ _ _ _ Hv HnX) as [T1 T2]. split.
      + intros Hne Eg. destruct (F4 _ _ Eg) as [E1|(e & He & _ & Ev)]; [exact (T1 Hne E1)|]. discriminate.
      + intros Hnr Hst. destruct (nodes_get nd2 (gpx y)) as [v|] eqn:Ev; [|congruence].
        destruct (F4 _ _ Ev) as [E1|(e & He & Ep & _)].
        * apply (T2 Hnr). congruence.
        * right. destruct (Hpcv e He) as (sb & Hsb & Epb & _ & Hpc). rewrite Epb in Ep.
          rewrite (ude_gpx_inj' y sb Hy Hsb Ep) in *.
          apply RefTheory.proof_coords_In in Hpc as (d & Hd & Hdr & _ & Ed). unfold sib_coord in Ed.
          injection Ed as Er Eo. destruct d as [dr dc]. cbn [fst snd] in *. subst dr.
          assert (Edc : dc = N.lxor (noff sb) 1) by (rewrite Eo; symmetry; apply pps_lxor_invol). subst dc.
          split; [exact (HkR _ Hd)|]. exact (proj2 (not_root_coord H HO s _ _) Hdr).
  Qed.
End UndoDelEndT.

(** ** the whole of [undoDeletion] *)
Section UndoDelT.
  Variable H : Type.
  Variable HO : ops H.
  Hypothesis HOK : ops_ok HO.
  Hypothesis Hh2 : forall x y, op_eqb HO (op_hash2 HO x y) (op_empty HO) = false.
  Variable T : N.
  Hypothesis HT : T <= 63.
  Variable s : slots H.
  Hypothesis HnT : N.of_nat (length s) <= 2 ^ T.
  Hypothesis Hnd : NoDup (live s).
  Hypothesis Hlv : leaves_ok H HO s.
  Variables (hs : list H) (tsn : list (node H)).
  Hypothesis Hndh : NoDup hs.
  Hypothesis Hts : find_leaves HO (layout HO s) hs = Some tsn.
  Notation lay := (layout HO s).
  Notation n := (N.of_nat (length s)).
  Notation tr := (TreeRows (N.of_nat (length s))).
  Notation Rw0 := (rows_of (num_leaves s)).
  Notation gpx := (fun x : node H => gp T (nrow x) (noff x)).
  Notation K := (known_set lay tsn).
  Notation under := MapMutRemove.under.

  Let n63 : n <= 2 ^ 63.
  Proof. assert (2 ^ T <= 2 ^ 63) by (apply UtilsGeom.pow2_le; exact HT). lia. Qed.
  Let Tlo : tr <= T.
  Proof. apply TreeRows_le_iff. exact HnT. Qed.
  Let Hlay : forall x, In x tsn -> In x lay := proj1 (cc_find_leaves_facts HO s hs tsn HOK Hndh Hts).
  Let Hleaf : forall x, In x tsn -> nleaf x = true :=
    proj1 (proj2 (cc_find_leaves_facts HO s hs tsn HOK Hndh Hts)).
  Let Hndt : NoDup tsn := proj1 (proj2 (proj2 (cc_find_leaves_facts HO s hs tsn HOK Hndh Hts))).
  Let Ehs : map (@nhash H) tsn = hs :=
    proj1 (proj2 (proj2 (proj2 (cc_find_leaves_facts HO s hs tsn HOK Hndh Hts)))).

  Theorem undoDeletion_TD (Rw R : list H) (nd : list (N * (H * bool))) (ca : list (H * N)) (st2 : maps H) :
    (forall z, In z Rw -> In (Some z) (kill HO hs s)) ->
    WInvX (Vlay HO (kill HO hs s)) (RTlay HO (kill HO hs s)) Rw T noX nd ca ->
    Unode H HO T (kill HO hs s) nd ->
    (forall z, In z Rw -> In z R) -> (forall z, In z hs -> In z R) ->
    TD HO (Vlay HO (kill HO hs s)) (RTlay HO (kill HO hs s)) R T noX nd ->
    undoDeletion HO n T false (map (npos Rw0) tsn) (canon_proof_hashes HO Rw0 lay tsn) hs (nd, ca) = Some st2 ->
    TD HO (Vlay HO s) (RTlay HO s) R T noX (fst st2).
  Proof.
    intros HR W HU HRsub HhsR D Eud.
    destruct (dt_setup H HO HOK T HT s HnT hs tsn Hndh Hts) as (ls & ys & Els & Hls & SSl & Edt & Hys & Hcover & Hfop).
    assert (Etrl : forall x, In x lay -> translatePos (gp tr (nrow x) (noff x)) tr T = gpx x).
    { exact (ude_translate H HO false T HT s HnT). }
    assert (Epos : (if tr =? T then sortN (map (npos Rw0) tsn)
                    else sortN (translatePositions (sortN (map (npos Rw0) tsn)) tr T)) = map gpx ls).
    { rewrite Els, (MapMutPrune.ing_ts H s ls). destruct (N.eqb_spec tr T) as [E|E].
      - rewrite E. reflexivity.
      - unfold translatePositions. rewrite map_map.
        rewrite (map_ext_in _ gpx ls) by (intros x Hx; exact (Etrl x (Hls x Hx))).
        apply sortN_SSlt. exact SSl. }
    (* the loop *)
    destruct (movedown_TD H HO HOK Hh2 T HT ys s HnT Hnd Hlv (fun y Hy => proj1 (Hys y Hy)) Hfop (fun y Hy => proj2 (Hys y Hy)))
      as (Lt & Hspec & Hmd).
    assert (Hdel_leaf : forall w, In w lay -> nleaf w = true -> (memH HO (nhash w) hs = true <-> In w tsn)).
    { intros w Hw Lw. rewrite (memH_In H HO HOK). split.
      - intros Hh. rewrite <- Ehs in Hh. apply in_map_iff in Hh as (t & Et & Ht).
        rewrite (live_leaf_unique H HO s w t Hnd Hw (Hlay t Ht) Lw (Hleaf t Ht) (eq_sym Et)). exact Ht.
      - intros Hx. rewrite <- Ehs. apply in_map, Hx. }
    assert (Ememb : forall h, In (Some h) s -> memH HO h Lt = memH HO h hs).
    { intros h Hh. destruct (live_leaf_in_layout H HO s h Hh) as (w & Hw & Lw & <-).
      pose proof (Hspec w Hw Lw) as S1. pose proof (Hcover w Hw Lw) as S2.
      pose proof (Hdel_leaf w Hw Lw) as S3.
      destruct (memH HO (nhash w) Lt), (memH HO (nhash w) hs); try reflexivity.
      - assert (In w tsn) by (apply S2, S1; reflexivity). assert (false = true) by (apply S3; assumption). discriminate.
      - assert (In w tsn) by (apply S3; reflexivity). assert (false = true) by (apply S1, S2; assumption). discriminate. }
    rewrite (MapMutRemove.kill_ext H HO Lt hs s Ememb) in Hmd.
    assert (HRdead : forall h, In (Some h) s -> ~ In (Some h) (kill HO hs s) -> In h R).
    { intros h Hh Hn. apply HhsR. destruct (memH HO h hs) eqn:Em; [exact (proj1 (memH_In H HO HOK _ _) Em)|].
      exfalso. apply Hn. apply MapMutRemove.kill_live. auto. }
    destruct (Hmd Rw R nd ca HR W HU HRsub HRdead D) as ([nd1 ca1] & Emd & W1 & HU1 & D1). cbn [fst snd] in W1, HU1, D1.
    (* the exempt nodes are known *)
    assert (HXK : forall r o h l, EXall H ys r o -> Vlay HO s r o h l -> In (r, o) K).
    { intros r o h l (y & Hy & Hex) Hv. destruct (MapMutUndo.Vlay_node H HO s _ _ _ _ Hv) as (z & Hz & Ecz & _).
      injection Ecz as <- <-. destruct (Hys y Hy) as (Hyl & z' & Hz' & Lz' & Uz').
      assert (Hz't : In z' tsn) by (apply (Hcover z' Hz' Lz'); exists y; auto).
      destruct Hex as [U|[Rn U]].
      - destruct (leaf_below H HO s _ z eq_refl Hz) as [(w & Hw & Lw & Uw)|(Rz & _ & _)].
        + apply (anc_in_K H HO HOK T HT s HnT Hnd hs tsn Hndh Hts z w Hz); [|exact Uw]. apply (Hcover w Hw Lw). exists y. split; [exact Hy|].
          exact (MapMutRemove.under_trans _ _ _ U Uw).
        + assert (Ezy : z = y).
          { apply (MapMutRemove.ng_coord_eq H HO s z y Hz Hyl).
            pose proof (MapMutRemove.ng_same_tree H HO s y z Hyl Hz U) as Et.
            apply (root_iff_row H HO s z Hz) in Rz. pose proof (node_row_le_tree H HO s y Hyl) as Hle.
            destruct U as [U1 U2]. unfold coord in *. cbn [fst snd] in *.
            assert (Er : nrow z = nrow y) by lia. rewrite Er, Nat.sub_diag, p2_0, N.div_1_r in U2.
            rewrite Er, U2. reflexivity. }
          rewrite Ezy. exact (anc_in_K H HO HOK T HT s HnT Hnd hs tsn Hndh Hts y z' Hyl Hz't Uz').
      - apply (anc_in_K H HO HOK T HT s HnT Hnd hs tsn Hndh Hts z z' Hz Hz't).
        apply (MapMutRemove.under_trans _ (S (nrow y), noff y / 2)); [exact U|].
        apply (MapMutRemove.under_trans _ (coord y)); [exact (proj2 (MapMutRemove.under_sib_par _ _))|exact Uz']. }
    assert (HRdis : forall z, In z Rw -> ~ In z hs).
    { intros z Hz Hin. apply HR, (MapMutRemove.kill_live H HO) in Hz as [_ Hm].
      apply (memH_In H HO HOK) in Hin. congruence. }
    destruct st2 as [nd3 ca3]. cbn [fst].
    apply (undoDeletion_end_TD H HO HOK Hh2 T HT s HnT Hlv hs tsn Hndh Hts Rw (EXall H ys) nd1 ca1 HXK W1 R HhsR D1 nd3 ca3).
    unfold undoDeletion in Eud.
    replace (Nat.eqb (length (map (npos Rw0) tsn)) (length hs)) with true in Eud
      by (rewrite <- Ehs, !map_length; symmetry; apply Nat.eqb_refl).
    cbn [negb] in Eud. cbv zeta in Eud. rewrite Epos, Edt in Eud.
    change (map gpx ys) with (map (posN H T) ys) in Eud.
    match type of Eud with context [ud_movedown ?a ?b ?c ?d ?e ?f] =>
      replace (ud_movedown a b c d e f) with (nd1, ca1, true) in Eud by (symmetry; exact Emd) end.
    exact Eud.
  Qed.
End UndoDelT.

(** ** the whole of [Undo] *)
Section UndoBlockT.
  Variable H : Type.
  Variable HO : ops H.
  Hypothesis HOK : ops_ok HO.
  Hypothesis Hh2 : forall x y, op_eqb HO (op_hash2 HO x y) (op_empty HO) = false.

  Theorem undo_block_tidy (s : slots H) (dels adds : list H) (ts : list N) (pf : list H)
          (R1 R0 : list H) (m1 m2 : mstate H) :
    NoDup (live s) -> leaves_ok H HO s -> NoDup dels ->
    exp_prove HO (mk_ctx HO s) dels = Some (ts, pf) ->
    UInv HO (apply_block HO s dels adds) R1 m1 -> ms_full m1 = false ->
    Tidy (Vlay HO (apply_block HO s dels adds)) (RTlay HO (apply_block HO s dels adds)) R1 (ms_total m1) (ms_nodes m1) ->
    (forall h, In (Some h) s -> In h R1 \/ In h dels -> In h R0) ->
    mm_undo HO m1 (N.of_nat (length adds)) ts pf dels (roots HO s) = Some m2 ->
    Tidy (Vlay HO s) (RTlay HO s) R0 (ms_total m2) (ms_nodes m2).
  Proof.
    intros Hnd Hlv Hndd Ep U Ffull Htd HR0 Emm. destruct U as [Un Un63 Urows UT Und Ulv Ug].
    unfold exp_prove, mk_ctx in Ep. cbn [clay crows] in Ep.
    destruct (find_leaves HO (layout HO s) dels) as [tsn|] eqn:Hts; [|discriminate].
    injection Ep as <- <-.
    set (T := ms_total m1) in *. set (sd := kill HO dels s) in *.
    unfold apply_block in *. fold sd in Un, Und, Ulv, Ug, Htd. set (s1 := sd ++ map Some adds) in *.
    assert (Eld : length sd = length s) by apply (len_kill H HO).
    assert (El1 : N.of_nat (length s1) = N.of_nat (length s) + N.of_nat (length adds)).
    { unfold s1. rewrite app_length, map_length, Eld. lia. }
    unfold num_leaves in Un.
    assert (HnT1 : N.of_nat (length s1) <= 2 ^ T) by (apply TreeRows_le_iff; rewrite <- Un; exact Urows).
    assert (HnT : N.of_nat (length s) <= 2 ^ T) by lia.
    assert (HnTd : N.of_nat (length sd) <= 2 ^ T) by (rewrite Eld; exact HnT).
    assert (Es1 : s1 = sd ++ map Some (rev (rev adds))) by (rewrite rev_involutive; reflexivity).
    pose proof (GInv_WInvX H (Vlay HO s1) (RTlay HO s1) R1 T (ms_nodes m1) (ms_cached m1)
                  (Vlay_ok H HO s1 T HnT1 UT) Ug) as W1.
    assert (HR1 : forall x, In x R1 -> In (Some x) s1).
    { intros x Hx. destruct (g_Rin Ug x Hx) as (r & o & (y & Hy & _ & _ & Eh & El)).
      rewrite <- Eh. exact (layout_leaf_live H HO s1 y Hy El). }
    set (R := R1 ++ dels).
    assert (D0 : TD HO (Vlay HO s1) (RTlay HO s1) R T noX (ms_nodes m1)).
    { apply (TD_mono H HO (Vlay HO s1) (RTlay HO s1) R1 R T noX); [intros h Hh; apply in_or_app; left; exact Hh|].
      apply Tidy_TD. exact Htd. }
    pose proof HR1 as HR1'. pose proof HnT1 as HnT1'. pose proof Ulv as Ulv'. pose proof D0 as D0'.
    rewrite Es1 in HnT1', Ulv', W1, HR1', D0'.
    destruct (undoAdd_loop_ok H HO HOK Hh2 false T UT (rev adds) sd (ms_nodes m1) (ms_cached m1) R1 HnT1' Ulv' W1 HR1')
      as (nd' & ca' & R' & E & W' & HR').
    pose proof (undoAdd_loop_TD H HO HOK Hh2 T UT R (rev adds) sd (ms_nodes m1) (ms_cached m1) R1 _ (nd', ca')
                  HnT1' Ulv' W1 HR1' (fun x Hx => in_or_app _ _ _ (or_introl Hx)) D0' E) as D'.
    cbn [fst] in D'.
    rewrite <- Es1 in E. rewrite rev_length in E.
    (* the positions of the empty roots that were written over *)
    assert (Egw : getWrittenOverEmptyRoots HO (ms_n m1) T (N.of_nat (length adds)) (map (npos (rows_of (num_leaves s))) tsn)
                    (roots HO s) = Some (erpR H HO T sd (rev adds))).
    { rewrite Un, El1.
      assert (Hsub : sub64 (N.of_nat (length s) + N.of_nat (length adds)) (N.of_nat (length adds)) = N.of_nat (length s)).
      { assert (2 ^ T <= 2 ^ 63) by (apply UtilsGeom.pow2_le; exact UT).
        assert (2 ^ 63 < 2 ^ 64) by (apply UtilsGeom.pow2_lt; lia).
        rewrite sub64_small; [lia|lia|rewrite W_eq; lia]. }
      destruct (getRootsAfterDel_ok H HO HOK Hh2 (ms_full m1) T UT s HnT Hnd Hlv dels tsn Hndd Hts _ _ Hsub)
        as (pr & Egr & Hfl).
      fold sd in Hfl. rewrite <- Eld in Egr |- *.
      apply (gwo_gen H HO Hh2 T UT sd HnTd adds _ (roots HO s) pr); [rewrite Eld; lia|exact Egr|exact Hfl]. }
    (* the deletions *)
    assert (HRd : forall z, In z R' -> In (Some z) sd).
    { intros z Hz. apply HR' in Hz as [Hz Hna]. apply HR1 in Hz. unfold s1 in Hz.
      apply in_app_or in Hz as [Hz|Hz]; [exact Hz|]. apply in_map_iff in Hz as (a & Ea & Ha).
      injection Ea as ->. exfalso. apply Hna. apply -> in_rev. exact Ha. }
    assert (HRsub' : forall z, In z R' -> In z R).
    { intros z Hz. apply in_or_app. left. exact (proj1 (proj1 (HR' z) Hz)). }
    assert (HhsR : forall z, In z dels -> In z R) by (intros z Hz; apply in_or_app; right; exact Hz).
    pose proof (WInvX_noX_Unode H HO sd R' T nd' ca' W') as HU'.
    destruct (undoDeletion_ok H HO HOK Hh2 false T UT s HnT Hnd Hlv dels tsn Hndd Hts R' nd' ca' HRd W' HU')
      as (nd3 & ca3 & Eud & W3).
    pose proof (undoDeletion_TD H HO HOK Hh2 T UT s HnT Hnd Hlv dels tsn Hndd Hts R' R nd' ca' (nd3, ca3)
                  HRd W' HU' HRsub' HhsR D' Eud) as D3. cbn [fst] in D3.
    (* the roots *)
    destruct (undo_tail H HO HOK s (R' ++ dels) false T nd3 ca3 UT HnT W3) as (nd4 & Ept & G4).
    assert (Em2 : m2 = mkM nd4 ca3 (N.of_nat (length s)) T false).
    { unfold mm_undo, undoAdd in Emm. fold T in Emm. rewrite Ffull, Egw, Nat2N.id, Un, E, Eld in Emm.
      match type of Emm with context [undoDeletion ?x1 ?x2 ?x3 ?x4 ?x5 ?x6 ?x7 ?x8] =>
        replace (undoDeletion x1 x2 x3 x4 x5 x6 x7 x8) with (Some (nd3, ca3)) in Emm by (symmetry; exact Eud) end.
      match type of Emm with context [put_roots ?x1 ?x2 ?x3 ?x4 ?x5] =>
        replace (put_roots x1 x2 x3 x4 x5) with (Some (nd4, ca3)) in Emm by (symmetry; exact Ept) end.
      injection Emm as <-. reflexivity. }
    subst m2. cbn [ms_total ms_nodes].
    (* the leaves of [s] and the remembered sets *)
    pose proof (proj1 (cc_find_leaves_facts HO s dels tsn HOK Hndd Hts)) as Hlay.
    pose proof (proj1 (proj2 (cc_find_leaves_facts HO s dels tsn HOK Hndd Hts))) as Hleaf.
    pose proof (proj1 (proj2 (proj2 (proj2 (cc_find_leaves_facts HO s dels tsn HOK Hndd Hts))))) as Ehs.
    assert (Hdlive : forall z, In z dels -> In (Some z) s).
    { intros z Hz. rewrite <- Ehs in Hz. apply in_map_iff in Hz as (t & <- & Ht).
      exact (layout_leaf_live H HO s t (Hlay t Ht) (Hleaf t Ht)). }
    assert (HRw : forall x, In x (R' ++ dels) -> In (Some x) s).
    { intros x Hx. apply in_app_or in Hx as [Hx|Hx]; [|exact (Hdlive x Hx)].
      exact (proj1 (proj1 (MapMutRemove.kill_live H HO dels s x) (HRd x Hx))). }
    assert (HRsub0 : forall x, In x (R' ++ dels) -> In x R0).
    { intros x Hx. apply (HR0 x (HRw x Hx)). apply in_app_or in Hx as [Hx|Hx]; [left; exact (proj1 (proj1 (HR' x) Hx))|right; exact Hx]. }
    assert (D3' : TD HO (Vlay HO s) (RTlay HO s) R0 T noX nd3).
    { apply (TD_leaves H HO (Vlay HO s) (RTlay HO s) R R0 T noX nd3); [|exact D3].
      intros r o h (y & Hy & _ & _ & Eh & Ly) Hin. apply (HR0 h).
      - rewrite <- Eh. exact (layout_leaf_live H HO s y Hy Ly).
      - apply in_app_or in Hin. exact Hin. }
    assert (Hca : forall h, cached_has HO ca3 h = true -> In h (R' ++ dels)).
    { intros h Hc. apply (w_cR W3). exact (proj1 (cached_has_true H HO HOK ca3 h) Hc). }
    rewrite (RootPositions_forest H HO T UT s HnT) in Ept. unfold roots in Ept.
    destruct (put_roots_TD H HO HOK T UT s HnT Hlv (R' ++ dels) R0 HRw HRsub0 (forest HO s) (nd3, ca3) nd4
                (fun e He => He) Hca D3' Ept) as (D4 & _ & Hroots).
    exact (TD_roots_Tidy H HO HOK Hh2 T UT s HnT Hlv (R' ++ dels) R0 HRw HRsub0 nd4 ca3 Hca D4 Hroots).
  Qed.

  (** the premise of the theorems on partial forests in MapMutUndo3.v *)
  Theorem undo_tidy_holds : undo_tidy H HO.
  Proof.
    intros s0 R0 adds dels ts pf m m2 I Ffull Hnn Hb Hni Hnd0 Hlive0 Ep Emm.
    destruct Hb as (Hd & Hfit & Hadd). cbn [fst snd] in Hd, Hfit, Hadd.
    assert (Hnn1 : MapMutUnify2.nimage HO (apply_block HO s0 dels (map fst adds))).
    { apply (MapMutUnify2.nimage_block H HO s0 dels (map fst adds) Hnn). exact Hni. }
    pose proof (AddInv_UInv H HO _ _ _ I (fun h Hh x y => Hnn1 h x y Hh)) as U1.
    assert (Hlv0 : leaves_ok H HO s0).
    { intros h Hh. split; [exact (Hlive0 h Hh)|]. intros x y. exact (Hnn h x y Hh). }
    rewrite <- (map_length fst adds) in Emm.
    apply (undo_block_tidy s0 dels (map fst adds) ts pf _ R0 m m2 Hnd0 Hlv0 (proj1 Hd) Ep U1 Ffull
             (MapMutAdd.inv_tidy H HO _ _ m I Ffull)); [|exact Emm].
    intros h Hh [Hin|Hin]; [|exact (proj2 Hd h Hin)].
    destruct (Rnext_fold_In H _ _ _ _ Hin) as [C|C].
    - apply filter_In in C as [C _]. exact C.
    - destruct (memH HO h dels) eqn:Em; [exact (proj2 Hd h (proj1 (memH_In H HO HOK _ _) Em))|].
      exfalso. apply (adds_ok_fresh H HO false adds _ _ h Hadd); [|exact C].
      apply (MapMutRemove.kill_live H HO). auto.
  Qed.
End UndoBlockT.

(** * Part 8: the histories of MapMutUndo3.v on partial forests, without the premise *)
Section PartialHistories.
  Variable H : Type.
  Variable HO : ops H.
  Hypothesis HOK : ops_ok HO.
  Hypothesis Hh2 : forall x y, op_eqb HO (op_hash2 HO x y) (op_empty HO) = false.

  Theorem partial_history_ok_closed (T : N) (l : list (sop H)) :
    T <= 63 -> svalid H HO false (st0 H) l ->
    exists m, srun_all H HO false (st0 H) (m0 H false T) l = Some m /\
      let top := fst (sfinal H HO false (st0 H) l) in
      let kept := as_bops H (rev (net H l [])) in
      MapMutAdd.Inv H HO (fst top) (snd top) m /\ consistent HO (fst top) (snd top) m /\ ms_full m = false /\
      top = hfinal2 H HO false ([], []) kept /\ hvalid2 H HO false ([], []) kept.
  Proof. exact (partial_history_ok H HO HOK Hh2 T l (undo_tidy_holds H HO HOK Hh2)). Qed.

  (** the observables of the state reached: those of the reference for the snapshot on top *)
  Theorem partial_history_observables (T : N) (l : list (sop H)) :
    T <= 63 -> svalid H HO false (st0 H) l ->
    exists m, srun_all H HO false (st0 H) (m0 H false T) l = Some m /\
      let sF := fst (fst (sfinal H HO false (st0 H) l)) in
      let RF := snd (fst (sfinal H HO false (st0 H) l)) in
      getRoots HO m = roots HO sF /\ ms_n m = num_leaves sF /\
      (forall hs, (forall h, In h hs -> In h RF) -> NoDup hs ->
         Prove HO m hs = exp_prove HO (mk_ctx HO sF) hs) /\
      (forall h, GetLeafPosition HO m h = exp_leafpos HO (mk_ctx HO sF) (memH HO h RF) h).
  Proof.
    intros HT Hv.
    destruct (shistory_observables H HO HOK Hh2 false (fun _ => undo_tidy_holds H HO HOK Hh2) T l HT Hv)
      as (m & E & Hr & Hn & Hp & Hl & _).
    exists m. cbv zeta. auto.
  Qed.

  (** ... are those of the state reached by applying only the blocks that were not undone *)
  Theorem partial_history_as_if (T : N) (l : list (sop H)) :
    T <= 63 -> svalid H HO false (st0 H) l ->
    exists m m', srun_all H HO false (st0 H) (m0 H false T) l = Some m /\
      hrun2 H HO false ([], []) (m0 H false T) (as_bops H (rev (net H l []))) = Some m' /\
      getRoots HO m = getRoots HO m' /\ ms_n m = ms_n m' /\
      (forall h, GetLeafPosition HO m h = GetLeafPosition HO m' h) /\
      (forall hs, (forall h, In h hs -> exists p, GetLeafPosition HO m h = Some p) -> NoDup hs ->
         Prove HO m hs = Prove HO m' hs).
  Proof. exact (shistory_as_if H HO HOK Hh2 false (fun _ => undo_tidy_holds H HO HOK Hh2) T l). Qed.
End PartialHistories.

(** the partial history of MapMutUndo3.v, now by theorem *)
From Utreexo Require Import Spec.Term.
Example mmu4_partial_history :
  exists m, srun_all term term_ops false (st0 term) (m0 term false 0) mmu3_pl = Some m /\
    let top := fst (sfinal term term_ops false (st0 term) mmu3_pl) in
    MapMutAdd.Inv term term_ops (fst top) (snd top) m /\ consistent term_ops (fst top) (snd top) m.
Proof.
  destruct (partial_history_ok_closed term term_ops term_ops_ok term_node_nonzero 0 mmu3_pl ltac:(discriminate) mmu3_partial_valid)
    as (m & E & I & Hc & _).
  exists m. cbv zeta. auto.
Qed.

Print Assumptions pulldown_TD.
Print Assumptions usa_loop_TD.
Print Assumptions undoAdd_loop_TD.
Print Assumptions movedown_TD.
Print Assumptions undoDeletion_end_TD.
Print Assumptions undoDeletion_TD.
Print Assumptions undo_block_tidy.
Print Assumptions undo_tidy_holds.
Print Assumptions partial_history_ok_closed.
Print Assumptions partial_history_observables.
Print Assumptions partial_history_as_if.
Print Assumptions mmu4_partial_history.
