(** General blocks (deletions, then additions) in the histories of the map forest, and the
    observable consequences for every state a history reaches.

    - Part 1 (GOAL A): [modify_seq]: [mm_modify HO m adds dels targets proof] IS the deletion-only
      [Modify] followed by the addition-only [Modify] (from the definition in Model/MapMut.v);
      [block_Inv]: a block whose deleted leaves are distinct and remembered, with the canonical
      targets of [exp_prove] in any order, and whose additions satisfy [adds_ok] w.r.t.
      [kill dels s], preserves [MapMutAdd.Inv] with [(s, R) -> (apply_block HO s dels (map fst adds),
      ...)] - from [MapMutRemoveTidy.delete_leaves_AInv] (full AND partial forests) and
      [MapMutAdd.modify_adds_gen]; [block_Inv_full] is the instance for full forests, which only
      needs [MapMutRemoveTidy.delete_leaves_AInv_full].  Side condition of the deletions: no live
      leaf is a [hash2] image ([nimage s]); it is kept by [kill] and by adding leaves that are no
      images, so a history only has to say it about the ADDED leaves ([svalid_hvalid]).
    - Part 2 (GOAL B): the operations [Block adds dels | Old o] ([o] an operation of
      Proofs/MapMutUnify.v: deletion-free block, [Prune], [Ingest], [VerifyRemember]), the instance
      [history2_ok] of [MapMutUnify.history_generic], for full and partial forests.
    - Part 3 (GOAL C): for every state [m] reached: [getRoots HO m = roots HO sF],
      [ms_n m = num_leaves sF] (C01), [Prove] = the canonical proof for remembered leaves (C02),
      [GetLeafPosition] (C10); on a full forest the remembered leaves are exactly the live ones
      ([full_R_live]), so [GetLeafPosition] answers iff the leaf is live.
    - Part 4: deciding the side conditions; an example on a full forest allocated with 0 rows. *)
From Utreexo Require Import Base.Hash Model.Utils Model.UtilsFast Model.Verify Model.MapRead
  Model.MapMut Spec.Forest Spec.Oracle Proofs.UtilsGeom Proofs.UtilsGeom2 Proofs.SpecBasics
  Proofs.StumpAdd Proofs.LayoutStruct Proofs.MapReadSpec Proofs.MapMutAdd Proofs.MapMutUnify
  Proofs.MapMutRemoveTidy.
From Utreexo Require Proofs.RefTheory.
From Coq Require Import List Arith PeanoNat NArith Lia ZifyNat ZifyN ZifyBool Bool Permutation.
Import ListNotations.
Open Scope N_scope.

(** * 1. A general block *)
Section Block.
  Variable H : Type.
  Variable HO : ops H.
  Hypothesis HOK : ops_ok HO.
  Hypothesis Hh2 : forall x y, op_eqb HO (op_hash2 HO x y) (op_empty HO) = false.
  Notation AInv := (MapMutAdd.Inv H HO).
  Notation keep L := (fun h => negb (memH HO h L)).

  (** [Modify] = the deletions, then the additions *)
  Theorem modify_seq (m : mstate H) adds dels targets proof :
    mm_modify HO m adds dels targets proof =
    match mm_modify HO m [] dels targets proof with
    | Some m1 => mm_modify HO m1 adds [] [] []
    | None => None
    end.
  Proof.
    unfold mm_modify at 1 2. destruct (MapMut.remove HO m dels targets) as [[nd ca]|]; [|reflexivity].
    cbn [add_all]. unfold mm_modify, MapMut.remove.
    cbn [ms_n ms_total ms_nodes ms_cached ms_full forallb negb fold_left].
    change (sortN []) with (@nil N).
    replace (deTwin (if ms_total m =? TreeRows (ms_n m) then []
                     else translatePositions [] (TreeRows (ms_n m)) (ms_total m)) (ms_total m))
      with (@nil N) by (destruct (ms_total m =? TreeRows (ms_n m)); reflexivity).
    reflexivity.
  Qed.

  (** no live leaf is the hash of an inner node, whatever the children *)
  Definition nimage (s : slots H) : Prop := forall h a b, In (Some h) s -> h <> op_hash2 HO a b.

  Lemma In_kill dels (s : slots H) h : In (Some h) (kill HO dels s) ->
    In (Some h) s /\ memH HO h dels = false.
  Proof.
    unfold kill. intros Hin. apply in_map_iff in Hin as ([k|] & E & Hin); [|discriminate].
    destruct (memH HO k dels) eqn:Em; [discriminate|]. injection E as <-. auto.
  Qed.

  Lemma kill_In dels (s : slots H) h : In (Some h) s -> memH HO h dels = false ->
    In (Some h) (kill HO dels s).
  Proof.
    intros Hin Em. unfold kill. apply in_map_iff. exists (Some h). rewrite Em. auto.
  Qed.

  Lemma nimage_block s dels (adds : list H) : nimage s ->
    (forall a x y, In a adds -> a <> op_hash2 HO x y) -> nimage (apply_block HO s dels adds).
  Proof.
    intros Hs Ha h a b Hin. unfold apply_block in Hin. apply in_app_or in Hin as [Hin|Hin].
    - apply In_kill in Hin as [Hin _]. exact (Hs h a b Hin).
    - apply in_map_iff in Hin as (k & E & Hk). injection E as ->. exact (Ha h a b Hk).
  Qed.

  (** the side conditions of the deletions of a block on the state [(s, R)] *)
  Definition dels_ok (s : slots H) (R dels : list H) : Prop :=
    NoDup dels /\ (forall h, In h dels -> In h R).

  (** the additions after a deletion-only [Modify] that kept the invariant *)
  Lemma block_of_deletion s R m adds dels targets proof m1 :
    mm_modify HO m [] dels targets proof = Some m1 ->
    AInv (kill HO dels s) (filter (keep dels) R) m1 ->
    ms_total m1 = ms_total m -> ms_full m1 = ms_full m ->
    N.of_nat (length s) + N.of_nat (length adds) <= 2 ^ 63 ->
    adds_ok H HO (kill HO dels s) (filter (keep dels) R) (ms_full m) adds ->
    exists m', mm_modify HO m adds dels targets proof = Some m' /\
      AInv (apply_block HO s dels (map fst adds))
           (fold_left (Rnext H (ms_full m)) adds (filter (keep dels) R)) m' /\
      ms_total m <= ms_total m' /\ ms_full m' = ms_full m.
  Proof.
    intros E1 I1 ET Ef Hfit Hok. rewrite modify_seq, E1.
    destruct (modify_adds_gen H HO HOK Hh2 adds (kill HO dels s) (filter (keep dels) R) m1 I1)
      as (m2 & E2 & I2 & HT2 & Ef2).
    - rewrite (length_kill H HO). exact Hfit.
    - rewrite Ef. exact Hok.
    - exists m2. split; [exact E2|]. rewrite Ef in I2. split; [exact I2|]. split; [lia|congruence].
  Qed.

  (** the leaves found by [exp_prove] are what the deletion theorems ask for *)
  Lemma dels_leaves s R dels ts pf : dels_ok s R dels ->
    exp_prove HO (mk_ctx HO s) dels = Some (ts, pf) ->
    exists xs, NoDup xs /\
      (forall x, In x xs -> In x (layout HO s) /\ nleaf x = true /\ In (nhash x) R) /\
      (forall h, In h dels <-> exists x, In x xs /\ nhash x = h) /\
      ts = map (npos (rows_of (num_leaves s))) xs.
  Proof.
    intros [Hnd Hsub] Ep. unfold exp_prove, mk_ctx in Ep. cbn [clay crows] in Ep.
    destruct (find_leaves HO (layout HO s) dels) as [xs|] eqn:Hxs; [|discriminate].
    injection Ep as <- <-. exists xs.
    pose proof (RefTheory.find_leaves_hashes H HO HOK _ _ _ Hxs) as Eh.
    split; [exact (RefTheory.find_leaves_NoDup H HO HOK _ _ _ Hnd Hxs)|]. split; [|split; [|reflexivity]].
    - intros x Hx. destruct (leaves_nodes H HO HOK s dels xs Hxs x Hx) as [A B].
      split; [exact A|]. split; [exact B|]. apply Hsub. rewrite <- Eh. apply in_map, Hx.
    - intros h. rewrite <- Eh, in_map_iff. split; intros (x & A & B); exists x; auto.
  Qed.

  (** GOAL A: full and partial forests *)
  Theorem block_Inv s R m adds dels ts pf targets proof : AInv s R m -> nimage s ->
    dels_ok s R dels -> exp_prove HO (mk_ctx HO s) dels = Some (ts, pf) -> Permutation targets ts ->
    N.of_nat (length s) + N.of_nat (length adds) <= 2 ^ 63 ->
    adds_ok H HO (kill HO dels s) (filter (keep dels) R) (ms_full m) adds ->
    exists m', mm_modify HO m adds dels targets proof = Some m' /\
      AInv (apply_block HO s dels (map fst adds))
           (fold_left (Rnext H (ms_full m)) adds (filter (keep dels) R)) m' /\
      ms_total m <= ms_total m' /\ ms_full m' = ms_full m.
  Proof.
    intros I Hnn Hd Ep Hperm Hfit Hok.
    destruct (dels_leaves s R dels ts pf Hd Ep) as (xs & Hnd & Hxs & Hdels & ->).
    destruct (delete_leaves_AInv H HO HOK s R m xs dels targets proof I Hnn Hnd Hxs Hdels Hperm)
      as (m1 & E1 & I1 & En & ET & Ef).
    exact (block_of_deletion s R m adds dels targets proof m1 E1 I1 ET Ef Hfit Hok).
  Qed.

  (** ... on a full forest, from the deletion theorem for full forests alone *)
  Theorem block_Inv_full s R m adds dels ts pf targets proof : AInv s R m -> ms_full m = true ->
    nimage s -> dels_ok s R dels -> exp_prove HO (mk_ctx HO s) dels = Some (ts, pf) ->
    Permutation targets ts ->
    N.of_nat (length s) + N.of_nat (length adds) <= 2 ^ 63 ->
    adds_ok H HO (kill HO dels s) (filter (keep dels) R) true adds ->
    exists m', mm_modify HO m adds dels targets proof = Some m' /\
      AInv (apply_block HO s dels (map fst adds))
           (fold_left (Rnext H true) adds (filter (keep dels) R)) m' /\
      ms_total m <= ms_total m' /\ ms_full m' = true.
  Proof.
    intros I Hfull Hnn Hd Ep Hperm Hfit Hok.
    destruct (dels_leaves s R dels ts pf Hd Ep) as (xs & Hnd & Hxs & Hdels & ->).
    destruct (delete_leaves_AInv_full H HO HOK s R m xs dels targets proof I Hfull Hnn Hnd Hxs Hdels Hperm)
      as (m1 & E1 & I1 & En & ET & Ef).
    rewrite <- Hfull.
    exact (block_of_deletion s R m adds dels targets proof m1 E1 I1 ET Ef Hfit
             ltac:(rewrite Hfull; exact Hok)).
  Qed.
End Block.
Arguments nimage {H} HO s.
Arguments dels_ok {H} s R dels.

(** * 2. Histories with general blocks *)
Section History2.
  Variable H : Type.
  Variable HO : ops H.
  Hypothesis HOK : ops_ok HO.
  Hypothesis Hh2 : forall x y, op_eqb HO (op_hash2 HO x y) (op_empty HO) = false.
  Notation AInv := (MapMutAdd.Inv H HO).
  Notation astate := (slots H * list H)%type.
  Notation keep L := (fun h => negb (memH HO h L)).

  Inductive bop : Type :=
  | Block (adds : list (H * bool)) (dels : list H)   (* [Modify]: delete [dels], then add [adds] *)
  | Old (o : mop H).                                  (* deletion-free block, Prune, Ingest, Verify *)

  Definition block_next (full : bool) (st : astate) adds dels : astate :=
    (apply_block HO (fst st) dels (map fst adds),
     fold_left (Rnext H full) adds (filter (keep dels) (snd st))).

  Definition block_ok (full : bool) (st : astate) (adds : list (H * bool)) (dels : list H) : Prop :=
    dels_ok (fst st) (snd st) dels /\
    N.of_nat (length (fst st)) + N.of_nat (length adds) <= 2 ^ 63 /\
    adds_ok H HO (kill HO dels (fst st)) (filter (keep dels) (snd st)) full adds.

  Definition bop_ok (full : bool) (st : astate) (o : bop) : Prop :=
    match o with
    | Block adds dels => nimage HO (fst st) /\ block_ok full st adds dels
    | Old o => mop_ok H HO full st o
    end.
  Definition bop_next (full : bool) (st : astate) (o : bop) : astate :=
    match o with
    | Block adds dels => block_next full st adds dels
    | Old o => mop_next H HO full st o
    end.
  (** the targets (and the proof) of the deletions are the canonical ones of the reference *)
  Definition bop_run (st : astate) (m : mstate H) (o : bop) : option (mstate H) :=
    match o with
    | Block adds dels => match exp_prove HO (mk_ctx HO (fst st)) dels with
                         | Some (ts, pf) => mm_modify HO m adds dels ts pf
                         | None => None
                         end
    | Old o => mop_run H HO st m o
    end.

  Theorem bop_pres st m o : AInv (fst st) (snd st) m -> bop_ok (ms_full m) st o ->
    exists m', bop_run st m o = Some m' /\
               AInv (fst (bop_next (ms_full m) st o)) (snd (bop_next (ms_full m) st o)) m' /\
               ms_full m' = ms_full m.
  Proof.
    destruct o as [adds dels|o]; [|exact (mop_pres H HO HOK Hh2 st m o)].
    destruct st as [s R]. cbn [bop_ok bop_next bop_run block_next fst snd]. intros I (Hnn & Hd & Hfit & Hok).
    cbn [fst snd] in *.
    pose proof (MapMutAdd.Inv_consistent H HO HOK s R m I) as Hc.
    destruct (exp_prove_live H HO HOK s dels) as (ts & pf & Ep).
    { intros h Hh. exact (cs_R_live Hc h (proj2 Hd h Hh)). }
    rewrite Ep.
    destruct (block_Inv H HO HOK Hh2 s R m adds dels ts pf ts pf I Hnn Hd Ep (Permutation_refl _) Hfit Hok)
      as (m' & E & I' & _ & F).
    exists m'. auto.
  Qed.

  Definition hvalid2 := valid H bop bop_ok bop_next.
  Definition hfinal2 := final H bop bop_next.
  Definition hrun2 := run_all H bop bop_next bop_run.

  (** every valid history (general blocks, Prune, Ingest, Verify-with-remember; full or partial
      forest) from the empty forest runs without error and ends in the invariant *)
  Theorem history2_ok (T : N) (full : bool) (l : list bop) : T <= 63 -> hvalid2 full ([], []) l ->
    exists m, hrun2 full ([], []) (mkM [] [] 0 T full) l = Some m /\
      AInv (fst (hfinal2 full ([], []) l)) (snd (hfinal2 full ([], []) l)) m /\ ms_full m = full.
  Proof.
    intros HT Hv.
    exact (history_generic H HO bop bop_ok bop_next bop_run bop_pres l full ([], []) (mkM [] [] 0 T full)
             eq_refl (MapMutAdd.Inv_empty H HO T full HT) Hv).
  Qed.

  (** ** the "no live leaf is a [hash2] image" condition, from the added leaves alone *)
  Definition noimg (adds : list (H * bool)) : Prop :=
    forall a x y, In a (map fst adds) -> a <> op_hash2 HO x y.

  Definition bop_sok (full : bool) (st : astate) (o : bop) : Prop :=
    match o with
    | Block adds dels => noimg adds /\ block_ok full st adds dels
    | Old (AddBlock adds) => noimg adds /\ mop_ok H HO full st (AddBlock adds)
    | Old o => mop_ok H HO full st o
    end.
  Fixpoint svalid (full : bool) (st : astate) (l : list bop) : Prop :=
    match l with
    | [] => True
    | o :: r => bop_sok full st o /\ svalid full (bop_next full st o) r
    end.

  Lemma nimage_next full st o : nimage HO (fst st) -> bop_sok full st o ->
    nimage HO (fst (bop_next full st o)).
  Proof.
    intros Hn Hok. destruct o as [adds dels|[adds|hs|hs|hs]]; cbn [bop_next mop_next block_next fst];
      try exact Hn.
    - exact (nimage_block H HO (fst st) dels (map fst adds) Hn (proj1 Hok)).
    - destruct Hok as [Hi _]. intros h a b Hin. apply in_app_or in Hin as [Hin|Hin]; [exact (Hn h a b Hin)|].
      apply in_map_iff in Hin as (k & E & Hk). injection E as ->. exact (Hi h a b Hk).
  Qed.

  Theorem svalid_hvalid full l : forall st, nimage HO (fst st) -> svalid full st l -> hvalid2 full st l.
  Proof.
    induction l as [|o r IH]; intros st Hn Hv; [exact I|]. destruct Hv as [Ho Hr].
    split; [|exact (IH _ (nimage_next full st o Hn Ho) Hr)].
    destruct o as [adds dels|[adds|hs|hs|hs]]; cbn [bop_sok bop_ok] in *; try exact Ho.
    - split; [exact Hn|exact (proj2 Ho)].
    - exact (proj2 Ho).
  Qed.

  Lemma nimage_nil : nimage HO (@nil (option H)).
  Proof. intros h a b []. Qed.

  (** ** on a full forest the remembered leaves are the live ones *)
  Definition R_live (st : astate) : Prop := forall h, In h (snd st) <-> In (Some h) (fst st).

  Lemma In_Rnext_true adds : forall R h,
    In h (fold_left (Rnext H true) adds R) <-> In h R \/ In h (map fst adds).
  Proof.
    induction adds as [|e adds IH]; intros R h; cbn [fold_left map In]; [tauto|].
    rewrite IH. unfold Rnext. cbn [orb]. rewrite in_app_iff. cbn [In]. tauto.
  Qed.

  Lemma R_live_next st o : R_live st -> bop_ok true st o -> R_live (bop_next true st o).
  Proof.
    intros HP Hok h. destruct o as [adds dels|[adds|hs|hs|hs]];
      cbn [bop_next mop_next block_next fst snd bop_ok mop_ok] in *.
    - rewrite In_Rnext_true, filter_In, (HP h). unfold apply_block. rewrite in_app_iff. split.
      + intros [[A B]|A]; [left; apply (kill_In H HO); [exact A|]|right; apply in_map, A].
        destruct (memH HO h dels); [discriminate|reflexivity].
      + intros [A|A].
        * apply (In_kill H HO) in A as [A B]. left. rewrite B. auto.
        * right. apply in_map_iff in A as (k & E & Hk). injection E as ->. exact Hk.
    - rewrite In_Rnext_true, (HP h), in_app_iff. split; (intros [A|A]; [left; exact A|right]).
      + apply in_map, A.
      + apply in_map_iff in A as (k & E & Hk). injection E as ->. exact Hk.
    - exact (HP h).
    - rewrite in_app_iff, (HP h). split; [intros [A|A]; [exact A|exact (proj2 Hok h A)]|auto].
    - rewrite in_app_iff, (HP h). split; [intros [A|A]; [exact A|exact (proj2 Hok h A)]|auto].
  Qed.

  Theorem full_R_live l : forall st, R_live st -> hvalid2 true st l -> R_live (hfinal2 true st l).
  Proof.
    induction l as [|o r IH]; intros st HP Hv; [exact HP|]. destruct Hv as [Ho Hr].
    exact (IH _ (R_live_next st o HP Ho) Hr).
  Qed.
End History2.
Arguments Block {H} adds dels.
Arguments Old {H} o.

(** * 3. What every reached state answers (C01, C02, C10) *)
Section Observables.
  Variable H : Type.
  Variable HO : ops H.
  Hypothesis HOK : ops_ok HO.
  Hypothesis Hh2 : forall x y, op_eqb HO (op_hash2 HO x y) (op_empty HO) = false.

  (** from the invariant alone *)
  Theorem Inv_observables s R m : MapMutAdd.Inv H HO s R m ->
    getRoots HO m = roots HO s /\ ms_n m = num_leaves s /\
    (forall hs, (forall h, In h hs -> In h R) -> NoDup hs ->
       Prove HO m hs = exp_prove HO (mk_ctx HO s) hs) /\
    (forall h, GetLeafPosition HO m h = exp_leafpos HO (mk_ctx HO s) (memH HO h R) h) /\
    (forall h, GetLeafPosition HO m h = None <-> ~ In h R).
  Proof.
    intros I. pose proof (MapMutAdd.Inv_consistent H HO HOK s R m I) as Hc.
    split; [exact (map_getroots H HO s R m Hc)|]. split; [exact (cs_n Hc)|].
    split; [exact (map_prove_canonical H HO HOK s R m Hc)|].
    split; [exact (map_leafpos_iff H HO HOK s R m Hc)|exact (map_leafpos_none H HO HOK s R m Hc)].
  Qed.

  (** every state reached by a valid history from the empty forest *)
  Theorem history2_observables (T : N) (full : bool) (l : list (bop H)) :
    T <= 63 -> hvalid2 H HO full ([], []) l ->
    exists m, hrun2 H HO full ([], []) (mkM [] [] 0 T full) l = Some m /\
      let sF := fst (hfinal2 H HO full ([], []) l) in
      let RF := snd (hfinal2 H HO full ([], []) l) in
      getRoots HO m = roots HO sF /\ ms_n m = num_leaves sF /\
      (forall hs, (forall h, In h hs -> In h RF) -> NoDup hs ->
         Prove HO m hs = exp_prove HO (mk_ctx HO sF) hs) /\
      (forall h, GetLeafPosition HO m h = exp_leafpos HO (mk_ctx HO sF) (memH HO h RF) h) /\
      (full = true ->
         (forall hs, (forall h, In h hs -> In (Some h) sF) -> NoDup hs ->
            Prove HO m hs = exp_prove HO (mk_ctx HO sF) hs) /\
         (forall h, In (Some h) sF <-> exists p, GetLeafPosition HO m h = Some p) /\
         (forall h, GetLeafPosition HO m h = leaf_pos HO (rows_of (num_leaves sF)) (layout HO sF) h)).
  Proof.
    intros HT Hv. destruct (history2_ok H HO HOK Hh2 T full l HT Hv) as (m & E & I & F).
    exists m. split; [exact E|]. cbv zeta.
    destruct (Inv_observables _ _ m I) as (Hr & Hn & Hp & Hl & Hnone).
    split; [exact Hr|]. split; [exact Hn|]. split; [exact Hp|]. split; [exact Hl|].
    intros ->.
    assert (HRL : R_live H (hfinal2 H HO true ([], []) l)).
    { apply (full_R_live H HO); [|exact Hv]. intros h. cbn. tauto. }
    split; [|split].
    - intros hs Hs Hnd. apply Hp; [|exact Hnd]. intros h Hh. apply HRL, Hs, Hh.
    - intros h. rewrite <- (HRL h). split.
      + intros Hin. destruct (GetLeafPosition HO m h) as [p|] eqn:Eg; [eauto|].
        exfalso. exact (proj1 (Hnone h) Eg Hin).
      + intros [p Ep]. destruct (memH HO h (snd (hfinal2 H HO true ([], []) l))) eqn:Em.
        * exact (proj1 (memH_In H HO HOK _ _) Em).
        * assert (A : ~ In h (snd (hfinal2 H HO true ([], []) l))).
          { intros C. apply (memH_In H HO HOK) in C. congruence. }
          rewrite (proj2 (Hnone h) A) in Ep. discriminate.
    - intros h. rewrite Hl. unfold exp_leafpos. cbn [mk_ctx crows clay].
      destruct (memH HO h (snd (hfinal2 H HO true ([], []) l))) eqn:Em; [reflexivity|].
      unfold leaf_pos. destruct (find_leaf HO _ h) as [x|] eqn:Ef; [exfalso|reflexivity].
      destruct (find_leaf_spec H HO HOK _ _ _ Ef) as (Hx & Hlf & Eh).
      assert (Hin : In h (snd (hfinal2 H HO true ([], []) l))).
      { apply HRL. rewrite <- Eh. exact (layout_leaf_live H HO _ x Hx Hlf). }
      apply (memH_In H HO HOK) in Hin. congruence.
  Qed.
End Observables.

(** * 4. Deciding the side conditions *)
Section Decide2.
  Variable H : Type.
  Variable HO : ops H.
  Hypothesis HOK : ops_ok HO.
  (** a test that recognises hashes that are no [hash2] images (for the free algebra: not a [Node]) *)
  Variable nimg : H -> bool.
  Hypothesis nimg_sound : forall h, nimg h = true -> forall a b, h <> op_hash2 HO a b.
  Notation astate := (slots H * list H)%type.
  Notation keep L := (fun h => negb (memH HO h L)).

  Definition block_okb (full : bool) (st : astate) (adds : list (H * bool)) (dels : list H) : bool :=
    nodupb H HO dels && forallb (fun h => memH HO h (snd st)) dels &&
    (N.of_nat (length (fst st)) + N.of_nat (length adds) <=? 2 ^ 63) &&
    adds_okb H HO (kill HO dels (fst st)) (filter (keep dels) (snd st)) full adds.

  Lemma block_okb_sound full st adds dels : block_okb full st adds dels = true ->
    block_ok H HO full st adds dels.
  Proof.
    unfold block_okb. rewrite !andb_true_iff. intros [[[E1 E2] E3] E4]. split; [split|split].
    - exact (nodupb_sound H HO HOK _ E1).
    - rewrite forallb_forall in E2. intros h Hh. exact (proj1 (memH_In H HO HOK _ _) (E2 h Hh)).
    - apply N.leb_le, E3.
    - exact (adds_okb_sound H HO HOK adds _ _ _ E4).
  Qed.

  Lemma noimgb_sound adds : forallb nimg (map fst adds) = true -> noimg H HO adds.
  Proof. rewrite forallb_forall. intros E a x y Ha. exact (nimg_sound a (E a Ha) x y). Qed.

  Definition bop_sokb (full : bool) (st : astate) (o : bop H) : bool :=
    match o with
    | Block adds dels => forallb nimg (map fst adds) && block_okb full st adds dels
    | Old (AddBlock adds) => forallb nimg (map fst adds) && mop_okb H HO full st (AddBlock adds)
    | Old o => mop_okb H HO full st o
    end.

  Lemma bop_sokb_sound full st o : bop_sokb full st o = true -> bop_sok H HO full st o.
  Proof.
    destruct o as [adds dels|[adds|hs|hs|hs]]; cbn [bop_sokb bop_sok]; intros E;
      try exact (mop_okb_sound H HO HOK full st _ E);
      apply andb_true_iff in E as [E1 E2]; (split; [exact (noimgb_sound _ E1)|]).
    - exact (block_okb_sound _ _ _ _ E2).
    - exact (mop_okb_sound H HO HOK full st _ E2).
  Qed.

  Fixpoint svalidb (full : bool) (st : astate) (l : list (bop H)) : bool :=
    match l with
    | [] => true
    | o :: r => bop_sokb full st o && svalidb full (bop_next H HO full st o) r
    end.

  Lemma svalidb_sound full l : forall st, svalidb full st l = true -> svalid H HO full st l.
  Proof.
    induction l as [|o r IH]; intros st E; [exact I|]. cbn [svalidb] in E.
    apply andb_true_iff in E as [E1 E2]. split; [exact (bop_sokb_sound _ _ _ E1)|exact (IH _ E2)].
  Qed.

  Theorem svalidb_hvalid2 full l : svalidb full ([], []) l = true -> hvalid2 H HO full ([], []) l.
  Proof.
    intros E. apply (svalid_hvalid H HO); [exact (nimage_nil H HO)|exact (svalidb_sound _ _ _ E)].
  Qed.
End Decide2.

(** * 5. Examples over the free hash algebra *)
From Utreexo Require Import Spec.Term.

Definition nimg_term (t : term) : bool := match t with Node _ _ => false | _ => true end.
Lemma nimg_term_sound h : nimg_term h = true -> forall a b, h <> op_hash2 term_ops a b.
Proof. intros E a b ->. discriminate. Qed.

Definition mm2_ad (l : list N) : list (term * bool) := map (fun k => (Atom k, false)) l.
Definition mm2_adr (l : list N) : list (term * bool) := map (fun k => (Atom k, true)) l.

(** a FULL forest allocated with 0 rows ([remap] runs five times): blocks that delete siblings
    ([Atom 1], [Atom 2]), a whole subtree ([Atom 5 .. 8]) while adding, a whole tree
    ([Atom 9 .. 12], which leaves an empty root), and additions that climb over that empty root;
    [Prune], [Ingest] and [Verify] in between *)
Definition mm2_ops : list (bop term) :=
  [ Block (mm2_ad [1; 2; 3; 4; 5; 6; 7; 8]) [];
    Block [] [Atom 2; Atom 1];
    Block (mm2_ad [9]) [Atom 5; Atom 8; Atom 6; Atom 7];
    Old (Prune [Atom 3]);
    Block (mm2_ad [10; 11; 12]) [Atom 3];
    Old (Ingest [Atom 4; Atom 9]);
    Block [] [Atom 9; Atom 10; Atom 11; Atom 12];
    Old (VerifyRemember [Atom 4]);
    Block (mm2_ad [13; 14; 15; 16; 17]) [] ].
Definition mm2_s : slots term :=
  [None; None; None; Some (Atom 4); None; None; None; None; None; None; None; None;
   Some (Atom 13); Some (Atom 14); Some (Atom 15); Some (Atom 16); Some (Atom 17)].
Definition mm2_R : list term := map Atom [4; 4; 4; 13; 14; 15; 16; 17].
Definition mm2_m : mstate term :=
  mkM [(16, (Atom 17, true));
       (60, (Node (Atom 4) (Node (Node (Atom 13) (Atom 14)) (Node (Atom 15) (Atom 16))), true));
       (57, (Node (Node (Atom 13) (Atom 14)) (Node (Atom 15) (Atom 16)), true)); (56, (Atom 4, true));
       (51, (Node (Atom 15) (Atom 16), true)); (50, (Node (Atom 13) (Atom 14), true));
       (39, (Atom 16, true)); (38, (Atom 15, true)); (37, (Atom 14, true)); (36, (Atom 13, true))]
      [(Atom 17, 16); (Atom 16, 39); (Atom 15, 38); (Atom 14, 37); (Atom 13, 36); (Atom 4, 56)]
      17 5 true.

Example mm2_valid : hvalid2 term term_ops true ([], []) mm2_ops.
Proof.
  apply (svalidb_hvalid2 term term_ops term_ops_ok nimg_term nimg_term_sound). vm_compute. reflexivity.
Qed.

Example mm2_run :
  hfinal2 term term_ops true ([], []) mm2_ops = (mm2_s, mm2_R) /\
  hrun2 term term_ops true ([], []) (mkM [] [] 0 0 true) mm2_ops = Some mm2_m /\
  consistentb term_ops mm2_s mm2_R mm2_m = true /\
  getRoots term_ops mm2_m =
    [Node (Atom 4) (Node (Node (Atom 13) (Atom 14)) (Node (Atom 15) (Atom 16))); Atom 17].
Proof. vm_compute. auto. Qed.

(** the theorems on this history *)
Example mm2_history :
  MapMutAdd.Inv term term_ops mm2_s mm2_R mm2_m /\
  getRoots term_ops mm2_m = roots term_ops mm2_s /\ ms_n mm2_m = num_leaves mm2_s /\
  (forall h, In (Some h) mm2_s <-> exists p, GetLeafPosition term_ops mm2_m h = Some p) /\
  Prove term_ops mm2_m [Atom 16; Atom 4] = exp_prove term_ops (mk_ctx term_ops mm2_s) [Atom 16; Atom 4].
Proof.
  destruct mm2_run as (Ef & Er & _).
  destruct (history2_ok term term_ops term_ops_ok term_node_nonzero 0 true mm2_ops ltac:(discriminate)
              mm2_valid) as (m & E & I & _).
  destruct (history2_observables term term_ops term_ops_ok term_node_nonzero 0 true mm2_ops
              ltac:(discriminate) mm2_valid) as (m' & E' & Ho).
  rewrite Er in E, E'. injection E as <-. injection E' as <-. rewrite Ef in I, Ho.
  cbv zeta in Ho. cbn [fst snd] in *. destruct Ho as (Hr & Hn & _ & _ & Hfull).
  destruct (Hfull eq_refl) as (Hp & Hl & _).
  split; [exact I|]. split; [exact Hr|]. split; [exact Hn|]. split; [exact Hl|].
  apply Hp.
  - intros h [<-|[<-|[]]]; cbn; auto 20.
  - repeat constructor; cbn; intuition discriminate.
Qed.

(** a PARTIAL forest: the deleted leaves are remembered ones *)
Definition mm3_ops : list (bop term) :=
  [ Block (mm2_adr [1; 2; 3; 4; 5; 6; 7; 8]) [];
    Block [] [Atom 2; Atom 1];
    Block (mm2_adr [9]) [Atom 5; Atom 8; Atom 6; Atom 7];
    Old (Prune [Atom 3]);
    Block (mm2_adr [10; 11] ++ mm2_ad [12]) [Atom 4];
    Old (Ingest [Atom 3; Atom 12]);
    Block [] [Atom 9; Atom 12; Atom 11; Atom 10];
    Block (mm2_ad [13; 14; 15] ++ mm2_adr [16] ++ mm2_ad [17]) [] ].

Example mm3_valid : hvalid2 term term_ops false ([], []) mm3_ops.
Proof.
  apply (svalidb_hvalid2 term term_ops term_ops_ok nimg_term nimg_term_sound). vm_compute. reflexivity.
Qed.

Example mm3_run :
  match hrun2 term term_ops false ([], []) (mkM [] [] 0 0 false) mm3_ops with
  | Some m => consistentb term_ops (fst (hfinal2 term term_ops false ([], []) mm3_ops))
                          (snd (hfinal2 term term_ops false ([], []) mm3_ops)) m = true /\
              map fst (ms_nodes m) = [16; 60; 57; 56; 50; 39; 38] /\ ms_total m = 5
  | None => False
  end.
Proof. vm_compute. auto. Qed.

Example mm3_history :
  exists m, hrun2 term term_ops false ([], []) (mkM [] [] 0 0 false) mm3_ops = Some m /\
    MapMutAdd.Inv term term_ops (fst (hfinal2 term term_ops false ([], []) mm3_ops))
                  (snd (hfinal2 term term_ops false ([], []) mm3_ops)) m.
Proof.
  destruct (history2_ok term term_ops term_ops_ok term_node_nonzero 0 false mm3_ops ltac:(discriminate)
              mm3_valid) as (m & E & I & _). exists m. auto.
Qed.

Print Assumptions modify_seq.
Print Assumptions block_Inv.
Print Assumptions block_Inv_full.
Print Assumptions bop_pres.
Print Assumptions history2_ok.
Print Assumptions svalid_hvalid.
Print Assumptions full_R_live.
Print Assumptions history2_observables.
Print Assumptions mm2_history.
Print Assumptions mm3_history.
