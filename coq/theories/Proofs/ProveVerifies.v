(** "Every live leaf set is provable ... and verifies everywhere": the proof the mirror of
    [MapPollard.Prove] returns on a state consistent with the reference forest, for any distinct
    tracked leaves, is accepted by the mirror of [Stump.Verify] on the roots of that forest. *)
From Utreexo Require Import Spec.Forest Spec.Oracle Model.Verify Model.MapRead Proofs.CalcSound
     Proofs.CalcComplete Proofs.MapReadSpec Proofs.StumpUpdate.
From Coq Require Import Lia.
Open Scope N_scope.

Theorem map_prove_verifies {H} (HO : ops H) (s : slots H) (R : list H) (m : mstate H) (hs : list H) :
  ops_ok HO ->
  (forall a b, NZ HO (op_hash2 HO a b)) ->
  (forall h, In (Some h) s -> NZ HO h) ->
  consistent HO s R m ->
  (forall h, In h hs -> In h R) -> NoDup hs ->
  exists ts pf idx,
    Prove HO m hs = Some (ts, pf) /\
    exp_prove HO (mk_ctx HO s) hs = Some (ts, pf) /\
    Verify HO true (the_stump (mk_ctx HO s)) hs ts pf = Ok idx /\
    exp_root_indexes HO (mk_ctx HO s) hs = Some idx.
Proof.
  intros HOK Hnz Hlive Hc Hsub Hnd.
  pose proof (map_prove_canonical H HO HOK s R m Hc hs Hsub Hnd) as Ep.
  assert (Hl : forall h, In h hs -> In (Some h) s).
  { intros h Hh. apply (cs_R_live Hc). apply Hsub. exact Hh. }
  pose proof (exp_prove_live H HO HOK s hs Hl) as Hne.
  destruct (exp_prove HO (mk_ctx HO s) hs) as [[ts pf]|] eqn:Ex; [|contradiction].
  assert (Hb : N.of_nat (length s) <= 2 ^ 63).
  { pose proof (cs_n63 Hc) as A. rewrite (cs_n Hc) in A. exact A. }
  destruct (verify_complete_indexes HO s hs ts pf HOK Hnz Hlive Hb Hnd Ex) as (idx & Ev & Ei).
  exists ts, pf, idx. repeat split; assumption.
Qed.
Print Assumptions map_prove_verifies.
