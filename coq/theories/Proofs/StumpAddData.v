(** The update data of [Stump.add] (C11): the destroyed empty roots and the added/created nodes.

    [stump_add_refines] (Proofs/StumpAdd.v) covers the roots and the leaf count computed by the
    mirror [stump_add] (Model/Verify.v).  This file covers the two other components:

    - T1 [rootsToDestroy_spec]: [rootsToDestory] computes the declarative [to_destroy];
      T2 [stump_add_destroyed]: so does the third component of [stump_add].
    - T3 [stump_add_collects]: the second component of [stump_add] (code as it is now) is the
      declarative [new_add]: every added leaf and both children of every node created by the
      additions, at their positions in the post-block forest, ascending.
      [stump_add_collects_layout]: the same from one primitive distinctness hypothesis.
      [stump_add_update_data]: all three components against [spec_update_data].
    - [new_add_pos_nodup]: the listed positions are pairwise distinct (no hypothesis).

    Structure:
    - Part 1: one chain of [rootsToDestory] against [trailing_destroyed] and [carry]; T1, T2.
    - Part 2: coordinates (row, offset); [lift1]/[liftc] = the lifting loop of [Stump.add] on
      coordinates, its commutation with taking a child ([liftc_child]), the bridge to
      [isAncestor]/[calcNextPosition]/[Parent]/[leftSib] on positions.
    - Part 3: [sortK] of permutations, the hash-keyed map [map_put] as a set of entries.
    - Part 4: the chain of one addition on the reference forest: [chain_at], [step_data]; the
      lifted coordinate of the carried segment ([lift_chain]) and of a popped root
      ([lift_popped]); [add_chain] on hashes and positions ([add_chain_spine]); [add_nodes] along
      the spine of the merged tree ([merged_sets]); the invariant [UU]: after [i] additions the
      map holds the [add_nodes] of the trees built so far, at the coordinates they have in the
      final forest ([step_sets], [add_loop_collect]); T3.
    - Part 4b: positions of the declarative list are pairwise distinct.
    - Part 5: closed forms, the free algebra, examples. *)
From Utreexo Require Import Spec.Forest Model.Verify Spec.Term.
From Utreexo Require Import Proofs.SpecBasics Proofs.StumpAdd Proofs.UtilsGeom Proofs.UtilsGeom2
  Proofs.LayoutStruct.
From Coq Require Import List Arith PeanoNat NArith Lia ZifyNat ZifyN ZifyBool Permutation.
Import ListNotations.
Local Open Scope nat_scope.

Section Destroyed.
  Variable H : Type.
  Variable HO : ops H.
  Hypothesis HOK : ops_ok HO.
  Notation hash2 := (op_hash2 HO).
  Notation empty := (op_empty HO).
  Notation Heqb := (op_eqb HO).
  Notation entry := (StumpAdd.entry H).
  Notation carry := (StumpAdd.carry H HO).
  Notation erow := (@StumpAdd.erow H).

  (** * Part 1: the destroyed empty roots *)

  Definition isE (h : H) : bool := Heqb h empty.
  Definition isN (e : entry) : bool := match snd e with None => true | Some _ => false end.

  (** the local loop of [trailing_destroyed], as a top-level function *)
  Fixpoint td_go (n : N) (rows : nat) (fuel h : nat) (ts : list entry) : list N :=
    match fuel with
    | O => []
    | S f =>
        if N.testbit n (N.of_nat h) then
          match ts with
          | (k, lo, t) :: rest =>
              (match t with
               | None => [pos rows k (lo / 2 ^ N.of_nat k)]
               | Some _ => []
               end) ++ td_go n rows f (S h) rest
          | [] => []
          end
        else []
    end.

  Lemma trailing_destroyed_go rows (s : slots H) :
    trailing_destroyed HO rows s = td_go (num_leaves s) rows 65 0 (rev (forest HO s)).
  Proof. reflexivity. Qed.

  Lemma has_empty_isE l : has_empty HO l = existsb isE l.
  Proof. induction l as [|x l IH]; [reflexivity|]. cbn [has_empty existsb]. rewrite IH. reflexivity. Qed.

  Lemma existsb_rev' (A : Type) (f : A -> bool) l : existsb f (rev l) = existsb f l.
  Proof.
    induction l as [|x l IH]; [reflexivity|]. cbn [rev existsb].
    rewrite existsb_app, IH. cbn [existsb]. rewrite orb_false_r. apply orb_comm.
  Qed.

  (** without an empty root nothing is destroyed *)
  Lemma rtd_chain_noempty R n : forall fuel h rr,
    existsb isE rr = false ->
    fst (rtd_chain HO fuel n h R rr) = [] /\ existsb isE (snd (rtd_chain HO fuel n h R rr)) = false.
  Proof.
    induction fuel as [|f IH]; intros h rr He; [split; [reflexivity|exact He]|].
    cbn [rtd_chain]. destruct (and64 (shr n h) 1 =? 1)%N; [|split; [reflexivity|exact He]].
    destruct rr as [|r rest]; [split; reflexivity|].
    cbn [existsb] in He. apply orb_false_iff in He as [Hr Hrest].
    specialize (IH (add8 h 1) rest Hrest).
    destruct (rtd_chain HO f n (add8 h 1) R rest) as [d rr']. cbn [fst snd] in *.
    destruct IH as [-> IH2]. unfold isE in Hr. rewrite Hr. split; [reflexivity|exact IH2].
  Qed.

  Lemma rtd_loop_noempty R filler : isE filler = false -> forall k n rr,
    existsb isE rr = false -> rtd_loop HO k n R rr filler = [].
  Proof.
    intros Hf. induction k as [|k IH]; intros n rr He; [reflexivity|].
    cbn [rtd_loop]. pose proof (rtd_chain_noempty R n 65 0%N rr He) as [H1 H2].
    destruct (rtd_chain HO 65 n 0 R rr) as [d rr']. cbn [fst snd] in *. subst d.
    cbn [app]. apply IH. cbn [existsb]. rewrite Hf, H2. reflexivity.
  Qed.

  Lemma rootsToDestroy_loop filler k n roots : isE filler = false ->
    rootsToDestroy HO filler k n roots =
    rtd_loop HO k n (TreeRows (n + N.of_nat k)) (rev roots) filler.
  Proof.
    intros Hf. unfold rootsToDestroy. destruct (has_empty HO roots) eqn:E; [reflexivity|].
    symmetry. apply rtd_loop_noempty; [exact Hf|].
    rewrite has_empty_isE in E. rewrite existsb_rev'. exact E.
  Qed.

  (** the carried tree stays non-empty *)
  Lemma carry_some : forall (l : list entry) h lo c, isN (snd (carry l h lo (Some c))) = false.
  Proof.
    induction l as [|[[r1 lo1] t1] l IH]; intros h lo c; [reflexivity|].
    cbn [carry]. destruct (Nat.eqb r1 h); [|reflexivity].
    destruct t1 as [c1|]; cbn [join]; apply IH.
  Qed.

  (** one chain of [rootsToDestory] against one run of [trailing_destroyed] and [carry] *)
  Lemma rtd_chain_go (s : slots H) (R : nat) :
    R <= 63 -> (N.of_nat (length s) <= 2 ^ N.of_nat R)%N ->
    forall d h (l : list entry) rr fuel lo c,
    d < fuel -> h + d <= 64 -> (N.of_nat (length s) < 2 ^ N.of_nat (h + d))%N ->
    map erow l = filter (bit (N.of_nat (length s))) (seq h d) ->
    (forall e, In e l -> In e (forest HO s)) ->
    map isE rr = map isN l ->
    fst (rtd_chain HO fuel (N.of_nat (length s)) (N.of_nat h) (N.of_nat R) rr)
      = td_go (N.of_nat (length s)) R fuel h l /\
    map isE (snd (rtd_chain HO fuel (N.of_nat (length s)) (N.of_nat h) (N.of_nat R) rr))
      = map isN (fst (carry l h lo (Some c))).
  Proof.
    intros HR HnR. set (n := N.of_nat (length s)) in *.
    induction d as [|d IH]; intros h l rr fuel lo c Hf Hh Hn Hrows Hin Hrr.
    - cbn [seq filter] in Hrows. apply map_eq_nil in Hrows. subst l.
      destruct rr; [|discriminate]. destruct fuel as [|f]; [lia|].
      cbn [rtd_chain td_go carry]. rewrite bit_test. rewrite Nat.add_0_r in Hn.
      assert (N.testbit n (N.of_nat h) = false) as ->.
      { rewrite <- (N.mod_small n (2 ^ N.of_nat h)) by exact Hn.
        apply N.mod_pow2_bits_high. lia. }
      split; reflexivity.
    - destruct fuel as [|f]; [lia|]. cbn [seq filter] in Hrows. cbn [rtd_chain td_go].
      rewrite bit_test. fold (bit n h). destruct (bit n h) eqn:Hb.
      + destruct l as [|[[r1 lo1] t1] l]; [discriminate|]. cbn [map] in Hrows.
        injection Hrows as Hr1 Hrows. unfold erow in Hr1. cbn [fst] in Hr1. subst r1.
        destruct rr as [|r rr]; [discriminate|]. cbn [map] in Hrr. injection Hrr as Hr Hrr.
        rewrite add8_succ by lia. cbn [carry]. rewrite Nat.eqb_refl.
        replace (h + S d) with (S h + d) in Hn by lia.
        assert (Hc : exists c', join HO t1 (Some c) = Some c').
        { destruct t1 as [c1|]; cbn [join]; eexists; reflexivity. }
        destruct Hc as [c' Hc']. rewrite Hc'.
        specialize (IH (S h) l rr f lo1 c' ltac:(lia) ltac:(lia) Hn Hrows
                       (fun e He => Hin e (or_intror He)) Hrr).
        destruct (rtd_chain HO f n (N.of_nat (S h)) (N.of_nat R) rr) as [dd rr'].
        cbn [fst snd] in *. destruct IH as [IH1 IH2]. split; [|exact IH2].
        rewrite IH1. f_equal. unfold isE in Hr. rewrite Hr. unfold isN. cbn [snd].
        destruct t1 as [c1|]; [reflexivity|]. f_equal.
        pose proof (root_node H HO s h lo1 None (Hin _ (or_introl eq_refl))) as (Hbit & _ & Ediv & _).
        rewrite Ediv. fold n.
        rewrite pos_gpos. apply rootPosition_gpos; [lia| |exact HnR].
        apply (root_coord_valid n (N.of_nat h) (N.of_nat R) HnR Hbit).
      + split; [reflexivity|]. destruct l as [|[[r1 lo1] t1] l]; [cbn [carry fst]; exact Hrr|].
        cbn [carry].
        assert (Hne : r1 <> h).
        { assert (Hin' : In r1 (filter (bit n) (seq (S h) d)))
            by (rewrite <- Hrows; left; reflexivity).
          apply filter_In in Hin' as [Hin' _]. apply in_seq in Hin'. lia. }
        destruct (Nat.eqb_spec r1 h) as [Heq|_]; [contradiction|]. exact Hrr.
  Qed.

  Lemma log2_le_63 (n : nat) : (N.of_nat n <= 2 ^ 63)%N -> Nat.log2 n <= 63.
  Proof.
    intros Hn. destruct (Nat.eq_dec n 0) as [->|Hne]; [cbn; lia|].
    assert (Hlt : Nat.log2 n < 64); [|lia].
    apply Nat.log2_lt_pow2; [lia|].
    assert (HN : (N.of_nat n < N.of_nat (2 ^ 64))%N); [|lia].
    rewrite pow2_N. change (N.of_nat 64) with 64%N.
    eapply N.le_lt_trans; [exact Hn|]. reflexivity.
  Qed.

  Lemma rtd_loop_spec (R : nat) filler : R <= 63 -> isE filler = false ->
    forall (adds : list H) (s : slots H) rr,
    (N.of_nat (length s + length adds) <= 2 ^ N.of_nat R)%N ->
    map isE rr = map isN (rev (forest HO s)) ->
    rtd_loop HO (length adds) (N.of_nat (length s)) (N.of_nat R) rr filler
    = to_destroy HO R s adds.
  Proof.
    intros HR Hf. induction adds as [|a adds IH]; intros s rr Hb Hrr; [reflexivity|].
    cbn [length rtd_loop to_destroy]. rewrite trailing_destroyed_go. unfold num_leaves.
    cbn [length] in Hb.
    assert (HsR : (N.of_nat (length s) <= 2 ^ N.of_nat R)%N) by lia.
    assert (H63 : (N.of_nat (length s) <= 2 ^ 63)%N).
    { eapply N.le_trans; [exact HsR|]. apply N.pow_le_mono_r; lia. }
    pose proof (log2_le_63 _ H63) as Hlog.
    pose proof (rtd_chain_go s R HR HsR (S (Nat.log2 (length s))) 0 (rev (forest HO s)) rr 65
                  (N.of_nat (length s)) (CLeaf a) ltac:(lia) ltac:(lia)) as Hch.
    cbn [Nat.add] in Hch.
    specialize (Hch ltac:(rewrite <- pow2_N; pose proof (forest_len H s); lia)
                    (forest_rows H HO s)
                    (fun e He => proj2 (in_rev _ _) He) Hrr).
    change (N.of_nat 0) with 0%N in Hch.
    destruct (rtd_chain HO 65 (N.of_nat (length s)) 0 (N.of_nat R) rr) as [d rr'].
    cbn [fst snd] in Hch. destruct Hch as [-> Hrr']. f_equal.
    replace (N.of_nat (length s) + 1)%N with (N.of_nat (length (s ++ [Some a])))
      by (rewrite app_length; cbn [length]; lia).
    apply IH.
    - rewrite app_length. cbn [length]. lia.
    - pose proof (forest_snoc H HO s (Some a)) as Hsn. cbv zeta in Hsn.
      change (compress HO 0 [Some a]) with (Some (CLeaf a)) in Hsn. rewrite Hsn.
      cbn [map]. rewrite carry_some. fold (isE filler). rewrite Hf, Hrr'. reflexivity.
  Qed.

  Lemma rows_of_TreeRows n : N.of_nat (rows_of n) = TreeRows n.
  Proof. unfold rows_of, TreeRows, len64. apply N2Nat.id. Qed.

  Definition nonempty (h : H) : Prop := Heqb h empty = false.

  Lemma roots_isE (s : slots H) : (forall a b, Heqb (hash2 a b) empty = false) ->
    live_ok H HO s -> map isE (rev (roots HO s)) = map isN (rev (forest HO s)).
  Proof.
    intros Hh2 Hl. unfold roots. rewrite <- !map_rev. f_equal. rewrite map_map.
    apply map_ext_in. intros [[k lo] t] Hin. apply in_rev in Hin. unfold isE, isN. cbn [snd].
    destruct t as [c|]; cbn [root_hash].
    - pose proof (trees_good H HO Hh2 (Nat.log2 (length s)) 0%N s Hl) as Hg.
      rewrite Forall_forall in Hg. exact (Hg _ Hin c eq_refl).
    - apply HOK. reflexivity.
  Qed.

  (** T1 *)
  Theorem rootsToDestroy_spec_sec (filler : H) (s : slots H) (adds : list H) :
    (forall a b, Heqb (hash2 a b) empty = false) ->
    Heqb filler empty = false ->
    (forall h, In (Some h) s -> Heqb h empty = false) ->
    (N.of_nat (length s + length adds) <= 2 ^ 63)%N ->
    rootsToDestroy HO filler (length adds) (num_leaves s) (roots HO s)
    = to_destroy HO (rows_of (num_leaves (s ++ map Some adds))) s adds.
  Proof.
    intros Hh2 Hf Hl Hb. rewrite rootsToDestroy_loop by exact Hf.
    unfold num_leaves. rewrite app_length, map_length.
    set (R := rows_of (N.of_nat (length s + length adds))).
    assert (ER : TreeRows (N.of_nat (length s) + N.of_nat (length adds)) = N.of_nat R).
    { unfold R. rewrite rows_of_TreeRows. f_equal. lia. }
    rewrite ER. apply rtd_loop_spec.
    - assert (HR : (N.of_nat R <= 63)%N); [|lia]. unfold R. rewrite rows_of_TreeRows.
      apply TreeRows_le_63. exact Hb.
    - exact Hf.
    - unfold R. apply rows_of_upper.
    - apply roots_isE; [exact Hh2|exact Hl].
  Qed.

  (** T2 *)
  Theorem stump_add_destroyed_sec strict (filler : H) (s : slots H) (adds : list H) :
    (forall a b, Heqb (hash2 a b) empty = false) ->
    Heqb filler empty = false ->
    (forall h, In (Some h) s -> Heqb h empty = false) ->
    (N.of_nat (length s + length adds) <= 2 ^ 63)%N ->
    snd (stump_add HO strict filler (mkStump (roots HO s) (num_leaves s)) adds)
    = to_destroy HO (rows_of (num_leaves (s ++ map Some adds))) s adds.
  Proof.
    intros Hh2 Hf Hl Hb. unfold stump_add. cbn [st_n st_roots].
    destruct (add_loop HO strict filler adds (num_leaves s) _ (rev (roots HO s)) [])
      as [[rr n'] m]. cbn [snd].
    apply rootsToDestroy_spec_sec; assumption.
  Qed.

End Destroyed.

(** * Part 2: coordinates and the lifting of positions over destroyed empty roots

    A coordinate is (row, offset).  [lift1 d x] is one iteration of the inner loop of [Stump.add]
    ([isAncestor (Parent d) x] ? [calcNextPosition x d] : [x]) on coordinates. *)

Definition coord := (nat * N)%type.
Definition anc (hi lo : coord) : bool :=
  (fst lo <? fst hi) && (snd lo / 2 ^ N.of_nat (fst hi - fst lo) =? snd hi)%N.
Definition lift1 (d x : coord) : coord :=
  if anc (S (fst d), (snd d / 2)%N) x
  then (S (fst x), rmbit (snd x) (N.of_nat (fst d - fst x))) else x.
Definition liftc (D : list coord) (x : coord) : coord := fold_left (fun x d => lift1 d x) D x.
Definition cpos (R : nat) (x : coord) : N := pos R (fst x) (snd x).
(** child [b] (0 = left, 1 = right) of a coordinate *)
Definition chd (b : N) (y : coord) : coord := (pred (fst y), (2 * snd y + b)%N).
Definition cvalid (R : nat) (x : coord) : Prop :=
  fst x <= R /\ (snd x < 2 ^ (N.of_nat R - N.of_nat (fst x)))%N.

(** rows strictly ascending, the first at least [b] *)
Fixpoint asc_from (b : nat) (D : list coord) : Prop :=
  match D with
  | [] => True
  | d :: D' => b <= fst d /\ asc_from (S (fst d)) D'
  end.

Lemma asc_from_weaken D : forall b b', b' <= b -> asc_from b D -> asc_from b' D.
Proof. destruct D as [|d D]; intros b b' Hb HD; [exact I|]. destruct HD as [H1 H2]. split; [lia|exact H2]. Qed.

Lemma lift1_skip d x : fst d < fst x -> lift1 d x = x.
Proof.
  intros Hlt. unfold lift1, anc. cbn [fst snd].
  destruct (Nat.ltb_spec (fst x) (S (fst d))) as [Hc|_]; [lia|reflexivity].
Qed.

Lemma liftc_skip D x : (forall d, In d D -> fst d < fst x) -> liftc D x = x.
Proof.
  induction D as [|d D IH]; intros HD; [reflexivity|].
  unfold liftc. cbn [fold_left]. rewrite lift1_skip by (apply HD; left; reflexivity).
  apply IH. intros d' Hd'. apply HD. right. exact Hd'.
Qed.

Lemma liftc_app D1 D2 x : liftc (D1 ++ D2) x = liftc D2 (liftc D1 x).
Proof. apply fold_left_app. Qed.

Lemma rmbit_child o b k : (b < 2)%N -> rmbit (2 * o + b) (k + 1) = (2 * rmbit o k + b)%N.
Proof.
  intros Hb. unfold rmbit.
  assert (E1 : ((2 * o + b) / 2 ^ (k + 1 + 1) = o / 2 ^ (k + 1))%N).
  { rewrite (pow2_S (k + 1)). rewrite <- N.div_div by (try apply pow2_nz; lia).
    f_equal. rewrite N.mul_comm, N.div_add_l by lia. rewrite (N.div_small b 2) by lia. lia. }
  assert (E2 : ((2 * o + b) mod 2 ^ (k + 1) = 2 * (o mod 2 ^ k) + b)%N).
  { rewrite (pow2_S k). rewrite N.mod_mul_r by (try apply pow2_nz; lia).
    replace (2 * o + b)%N with (b + o * 2)%N by lia.
    rewrite N.mod_add, N.div_add by lia.
    rewrite (N.mod_small b 2), (N.div_small b 2) by lia. rewrite N.add_0_l. lia. }
  rewrite E1, E2, (pow2_S k). lia.
Qed.

Lemma div2_child o b : (b < 2)%N -> ((2 * o + b) / 2 = o)%N.
Proof. intros Hb. rewrite N.mul_comm, N.div_add_l by lia. rewrite (N.div_small b 2) by lia. lia. Qed.

Lemma lift1_child d r o b : (b < 2)%N -> 1 <= r -> r <= fst d ->
  lift1 d (pred r, (2 * o + b)%N) = chd b (lift1 d (r, o)) /\ r <= fst (lift1 d (r, o)).
Proof.
  intros Hb Hr Hd. destruct d as [rd qd]. cbn [fst] in Hd. unfold lift1, anc. cbn [fst snd].
  destruct (Nat.ltb_spec (pred r) (S rd)) as [_|Hc]; [|lia].
  destruct (Nat.ltb_spec r (S rd)) as [_|Hc]; [|lia]. cbn [andb].
  replace (S rd - pred r) with (S (S rd - r)) by lia.
  rewrite Nat2N.inj_succ, N.pow_succ_r', <- N.div_div by (try apply pow2_nz; lia).
  rewrite (div2_child o b Hb).
  destruct ((o / 2 ^ N.of_nat (S rd - r) =? qd / 2)%N).
  - unfold chd. cbn [fst snd pred]. split; [|lia]. f_equal; [lia|].
    replace (N.of_nat (rd - pred r)) with (N.of_nat (rd - r) + 1)%N by lia.
    apply rmbit_child, Hb.
  - unfold chd. cbn [fst snd]. split; [reflexivity|lia].
Qed.

Lemma liftc_child b : (b < 2)%N -> forall D r o, 1 <= r -> asc_from r D ->
  liftc D (pred r, (2 * o + b)%N) = chd b (liftc D (r, o)) /\ r <= fst (liftc D (r, o)).
Proof.
  intros Hb. induction D as [|d D IH]; intros r o Hr HD.
  - cbn. split; [reflexivity|lia].
  - destruct HD as [Hd HD]. unfold liftc. cbn [fold_left].
    destruct (lift1_child d r o b Hb Hr Hd) as [E Hge]. rewrite E.
    destruct (lift1 d (r, o)) as [r' o'] eqn:El. cbn [fst] in Hge.
    assert (Hr' : r' <= S (fst d)).
    { unfold lift1 in El. destruct (anc _ _); injection El as <- <-; cbn [fst]; lia. }
    unfold chd. cbn [fst snd].
    destruct (IH r' o' ltac:(lia) (asc_from_weaken D _ _ Hr' HD)) as [E2 Hge2].
    fold (liftc D (pred r', (2 * o' + b)%N)). fold (liftc D (r', o')).
    split; [exact E2|lia].
Qed.

Lemma lift1_empty j q : lift1 (j, (2 * q)%N) (j, (2 * q + 1)%N) = (S j, q).
Proof.
  unfold lift1, anc. cbn [fst snd].
  destruct (Nat.ltb_spec j (S j)) as [_|Hc]; [|lia]. cbn [andb].
  replace (S j - j) with 1 by lia. change (2 ^ N.of_nat 1)%N with 2%N.
  rewrite (div2_child q 1) by lia. rewrite (N.mul_comm 2 q), N.div_mul by lia.
  rewrite N.eqb_refl. f_equal. rewrite Nat.sub_diag. unfold rmbit.
  change (N.of_nat 0) with 0%N. rewrite N.pow_0_r, N.mod_1_r. change (0 + 1)%N with 1%N.
  rewrite N.pow_1_r, (N.mul_comm q 2), (div2_child q 1) by lia. lia.
Qed.

Lemma lift1_row d x : fst x <= fst (lift1 d x) <= S (fst x).
Proof. unfold lift1. destruct (anc _ _); cbn [fst]; lia. Qed.

Lemma lift1_valid R d x : fst d < R -> cvalid R x -> cvalid R (lift1 d x).
Proof.
  intros Hd [Hx1 Hx2]. unfold lift1, anc. cbn [fst snd].
  destruct (Nat.ltb_spec (fst x) (S (fst d))) as [Hlt|_]; [|split; assumption].
  cbn [andb]. destruct (_ =? _)%N; [|split; assumption].
  split; cbn [fst snd]; [lia|].
  replace (N.of_nat R - N.of_nat (S (fst x)))%N with (N.of_nat R - N.of_nat (fst x) - 1)%N by lia.
  apply rmbit_lt; [lia|exact Hx2].
Qed.

Lemma liftc_valid R D x : (forall d, In d D -> fst d < R) -> cvalid R x -> cvalid R (liftc D x).
Proof.
  revert x. induction D as [|d D IH]; intros x HD Hx; [exact Hx|].
  unfold liftc. cbn [fold_left]. apply IH.
  - intros d' Hd'. apply HD. right. exact Hd'.
  - apply lift1_valid; [apply HD; left; reflexivity|exact Hx].
Qed.

(** ** Bridge to the position functions of utils.go *)

Lemma cpos_gpos R x : cpos R x = gpos (N.of_nat R) (N.of_nat (fst x)) (snd x).
Proof. reflexivity. Qed.

Lemma isAncestor_gpos h hr ho lr lo :
  (h <= 63)%N -> (hr <= h)%N -> (ho < 2 ^ (h - hr))%N -> (lr <= h)%N -> (lo < 2 ^ (h - lr))%N ->
  isAncestor (gpos h hr ho) (gpos h lr lo) h = ((lr <? hr) && (lo / 2 ^ (hr - lr) =? ho))%N.
Proof.
  intros Hh Hhr Hho Hlr Hlo. unfold isAncestor.
  destruct (N.eqb_spec (gpos h hr ho) (gpos h lr lo)) as [E|Hne].
  - apply gpos_inj in E as [-> ->]; try assumption.
    destruct (N.ltb_spec lr lr) as [Hc|_]; [lia|reflexivity].
  - cbv zeta. rewrite !DetectRow_gpos by assumption.
    destruct (N.ltb_spec hr lr) as [Hlt|Hge].
    + destruct (N.ltb_spec lr hr) as [Hc|_]; [lia|reflexivity].
    + destruct (N.eq_dec hr lr) as [->|Hne2].
      * rewrite sub8_small by lia. rewrite N.sub_diag, ParentMany_0.
        destruct (N.ltb_spec lr lr) as [Hc|_]; [lia|]. cbn [andb].
        apply N.eqb_neq. exact Hne.
      * rewrite sub8_small by lia.
        rewrite ParentMany_gpos by (try assumption; lia).
        replace (lr + (hr - lr))%N with hr by lia.
        destruct (N.ltb_spec lr hr) as [_|Hc]; [|lia]. cbn [andb].
        unfold gpos. destruct (N.eqb_spec (lo / 2 ^ (hr - lr))%N ho) as [->|Hd].
        -- apply N.eqb_refl.
        -- apply N.eqb_neq. lia.
Qed.

Lemma lift1_bridge R d x : R <= 63 -> fst d < R -> cvalid R d -> cvalid R x ->
  (if isAncestor (Parent (cpos R d) (N.of_nat R)) (cpos R x) (N.of_nat R)
   then match calcNextPosition (cpos R x) (cpos R d) (N.of_nat R) with Some q => q | None => 0%N end
   else cpos R x) = cpos R (lift1 d x).
Proof.
  intros HR Hd [Hd1 Hd2] [Hx1 Hx2]. rewrite !cpos_gpos.
  rewrite Parent_gpos by (try assumption; lia).
  assert (Hpo : (snd d / 2 < 2 ^ (N.of_nat R - (N.of_nat (fst d) + 1)))%N).
  { apply N.div_lt_upper_bound; [lia|]. rewrite <- N.pow_succ_r'.
    replace (N.succ (N.of_nat R - (N.of_nat (fst d) + 1)))%N
      with (N.of_nat R - N.of_nat (fst d))%N by lia. exact Hd2. }
  rewrite isAncestor_gpos by (try assumption; lia).
  unfold lift1, anc. cbn [fst snd].
  replace (N.of_nat (fst d) + 1 - N.of_nat (fst x))%N with (N.of_nat (S (fst d) - fst x)) by lia.
  replace (N.of_nat (fst x) <? N.of_nat (fst d) + 1)%N with (fst x <? S (fst d)).
  2:{ destruct (Nat.ltb_spec (fst x) (S (fst d))), (N.ltb_spec (N.of_nat (fst x)) (N.of_nat (fst d) + 1));
      try reflexivity; lia. }
  destruct (Nat.ltb_spec (fst x) (S (fst d))) as [Hlt|_]; [|reflexivity]. cbn [andb].
  destruct (_ =? _)%N; [|reflexivity].
  rewrite (calcNextPosition_gpos (N.of_nat R) (N.of_nat (fst x)) (snd x) _ (N.of_nat (fst d)));
    try assumption; try lia.
  - cbn [fst snd]. f_equal; [lia|]. f_equal. lia.
  - apply DetectRow_gpos; [lia|lia|exact Hd2].
Qed.

Lemma lift_pos_bridge R : R <= 63 -> forall D x,
  (forall d, In d D -> fst d < R /\ cvalid R d) -> cvalid R x ->
  lift_pos (map (cpos R) D) (cpos R x) (N.of_nat R) = cpos R (liftc D x).
Proof.
  intros HR. induction D as [|d D IH]; intros x HD Hx; [reflexivity|].
  cbn [map lift_pos]. destruct (HD d (or_introl eq_refl)) as [Hd1 Hd2].
  rewrite lift1_bridge by assumption.
  unfold liftc. cbn [fold_left]. apply IH.
  - intros d' Hd'. apply HD. right. exact Hd'.
  - apply lift1_valid; assumption.
Qed.

Lemma chd_valid R b y : (b < 2)%N -> 1 <= fst y -> cvalid R y -> cvalid R (chd b y).
Proof.
  intros Hb Hy [H1 H2]. unfold chd, cvalid. cbn [fst snd]. split; [lia|].
  replace (N.of_nat R - N.of_nat (pred (fst y)))%N with (N.succ (N.of_nat R - N.of_nat (fst y)))%N by lia.
  rewrite N.pow_succ_r'. lia.
Qed.

Lemma Parent_chd R b y : R <= 63 -> (b < 2)%N -> 1 <= fst y -> cvalid R y ->
  Parent (cpos R (chd b y)) (N.of_nat R) = cpos R y.
Proof.
  intros HR Hb Hy Hv. pose proof (chd_valid R b y Hb Hy Hv) as [Hc1 Hc2].
  destruct Hv as [H1 H2]. rewrite !cpos_gpos. rewrite Parent_gpos; [|lia| |exact Hc2].
  - unfold chd. cbn [fst snd]. rewrite (div2_child (snd y) b Hb). f_equal. lia.
  - unfold chd. cbn [fst]. lia.
Qed.

Lemma leftSib_chd R y : 1 <= fst y -> fst y <= R ->
  leftSib (cpos R (chd 1 y)) = cpos R (chd 0 y).
Proof.
  intros Hy HR. rewrite !cpos_gpos. rewrite leftSib_gpos by (unfold chd; cbn [fst]; lia).
  unfold chd. cbn [fst snd]. f_equal.
  replace (2 * snd y + 1)%N with (1 + snd y * 2)%N by lia. rewrite N.mod_add by lia.
  change (1 mod 2)%N with 1%N. lia.
Qed.

(** * Part 3: sorting by key, and the hash-keyed map as a set of entries *)

Section SortPerm.
  Context {A : Type}.

  Lemma insertK_perm (x : N * A) l : Permutation (insertK x l) (x :: l).
  Proof.
    induction l as [|y l IH]; [reflexivity|]. cbn [insertK].
    destruct (fst x <=? fst y)%N; [reflexivity|].
    rewrite IH. apply perm_swap.
  Qed.

  Lemma sortK_perm (l : list (N * A)) : Permutation (sortK l) l.
  Proof.
    induction l as [|x l IH]; [reflexivity|]. cbn [sortK fold_right].
    fold (sortK l). rewrite insertK_perm, IH. reflexivity.
  Qed.

  Lemma ascK_head_le (x : N * A) l : ascK (x :: l) -> forall z, In z l -> (fst x <= fst z)%N.
  Proof.
    revert x. induction l as [|y l IH]; intros x Hasc z Hz; [destruct Hz|].
    inversion Hasc as [| |x0 y0 l0 Hxy Hyl]; subst x0 y0 l0.
    destruct Hz as [<-|Hz]; [exact Hxy|].
    specialize (IH y Hyl z Hz). lia.
  Qed.

  Lemma ascK_tail (x : N * A) l : ascK (x :: l) -> ascK l.
  Proof. intros Hasc. inversion Hasc; [constructor|assumption]. Qed.

  Lemma asc_perm_eq (l1 : list (N * A)) : forall l2,
    ascK l1 -> ascK l2 -> Permutation l1 l2 -> NoDup (map fst l1) -> l1 = l2.
  Proof.
    induction l1 as [|x l1 IH]; intros l2 H1 H2 Hp Hnd.
    - apply Permutation_nil in Hp. congruence.
    - destruct l2 as [|y l2]; [apply Permutation_sym, Permutation_nil in Hp; discriminate|].
      assert (Hxy : x = y).
      { assert (Hy : In y (x :: l1)) by (apply (Permutation_in _ (Permutation_sym Hp)); left; reflexivity).
        assert (Hx : In x (y :: l2)) by (apply (Permutation_in _ Hp); left; reflexivity).
        destruct Hy as [Hy|Hy]; [exact Hy|]. destruct Hx as [Hx|Hx]; [congruence|].
        pose proof (ascK_head_le _ _ H1 y Hy) as Hle1.
        pose proof (ascK_head_le _ _ H2 x Hx) as Hle2.
        exfalso. cbn [map] in Hnd. inversion Hnd as [|a m Hna _]; subst a m.
        apply Hna. replace (fst x) with (fst y) by lia. apply in_map, Hy. }
      subst y. f_equal. apply IH.
      + exact (ascK_tail _ _ H1).
      + exact (ascK_tail _ _ H2).
      + exact (Permutation_cons_inv Hp).
      + cbn [map] in Hnd. inversion Hnd; assumption.
  Qed.

  Lemma sortK_perm_eq (l1 l2 : list (N * A)) :
    Permutation l1 l2 -> NoDup (map fst l1) -> sortK l1 = sortK l2.
  Proof.
    intros Hp Hnd. apply asc_perm_eq.
    - apply sortK_asc.
    - apply sortK_asc.
    - rewrite !sortK_perm. exact Hp.
    - apply (Permutation_NoDup (l := map fst l1)); [|exact Hnd].
      apply Permutation_map, Permutation_sym, sortK_perm.
  Qed.
End SortPerm.

Section MapPut.
  Variable H : Type.
  Variable HO : ops H.
  Hypothesis HOK : ops_ok HO.
  Notation Heqb := (op_eqb HO).

  Lemma Heqb_false a b : a <> b -> Heqb a b = false.
  Proof. intros Hne. destruct (Heqb a b) eqn:E; [|reflexivity]. apply HOK in E. contradiction. Qed.
  Lemma Heqb_refl a : Heqb a a = true.
  Proof. apply HOK. reflexivity. Qed.

  Definition put1 (m : list (H * N)) (e : H * N) := map_put HO m (fst e) (snd e).
  Definition puts (m : list (H * N)) (tr : list (H * N)) := fold_left put1 tr m.

  Lemma puts_app m t1 t2 : puts m (t1 ++ t2) = puts (puts m t1) t2.
  Proof. apply fold_left_app. Qed.

  Lemma map_put_spec m h p : NoDup (map fst m) ->
    NoDup (map fst (map_put HO m h p)) /\
    forall k v, In (k, v) (map_put HO m h p) <-> (k = h /\ v = p) \/ (k <> h /\ In (k, v) m).
  Proof.
    induction m as [|[k0 v0] m IH]; intros Hnd.
    - cbn [map_put map]. split; [constructor; [intros []|constructor]|].
      intros k v. split.
      + intros [E|[]]. injection E as <- <-. left. split; reflexivity.
      + intros [[-> ->]|[_ []]]. left. reflexivity.
    - cbn [map fst] in Hnd. inversion Hnd as [|a l Hna Hnd']; subst a l.
      cbn [map_put]. destruct (Heqb k0 h) eqn:E.
      + apply HOK in E. subst k0. split; [exact Hnd|].
        intros k v. split.
        * intros [E|Hin]; [injection E as <- <-; left; split; reflexivity|].
          right. split; [|right; exact Hin]. intros ->. apply Hna.
          change h with (fst (h, v)). apply in_map, Hin.
        * intros [[-> ->]|[Hne [E|Hin]]]; [left; reflexivity| |right; exact Hin].
          injection E as <- <-. contradiction.
      + assert (Hne : k0 <> h) by (intros ->; rewrite Heqb_refl in E; discriminate).
        destruct (IH Hnd') as [IH1 IH2]. split.
        * cbn [map fst]. constructor; [|exact IH1].
          intros Hin. apply in_map_iff in Hin as ([k v] & Ek & Hin). cbn [fst] in Ek. subst k.
          apply IH2 in Hin as [[-> _]|[_ Hin]]; [contradiction|].
          apply Hna. change k0 with (fst (k0, v)). apply in_map, Hin.
        * intros k v. split.
          -- intros [E'|Hin]; [injection E' as <- <-; right; split; [exact Hne|left; reflexivity]|].
             apply IH2 in Hin as [Hl|[Hn Hin]]; [left; exact Hl|right; split; [exact Hn|right; exact Hin]].
          -- intros [Hl|[Hn [E'|Hin]]].
             ++ right. apply IH2. left. exact Hl.
             ++ left. exact E'.
             ++ right. apply IH2. right. split; assumption.
  Qed.

  Definition functional (l : list (H * N)) : Prop :=
    forall k v v', In (k, v) l -> In (k, v') l -> v = v'.

  Lemma puts_spec tr : forall m, NoDup (map fst m) -> functional (m ++ tr) ->
    NoDup (map fst (puts m tr)) /\
    forall k v, In (k, v) (puts m tr) <-> In (k, v) m \/ In (k, v) tr.
  Proof.
    induction tr as [|[h p] tr IH]; intros m Hnd Hf.
    - cbn [puts fold_left]. split; [exact Hnd|]. intros k v. split; [left; assumption|intros [Hm|[]]; exact Hm].
    - unfold puts. cbn [fold_left]. unfold put1 at 2. cbn [fst snd].
      destruct (map_put_spec m h p Hnd) as [Hnd1 Hin1].
      assert (Hf1 : functional (map_put HO m h p ++ tr)).
      { intros k v v' Hv Hv'. apply (Hf k v v').
        - apply in_app_or in Hv as [Hv|Hv].
          + apply Hin1 in Hv as [[-> ->]|[_ Hv]]; apply in_or_app; [right; left; reflexivity|left; exact Hv].
          + apply in_or_app. right. right. exact Hv.
        - apply in_app_or in Hv' as [Hv'|Hv'].
          + apply Hin1 in Hv' as [[-> ->]|[_ Hv']]; apply in_or_app; [right; left; reflexivity|left; exact Hv'].
          + apply in_or_app. right. right. exact Hv'. }
      destruct (IH _ Hnd1 Hf1) as [IH1 IH2]. split; [exact IH1|].
      intros k v. fold (puts (map_put HO m h p) tr). rewrite IH2. split.
      + intros [Hv|Hv]; [|right; right; exact Hv].
        apply Hin1 in Hv as [[-> ->]|[_ Hv]]; [right; left; reflexivity|left; exact Hv].
      + intros [Hv|[E|Hv]]; [|injection E as <- <-; left; apply Hin1; left; split; reflexivity|right; exact Hv].
        left. apply Hin1. destruct (HOK k h) as [_ Hd].
        destruct (Heqb k h) eqn:E.
        * apply HOK in E. subst k. left. split; [reflexivity|].
          apply (Hf h v p); apply in_or_app; [left; exact Hv|right; left; reflexivity].
        * right. split; [|exact Hv]. intros ->. rewrite Heqb_refl in E. discriminate.
  Qed.
End MapPut.

Lemma flat_map_nil_all (A B : Type) (f : A -> list B) l :
  (forall a, In a l -> f a = []) -> flat_map f l = [].
Proof.
  induction l as [|a l IH]; intros Hf; [reflexivity|]. cbn [flat_map].
  rewrite (Hf a (or_introl eq_refl)), IH; [reflexivity|].
  intros b Hb. apply Hf. right. exact Hb.
Qed.

(** * Part 4: the chain of one addition on the reference forest *)

Section Collect.
  Variable H : Type.
  Variable HO : ops H.
  Hypothesis HOK : ops_ok HO.
  Notation hash2 := (op_hash2 HO).
  Notation empty := (op_empty HO).
  Notation Heqb := (op_eqb HO).
  Hypothesis Hh2 : forall a b, Heqb (hash2 a b) empty = false.
  Notation entry := (StumpAdd.entry H).
  Notation carry := (StumpAdd.carry H HO).
  Notation erow := (@StumpAdd.erow H).
  Notation ehash := (StumpAdd.ehash H HO).
  Notation good := (StumpAdd.good H HO).
  Notation nonemp := (StumpAdd.nonemp H HO).
  Notation live_ok := (StumpAdd.live_ok H HO).

  Definition elo (e : entry) : N := snd (fst e).
  Definition ecoord (e : entry) : coord := (erow e, (elo e / 2 ^ N.of_nat (erow e))%N).
  (** the coordinate of the aligned segment of row [j] that contains slot [n] *)
  Definition xc (n : N) (j : nat) : coord := (j, (n / p2 j)%N).

  (** a chain: the trees of rows [h, h+1, ...] of a forest of [n] leaves *)
  Fixpoint chain_at (n : N) (h : nat) (ch : list entry) : Prop :=
    match ch with
    | [] => True
    | e :: ch' => erow e = h /\ elo e = (2 * (n / p2 (S h)) * p2 h)%N /\ bit n h = true /\
                  chain_at n (S h) ch'
    end.

  Lemma chain_at_app n ch1 : forall h ch2,
    chain_at n h (ch1 ++ ch2) <-> chain_at n h ch1 /\ chain_at n (h + length ch1) ch2.
  Proof.
    induction ch1 as [|e ch1 IH]; intros h ch2.
    - cbn [app chain_at length]. rewrite Nat.add_0_r. tauto.
    - cbn [app chain_at length]. rewrite IH. replace (S h + length ch1) with (h + S (length ch1)) by lia.
      tauto.
  Qed.

  Lemma chain_at_rows n ch : forall h e, chain_at n h ch -> In e ch -> h <= erow e < h + length ch.
  Proof.
    induction ch as [|e0 ch IH]; intros h e Hc Hin; [destruct Hin|].
    destruct Hc as (Hr & _ & _ & Hc). cbn [length]. destruct Hin as [<-|Hin]; [lia|].
    specialize (IH (S h) e Hc Hin). lia.
  Qed.

  (** the prefix of a row-sorted entry list that one increment of the counter consumes *)
  Lemma chain_split n : forall d h (l : list entry),
    (n < 2 ^ N.of_nat (h + d))%N ->
    map erow l = filter (bit n) (seq h d) ->
    (forall e, In e l -> elo e = (2 * (n / p2 (S (erow e))) * p2 (erow e))%N) ->
    exists ch un, l = ch ++ un /\ chain_at n h ch /\ bit n (h + length ch) = false /\
                  forall e, In e un -> h + length ch < erow e.
  Proof.
    induction d as [|d IH]; intros h l Hn Hrows Hlo.
    - cbn [seq filter] in Hrows. apply map_eq_nil in Hrows. subst l.
      exists [], []. split; [reflexivity|]. split; [exact I|]. split; [|intros e []].
      cbn [length]. rewrite Nat.add_0_r in *. unfold bit.
      rewrite <- (N.mod_small n (2 ^ N.of_nat h)) by exact Hn.
      apply N.mod_pow2_bits_high. lia.
    - cbn [seq filter] in Hrows. destruct (bit n h) eqn:Hb.
      + destruct l as [|e l]; [discriminate|]. cbn [map] in Hrows. injection Hrows as Hr Hrows.
        destruct (IH (S h) l) as (ch & un & El & Hc & Hstop & Hun).
        * replace (S h + d) with (h + S d) by lia. exact Hn.
        * exact Hrows.
        * intros e' He'. apply Hlo. right. exact He'.
        * exists (e :: ch), un. split; [rewrite El; reflexivity|].
          split; [|split].
          -- cbn [chain_at]. split; [exact Hr|]. split; [|split; [exact Hb|exact Hc]].
             rewrite <- Hr. apply Hlo. left. reflexivity.
          -- cbn [length]. replace (h + S (length ch)) with (S h + length ch) by lia. exact Hstop.
          -- intros e' He'. cbn [length]. specialize (Hun e' He'). lia.
      + exists [], l. split; [reflexivity|]. split; [exact I|]. cbn [length]. rewrite Nat.add_0_r.
        split; [exact Hb|]. intros e He.
        assert (Hin : In (erow e) (filter (bit n) (seq (S h) d))) by (rewrite <- Hrows; apply in_map, He).
        apply filter_In in Hin as [Hin _]. apply in_seq in Hin. lia.
  Qed.

  Lemma forest_chain (s : slots H) :
    exists ch un, rev (forest HO s) = ch ++ un /\ chain_at (N.of_nat (length s)) 0 ch /\
                  bit (N.of_nat (length s)) (length ch) = false /\
                  forall e, In e un -> length ch < erow e.
  Proof.
    destruct (chain_split (N.of_nat (length s)) (S (Nat.log2 (length s))) 0 (rev (forest HO s)))
      as (ch & un & E & Hc & Hb & Hun).
    - cbn [Nat.add]. rewrite <- pow2_N. pose proof (forest_len H s). lia.
    - apply forest_rows.
    - intros [[k lo] t] He. apply in_rev in He.
      apply forest_entry in He as (_ & _ & E2 & _). exact E2.
    - exists ch, un. cbn [Nat.add] in *. auto.
  Qed.

  (** the tree the chain builds *)
  Definition mstep (c : ctree H) (e : entry) : ctree H :=
    match snd e with None => c | Some c' => CNode (hash2 (chash c') (chash c)) c' c end.
  Definition merge (ch : list entry) (c : ctree H) : ctree H := fold_left mstep ch c.
  Definition last_lo (ch : list entry) (lo : N) : N := last (map elo ch) lo.

  Lemma last_shift (A : Type) (l : list A) : forall x d, last l x = last (x :: l) d.
  Proof.
    induction l as [|y l IHl]; intros x d; [reflexivity|].
    destruct l as [|z l]; [reflexivity|]. exact (IHl x d).
  Qed.

  Lemma carry_chain n un : forall ch h lo c, chain_at n h ch ->
    (forall e, In e un -> h + length ch < erow e) ->
    carry (ch ++ un) h lo (Some c) = (un, (h + length ch, last_lo ch lo, Some (merge ch c))).
  Proof.
    induction ch as [|[[r1 lo1] t1] ch IH]; intros h lo c Hc Hun.
    - cbn [app length merge fold_left last_lo map last]. rewrite Nat.add_0_r.
      destruct un as [|[[r1 lo1] t1] un]; [reflexivity|]. cbn [carry].
      specialize (Hun _ (or_introl eq_refl)). unfold StumpAdd.erow in Hun. cbn [fst length] in Hun.
      destruct (Nat.eqb_spec r1 h) as [Heq|_]; [lia|reflexivity].
    - destruct Hc as (Hr & _ & _ & Hc). unfold StumpAdd.erow in Hr. cbn [fst] in Hr. subst r1.
      cbn [app carry]. rewrite Nat.eqb_refl.
      assert (Ej : join HO t1 (Some c) = Some (mstep c (h, lo1, t1))).
      { unfold mstep. cbn [snd]. destruct t1; reflexivity. }
      rewrite Ej, IH; [|exact Hc|].
      + cbn [length merge fold_left].
        replace (S h + length ch) with (h + S (length ch)) by lia.
        assert (El : last_lo ch lo1 = last_lo ((h, lo1, t1) :: ch) lo).
        { unfold last_lo. cbn [map]. change (elo (h, lo1, t1)) with lo1. apply last_shift. }
        rewrite El. reflexivity.
      + intros e He. specialize (Hun e He). cbn [length] in Hun. lia.
  Qed.

  (** coordinates of the empty roots of a chain *)
  Definition nones (ch : list entry) : list coord :=
    flat_map (fun e : entry => match snd e with None => [ecoord e] | Some _ => [] end) ch.

  Lemma nones_app a b : nones (a ++ b) = nones a ++ nones b.
  Proof. apply flat_map_app. Qed.

  Lemma nones_in ch d : In d (nones ch) -> exists e, In e ch /\ snd e = None /\ d = ecoord e.
  Proof.
    intros Hin. apply in_flat_map in Hin as (e & He & Hd). exists e. split; [exact He|].
    destruct (snd e); [destruct Hd|]. destruct Hd as [<-|[]]. split; reflexivity.
  Qed.

  Fixpoint tdc_go (n : N) (fuel h : nat) (ts : list entry) : list coord :=
    match fuel with
    | O => []
    | S f =>
        if N.testbit n (N.of_nat h) then
          match ts with
          | (k, lo, t) :: rest =>
              (match t with
               | None => [(k, (lo / 2 ^ N.of_nat k)%N)]
               | Some _ => []
               end) ++ tdc_go n f (S h) rest
          | [] => []
          end
        else []
    end.

  Lemma td_go_coords n R : forall fuel h ts,
    td_go H n R fuel h ts = map (cpos R) (tdc_go n fuel h ts).
  Proof.
    induction fuel as [|f IH]; intros h ts; [reflexivity|].
    cbn [td_go tdc_go]. destruct (N.testbit n (N.of_nat h)); [|reflexivity].
    destruct ts as [|[[k lo] t] rest]; [reflexivity|]. rewrite map_app, IH.
    destruct t; reflexivity.
  Qed.

  Lemma tdc_go_chain n un : forall ch fuel h, chain_at n h ch -> length ch < fuel ->
    bit n (h + length ch) = false -> tdc_go n fuel h (ch ++ un) = nones ch.
  Proof.
    induction ch as [|[[r1 lo1] t1] ch IH]; intros fuel h Hc Hf Hb.
    - destruct fuel as [|f]; [cbn [length] in Hf; lia|]. cbn [app tdc_go nones flat_map].
      cbn [length] in Hb. rewrite Nat.add_0_r in Hb. unfold bit in Hb. rewrite Hb. reflexivity.
    - destruct fuel as [|f]; [cbn [length] in Hf; lia|]. destruct Hc as (Hr & _ & Hbit & Hc).
      cbn [app tdc_go]. unfold bit in Hbit. rewrite Hbit.
      cbn [length] in Hf, Hb. rewrite (IH f (S h) Hc) by (try lia; replace (S h + length ch) with (h + S (length ch)) by lia; exact Hb).
      unfold nones. cbn [flat_map snd]. destruct t1; reflexivity.
  Qed.

  (** the destroyed roots as coordinates *)
  Definition tdc (s : slots H) : list coord := tdc_go (num_leaves s) 65 0 (rev (forest HO s)).
  Fixpoint to_destroy_c (s : slots H) (adds : list H) : list coord :=
    match adds with
    | [] => []
    | a :: t => tdc s ++ to_destroy_c (s ++ [Some a]) t
    end.

  Lemma to_destroy_coords R : forall adds s,
    to_destroy HO R s adds = map (cpos R) (to_destroy_c s adds).
  Proof.
    induction adds as [|a adds IH]; intros s; [reflexivity|].
    cbn [to_destroy to_destroy_c]. rewrite map_app, IH, trailing_destroyed_go, td_go_coords.
    reflexivity.
  Qed.

  (** ** Coordinates along a chain *)

  Lemma chain_entry_coord n h (e : entry) : erow e = h -> elo e = (2 * (n / p2 (S h)) * p2 h)%N ->
    ecoord e = chd 0 (xc n (S h)).
  Proof.
    intros Hr Hlo. unfold ecoord, chd, xc. cbn [fst snd pred]. rewrite Hr, Hlo. f_equal.
    fold (p2 h). rewrite N.div_mul by (pose proof (p2_pos h); lia). lia.
  Qed.

  Lemma xc_child n h : bit n h = true -> xc n h = chd 1 (xc n (S h)).
  Proof.
    intros Hb. unfold xc, chd. cbn [fst snd pred]. f_equal.
    unfold bit in Hb. pose proof (N.testbit_spec' n (N.of_nat h)) as Hs. rewrite Hb in Hs.
    cbn [N.b2n] in Hs. fold (p2 h) in Hs.
    replace (p2 (S h)) with (p2 h * 2)%N by (rewrite p2_S; lia).
    rewrite <- N.div_div by (try (pose proof (p2_pos h)); lia).
    pose proof (N.div_mod (n / p2 h) 2 ltac:(lia)). lia.
  Qed.

  Lemma asc_from_lower D j b : asc_from j D -> (forall d, In d D -> b <= fst d) -> asc_from b D.
  Proof.
    destruct D as [|d D]; intros HD Hb; [exact I|]. destruct HD as [_ HD].
    split; [apply Hb; left; reflexivity|exact HD].
  Qed.

  Lemma asc_nones n Dn : forall ch h, chain_at n h ch -> asc_from (h + length ch) Dn ->
    asc_from h (nones ch ++ Dn).
  Proof.
    induction ch as [|e ch IH]; intros h Hc HD.
    - cbn [length] in HD. rewrite Nat.add_0_r in HD. exact HD.
    - destruct Hc as (Hr & _ & _ & Hc). cbn [length] in HD.
      replace (h + S (length ch)) with (S h + length ch) in HD by lia.
      specialize (IH (S h) Hc HD). unfold nones. cbn [flat_map]. fold (nones ch).
      destruct (snd e).
      + cbn [app]. exact (asc_from_weaken _ _ _ (Nat.le_succ_diag_r h) IH).
      + cbn [app asc_from]. unfold ecoord. cbn [fst]. rewrite Hr. split; [lia|exact IH].
  Qed.

  (** positions going down a chain from the position [Y] of the merged tree *)
  Fixpoint desc (ch : list entry) (Y : coord) : coord :=
    match ch with
    | [] => Y
    | e :: ch' => match snd e with None => desc ch' Y | Some _ => chd 1 (desc ch' Y) end
    end.
  Fixpoint somes (ch : list entry) : nat :=
    match ch with
    | [] => 0
    | e :: ch' => match snd e with None => somes ch' | Some _ => S (somes ch') end
    end.

  Lemma desc_row ch Y : fst (desc ch Y) = fst Y - somes ch.
  Proof.
    induction ch as [|e ch IH]; cbn [desc somes]; [lia|].
    destruct (snd e); [|exact IH]. unfold chd. cbn [fst]. lia.
  Qed.

  Lemma somes_le ch : somes ch <= length ch.
  Proof. induction ch as [|e ch IH]; cbn [somes length]; [lia|]. destruct (snd e); lia. Qed.

  Lemma desc_valid R ch Y : cvalid R Y -> somes ch <= fst Y -> cvalid R (desc ch Y).
  Proof.
    induction ch as [|e ch IH]; intros HY Hs; [exact HY|]. cbn [desc somes] in *.
    destruct (snd e); [|apply IH; assumption].
    apply chd_valid; [lia| |apply IH; [exact HY|lia]]. rewrite desc_row. lia.
  Qed.

  (** G1: the lifted position of the carried segment *)
  Lemma lift_chain n Dn : forall ch h, chain_at n h ch -> asc_from (h + length ch) Dn ->
    liftc (nones ch ++ Dn) (xc n h) = desc ch (liftc Dn (xc n (h + length ch))).
  Proof.
    induction ch as [|e ch IH]; intros h Hc HD.
    - cbn [nones flat_map app length desc]. rewrite Nat.add_0_r. reflexivity.
    - pose proof Hc as (Hr & Hlo & Hb & Hc'). cbn [length] in *.
      replace (h + S (length ch)) with (S h + length ch) in * by lia.
      specialize (IH (S h) Hc' HD). unfold nones. cbn [flat_map desc]. fold (nones ch).
      destruct (snd e) as [c'|].
      + cbn [app]. rewrite (xc_child n h Hb).
        change (chd 1 (xc n (S h))) with (h, (2 * (n / p2 (S h)) + 1)%N).
        destruct (liftc_child 1 ltac:(lia) (nones ch ++ Dn) (S h) (n / p2 (S h))%N ltac:(lia)
                    (asc_nones n Dn ch (S h) Hc' HD)) as [E _].
        cbn [pred] in E. rewrite E. fold (xc n (S h)). rewrite IH. reflexivity.
      + cbn [app]. unfold liftc. cbn [fold_left].
        rewrite (chain_entry_coord n h e Hr Hlo), (xc_child n h Hb).
        unfold chd, xc. cbn [fst snd pred]. rewrite N.add_0_r, lift1_empty.
        exact IH.
  Qed.

  (** G2: the lifted position of a popped non-empty root *)
  Lemma lift_popped n Dn ch1 (e : entry) ch2 c' :
    chain_at n 0 (ch1 ++ e :: ch2) -> snd e = Some c' ->
    asc_from (length (ch1 ++ e :: ch2)) Dn ->
    liftc (nones (ch1 ++ e :: ch2) ++ Dn) (ecoord e)
    = chd 0 (desc ch2 (liftc Dn (xc n (length (ch1 ++ e :: ch2))))).
  Proof.
    intros Hc He HD. apply chain_at_app in Hc as [Hc1 Hc2]. cbn [Nat.add] in Hc2.
    destruct Hc2 as (Hr & Hlo & Hb & Hc2).
    rewrite nones_app, <- app_assoc, liftc_app.
    rewrite (liftc_skip (nones ch1)).
    2:{ intros d Hd. apply nones_in in Hd as (e1 & He1 & _ & ->).
        pose proof (chain_at_rows n ch1 0 e1 Hc1 He1). unfold ecoord. cbn [fst]. lia. }
    unfold nones at 1. cbn [flat_map]. rewrite He. cbn [app]. fold (nones ch2).
    rewrite app_length in *. cbn [length] in *.
    replace (length ch1 + S (length ch2)) with (S (length ch1) + length ch2) in * by lia.
    rewrite (chain_entry_coord n (length ch1) e Hr Hlo).
    change (chd 0 (xc n (S (length ch1)))) with (length ch1, (2 * (n / p2 (S (length ch1))) + 0)%N).
    destruct (liftc_child 0 ltac:(lia) (nones ch2 ++ Dn) (S (length ch1)) (n / p2 (S (length ch1)))%N
                ltac:(lia) (asc_nones n Dn ch2 _ Hc2 HD)) as [E _].
    cbn [pred] in E. rewrite E. fold (xc n (S (length ch1))).
    rewrite (lift_chain n Dn ch2 _ Hc2 HD). reflexivity.
  Qed.

  (** G3: the trees above the chain are not affected by the roots destroyed in the chain *)
  Lemma lift_untouched n Dn ch (e : entry) : chain_at n 0 ch -> length ch < erow e ->
    liftc (nones ch ++ Dn) (ecoord e) = liftc Dn (ecoord e).
  Proof.
    intros Hc He. rewrite liftc_app. f_equal. apply liftc_skip.
    intros d Hd. apply nones_in in Hd as (e1 & He1 & _ & ->).
    pose proof (chain_at_rows n ch 0 e1 Hc He1). unfold ecoord. cbn [fst]. lia.
  Qed.

  (** ** One addition on the forest: the facts used by the invariant *)

  Lemma last_lo_coord n : forall ch h lo, chain_at n h ch -> (lo / p2 h = n / p2 h)%N ->
    (last_lo ch lo / p2 (h + length ch) = n / p2 (h + length ch))%N.
  Proof.
    induction ch as [|e ch IH]; intros h lo Hc Hlo.
    - cbn [length last_lo map last]. rewrite Nat.add_0_r. exact Hlo.
    - destruct Hc as (Hr & He & _ & Hc). unfold last_lo. cbn [map length].
      rewrite <- (last_shift _ (map elo ch) (elo e) lo). fold (last_lo ch (elo e)).
      replace (h + S (length ch)) with (S h + length ch) by lia. apply IH; [exact Hc|].
      rewrite He, (p2_S h). replace (2 * (n / (2 * p2 h)) * p2 h)%N with (n / (2 * p2 h) * (2 * p2 h))%N by lia.
      apply N.div_mul. pose proof (p2_pos h). lia.
  Qed.

  Lemma forest_row_63 (s : slots H) (e : entry) : (N.of_nat (length s) <= 2 ^ 63)%N ->
    In e (forest HO s) -> erow e <= 63.
  Proof.
    intros Hb He. pose proof (log2_le_63 _ Hb) as Hl.
    assert (Hin : In (erow e) (map erow (rev (forest HO s)))) by (apply in_map, in_rev; rewrite rev_involutive; exact He).
    rewrite forest_rows in Hin. apply filter_In in Hin as [Hin _]. apply in_seq in Hin. lia.
  Qed.

  Lemma ecoord_valid R (s : slots H) (e : entry) : (N.of_nat (length s) <= 2 ^ N.of_nat R)%N ->
    In e (forest HO s) -> cvalid R (ecoord e).
  Proof.
    intros Hb He. destruct e as [[k lo] t].
    pose proof (forest_entry H HO s k lo t He) as (_ & _ & E2 & Hlo & _).
    unfold ecoord, cvalid, elo. cbn [StumpAdd.erow fst snd]. fold (p2 k). fold (p2 R) in Hb.
    set (q := (N.of_nat (length s) / p2 (S k))%N) in *.
    assert (Eq : (lo / p2 k = 2 * q)%N).
    { rewrite E2. apply N.div_mul. pose proof (p2_pos k). lia. }
    rewrite Eq. pose proof (p2_pos k) as Hp.
    assert (Hle : ((2 * q + 1) * p2 k <= p2 R)%N) by lia.
    assert (Hk : k <= R).
    { destruct (Nat.le_gt_cases k R) as [Hle'|Hgt]; [exact Hle'|exfalso].
      pose proof (p2_le (S R) k Hgt) as Hle'. rewrite p2_S in Hle'. pose proof (p2_pos R). nia. }
    split; [exact Hk|]. rewrite <- Nat2N.inj_sub. fold (p2 (R - k)).
    rewrite (p2_split R k Hk) in Hle.
    apply N.mul_le_mono_pos_r in Hle; [lia|exact Hp].
  Qed.

  Lemma chain_at_last n : forall ch h, chain_at n h ch -> ch <> [] ->
    exists e, In e ch /\ erow e = h + length ch - 1.
  Proof.
    induction ch as [|e1 ch IH]; intros h Hc Hne; [contradiction|].
    destruct Hc as (Hr & _ & _ & Hc). destruct ch as [|e2 ch].
    - exists e1. split; [left; reflexivity|]. cbn [length]. lia.
    - destruct (IH (S h) Hc ltac:(discriminate)) as (e & He & Hre).
      exists e. split; [right; exact He|]. cbn [length] in *. lia.
  Qed.

  Lemma chain_len n ch : chain_at n 0 ch -> (forall e, In e ch -> erow e <= 63) -> length ch <= 64.
  Proof.
    intros Hc Hr. destruct ch as [|e0 ch0] eqn:Ech; [cbn; lia|]. rewrite <- Ech in *.
    destruct (chain_at_last n ch 0 Hc) as (e & En & Hre); [rewrite Ech; discriminate|].
    specialize (Hr e En). lia.
  Qed.

  Record step_data (s : slots H) (a : H) (rest : list H) (ch un : list entry) : Prop := {
    sd_split : rev (forest HO s) = ch ++ un;
    sd_chain : chain_at (num_leaves s) 0 ch;
    sd_stop : bit (num_leaves s) (length ch) = false;
    sd_un : forall e, In e un -> length ch < erow e;
    sd_next : rev (forest HO (s ++ [Some a]))
              = (length ch, last_lo ch (num_leaves s), Some (merge ch (CLeaf a))) :: un;
    sd_coord : ecoord (length ch, last_lo ch (num_leaves s), Some (merge ch (CLeaf a)))
               = xc (num_leaves s) (length ch);
    sd_dest : to_destroy_c s (a :: rest) = nones ch ++ to_destroy_c (s ++ [Some a]) rest;
    sd_len : length ch <= 64 }.
  Arguments sd_split {s a rest ch un}.
  Arguments sd_chain {s a rest ch un}.
  Arguments sd_stop {s a rest ch un}.
  Arguments sd_un {s a rest ch un}.
  Arguments sd_next {s a rest ch un}.
  Arguments sd_coord {s a rest ch un}.
  Arguments sd_dest {s a rest ch un}.
  Arguments sd_len {s a rest ch un}.

  Lemma step_data_ex (s : slots H) a rest : (N.of_nat (length s) <= 2 ^ 63)%N ->
    exists ch un, step_data s a rest ch un.
  Proof.
    intros Hb. destruct (forest_chain s) as (ch & un & E & Hc & Hstop & Hun).
    exists ch, un. unfold num_leaves.
    assert (Hlen : length ch <= 64).
    { apply (chain_len _ ch Hc). intros e En. apply (forest_row_63 s e Hb).
      apply (proj2 (in_rev (forest HO s) e)). rewrite E. apply in_or_app. left. exact En. }
    constructor; try assumption.
    - pose proof (forest_snoc H HO s (Some a)) as Hsn. cbv zeta in Hsn.
      change (compress HO 0 [Some a]) with (Some (CLeaf a)) in Hsn.
      rewrite E, (carry_chain _ un ch 0 _ _ Hc) in Hsn by (cbn [Nat.add]; exact Hun).
      cbn [fst snd Nat.add] in Hsn. exact Hsn.
    - unfold ecoord. cbn [StumpAdd.erow elo fst snd]. unfold xc. f_equal. fold (p2 (length ch)).
      apply (last_lo_coord _ ch 0 _ Hc). reflexivity.
    - cbn [to_destroy_c]. f_equal. unfold tdc, num_leaves. rewrite E.
      apply tdc_go_chain; [exact Hc|exact (proj2 (Nat.lt_succ_r _ _) Hlen)|exact Hstop].
  Qed.

  Lemma pow_R_63 R x : R <= 63 -> (x <= 2 ^ N.of_nat R)%N -> (x <= 2 ^ 63)%N.
  Proof. intros HR Hx. eapply N.le_trans; [exact Hx|]. apply N.pow_le_mono_r; lia. Qed.

  Lemma step_in_forest s a rest ch un (e : entry) : step_data s a rest ch un ->
    In e (ch ++ un) <-> In e (forest HO s).
  Proof.
    intros SD. rewrite <- (sd_split SD). symmetry. apply (in_rev (forest HO s) e).
  Qed.

  Lemma step_in_forest' s a rest ch un (e : entry) : step_data s a rest ch un ->
    In e (forest HO (s ++ [Some a])) <->
    e = (length ch, last_lo ch (num_leaves s), Some (merge ch (CLeaf a))) \/ In e un.
  Proof.
    intros SD. rewrite (in_rev (forest HO (s ++ [Some a])) e), (sd_next SD). cbn [In].
    split; (intros [Hl|Hr]; [left; symmetry; exact Hl|right; exact Hr]).
  Qed.

  (** the destroyed roots: ascending rows, empty roots of the forest, below the top row *)
  Lemma to_destroy_struct R : R <= 63 -> forall adds (s : slots H),
    (N.of_nat (length s + length adds) <= 2 ^ N.of_nat R)%N ->
    asc_from 0 (to_destroy_c s adds) /\
    forall d, In d (to_destroy_c s adds) ->
      (exists e : entry, In e (forest HO s) /\ snd e = None /\ d = ecoord e) /\ fst d < R.
  Proof.
    intros HR. induction adds as [|a adds IH]; intros s Hb.
    - cbn [to_destroy_c]. split; [exact I|intros d []].
    - cbn [length] in Hb.
      destruct (step_data_ex s a adds) as (ch & un & SD); [apply (pow_R_63 R); [exact HR|lia]|].
      rewrite (sd_dest SD).
      destruct (IH (s ++ [Some a])) as [IHa IHm].
      { rewrite app_length. cbn [length]. replace (length s + 1 + length adds) with (length s + S (length adds)) by lia. exact Hb. }
      set (E := (length ch, last_lo ch (num_leaves s), Some (merge ch (CLeaf a))) : entry) in *.
      assert (HE : In E (forest HO (s ++ [Some a]))) by (apply (step_in_forest' _ _ _ _ _ E SD); left; reflexivity).
      assert (HER : length ch <= R).
      { assert (Hv : cvalid R (ecoord E)).
        { apply (ecoord_valid R (s ++ [Some a]) E); [|exact HE]. rewrite app_length. cbn [length]. lia. }
        destruct Hv as [Hv _]. exact Hv. }
      assert (Hdn : forall d, In d (to_destroy_c (s ++ [Some a]) adds) ->
                    exists e : entry, In e un /\ snd e = None /\ d = ecoord e).
      { intros d Hd. destruct (IHm d Hd) as [(e & He & Hn & ->) _].
        apply (step_in_forest' _ _ _ _ _ e SD) in He as [->|He]; [discriminate Hn|].
        exists e. auto. }
      split.
      + apply (asc_nones (num_leaves s)); [exact (sd_chain SD)|].
        apply (asc_from_lower _ 0); [exact IHa|].
        intros d Hd. destruct (Hdn d Hd) as (e & He & _ & ->).
        pose proof (sd_un SD e He). unfold ecoord. cbn [fst Nat.add]. lia.
      + intros d Hd. apply in_app_or in Hd as [Hd|Hd].
        * apply nones_in in Hd as (e & He & Hn & ->). split.
          -- exists e. split; [|auto]. apply (step_in_forest _ _ _ _ _ e SD), in_or_app. left. exact He.
          -- pose proof (chain_at_rows _ ch 0 e (sd_chain SD) He). unfold ecoord. cbn [fst]. lia.
        * split; [|exact (proj2 (IHm d Hd))].
          destruct (Hdn d Hd) as (e & He & Hn & ->). exists e. split; [|auto].
          apply (step_in_forest _ _ _ _ _ e SD), in_or_app. right. exact He.
  Qed.

  Lemma step_asc R s a rest ch un : R <= 63 ->
    (N.of_nat (length s + S (length rest)) <= 2 ^ N.of_nat R)%N ->
    step_data s a rest ch un ->
    asc_from (S (length ch)) (to_destroy_c (s ++ [Some a]) rest) /\
    (forall d, In d (to_destroy_c (s ++ [Some a]) rest) -> fst d < R /\ cvalid R d) /\
    (forall d, In d (to_destroy_c s (a :: rest)) -> fst d < R /\ cvalid R d).
  Proof.
    intros HR Hb SD.
    assert (Hb' : (N.of_nat (length (s ++ [Some a]) + length rest) <= 2 ^ N.of_nat R)%N).
    { rewrite app_length. cbn [length]. replace (length s + 1 + length rest) with (length s + S (length rest)) by lia. exact Hb. }
    destruct (to_destroy_struct R HR rest (s ++ [Some a]) Hb') as [Ha Hm].
    destruct (to_destroy_struct R HR (a :: rest) s Hb) as [_ Hm0].
    split; [|split].
    - apply (asc_from_lower _ 0); [exact Ha|].
      intros d Hd. destruct (Hm d Hd) as [(e & He & Hn & ->) _].
      apply (step_in_forest' _ _ _ _ _ e SD) in He as [->|He]; [discriminate Hn|].
      pose proof (sd_un SD e He). unfold ecoord. cbn [fst]. lia.
    - intros d Hd. destruct (Hm d Hd) as [(e & He & _ & ->) Hlt]. split; [exact Hlt|].
      apply (ecoord_valid R (s ++ [Some a])); [lia|exact He].
    - intros d Hd. destruct (Hm0 d Hd) as [(e & He & _ & ->) Hlt]. split; [exact Hlt|].
      apply (ecoord_valid R s); [lia|exact He].
  Qed.

  (** ** The chain of [Stump.add] on hashes and positions *)

  (** what one chain records: (hash, coordinate) *)
  Fixpoint spine (ch : list entry) (c : ctree H) (Y : coord) : list (H * coord) :=
    match ch with
    | [] => []
    | e :: ch' =>
        match snd e with
        | None => spine ch' c Y
        | Some c' => (chash c', chd 0 (desc ch' Y)) :: (chash c, chd 1 (desc ch' Y))
                     :: spine ch' (mstep c e) Y
        end
    end.
  Definition tocp (R : nat) (hy : H * coord) : H * N := (fst hy, cpos R (snd hy)).
  Notation puts := (puts H HO).

  Lemma add_chain_spine R n un Y : R <= 63 -> cvalid R Y ->
    forall ch h c fuel m, chain_at n h ch -> bit n (h + length ch) = false ->
    length ch < fuel -> h + length ch <= 200 ->
    Forall good ch -> nonemp (chash c) -> somes ch <= fst Y ->
    add_chain HO fuel n (N.of_nat h) (N.of_nat R) (map ehash (ch ++ un)) (chash c)
              (cpos R (desc ch Y)) m
    = (map ehash un, chash (merge ch c), puts m (map (tocp R) (spine ch c Y))).
  Proof.
    intros HR HY. induction ch as [|e ch IH]; intros h c fuel m Hc Hb Hf Hh Hg Hne Hs.
    - destruct fuel as [|f]; [cbn [length] in Hf; lia|].
      cbn [length] in Hb. rewrite Nat.add_0_r in Hb.
      cbn [app add_chain]. rewrite bit_test. unfold bit in Hb. rewrite Hb. reflexivity.
    - destruct fuel as [|f]; [cbn [length] in Hf; lia|].
      destruct Hc as (Hr & _ & Hbit & Hc). cbn [length] in *.
      replace (h + S (length ch)) with (S h + length ch) in * by lia.
      inversion Hg as [|e0 l0 Hg1 Hgl]; subst e0 l0.
      cbn [app map add_chain]. rewrite bit_test. unfold bit in Hbit. rewrite Hbit.
      rewrite add8_succ by lia. cbn [desc somes spine merge fold_left] in *.
      destruct e as [[r1 lo1] t1]. unfold StumpAdd.ehash at 1. cbn [snd] in *.
      destruct t1 as [c'|]; cbn [root_hash].
      + pose proof (Hg1 c' eq_refl) as Hc'. unfold StumpAdd.nonemp in Hc'. rewrite Hc'.
        set (y' := desc ch Y).
        assert (Hy1 : 1 <= fst y') by (unfold y'; rewrite desc_row; lia).
        assert (Hyv : cvalid R y') by (apply desc_valid; [exact HY|lia]).
        rewrite (leftSib_chd R y' Hy1 (proj1 Hyv)).
        rewrite (Parent_chd R 1 y' HR ltac:(lia) Hy1 Hyv).
        change (hash2 (chash c') (chash c)) with (chash (mstep c (r1, lo1, Some c'))).
        unfold y'. rewrite (IH (S h) (mstep c (r1, lo1, Some c')) f); try assumption; try lia.
        * reflexivity.
        * unfold mstep. cbn [snd chash]. apply Hh2.
      + rewrite (Heqb_refl H HO HOK).
        rewrite (IH (S h) c f m); try assumption; try lia. reflexivity.
  Qed.

  (** ** The specification side: [add_nodes] along the spine of the merged tree *)

  Definition an (A : list H) (c : ctree H) (y : coord) (b : bool) : list (nat * N * H) :=
    add_nodes HO A c (fst y) (snd y) b.
  Definition trip (hy : H * coord) : nat * N * H := (fst (snd hy), snd (snd hy), fst hy).

  Lemma an_node A h l r y b : 1 <= fst y ->
    an A (CNode h l r) y b =
    if has_leaf_in HO A (CNode h l r)
    then trip (chash l, chd 0 y) :: trip (chash r, chd 1 y)
         :: an A l (chd 0 y) false ++ an A r (chd 1 y) false
    else [].
  Proof.
    intros Hy. destruct y as [r0 o]. cbn [fst] in Hy. destruct r0 as [|r']; [lia|].
    unfold an, trip, chd. cbn [fst snd pred]. rewrite N.add_0_r. reflexivity.
  Qed.

  Lemma an_false_true A c y x : In x (an A c y false) -> In x (an A c y true).
  Proof. destruct c; [intros []|exact (fun h => h)]. Qed.

  Lemma an_true_false A c y x : In x (an A c y true) ->
    In x (an A c y false) \/ x = trip (chash c, y).
  Proof.
    destruct c as [h|h l r]; [|left; assumption].
    unfold an. cbn [add_nodes andb]. destruct (memH HO h A); [|intros []].
    intros [<-|[]]. right. reflexivity.
  Qed.

  Fixpoint inner (A : list H) (b : bool) (ch : list entry) (Y : coord) : list (nat * N * H) :=
    match ch with
    | [] => []
    | e :: ch' =>
        (match snd e with None => [] | Some c' => an A c' (chd 0 (desc ch' Y)) b end)
        ++ inner A b ch' Y
    end.
  Fixpoint all_none (ch : list entry) : bool :=
    match ch with
    | [] => true
    | e :: ch' => match snd e with None => all_none ch' | Some _ => false end
    end.

  Lemma spine_sets A Y b : forall ch c, has_leaf_in HO A c = true -> somes ch <= fst Y ->
    forall x, In x (an A (merge ch c) Y b) <->
      In x (an A c (desc ch Y) (b && all_none ch)) \/ In x (map trip (spine ch c Y))
      \/ In x (inner A false ch Y).
  Proof.
    induction ch as [|e ch IH]; intros c Hl Hs x.
    - cbn [merge fold_left desc all_none spine inner map]. rewrite andb_true_r.
      split; [left; assumption|intros [Hx|[[]|[]]]; exact Hx].
    - cbn [merge fold_left desc all_none spine inner somes] in *. fold (merge ch (mstep c e)).
      destruct e as [[r1 lo1] t1]. cbn [snd] in *. destruct t1 as [c'|].
      + rewrite (IH (mstep c (r1, lo1, Some c'))).
        2:{ unfold mstep. cbn [snd has_leaf_in]. rewrite Hl. apply orb_true_r. }
        2:{ lia. }
        set (y' := desc ch Y). assert (Hy1 : 1 <= fst y') by (unfold y'; rewrite desc_row; lia).
        unfold mstep at 1. cbn [snd]. rewrite (an_node A _ c' c y' _ Hy1).
        cbn [has_leaf_in]. rewrite Hl, orb_true_r, andb_false_r.
        cbn [map In]. rewrite !in_app_iff. cbn [In]. tauto.
      + rewrite (IH c Hl Hs). cbn [app]. unfold mstep. cbn [snd]. tauto.
  Qed.

  Lemma spine_first Y : forall ch c, all_none ch = false ->
    In (trip (chash c, desc ch Y)) (map trip (spine ch c Y)).
  Proof.
    induction ch as [|e ch IH]; intros c Hn; [discriminate|].
    cbn [all_none desc spine] in *. destruct (snd e).
    - right. left. reflexivity.
    - apply IH, Hn.
  Qed.

  Lemma inner_true_false A Y x : forall ch c, In x (inner A true ch Y) ->
    In x (inner A false ch Y) \/ In x (map trip (spine ch c Y)).
  Proof.
    induction ch as [|e ch IH]; intros c Hx; [destruct Hx|].
    cbn [inner spine] in *. apply in_app_or in Hx as [Hx|Hx].
    - destruct (snd e) as [c'|]; [|destruct Hx].
      apply an_true_false in Hx as [Hx| ->].
      + left. apply in_or_app. left. exact Hx.
      + right. left. reflexivity.
    - destruct (snd e) as [c'|].
      + destruct (IH (mstep c e) Hx) as [Hi|Hs]; [left; apply in_or_app; right; exact Hi|].
        right. right. right. exact Hs.
      + destruct (IH c Hx) as [Hi|Hs]; [left; exact Hi|right; exact Hs].
  Qed.

  Lemma inner_false_true A Y x : forall ch, In x (inner A false ch Y) -> In x (inner A true ch Y).
  Proof.
    induction ch as [|e ch IH]; intros Hx; [destruct Hx|].
    cbn [inner] in *. apply in_app_or in Hx as [Hx|Hx]; apply in_or_app; [left|right; apply IH, Hx].
    destruct (snd e); [apply an_false_true, Hx|destruct Hx].
  Qed.

  Lemma inner_in A b Y x : forall ch, In x (inner A b ch Y) <->
    exists ch1 (e : entry) ch2 c', ch = ch1 ++ e :: ch2 /\ snd e = Some c' /\
                         In x (an A c' (chd 0 (desc ch2 Y)) b).
  Proof.
    induction ch as [|e ch IH].
    - split; [intros []|]. intros (ch1 & e & ch2 & c' & E & _). destruct ch1; discriminate.
    - cbn [inner]. rewrite in_app_iff, IH. split.
      + intros [Hx|(ch1 & e1 & ch2 & c' & -> & He & Hx)].
        * destruct (snd e) as [c'|] eqn:Ee; [|destruct Hx].
          exists [], e, ch, c'. auto.
        * exists (e :: ch1), e1, ch2, c'. auto.
      + intros (ch1 & e1 & ch2 & c' & E & He & Hx). destruct ch1 as [|e0 ch1].
        * cbn [app] in E. injection E as -> ->. left. rewrite He. exact Hx.
        * cbn [app] in E. injection E as -> ->. right. exists ch1, e1, ch2, c'. auto.
  Qed.

  (** the merged tree at its position, as a root *)
  Lemma merged_sets A Y a ch : memH HO a A = true -> somes ch <= fst Y ->
    forall x, In x (an A (merge ch (CLeaf a)) Y true) <->
      x = trip (a, desc ch Y) \/ In x (map trip (spine ch (CLeaf a) Y))
      \/ In x (inner A true ch Y).
  Proof.
    intros Ha Hs x. rewrite (spine_sets A Y true ch (CLeaf a) Ha Hs). cbn [andb].
    unfold an at 1. cbn [add_nodes]. rewrite Ha, andb_true_r. split.
    - intros [Hx|[Hx|Hx]].
      + destruct (all_none ch); [|destruct Hx]. destruct Hx as [<-|[]]. left. reflexivity.
      + right. left. exact Hx.
      + right. right. apply inner_false_true, Hx.
    - intros [-> |[Hx|Hx]].
      + destruct (all_none ch) eqn:En; [left; left; reflexivity|].
        right. left. exact (spine_first Y ch (CLeaf a) En).
      + right. left. exact Hx.
      + destruct (inner_true_false A Y x ch (CLeaf a) Hx) as [Hi|Hsp]; [right; right; exact Hi|].
        right. left. exact Hsp.
  Qed.

  (** ** The invariant: nodes created so far, at their final coordinates *)

  Definition UUf (A : list H) (D : list coord) (e : entry) : list (nat * N * H) :=
    match snd e with None => [] | Some c => an A c (liftc D (ecoord e)) true end.
  Definition UU (A : list H) (s : slots H) (rest : list H) : list (nat * N * H) :=
    flat_map (UUf A (to_destroy_c s rest)) (forest HO s).

  Lemma liftc_row_ge D : forall x, fst x <= fst (liftc D x).
  Proof.
    induction D as [|d D IH]; intros x; [cbn; lia|].
    unfold liftc. cbn [fold_left]. fold (liftc D (lift1 d x)).
    pose proof (lift1_row d x). specialize (IH (lift1 d x)). lia.
  Qed.

  Lemma step_sets R A s a rest ch un : R <= 63 ->
    (N.of_nat (length s + S (length rest)) <= 2 ^ N.of_nat R)%N ->
    step_data s a rest ch un -> memH HO a A = true ->
    let Y := liftc (to_destroy_c (s ++ [Some a]) rest) (xc (num_leaves s) (length ch)) in
    forall x, In x (UU A (s ++ [Some a]) rest) <->
      x = trip (a, desc ch Y) \/ In x (map trip (spine ch (CLeaf a) Y)) \/ In x (UU A s (a :: rest)).
  Proof.
    intros HR Hb SD Ha Y x.
    destruct (step_asc R s a rest ch un HR Hb SD) as (Hasc & _ & _).
    set (Dn := to_destroy_c (s ++ [Some a]) rest) in *.
    set (E := (length ch, last_lo ch (num_leaves s), Some (merge ch (CLeaf a))) : entry).
    assert (HsY : somes ch <= fst Y).
    { pose proof (liftc_row_ge Dn (xc (num_leaves s) (length ch))) as Hge. fold Y in Hge.
      cbn [xc fst] in Hge. pose proof (somes_le ch). lia. }
    assert (EE : UUf A Dn E = an A (merge ch (CLeaf a)) Y true).
    { unfold UUf, E. cbn [snd]. fold E. unfold E. rewrite (sd_coord SD). reflexivity. }
    (* a popped non-empty root: its final coordinate *)
    assert (Hpop : forall ch1 (e : entry) ch2 c', ch = ch1 ++ e :: ch2 -> snd e = Some c' ->
              UUf A (to_destroy_c s (a :: rest)) e = an A c' (chd 0 (desc ch2 Y)) true).
    { intros ch1 e ch2 c' Ech He. unfold UUf. rewrite He, (sd_dest SD). fold Dn. f_equal.
      pose proof (sd_chain SD) as Hc. rewrite Ech in Hc |- *.
      rewrite (lift_popped (num_leaves s) Dn ch1 e ch2 c' Hc He).
      - unfold Y. rewrite Ech. reflexivity.
      - rewrite <- Ech. exact (asc_from_weaken _ _ _ (Nat.le_succ_diag_r _) Hasc). }
    assert (Hun : forall e : entry, In e un -> UUf A (to_destroy_c s (a :: rest)) e = UUf A Dn e).
    { intros e He. unfold UUf. destruct (snd e); [|reflexivity]. rewrite (sd_dest SD). fold Dn.
      rewrite (lift_untouched (num_leaves s) Dn ch e (sd_chain SD) (sd_un SD e He)). reflexivity. }
    unfold UU. fold Dn. rewrite !in_flat_map. split.
    - intros (e & He & Hx). apply (step_in_forest' _ _ _ _ _ e SD) in He as [-> |He].
      + fold E in Hx. rewrite EE in Hx. apply (merged_sets A Y a ch Ha HsY) in Hx as [Hx|[Hx|Hx]].
        * left. exact Hx.
        * right. left. exact Hx.
        * right. right. apply inner_in in Hx as (ch1 & e1 & ch2 & c' & Ech & He1 & Hx).
          exists e1. split.
          -- apply (step_in_forest _ _ _ _ _ e1 SD). rewrite Ech. apply in_or_app. left.
             apply in_or_app. right. left. reflexivity.
          -- rewrite (Hpop ch1 e1 ch2 c' Ech He1). exact Hx.
      + right. right. exists e. split.
        * apply (step_in_forest _ _ _ _ _ e SD), in_or_app. right. exact He.
        * rewrite (Hun e He). exact Hx.
    - intros Hx. assert (HE : In E (forest HO (s ++ [Some a])))
        by (apply (step_in_forest' _ _ _ _ _ E SD); left; reflexivity).
      destruct Hx as [Hx|[Hx|(e & He & Hx)]].
      + exists E. split; [exact HE|]. rewrite EE. apply (merged_sets A Y a ch Ha HsY). left. exact Hx.
      + exists E. split; [exact HE|]. rewrite EE. apply (merged_sets A Y a ch Ha HsY). right. left. exact Hx.
      + apply (step_in_forest _ _ _ _ _ e SD) in He. apply in_app_or in He as [He|He].
        * exists E. split; [exact HE|]. rewrite EE. apply (merged_sets A Y a ch Ha HsY). right. right.
          destruct (in_split e ch He) as (ch1 & ch2 & Ech).
          destruct (snd e) as [c'|] eqn:Ee.
          -- apply inner_in. exists ch1, e, ch2, c'. split; [exact Ech|]. split; [exact Ee|].
             rewrite <- (Hpop ch1 e ch2 c' Ech Ee). exact Hx.
          -- unfold UUf in Hx. rewrite Ee in Hx. destruct Hx.
        * exists e. split.
          -- apply (step_in_forest' _ _ _ _ _ e SD). right. exact He.
          -- rewrite <- (Hun e He). exact Hx.
  Qed.

  (** ** One iteration of the loop of [Stump.add] *)

  Definition tag (R : nat) (x : nat * N * H) : H * N := (snd x, pos R (fst (fst x)) (snd (fst x))).
  Definition UT (A : list H) (R : nat) (s : slots H) (rest : list H) : list (H * N) :=
    map (tag R) (UU A s rest).

  Lemma step_sets_tagged R A s a rest ch un : R <= 63 ->
    (N.of_nat (length s + S (length rest)) <= 2 ^ N.of_nat R)%N ->
    step_data s a rest ch un -> memH HO a A = true ->
    let Y := liftc (to_destroy_c (s ++ [Some a]) rest) (xc (num_leaves s) (length ch)) in
    forall e, In e (UT A R (s ++ [Some a]) rest) <->
      e = tocp R (a, desc ch Y) \/ In e (map (tocp R) (spine ch (CLeaf a) Y))
      \/ In e (UT A R s (a :: rest)).
  Proof.
    intros HR Hb SD Ha Y e. unfold UT. rewrite !in_map_iff. split.
    - intros (x & <- & Hx). apply (step_sets R A s a rest ch un HR Hb SD Ha) in Hx.
      fold Y in Hx. destruct Hx as [-> |[Hx|Hx]].
      + left. reflexivity.
      + right. left. apply in_map_iff in Hx as (hy & <- & Hhy). exists hy. split; [reflexivity|exact Hhy].
      + right. right. exists x. split; [reflexivity|exact Hx].
    - intros [-> |[(hy & <- & Hhy)|(x & <- & Hx)]].
      + exists (trip (a, desc ch Y)). split; [reflexivity|].
        apply (step_sets R A s a rest ch un HR Hb SD Ha). left. reflexivity.
      + exists (trip hy). split; [reflexivity|].
        apply (step_sets R A s a rest ch un HR Hb SD Ha). right. left. apply in_map, Hhy.
      + exists x. split; [reflexivity|].
        apply (step_sets R A s a rest ch un HR Hb SD Ha). right. right. exact Hx.
  Qed.

  Lemma rev_roots_ehash (s : slots H) : rev (roots HO s) = map ehash (rev (forest HO s)).
  Proof. unfold roots. rewrite <- map_rev. reflexivity. Qed.

  Lemma cpos_leaf R n : cpos R (0, n) = n.
  Proof.
    unfold cpos, pos. cbn [fst snd]. change (N.of_nat 0) with 0%N. rewrite N.sub_0_r. lia.
  Qed.

  Lemma rows_of_le_63 n : (n <= 2 ^ 63)%N -> rows_of n <= 63.
  Proof.
    intros Hn. assert (HR : (N.of_nat (rows_of n) <= 63)%N); [|lia].
    rewrite rows_of_TreeRows. apply TreeRows_le_63. exact Hn.
  Qed.

  Lemma add_loop_step filler (s : slots H) a rest ch un m :
    let R := rows_of (N.of_nat (length s + S (length rest))) in
    (N.of_nat (length s + S (length rest)) <= 2 ^ 63)%N ->
    Heqb filler empty = false -> live_ok s -> nonemp a ->
    step_data s a rest ch un ->
    let Y := liftc (to_destroy_c (s ++ [Some a]) rest) (xc (num_leaves s) (length ch)) in
    add_loop HO true filler (a :: rest) (N.of_nat (length s)) (N.of_nat R) (rev (roots HO s)) m
    = add_loop HO true filler rest (N.of_nat (length (s ++ [Some a]))) (N.of_nat R)
        (rev (roots HO (s ++ [Some a])))
        (puts m (tocp R (a, desc ch Y) :: map (tocp R) (spine ch (CLeaf a) Y))).
  Proof.
    intros R Hb63 Hf Hl Ha SD Y.
    assert (HR : R <= 63) by (apply rows_of_le_63; exact Hb63).
    assert (Hb : (N.of_nat (length s + S (length rest)) <= 2 ^ N.of_nat R)%N) by apply rows_of_upper.
    destruct (step_asc R s a rest ch un HR Hb SD) as (Hasc & Hdn & Hd).
    set (Dn := to_destroy_c (s ++ [Some a]) rest) in *.
    set (n := N.of_nat (length s)) in *.
    set (E := (length ch, last_lo ch (num_leaves s), Some (merge ch (CLeaf a))) : entry).
    assert (HE : In E (forest HO (s ++ [Some a])))
      by (apply (step_in_forest' _ _ _ _ _ E SD); left; reflexivity).
    assert (HYv : cvalid R Y).
    { unfold Y. apply liftc_valid; [intros d Hdd; exact (proj1 (Hdn d Hdd))|].
      rewrite <- (sd_coord SD). apply (ecoord_valid R (s ++ [Some a])); [|exact HE].
      rewrite app_length. cbn [length]. lia. }
    assert (HsY : somes ch <= fst Y).
    { pose proof (liftc_row_ge Dn (xc (num_leaves s) (length ch))) as Hge. fold Y in Hge.
      cbn [xc fst] in Hge. pose proof (somes_le ch). lia. }
    cbn [add_loop]. rewrite rev_involutive.
    (* the destroyed roots *)
    assert (Edel : rootsToDestroy HO filler (length (a :: rest)) n (roots HO s)
                   = map (cpos R) (to_destroy_c s (a :: rest))).
    { rewrite <- to_destroy_coords.
      pose proof (rootsToDestroy_spec_sec H HO HOK filler s (a :: rest) Hh2 Hf Hl) as Hsp.
      cbn [length] in Hsp. specialize (Hsp Hb63). unfold num_leaves in Hsp.
      rewrite app_length, map_length in Hsp. cbn [length] in Hsp. exact Hsp. }
    rewrite Edel.
    (* the lifted position of the new leaf *)
    assert (Ep : lift_pos (map (cpos R) (to_destroy_c s (a :: rest))) n (N.of_nat R)
                 = cpos R (desc ch Y)).
    { rewrite <- (cpos_leaf R n) at 1. rewrite lift_pos_bridge; [|exact HR|exact Hd|].
      - f_equal. rewrite (sd_dest SD). fold Dn.
        replace (0, n) with (xc n 0) by (unfold xc; rewrite p2_0, N.div_1_r; reflexivity).
        rewrite (lift_chain n Dn ch 0 (sd_chain SD)).
        + reflexivity.
        + cbn [Nat.add]. exact (asc_from_weaken _ _ _ (Nat.le_succ_diag_r _) Hasc).
      - split; cbn [fst snd]; [lia|]. rewrite N.sub_0_r. unfold n. lia. }
    rewrite Ep.
    (* the chain *)
    rewrite rev_roots_ehash, (sd_split SD).
    change a with (chash (CLeaf a)) at 2.
    change (0%N) with (N.of_nat 0) at 1.
    rewrite (add_chain_spine R n un Y HR HYv ch 0 (CLeaf a) 65).
    - rewrite (rev_roots_ehash (s ++ [Some a])), (sd_next SD). cbn [map].
      replace (n + 1)%N with (N.of_nat (length (s ++ [Some a]))) by (rewrite app_length; cbn [length]; lia).
      reflexivity.
    - exact (sd_chain SD).
    - exact (sd_stop SD).
    - pose proof (sd_len SD). lia.
    - pose proof (sd_len SD). lia.
    - apply Forall_forall. intros e He.
      pose proof (trees_good H HO Hh2 (Nat.log2 (length s)) 0%N s Hl) as Hg.
      rewrite Forall_forall in Hg. apply Hg.
      apply (step_in_forest _ _ _ _ _ e SD), in_or_app. left. exact He.
    - exact Ha.
    - exact HsY.
  Qed.

  (** ** The loop of [Stump.add] *)

  Lemma add_loop_collect filler A : Heqb filler empty = false ->
    forall rest (s : slots H) m R,
    R = rows_of (N.of_nat (length s + length rest)) ->
    (N.of_nat (length s + length rest) <= 2 ^ 63)%N ->
    live_ok s -> (forall h, In h rest -> nonemp h /\ memH HO h A = true) ->
    exists tr,
      add_loop HO true filler rest (N.of_nat (length s)) (N.of_nat R) (rev (roots HO s)) m
      = (rev (roots HO (s ++ map Some rest)), N.of_nat (length s + length rest), puts m tr) /\
      forall e, (In e tr \/ In e (UT A R s rest)) <-> In e (UT A R (s ++ map Some rest) []).
  Proof.
    intros Hf. induction rest as [|a rest IH]; intros s m R ER Hb Hl Hr.
    - exists []. cbn [add_loop map length]. rewrite app_nil_r, Nat.add_0_r. split; [reflexivity|].
      intros e. cbn [In]. tauto.
    - cbn [length] in *.
      destruct (step_data_ex s a rest) as (ch & un & SD); [lia|].
      destruct (Hr a (or_introl eq_refl)) as [Ha HaA].
      pose proof (add_loop_step filler s a rest ch un m Hb Hf Hl Ha SD) as Hstep.
      cbv zeta in Hstep. rewrite <- ER in Hstep. rewrite Hstep. clear Hstep.
      set (Y := liftc (to_destroy_c (s ++ [Some a]) rest) (xc (num_leaves s) (length ch))).
      set (tr1 := tocp R (a, desc ch Y) :: map (tocp R) (spine ch (CLeaf a) Y)).
      assert (El : length (s ++ [Some a]) + length rest = length s + S (length rest))
        by (rewrite app_length; cbn [length]; lia).
      destruct (IH (s ++ [Some a]) (puts m tr1) R) as (tr2 & Hrun & Hset).
      + rewrite El. exact ER.
      + rewrite El. exact Hb.
      + apply live_ok_snoc; assumption.
      + intros h Hh. apply Hr. right. exact Hh.
      + exists (tr1 ++ tr2). split.
        * rewrite Hrun, El, <- app_assoc, puts_app. reflexivity.
        * intros e. rewrite <- app_assoc in Hset. cbn [map app] in Hset |- *.
          rewrite <- Hset, in_app_iff.
          assert (HR : R <= 63) by (rewrite ER; apply rows_of_le_63; exact Hb).
          assert (Hb' : (N.of_nat (length s + S (length rest)) <= 2 ^ N.of_nat R)%N)
            by (rewrite ER; apply rows_of_upper).
          pose proof (step_sets_tagged R A s a rest ch un HR Hb' SD HaA e) as Hst.
          cbv zeta in Hst. fold Y in Hst. rewrite Hst. unfold tr1. cbn [In].
          split.
          -- intros [[[Hx|Hx]|Hx]|Hx]; auto.
          -- intros [Hx|[Hx|[Hx|Hx]]]; auto.
  Qed.

  (** ** Nothing is listed for the trees without added leaves *)

  Lemma has_leaf_in_false A (c : ctree H) :
    (forall h, In h (cleaves H c) -> memH HO h A = false) -> has_leaf_in HO A c = false.
  Proof.
    induction c as [h|h l IHl r IHr]; intros Hc; cbn [has_leaf_in].
    - apply Hc. left. reflexivity.
    - rewrite IHl, IHr; [reflexivity| |]; intros x Hx; apply Hc; cbn [cleaves]; apply in_or_app; auto.
  Qed.

  Lemma an_nil A c y b : (forall h, In h (cleaves H c) -> memH HO h A = false) -> an A c y b = [].
  Proof.
    intros Hc. pose proof (has_leaf_in_false A c Hc) as Hn. unfold an.
    destruct c as [h|h l r]; cbn [add_nodes].
    - cbn [has_leaf_in] in Hn. rewrite Hn, andb_false_r. reflexivity.
    - rewrite Hn. reflexivity.
  Qed.

  Lemma forest_leaves_live (s : slots H) (e : entry) c h :
    In e (forest HO s) -> snd e = Some c -> In h (cleaves H c) -> In (Some h) s.
  Proof.
    intros He Hc Hh. destruct e as [[k lo] t]. cbn [snd] in Hc. subst t.
    apply forest_entry in He as (_ & _ & _ & _ & _ & Ht).
    pose proof (compress_leaves H HO k (skipn (N.to_nat lo) s)) as Hcl.
    rewrite <- Ht in Hcl. cbn [oleaves] in Hcl. rewrite Hcl in Hh.
    apply live_in in Hh. apply in_firstn, in_skipn in Hh. exact Hh.
  Qed.

  Lemma UU_start A (s : slots H) rest : (forall a, In a A -> ~ In (Some a) s) -> UU A s rest = [].
  Proof.
    intros HA. unfold UU. apply flat_map_nil_all. intros e He. unfold UUf.
    destruct (snd e) as [c|] eqn:Ec; [|reflexivity]. apply an_nil. intros h Hh.
    destruct (memH HO h A) eqn:Em; [|reflexivity]. exfalso.
    apply (memH_In H HO HOK) in Em. apply (HA h Em).
    exact (forest_leaves_live s e c h He Ec Hh).
  Qed.

  (** ** The listed nodes are nodes of the layout: distinct hashes give distinct positions *)

  Lemma add_nodes_placed A (c : ctree H) : forall r o b b' tr x,
    In x (add_nodes HO A c r o b) ->
    exists z, In z (place_tree c r o b' tr) /\ (nrow z, noff z, nhash z) = x.
  Proof.
    induction c as [h|h l IHl rr IHr]; intros r o b b' tr x Hx.
    - cbn [add_nodes] in Hx. destruct (b && memH HO h A); [|destruct Hx].
      destruct Hx as [<-|[]]. eexists. split; [left; reflexivity|reflexivity].
    - cbn [add_nodes] in Hx. destruct (has_leaf_in HO A (CNode h l rr)); [|destruct Hx].
      destruct r as [|r']; [destruct Hx|]. cbn [place_tree].
      destruct Hx as [<-|[<-|Hx]].
      + exists (head_node H l r' (2 * o) false tr). split; [|reflexivity].
        right. apply in_or_app. left. apply place_tree_head_in.
      + exists (head_node H rr r' (2 * o + 1) false tr). split; [|reflexivity].
        right. apply in_or_app. right. apply place_tree_head_in.
      + apply in_app_or in Hx as [Hx|Hx].
        * destruct (IHl r' (2 * o)%N false false tr x Hx) as (z & Hz & Ez).
          exists z. split; [|exact Ez]. right. apply in_or_app. left. exact Hz.
        * destruct (IHr r' (2 * o + 1)%N false false tr x Hx) as (z & Hz & Ez).
          exists z. split; [|exact Ez]. right. apply in_or_app. right. exact Hz.
  Qed.

  Lemma UU_final_layout A (s : slots H) x : In x (UU A s []) ->
    exists z, In z (layout HO s) /\ (nrow z, noff z, nhash z) = x.
  Proof.
    intros Hx. unfold UU in Hx. apply in_flat_map in Hx as (e & He & Hx).
    unfold UUf in Hx. destruct e as [[k lo] t]. cbn [snd] in Hx. destruct t as [c|]; [|destruct Hx].
    cbn [to_destroy_c liftc fold_left] in Hx. unfold an, ecoord in Hx. cbn [StumpAdd.erow elo fst snd] in Hx.
    destruct (add_nodes_placed A c k _ true true k x Hx) as (z & Hz & Ez).
    exists z. split; [|exact Ez]. apply (entry_layout H HO s (k, lo, Some c) z He). exact Hz.
  Qed.

  Lemma UU_pos_hash A (s : slots H) x y : In x (UU A s []) -> In y (UU A s []) ->
    let R := rows_of (num_leaves s) in
    pos R (fst (fst x)) (snd (fst x)) = pos R (fst (fst y)) (snd (fst y)) -> snd x = snd y.
  Proof.
    intros Hx Hy R E.
    destruct (UU_final_layout A s x Hx) as (zx & Hzx & <-).
    destruct (UU_final_layout A s y Hy) as (zy & Hzy & <-).
    cbn [fst snd] in *.
    destruct (layout_coords_rows_of H HO s zx Hzx) as [Hx1 Hx2].
    destruct (layout_coords_rows_of H HO s zy Hzy) as [Hy1 Hy2].
    fold R in Hx1, Hx2, Hy1, Hy2. rewrite !pos_gpos in E.
    apply gpos_inj in E as [Er Eo]; try assumption; try lia.
    apply Nat2N.inj in Er.
    pose proof (tnode_in H HO s zx Hzx) as Tx. pose proof (tnode_in H HO s zy Hzy) as Ty.
    rewrite Er, Eo, Ty in Tx. injection Tx as ->. reflexivity.
  Qed.

  Lemma NoDup_map_transfer (X Y Z : Type) (f : X -> Y) (g : X -> Z) l :
    NoDup (map g l) -> (forall x y, In x l -> In y l -> f x = f y -> g x = g y) -> NoDup (map f l).
  Proof.
    induction l as [|a l IH]; intros Hnd Hfg; [constructor|].
    cbn [map] in *. inversion Hnd as [|b m Hna Hnd']; subst b m. constructor.
    - intros Hin. apply in_map_iff in Hin as (y & Ey & Hy). apply Hna.
      rewrite <- (Hfg y a (or_intror Hy) (or_introl eq_refl) Ey). apply in_map, Hy.
    - apply IH; [exact Hnd'|]. intros x y Hx Hy. apply Hfg; right; assumption.
  Qed.

  (** ** The declarative list *)

  Definition swap (e : H * N) : N * H := (snd e, fst e).

  Lemma new_add_UT A (s : slots H) :
    new_add HO s A = sortK (map swap (UT A (rows_of (num_leaves s)) s [])).
  Proof.
    unfold new_add, UT, UU. f_equal. rewrite !map_flat_map'. apply flat_map_ext_in.
    intros [[k lo] t] He. unfold UUf. cbn [snd]. destruct t as [c|]; [|reflexivity].
    cbn [to_destroy_c liftc fold_left]. unfold an, ecoord. cbn [StumpAdd.erow elo fst snd].
    rewrite map_map. apply map_ext. intros [[r o] h]. reflexivity.
  Qed.

  (** T3 *)
  Theorem stump_add_collects_sec (filler : H) (s : slots H) (adds : list H) :
    Heqb filler empty = false ->
    (forall h, In (Some h) s -> Heqb h empty = false) ->
    (forall h, In h adds -> Heqb h empty = false) ->
    (N.of_nat (length s + length adds) <= 2 ^ 63)%N ->
    (forall a, In a adds -> ~ In (Some a) s) ->
    NoDup (map snd (new_add HO (s ++ map Some adds) adds)) ->
    snd (fst (stump_add HO true filler (mkStump (roots HO s) (num_leaves s)) adds))
    = new_add HO (s ++ map Some adds) adds.
  Proof.
    intros Hf Hl Ha Hb Hfresh Hnd.
    set (s' := s ++ map Some adds) in *.
    set (R := rows_of (N.of_nat (length s + length adds))).
    assert (ER : rows_of (num_leaves s') = R).
    { unfold R, s', num_leaves. rewrite app_length, map_length. reflexivity. }
    destruct (add_loop_collect filler adds Hf adds s [] R eq_refl Hb Hl) as (tr & Hrun & Hset).
    { intros h Hh. split; [exact (Ha h Hh)|]. apply (memH_In H HO HOK). exact Hh. }
    fold s' in Hrun, Hset.
    unfold stump_add. cbn [st_n st_roots]. unfold num_leaves at 1 2.
    replace (TreeRows (N.of_nat (length s) + N.of_nat (length adds))) with (N.of_nat R).
    2:{ unfold R. rewrite rows_of_TreeRows. f_equal. lia. }
    rewrite Hrun. cbn [fst snd].
    rewrite (new_add_UT adds s'), ER. symmetry.
    set (U := UT adds R s' []) in *.
    assert (E0 : UT adds R s adds = []) by (unfold UT; rewrite (UU_start adds s adds Hfresh); reflexivity).
    rewrite E0 in Hset. cbn [In] in Hset.
    (* hashes of the declarative list are pairwise distinct *)
    assert (HndU : NoDup (map fst U)).
    { rewrite (new_add_UT adds s'), ER in Hnd. fold U in Hnd.
      apply (Permutation_NoDup (l := map snd (sortK (map swap U)))); [|exact Hnd].
      rewrite (Permutation_map snd (sortK_perm (map swap U))). rewrite map_map.
      apply Permutation_refl. }
    assert (HndU' : NoDup U) by (exact (NoDup_map_inv fst U HndU)).
    assert (Hfun : functional H ([] ++ tr)).
    { intros k v v' Hv Hv'. cbn [app] in *.
      assert (H1 : In (k, v) U) by (apply Hset; left; exact Hv).
      assert (H2 : In (k, v') U) by (apply Hset; left; exact Hv').
      pose proof (NoDup_map_inj_in _ _ fst U (k, v) (k, v') HndU H1 H2 eq_refl) as E.
      injection E as ->. reflexivity. }
    destruct (puts_spec H HO HOK tr [] (NoDup_nil _) Hfun) as [Hndm Hinm].
    assert (Hperm : Permutation U (puts [] tr)).
    { apply NoDup_Permutation; [exact HndU'|exact (NoDup_map_inv fst _ Hndm)|].
      intros [k v]. rewrite Hinm, <- Hset. cbn [In]. tauto. }
    apply sortK_perm_eq; [apply Permutation_map, Hperm|].
    (* positions are pairwise distinct *)
    rewrite map_map. unfold U, UT. rewrite map_map.
    apply (NoDup_map_transfer _ _ _ _ (fun x : nat * N * H => snd x)).
    - unfold U, UT in HndU. rewrite map_map in HndU. exact HndU.
    - intros x y Hx Hy E. cbn [swap tag fst snd] in E.
      apply (UU_pos_hash adds s' x y Hx Hy). cbv zeta. rewrite ER. exact E.
  Qed.
End Collect.

(** * Part 4b: the declarative list has no duplicate position *)

Lemma NoDup_app_inv (A : Type) (l1 l2 : list A) : NoDup (l1 ++ l2) ->
  NoDup l1 /\ NoDup l2 /\ forall x, In x l1 -> In x l2 -> False.
Proof.
  induction l1 as [|a l1 IH]; intros Hnd.
  - split; [constructor|]. split; [exact Hnd|intros x []].
  - cbn [app] in Hnd. inversion Hnd as [|b m Hna Hnd']; subst b m.
    destruct (IH Hnd') as (H1 & H2 & H3). split; [|split; [exact H2|]].
    + constructor; [|exact H1]. intros Hin. apply Hna, in_or_app. left. exact Hin.
    + intros x [<-|Hx] Hx2; [apply Hna, in_or_app; right; exact Hx2|exact (H3 x Hx Hx2)].
Qed.

Lemma NoDup_flat_map_sub (X Z C : Type) (f : Z -> C) (g : X -> list Z) (g' : X -> list C) l :
  NoDup (map f (flat_map g l)) ->
  (forall e, In e l -> NoDup (g' e)) ->
  (forall e, In e l -> forall x, In x (g' e) -> exists z, In z (g e) /\ f z = x) ->
  NoDup (flat_map g' l).
Proof.
  induction l as [|a l IH]; intros Hnd Hg' Hsub; [constructor|].
  cbn [flat_map] in *. rewrite map_app in Hnd. apply NoDup_app_inv in Hnd as (_ & Hnd2 & Hdis).
  apply NoDup_app_intro.
  - apply Hg'. left. reflexivity.
  - apply IH; [exact Hnd2| |]; intros e He; [apply Hg'|apply Hsub]; right; exact He.
  - intros x Hx1 Hx2. destruct (Hsub a (or_introl eq_refl) x Hx1) as (z1 & Hz1 & E1).
    apply in_flat_map in Hx2 as (e & He & Hx2).
    destruct (Hsub e (or_intror He) x Hx2) as (z2 & Hz2 & E2).
    apply (Hdis x).
    + rewrite <- E1. apply in_map, Hz1.
    + rewrite <- E2. apply in_map, in_flat_map. exists e. split; assumption.
Qed.

Section PosNoDup.
  Variable H : Type.
  Variable HO : ops H.

  Lemma add_nodes_rows A (c : ctree H) : forall r o x,
    In x (add_nodes HO A c r o false) -> fst (fst x) < r.
  Proof.
    induction c as [h|h l IHl rr IHr]; intros r o x Hx; cbn [add_nodes andb] in Hx; [destruct Hx|].
    destruct (has_leaf_in HO A (CNode h l rr)); [|destruct Hx].
    destruct r as [|r']; [destruct Hx|].
    destruct Hx as [<-|[<-|Hx]]; cbn [fst]; [lia|lia|].
    apply in_app_or in Hx as [Hx|Hx]; [apply IHl in Hx|apply IHr in Hx]; lia.
  Qed.

  Lemma add_nodes_nodup A (c : ctree H) : forall r o b,
    NoDup (map fst (add_nodes HO A c r o b)).
  Proof.
    induction c as [h|h l IHl rr IHr]; intros r o b; cbn [add_nodes].
    - destruct (b && memH HO h A); cbn [map]; [constructor; [intros []|constructor]|constructor].
    - destruct (has_leaf_in HO A (CNode h l rr)); [|constructor].
      destruct r as [|r']; [constructor|]. cbn [map fst]. rewrite map_app.
      assert (Hrows : forall x, In x (map fst (add_nodes HO A l r' (2 * o) false)
                                     ++ map fst (add_nodes HO A rr r' (2 * o + 1) false)) ->
                                fst x < r').
      { intros x Hx. apply in_app_or in Hx as [Hx|Hx];
          apply in_map_iff in Hx as (y & <- & Hy); exact (add_nodes_rows A _ _ _ y Hy). }
      constructor; [|constructor].
      + intros [E|Hin]; [injection E as E; lia|]. specialize (Hrows _ Hin). cbn [fst] in Hrows. lia.
      + intros Hin. specialize (Hrows _ Hin). cbn [fst] in Hrows. lia.
      + apply NoDup_app_intro; [apply IHl|apply IHr|].
        intros x Hx1 Hx2.
        apply in_map_iff in Hx1 as (y1 & E1 & Hy1). apply in_map_iff in Hx2 as (y2 & E2 & Hy2).
        destruct (add_nodes_placed H HO A l r' (2 * o)%N false false 0 y1 Hy1) as (z1 & Hz1 & Ez1).
        destruct (add_nodes_placed H HO A rr r' (2 * o + 1)%N false false 0 y2 Hy2) as (z2 & Hz2 & Ez2).
        apply place_tree_range in Hz1. apply place_tree_range in Hz2.
        destruct Hz1 as (_ & _ & Hh1). destruct Hz2 as (_ & Hl2 & _).
        apply (coord_sep H z1 z2 ((2 * o + 1) * p2 r')%N); [lia|lia|].
        unfold LayoutStruct.coord. rewrite <- Ez1 in E1. rewrite <- Ez2 in E2. cbn [fst] in E1, E2.
        congruence.
  Qed.

  Lemma UU_coords_nodup A (s : slots H) : NoDup (map fst (UU H HO A s [])).
  Proof.
    unfold UU. rewrite map_flat_map'.
    apply (NoDup_flat_map_sub _ _ _ (@LayoutStruct.coord H) (place_entry HO)).
    - exact (layout_coords_nodup H HO s).
    - intros e _. unfold UUf. destruct (snd e); [apply add_nodes_nodup|constructor].
    - intros [[k lo] t] He x Hx. unfold UUf in Hx. cbn [snd] in Hx. destruct t as [c|]; [|destruct Hx].
      apply in_map_iff in Hx as (y & <- & Hy).
      cbn [to_destroy_c liftc fold_left] in Hy. unfold an, ecoord in Hy.
      cbn [StumpAdd.erow elo fst snd] in Hy.
      destruct (add_nodes_placed H HO A c k _ true true k y Hy) as (z & Hz & <-).
      exists z. split; [exact Hz|reflexivity].
  Qed.

  (** the positions of the declarative list are pairwise distinct (no hypothesis) *)
  Theorem new_add_pos_nodup_sec (s : slots H) (A : list H) : NoDup (map fst (new_add HO s A)).
  Proof.
    rewrite new_add_UT.
    apply (Permutation_NoDup (l := map fst (map (swap H) (UT H HO A (rows_of (num_leaves s)) s [])))).
    - apply Permutation_map, Permutation_sym, sortK_perm.
    - unfold UT. rewrite !map_map.
      apply (NoDup_map_transfer _ _ _ _ (fun x : nat * N * H => fst x)); [apply UU_coords_nodup|].
      intros x y Hx Hy E. cbn [swap tag fst snd] in E.
      destruct (UU_final_layout H HO A s x Hx) as (zx & Hzx & <-).
      destruct (UU_final_layout H HO A s y Hy) as (zy & Hzy & <-).
      cbn [fst snd] in *.
      destruct (layout_coords_rows_of H HO s zx Hzx) as [Hx1 Hx2].
      destruct (layout_coords_rows_of H HO s zy Hzy) as [Hy1 Hy2].
      rewrite !pos_gpos in E.
      apply gpos_inj in E as [Er Eo]; try assumption; try lia.
      apply Nat2N.inj in Er. congruence.
  Qed.

  (** ** A sufficient condition on the forest for the distinctness of the listed hashes *)

  Notation hash2 := (op_hash2 HO).
  Notation empty := (op_empty HO).
  Notation Heqb := (op_eqb HO).

  Lemma place_tree_nonemp (c : ctree H) :
    (forall a b, Heqb (hash2 a b) empty = false) -> cwf H HO c ->
    (forall h, In h (cleaves H c) -> Heqb h empty = false) ->
    forall r o b tr z, In z (place_tree c r o b tr) -> Heqb (nhash z) empty = false.
  Proof.
    intros Hh2. induction c as [h|h l IHl rr IHr]; intros Hwf Hlv r o b tr z Hz; cbn [place_tree] in Hz.
    - destruct Hz as [<-|[]]. cbn [nhash]. apply Hlv. left. reflexivity.
    - destruct Hwf as (Eh & Wl & Wr). destruct Hz as [<-|Hz]; [cbn [nhash]; rewrite Eh; apply Hh2|].
      destruct r as [|r']; [destruct Hz|]. apply in_app_or in Hz as [Hz|Hz].
      + apply (IHl Wl) in Hz; [exact Hz|]. intros x Hx. apply Hlv. cbn [cleaves]. apply in_or_app. left. exact Hx.
      + apply (IHr Wr) in Hz; [exact Hz|]. intros x Hx. apply Hlv. cbn [cleaves]. apply in_or_app. right. exact Hx.
  Qed.

  Lemma UU_final_layout_nonemp A (s : slots H) x :
    (forall a b, Heqb (hash2 a b) empty = false) ->
    (forall h, In (Some h) s -> Heqb h empty = false) ->
    In x (UU H HO A s []) ->
    exists z, In z (layout HO s) /\ (nrow z, noff z, nhash z) = x /\ Heqb (nhash z) empty = false.
  Proof.
    intros Hh2 Hl Hx. unfold UU in Hx. apply in_flat_map in Hx as (e & He & Hx).
    unfold UUf in Hx. destruct e as [[k lo] t]. cbn [snd] in Hx. destruct t as [c|]; [|destruct Hx].
    cbn [to_destroy_c liftc fold_left] in Hx. unfold an, ecoord in Hx. cbn [StumpAdd.erow elo fst snd] in Hx.
    destruct (add_nodes_placed H HO A c k _ true true k x Hx) as (z & Hz & Ez).
    exists z. split; [apply (entry_layout H HO s (k, lo, Some c) z He); exact Hz|]. split; [exact Ez|].
    pose proof (forest_entry H HO s k lo (Some c) He) as (_ & _ & _ & _ & _ & Ht).
    symmetry in Ht. destruct (compress_wf H HO k _ c Ht) as [Hwf _].
    apply (place_tree_nonemp c Hh2 Hwf) with (r := k) (o := (lo / 2 ^ N.of_nat k)%N) (b := true) (tr := k); [|exact Hz].
    intros h Hh. apply Hl. exact (forest_leaves_live H HO s (k, lo, Some c) c h He eq_refl Hh).
  Qed.

  (** if no two nodes of the forest carry the same non-empty hash, the listed hashes are
      pairwise distinct *)
  Lemma new_add_hash_nodup_sec (s : slots H) (A : list H) :
    (forall a b, Heqb (hash2 a b) empty = false) ->
    (forall h, In (Some h) s -> Heqb h empty = false) ->
    (forall x y, In x (layout HO s) -> In y (layout HO s) ->
                 Heqb (nhash x) empty = false -> nhash x = nhash y -> x = y) ->
    NoDup (map snd (new_add HO s A)).
  Proof.
    intros Hh2 Hl Hinj. rewrite new_add_UT.
    apply (Permutation_NoDup (l := map snd (map (swap H) (UT H HO A (rows_of (num_leaves s)) s [])))).
    - apply Permutation_map, Permutation_sym, sortK_perm.
    - unfold UT. rewrite !map_map.
      apply (NoDup_map_transfer _ _ _ _ (fun x : nat * N * H => fst x)); [apply UU_coords_nodup|].
      intros x y Hx Hy E. cbn [swap tag fst snd] in E.
      destruct (UU_final_layout_nonemp A s x Hh2 Hl Hx) as (zx & Hzx & <- & Hne).
      destruct (UU_final_layout_nonemp A s y Hh2 Hl Hy) as (zy & Hzy & <- & _).
      cbn [fst snd] in *. rewrite (Hinj zx zy Hzx Hzy Hne E). reflexivity.
  Qed.
End PosNoDup.

(** * Part 5: the theorems in closed form (used by Properties/C11b) *)

(** T1: [rootsToDestory] computes the declarative list of destroyed empty roots *)
Theorem rootsToDestroy_spec :
  forall (H : Type) (HO : ops H), ops_ok HO ->
    (forall a b, op_eqb HO (op_hash2 HO a b) (op_empty HO) = false) ->
    forall (filler : H) (s : slots H) (adds : list H),
      op_eqb HO filler (op_empty HO) = false ->
      (forall h, In (Some h) s -> op_eqb HO h (op_empty HO) = false) ->
      (N.of_nat (length s + length adds) <= 2 ^ 63)%N ->
      rootsToDestroy HO filler (length adds) (num_leaves s) (roots HO s)
      = to_destroy HO (rows_of (num_leaves (s ++ map Some adds))) s adds.
Proof.
  intros H HO HOK Hh2 filler s adds Hf Hl Hb.
  exact (rootsToDestroy_spec_sec H HO HOK filler s adds Hh2 Hf Hl Hb).
Qed.

(** T2: the third component of [Stump.add] *)
Theorem stump_add_destroyed :
  forall (H : Type) (HO : ops H), ops_ok HO ->
    (forall a b, op_eqb HO (op_hash2 HO a b) (op_empty HO) = false) ->
    forall strict (filler : H) (s : slots H) (adds : list H),
      op_eqb HO filler (op_empty HO) = false ->
      (forall h, In (Some h) s -> op_eqb HO h (op_empty HO) = false) ->
      (N.of_nat (length s + length adds) <= 2 ^ 63)%N ->
      snd (stump_add HO strict filler (mkStump (roots HO s) (num_leaves s)) adds)
      = to_destroy HO (rows_of (num_leaves (s ++ map Some adds))) s adds.
Proof.
  intros H HO HOK Hh2 strict filler s adds Hf Hl Hb.
  exact (stump_add_destroyed_sec H HO HOK strict filler s adds Hh2 Hf Hl Hb).
Qed.

(** T3, the full statement: the second component of [Stump.add] (the code as it is now,
    [strict = true]) is the declarative list of added and created nodes.  The two distinctness
    hypotheses are what "the map is keyed by hash" needs: no added hash is a live leaf of the
    forest, and the hashes the specification lists are pairwise distinct. *)
Definition stump_add_collects_statement : Prop :=
  forall (H : Type) (HO : ops H), ops_ok HO ->
    (forall a b, op_eqb HO (op_hash2 HO a b) (op_empty HO) = false) ->
    forall (filler : H) (s : slots H) (adds : list H),
      op_eqb HO filler (op_empty HO) = false ->
      (forall h, In (Some h) s -> op_eqb HO h (op_empty HO) = false) ->
      (forall h, In h adds -> op_eqb HO h (op_empty HO) = false) ->
      (N.of_nat (length s + length adds) <= 2 ^ 63)%N ->
      (forall a, In a adds -> ~ In (Some a) s) ->
      NoDup (map snd (new_add HO (s ++ map Some adds) adds)) ->
      snd (fst (stump_add HO true filler (mkStump (roots HO s) (num_leaves s)) adds))
      = new_add HO (s ++ map Some adds) adds.

Theorem stump_add_collects : stump_add_collects_statement.
Proof.
  intros H HO HOK Hh2 filler s adds Hf Hl Ha Hb Hfresh Hnd.
  exact (stump_add_collects_sec H HO HOK Hh2 filler s adds Hf Hl Ha Hb Hfresh Hnd).
Qed.

(** "without duplicates": the positions of the declarative list are pairwise distinct *)
Theorem new_add_pos_nodup :
  forall (H : Type) (HO : ops H) (s : slots H) (adds : list H),
    NoDup (map fst (new_add HO s adds)).
Proof. intros H HO s adds. exact (new_add_pos_nodup_sec H HO s adds). Qed.

Lemma live_map_some (H : Type) (l : list H) : live (map Some l) = l.
Proof.
  induction l as [|x l IH]; [reflexivity|]. unfold live in *. cbn [map flat_map app].
  rewrite IH. reflexivity.
Qed.

(** T3 from one primitive distinctness hypothesis: no two nodes of the post-block forest carry
    the same non-empty hash (no collision, no repeated leaf) *)
Theorem stump_add_collects_layout :
  forall (H : Type) (HO : ops H), ops_ok HO ->
    (forall a b, op_eqb HO (op_hash2 HO a b) (op_empty HO) = false) ->
    forall (filler : H) (s : slots H) (adds : list H),
      op_eqb HO filler (op_empty HO) = false ->
      (forall h, In (Some h) s -> op_eqb HO h (op_empty HO) = false) ->
      (forall h, In h adds -> op_eqb HO h (op_empty HO) = false) ->
      (N.of_nat (length s + length adds) <= 2 ^ 63)%N ->
      (forall x y, In x (layout HO (s ++ map Some adds)) -> In y (layout HO (s ++ map Some adds)) ->
                   op_eqb HO (nhash x) (op_empty HO) = false -> nhash x = nhash y -> x = y) ->
      snd (fst (stump_add HO true filler (mkStump (roots HO s) (num_leaves s)) adds))
      = new_add HO (s ++ map Some adds) adds.
Proof.
  intros H HO HOK Hh2 filler s adds Hf Hl Ha Hb Hinj.
  set (s' := s ++ map Some adds) in *.
  assert (Hl' : forall h, In (Some h) s' -> op_eqb HO h (op_empty HO) = false).
  { intros h Hh. apply in_app_or in Hh as [Hh|Hh]; [exact (Hl h Hh)|].
    apply in_map_iff in Hh as (x & E & Hx). injection E as ->. exact (Ha h Hx). }
  apply (stump_add_collects H HO HOK Hh2 filler s adds Hf Hl Ha Hb).
  - (* the live leaves of the post-block state are pairwise distinct *)
    assert (Hlive : NoDup (live s')).
    { rewrite <- (layout_leaves H HO s').
      assert (Hnd : NoDup (filter (@nleaf H) (layout HO s'))).
      { apply NoDup_filter. exact (NoDup_map_inv _ _ (layout_coords_nodup H HO s')). }
      apply (NoDup_map_transfer _ _ _ _ (fun x : node H => x)); [rewrite map_id; exact Hnd|].
      intros x y Hx Hy E. apply filter_In in Hx as [Hx Hlx]. apply filter_In in Hy as [Hy _].
      apply (Hinj x y Hx Hy); [|exact E]. apply Hl'. exact (layout_leaf_live H HO s' x Hx Hlx). }
    unfold s' in Hlive. rewrite live_app, live_map_some in Hlive.
    apply NoDup_app_inv in Hlive as (_ & _ & Hdis).
    intros a Ha' Hin. apply (Hdis a); [apply live_in; exact Hin|exact Ha'].
  - exact (new_add_hash_nodup_sec H HO s' adds Hh2 Hl' Hinj).
Qed.

(** All three components at once, against [spec_update_data] (the additions of a block are
    applied to the state after the deletions, [kill dels s]). *)
Theorem stump_add_update_data :
  forall (H : Type) (HO : ops H), ops_ok HO ->
    (forall a b, op_eqb HO (op_hash2 HO a b) (op_empty HO) = false) ->
    forall (filler : H) (s : slots H) (dels adds : list H),
      let s1 := kill HO dels s in
      let s2 := apply_block HO s dels adds in
      op_eqb HO filler (op_empty HO) = false ->
      (forall h, In (Some h) s1 -> op_eqb HO h (op_empty HO) = false) ->
      (forall h, In h adds -> op_eqb HO h (op_empty HO) = false) ->
      (N.of_nat (length s + length adds) <= 2 ^ 63)%N ->
      (forall a, In a adds -> ~ In (Some a) s1) ->
      NoDup (map snd (ud_new_add (spec_update_data HO s dels adds))) ->
      stump_add HO true filler (mkStump (roots HO s1) (num_leaves s1)) adds
      = (mkStump (roots HO s2) (num_leaves s2),
         ud_new_add (spec_update_data HO s dels adds),
         ud_to_destroy (spec_update_data HO s dels adds)).
Proof.
  intros H HO HOK Hh2 filler s dels adds s1 s2 Hf Hl Ha Hb Hfresh Hnd.
  assert (Hb1 : (N.of_nat (length s1 + length adds) <= 2 ^ 63)%N)
    by (unfold s1; rewrite length_kill; exact Hb).
  pose proof (stump_add_refines H HO HOK Hh2 true filler s1 adds Hl Ha Hb1) as Hr.
  pose proof (stump_add_destroyed H HO HOK Hh2 true filler s1 adds Hf Hl Hb1) as Hd.
  pose proof (stump_add_collects H HO HOK Hh2 filler s1 adds Hf Hl Ha Hb1 Hfresh Hnd) as Hc.
  unfold spec_update_data. cbn [ud_new_add ud_to_destroy]. fold s1.
  change (apply_block HO s dels adds) with (s1 ++ map Some adds) in s2. fold s2 in Hr, Hd, Hc |- *.
  destruct (stump_add HO true filler (mkStump (roots HO s1) (num_leaves s1)) adds) as [[st l] d].
  cbn [fst snd] in Hd, Hc. destruct Hr as [Hr1 Hr2]. destruct st as [r n]. cbn [st_roots st_n] in *.
  subst. reflexivity.
Qed.

(** ** The free algebra: [hash2] is never the all-zero hash *)

Theorem stump_add_update_data_term :
  forall (filler : term) (s : slots term) (dels adds : list term),
    let s1 := kill term_ops dels s in
    let s2 := apply_block term_ops s dels adds in
    filler <> Zero ->
    (forall h, In (Some h) s1 -> h <> Zero) ->
    (forall h, In h adds -> h <> Zero) ->
    (N.of_nat (length s + length adds) <= 2 ^ 63)%N ->
    (forall a, In a adds -> ~ In (Some a) s1) ->
    NoDup (map snd (ud_new_add (spec_update_data term_ops s dels adds))) ->
    stump_add term_ops true filler (mkStump (roots term_ops s1) (num_leaves s1)) adds
    = (mkStump (roots term_ops s2) (num_leaves s2),
       ud_new_add (spec_update_data term_ops s dels adds),
       ud_to_destroy (spec_update_data term_ops s dels adds)).
Proof.
  intros filler s dels adds s1 s2 Hf Hl Ha Hb Hfresh Hnd.
  apply (stump_add_update_data term term_ops term_ops_ok term_node_nonzero filler s dels adds);
    try assumption.
  - apply term_nonzero_eqb, Hf.
  - intros h Hh. apply term_nonzero_eqb, Hl, Hh.
  - intros h Hh. apply term_nonzero_eqb, Ha, Hh.
Qed.

(** * Examples (free algebra) *)

(** a forest of 7 slots whose row-1 root is empty (slots 4 and 5 are dead); the block deletes
    nothing more and adds 3 leaves; one empty root is destroyed *)
Definition sad_s : slots term :=
  [Some (Atom 1); Some (Atom 2); Some (Atom 3); Some (Atom 4); None; None; Some (Atom 7)].
Definition sad_adds : list term := [Atom 8; Atom 9; Atom 10].

Example sad_empty_root : roots term_ops sad_s
  = [Node (Node (Atom 1) (Atom 2)) (Node (Atom 3) (Atom 4)); Zero; Atom 7].
Proof. vm_compute. reflexivity. Qed.

(** the mirror, computed *)
Example sad_run :
  stump_add term_ops true (Atom 99) (mkStump (roots term_ops sad_s) (num_leaves sad_s)) sad_adds
  = (mkStump [Node (Node (Node (Atom 1) (Atom 2)) (Node (Atom 3) (Atom 4)))
                   (Node (Atom 7) (Atom 8)); Node (Atom 9) (Atom 10)] 10,
     [(8%N, Atom 9); (9%N, Atom 10); (18%N, Atom 7); (19%N, Atom 8);
      (24%N, Node (Node (Atom 1) (Atom 2)) (Node (Atom 3) (Atom 4)));
      (25%N, Node (Atom 7) (Atom 8))],
     [18%N]).
Proof. vm_compute. reflexivity. Qed.

(** the specification, computed: both components agree with the mirror *)
Example sad_spec_add :
  new_add term_ops (sad_s ++ map Some sad_adds) sad_adds
  = [(8%N, Atom 9); (9%N, Atom 10); (18%N, Atom 7); (19%N, Atom 8);
     (24%N, Node (Node (Atom 1) (Atom 2)) (Node (Atom 3) (Atom 4)));
     (25%N, Node (Atom 7) (Atom 8))].
Proof. vm_compute. reflexivity. Qed.
Example sad_spec_destroy :
  to_destroy term_ops (rows_of (num_leaves (sad_s ++ map Some sad_adds))) sad_s sad_adds = [18%N].
Proof. vm_compute. reflexivity. Qed.

(** the hypotheses of the theorem hold for the example, so the theorem applies to it *)
Example sad_by_theorem :
  stump_add term_ops true (Atom 99) (mkStump (roots term_ops sad_s) (num_leaves sad_s)) sad_adds
  = (mkStump (roots term_ops (sad_s ++ map Some sad_adds)) (num_leaves (sad_s ++ map Some sad_adds)),
     ud_new_add (spec_update_data term_ops sad_s [] sad_adds),
     ud_to_destroy (spec_update_data term_ops sad_s [] sad_adds)).
Proof.
  apply (stump_add_update_data_term (Atom 99) sad_s [] sad_adds).
  - discriminate.
  - intros h Hh. cbn in Hh.
    repeat (destruct Hh as [Hh|Hh]; [try discriminate; injection Hh as <-; discriminate|]).
    destruct Hh.
  - intros h Hh. cbn in Hh. repeat (destruct Hh as [<-|Hh]; [discriminate|]). destruct Hh.
  - vm_compute. discriminate.
  - intros a Ha Hin. cbn in Ha, Hin.
    repeat (destruct Ha as [<-|Ha];
            [repeat (destruct Hin as [Hin|Hin]; [discriminate|]); destruct Hin|]).
    destruct Ha.
  - vm_compute. repeat constructor; cbn; intuition discriminate.
Qed.

(** a later addition of the block destroys an empty root above an earlier added leaf: the leaf is
    recorded at its lifted (final) position *)
Example sad_later_destroy :
  let s := [Some (Atom 1); Some (Atom 2); Some (Atom 3); Some (Atom 4); None; None] in
  let adds := [Atom 8; Atom 9] in
  stump_add term_ops true (Atom 99) (mkStump (roots term_ops s) (num_leaves s)) adds
  = (mkStump (roots term_ops (s ++ map Some adds)) 8,
     new_add term_ops (s ++ map Some adds) adds,
     to_destroy term_ops (rows_of (num_leaves (s ++ map Some adds))) s adds) /\
  new_add term_ops (s ++ map Some adds) adds
  = [(10%N, Atom 8); (11%N, Atom 9);
     (12%N, Node (Node (Atom 1) (Atom 2)) (Node (Atom 3) (Atom 4))); (13%N, Node (Atom 8) (Atom 9))] /\
  to_destroy term_ops (rows_of (num_leaves (s ++ map Some adds))) s adds = [10%N].
Proof. vm_compute. repeat split; reflexivity. Qed.

(** the distinctness hypothesis is necessary: with the same hash added twice the hash-keyed map of
    [Stump.add] keeps one entry where the specification lists two nodes *)
Example sad_duplicate_add_breaks :
  let s := [Some (Atom 1)] in
  let adds := [Atom 5; Atom 5] in
  snd (fst (stump_add term_ops true (Atom 99) (mkStump (roots term_ops s) (num_leaves s)) adds))
  <> new_add term_ops (s ++ map Some adds) adds.
Proof. vm_compute. discriminate. Qed.

Print Assumptions rootsToDestroy_spec.
Print Assumptions stump_add_destroyed.
Print Assumptions stump_add_collects.
Print Assumptions stump_add_collects_layout.
Print Assumptions new_add_pos_nodup.
Print Assumptions stump_add_update_data.
Print Assumptions stump_add_update_data_term.
